#!/usr/bin/env python3
"""Copies the verdict columns of seeded/RESULTS.tsv into each seeded/<id>/meta.json ("checks_run")."""
import json, os
V = os.path.dirname(os.path.abspath(__file__))
for line in open(os.path.join(V, "seeded", "RESULTS.tsv")):
    if line.startswith("#") or not line.strip():
        continue
    c = line.rstrip("\n").split("\t") + [""] * 5
    p = os.path.join(V, "seeded", c[0], "meta.json")
    if not os.path.exists(p):
        print("no meta for", c[0]); continue
    m = json.load(open(p))
    m["checks_run"] = "./check %s on the patched tree: first run: %s; after strengthening: %s; %s" % (c[1], c[2], c[3], c[4])
    json.dump(m, open(p, "w"), indent=1, ensure_ascii=False)

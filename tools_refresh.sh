#!/bin/bash
# re-runs every registered check on /repo itself (clean tree) so that evidence/ and generated Lean files are current
cd /verif
for id in $(cat registered.txt); do r=$(./check $id 2>&1 | grep "^OK\|^VIOLATION\|^ERROR\|^KNOWN" | head -3 | tr '\n' ' '); echo "$id: $r"; done

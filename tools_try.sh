#!/bin/bash
# usage: tools_try.sh <patch.diff> <prop> [<prop>...]
# Runs checks against a seeded change.  Default: on a PRIVATE copy of /repo's HEAD via BEE2_REPO
# (other agents read /repo concurrently).  TRY_INPLACE=1: apply to /repo itself, run, undo.
P=$1; shift
if [ -n "$TRY_INPLACE" ]; then
  git -C /repo apply "$P" || { echo "patch does not apply"; exit 9; }
  for id in "$@"; do echo "== $id on $P"; (cd /verif && timeout 3000 ./check $id 2>&1 | grep -v "^  " | head -8; echo "rc=${PIPESTATUS[0]}"); done
  git -C /repo checkout -- .
  git -C /repo status --short | grep -v _build
else
  D=/var/tmp/bee2v.try.$$
  git -C /repo worktree add -q --detach $D HEAD || exit 9
  git -C $D apply "$P" || { echo "patch does not apply"; git -C /repo worktree remove --force $D; exit 9; }
  for id in "$@"; do echo "== $id on $P (private copy)"; cp /verif/evidence/$id.json /tmp/evidence.$id.$$ 2>/dev/null; (cd /verif && BEE2_REPO=$D timeout 3000 ./check $id 2>&1 | grep -v "^  " | head -8; echo "rc=${PIPESTATUS[0]}"); cp /tmp/evidence.$id.$$ /verif/evidence/$id.json 2>/dev/null; rm -f /tmp/evidence.$id.$$; done
  git -C /repo worktree remove --force $D
fi

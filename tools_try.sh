#!/bin/bash
# usage: tools_try.sh <patch.diff> <prop> [<prop>...]   -- apply a seeded change to /repo, run checks, undo
P=$1; shift
git -C /repo apply "$P" || { echo "patch does not apply"; exit 9; }
for id in "$@"; do
  echo "== $id on $P"; (cd /verif && timeout 3000 ./check $id 2>&1 | grep -v "^  " | head -8; echo "rc=${PIPESTATUS[0]}")
done
git -C /repo checkout -- .
git -C /repo status --short | grep -v _build

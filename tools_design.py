#!/usr/bin/env python3
"""Rewrites the generated blocks of DESIGN.md (between <!-- GEN:x --> and <!-- /GEN:x -->):
findings (from known_findings.txt), seeded-change results (seeded/RESULTS.tsv), registered checks."""
import re, os, json
V = os.path.dirname(os.path.abspath(__file__))
d = open(os.path.join(V, "DESIGN.md")).read()

def block(name, text):
    global d
    a, b = "<!-- GEN:%s -->" % name, "<!-- /GEN:%s -->" % name
    if a not in d:
        d += "\n%s\n%s\n" % (a, b)
    i, j = d.index(a) + len(a), d.index(b)
    d = d[:i] + "\n" + text.rstrip() + "\n" + d[j:]

rows = []
for line in open(os.path.join(V, "known_findings.txt")):
    m = re.match(r"(fixed|known):\s+property=(\S+)\s+(\S+)\s+(.*)", line.strip())
    if m:
        kind, pid, ref, what = m.groups()
        if kind == "known":
            what = ref + " " + what
            ref = "(recorded, not repaired)"
        rows.append((pid, kind, ref, what))
rows.sort(key=lambda r: r[0])
t = ["| property | status | commit | what failed (witness) |", "|---|---|---|---|"]
for pid, kind, ref, what in rows:
    t.append("| %s | %s | %s | %s |" % (pid, kind, ref, what.replace("|", "\\|")))
ncommits = len(set(r[2] for r in rows if r[1] == "fixed"))
block("findings", "%d entries, %d distinct `fix:` commits in /repo (each: witness on the real library, minimal patch, suite 38/38):\n\n" % (len(rows), ncommits) + "\n".join(t))

t = ["| seeded change | check | first run | after strengthening | note |", "|---|---|---|---|---|"]
for line in open(os.path.join(V, "seeded", "RESULTS.tsv")):
    if line.startswith("#") or not line.strip():
        continue
    c = line.rstrip("\n").split("\t")
    c += [""] * (5 - len(c))
    t.append("| " + " | ".join(x.replace("|", "\\|") for x in c[:5]) + " |")
block("seeded", "\n".join(t))

m = json.load(open(os.path.join(V, "MANIFEST.json")))
t = ["| id | technique | evidence (last run on /repo) |", "|---|---|---|"]
for c in m["checks"]:
    ev = {}
    p = os.path.join(V, c["evidence_file"])
    if os.path.exists(p):
        ev = json.load(open(p))
    cov = ev.get("coverage", {})
    t.append("| %s | %s | %s/%s theorems, %s ops, %.0f s |" % (c["property_id"], c.get("technique", ""), cov.get("discharged", "?"), cov.get("obligations", "?"),
                                                                   cov.get("ops_total", cov.get("evaluations", "?")), ev.get("wall_s", 0)))
block("checks", "\n".join(t) + "\n\nNot registered yet: " + ", ".join(x["property_id"] for x in m.get("not_applicable", [])) or "none")
# per-property status from the registered manifest entries
t = []
for c in m["checks"]:
    pid = c["property_id"]
    t.append("**%s** — *%s*\n\n%s\n\n*Assumed / partial:* %s\n" % (pid, c.get("technique", ""), c["level_claimed"]["text"], c["level_note"]))
block("status", "\n".join(t))
open(os.path.join(V, "DESIGN.md"), "w").write(d)
print("DESIGN.md blocks updated")

import sys
sys.path.insert(0,'/verif/lib')
import vcommon, subprocess, os, re, shutil
ctx=vcommon.Ctx("C18","quick",1)
lib=ctx.build_lib("tsan")
exe=os.path.join(ctx.scratch,"c18t")
r=subprocess.run(["gcc","-g","-O1","-fsanitize=thread","-I/repo/include","/verif/harness/c18_threads.c",lib,"-o",exe,"-lpthread"],capture_output=True,text=True)
print(r.stderr[-2000:])
for mode,args in (("once",["8","1","1"]),("ctr",["8","2000","1"]),("rng",["8","6","1"]),("rng",["16","4","2"])):
    p=subprocess.run([exe,mode]+args,capture_output=True,text=True,env=dict(os.environ,TSAN_OPTIONS="halt_on_error=0 report_signal_unsafe=0"))
    print(mode,p.returncode,p.stdout.strip())
    print("  tsan reports:",len(re.findall("WARNING: ThreadSanitizer",p.stderr)))
    for m in re.finditer(r"SUMMARY: ThreadSanitizer: ([^\n]*)",p.stderr): print("   ",m.group(1))
shutil.rmtree(ctx.scratch)

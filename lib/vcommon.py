"""Common machinery of ./check: scratch builds of /repo's working tree, the lake
build + axiom audit, the differential (correspondence) runner, verdicts, evidence.

Verdict logic (DESIGN §2.6), identical for every property:
  * all theorems build, audit clean, correspondence agrees            -> exit 0
  * a theorem no longer builds OR the correspondence disagrees         -> the property is
    no longer shown; the property's search oracle looks for a concrete failing input on
    the implementation:
        found      -> VIOLATION property=<id> replay=<file>
        not found  -> VIOLATION property=<id> replay=<file> no-failing-input-found
  * a violation whose key is listed in known_findings.txt ("known:" line) prints
    KNOWN-FINDING and does not fail the run.  The file is never written at run time.
"""
import hashlib, json, os, re, shutil, subprocess, sys, time, tempfile, random

VERIF = os.path.dirname(os.path.dirname(os.path.abspath(__file__)))
REPO = os.environ.get("BEE2_REPO", "/repo")
LEAN = os.path.join(VERIF, "lean")
CACHE = os.path.join(VERIF, ".cache")
NPROC = os.cpu_count() or 4

STD_AXIOMS = {"propext", "Classical.choice", "Quot.sound"}

SAN = "-fsanitize=address -fno-omit-frame-pointer -fno-common"
CONFIGS = {
    # tag: (cmake build type, extra C flags, extra cmake args)
    "asan":      ("Release", "-g -DBEE2_VERIF " + SAN, []),
    "asan-dbg":  ("Debug",   "-O1 -DBEE2_VERIF " + SAN, []),          # ASSERT()s active
    "rel":       ("Release", "-DBEE2_VERIF", []),
    "rel-plain": ("Release", "", []),                                   # guard off
    "asan-plain-dbg": ("Debug", "-O1 " + SAN, []),                      # guard off, ASan + ASSERT()s (page-rounded blobs)
    "fast":      ("Release", "-g -DBEE2_VERIF " + SAN, ["-DBUILD_FAST=ON"]),
    "w32":       ("Release", "-g -DBEE2_VERIF -U__SIZEOF_INT128__ " + SAN, []),
    "w32-dbg":   ("Debug",   "-O1 -DBEE2_VERIF -U__SIZEOF_INT128__ " + SAN, []),
    "w32-fast":  ("Release", "-g -DBEE2_VERIF -U__SIZEOF_INT128__ " + SAN, ["-DBUILD_FAST=ON"]),
    "bash32":    ("Release", "-g -DBEE2_VERIF " + SAN, ["-DBASH_PLATFORM=BASH_32"]),
    "sse2":      ("Release", "-g -DBEE2_VERIF " + SAN, ["-DBASH_PLATFORM=BASH_SSE2"]),
    "avx2":      ("Release", "-g -DBEE2_VERIF " + SAN, ["-DBASH_PLATFORM=BASH_AVX2"]),
    "avx512":    ("Release", "-g -DBEE2_VERIF " + SAN, ["-DBASH_PLATFORM=BASH_AVX512"]),
    "O0":        ("Debug",   "-O0 -DNDEBUG -DBEE2_VERIF", []),             # no optimisation, assertions off
    "O0-assert": ("Debug",   "-O0 -DBEE2_VERIF", []),                      # assertions on
    "O2ndebug":  ("Release", "-O2 -DBEE2_VERIF", []),
    "tsan":      ("Release", "-g -O1 -DBEE2_VERIF -fsanitize=thread", []),
}


def sh(cmd, **kw):
    return subprocess.run(cmd, capture_output=True, text=True, **kw)


def tree_hash():
    """Content hash of everything in /repo that a library build reads."""
    h = hashlib.sha256()
    roots = ["src", "include", "CMakeLists.txt"]
    files = []
    for r in roots:
        p = os.path.join(REPO, r)
        if os.path.isfile(p):
            files.append(p)
        else:
            for d, _, fs in os.walk(p):
                for f in fs:
                    files.append(os.path.join(d, f))
    for f in sorted(files):
        h.update(f.encode())
        with open(f, "rb") as fh:
            h.update(hashlib.sha256(fh.read()).digest())
    return h.hexdigest()[:24]


class Violation(Exception):
    pass


class Ctx:
    def __init__(self, pid, tier, seed):
        self.id, self.tier, self.seed = pid, tier, seed
        self.t0 = time.time()
        self.rng = random.Random(seed * 1000003 + int(pid[1:]))
        base = os.environ.get("TMPDIR", "/var/tmp")
        self.scratch = tempfile.mkdtemp(prefix="bee2v.%s." % pid, dir=base)
        self.violations = []      # (key, replay_path, found, text)
        self.known_hits = []
        self.notes = []
        self.cov = {}
        self.obligations = []     # (name, ok)
        self.trusted = set()
        self.samples = []
        self._th = None
        os.makedirs(os.path.join(VERIF, "evidence", "replays"), exist_ok=True)

    # ------------------------------------------------------------------ build
    def tree(self):
        if self._th is None:
            self._th = tree_hash()
        return self._th

    def build_lib(self, cfg="asan"):
        """Static library built from /repo's current working tree (content-addressed cache:
        any change of any source/header/CMake file gives a new key and a new build)."""
        bt, cflags, cargs = CONFIGS[cfg]
        key = hashlib.sha256((self.tree() + cfg + bt + cflags + " ".join(cargs)).encode()).hexdigest()[:24]
        d = os.path.join(CACHE, "lib", key)
        lib = os.path.join(d, "libbee2_static.a")
        if os.path.exists(lib):
            os.utime(d)
            return lib
        bdir = os.path.join(self.scratch, "build-" + cfg)
        r = sh(["cmake", "-G", "Ninja", "-S", REPO, "-B", bdir, "-DCMAKE_BUILD_TYPE=" + bt,
                "-DBUILD_SHARED_LIBS=OFF", "-DBUILD_CMD=OFF", "-DBUILD_TESTS=OFF", "-DBUILD_PIC=OFF",
                "-DCMAKE_C_FLAGS=" + cflags] + cargs)
        if r.returncode != 0:
            raise RuntimeError("cmake failed (%s): %s" % (cfg, r.stderr[-2000:]))
        r = sh(["cmake", "--build", bdir, "--target", "bee2_static", "-j", str(NPROC)])
        if r.returncode != 0:
            raise RuntimeError("library build failed (%s): %s" % (cfg, (r.stdout + r.stderr)[-3000:]))
        os.makedirs(d, exist_ok=True)
        tmp = lib + ".tmp%d" % os.getpid()
        shutil.copy(os.path.join(bdir, "src", "libbee2_static.a"), tmp)
        os.replace(tmp, lib)
        shutil.rmtree(bdir, ignore_errors=True)
        self._prune()
        return lib

    def _prune(self, keep=40):
        root = os.path.join(CACHE, "lib")
        try:
            ds = sorted((os.path.getmtime(os.path.join(root, x)), x) for x in os.listdir(root))
            for _, x in ds[:-keep]:
                shutil.rmtree(os.path.join(root, x), ignore_errors=True)
        except OSError:
            pass

    def cflags_of(self, cfg):
        bt, cflags, cargs = CONFIGS[cfg]
        fl = cflags.split()
        # the library's own CMake always passes -fno-strict-aliasing and the belt code relies on it
        # (octet[] accessed as word[]); harnesses that #include library .c files must be compiled alike
        fl.append("-fno-strict-aliasing")
        if bt == "Release":
            fl = ["-O2", "-DNDEBUG"] + fl
        if "-DBUILD_FAST=ON" in cargs:
            fl.append("-DSAFE_FAST")
        for a in cargs:
            if a.startswith("-DBASH_PLATFORM="):
                fl.append("-D" + a.split("=")[1])
        return fl

    def cc(self, src, cfg="asan", extra=(), name=None, cxx=False):
        """Compile a harness TU (it may #include library .c files to reach statics) and
        link it with the library built from the working tree."""
        lib = self.build_lib(cfg)
        name = name or (os.path.splitext(os.path.basename(src))[0] + "-" + cfg)
        exe = os.path.join(self.scratch, name)
        cmd = ["g++" if cxx else "gcc", "-w", "-I" + os.path.join(REPO, "include"), "-I" + os.path.join(REPO, "src"),
               "-I" + os.path.join(VERIF, "harness")] + self.cflags_of(cfg) + list(extra) + \
              [src if os.path.isabs(src) else os.path.join(VERIF, src), lib, "-o", exe, "-lpthread", "-lm"]
        r = sh(cmd)
        if r.returncode != 0:
            raise RuntimeError("harness compile failed: %s\n%s" % (" ".join(cmd), r.stderr[-3000:]))
        return exe

    # ------------------------------------------------------------------- lean
    def regen(self, rel, text):
        """(Re)write a generated Lean file only if its content changed."""
        p = os.path.join(LEAN, rel)
        old = open(p).read() if os.path.exists(p) else None
        if old != text:
            os.makedirs(os.path.dirname(p), exist_ok=True)
            tmp = p + ".tmp%d" % os.getpid()
            open(tmp, "w").write(text)
            os.replace(tmp, p)
            return True
        return False

    def lake_build(self, targets):
        r = sh(["lake", "build"] + list(targets), cwd=LEAN)
        return r.returncode == 0, (r.stdout + r.stderr)

    def driver(self, name=None):
        """native Lean driver of this property's area (drv_cXX), or of another area"""
        return os.path.join(LEAN, ".lake", "build", "bin", name or ("drv_" + self.id.lower()))

    def theorems_of(self, rel):
        """Fully qualified names of the theorems of a Props file."""
        ns, out = [], []
        for line in open(os.path.join(LEAN, rel)):
            m = re.match(r"\s*namespace\s+(\S+)", line)
            if m:
                ns.append(m.group(1))
                continue
            m = re.match(r"\s*end\s+(\S+)", line)
            if m and ns and ns[-1] == m.group(1):
                ns.pop()
                continue
            m = re.match(r"\s*(?:@\[[^\]]*\]\s*)?(?:protected\s+|private\s+)?theorem\s+([^\s:({\[]+)", line)
            if m:
                out.append(".".join(ns + [m.group(1)]))
        return out

    FORBIDDEN = re.compile(r"\bsorry\b|\badmit\b|^\s*axiom\s|\bnative_decide\b|\bimplemented_by\b|\bunsafe\s|maxHeartbeats\s+0\b|\bbv_decide\b|\bofReduceBool\b")

    def lean_closure(self, rels):
        """Lean source files (relative to lean/) reachable from `rels` through `import Bee2V.…`."""
        seen, todo = set(), list(rels)
        while todo:
            r = todo.pop()
            if r in seen or not os.path.exists(os.path.join(LEAN, r)):
                continue
            seen.add(r)
            for m in re.finditer(r"^\s*import\s+(Bee2V(?:\.\w+)+)", open(os.path.join(LEAN, r)).read(), flags=re.M):
                todo.append(m.group(1).replace(".", "/") + ".lean")
        return sorted(seen)

    def hygiene(self, rels=None):
        """No sorry/admit/axiom/native_decide/... outside comments in the Lean sources the property's
        theorems and driver depend on (import closure of `rels`)."""
        bad = []
        if rels is None:
            rels = []
            for d, _, fs in os.walk(os.path.join(LEAN, "Bee2V")):
                rels += [os.path.relpath(os.path.join(d, f), LEAN) for f in fs if f.endswith(".lean")]
        for rel in self.lean_closure(rels):
            p = os.path.join(LEAN, rel)
            src = open(p).read()
            src = re.sub(r"/-.*?-/", lambda m: "\n" * m.group(0).count("\n"), src, flags=re.S)
            for i, line in enumerate(src.split("\n"), 1):
                code = line.split("--")[0]
                if self.FORBIDDEN.search(code):
                    bad.append("%s:%d: %s" % (rel, i, line.strip()))
        return bad

    def audit(self, modules, allow=STD_AXIOMS):
        """`#print axioms` for every theorem of the given Props modules (paths relative to
        lean/).  Returns (ok, {theorem: [axioms]}, problems)."""
        names, imports = [], []
        for rel in modules:
            imports.append(rel[:-5].replace("/", "."))
            names += self.theorems_of(rel)
        f = os.path.join(self.scratch, "Audit.lean")
        with open(f, "w") as fh:
            for i in imports:
                fh.write("import %s\n" % i)
            for n in names:
                fh.write("#print axioms %s\n" % n)
        r = sh(["lake", "env", "lean", f], cwd=LEAN)
        out = r.stdout + r.stderr
        res, problems = {}, []
        for m in re.finditer(r"'(\S+?)' depends on axioms: \[([^\]]*)\]", out, flags=re.S):
            res[m.group(1)] = [a.strip() for a in m.group(2).replace("\n", " ").split(",") if a.strip()]
        for m in re.finditer(r"'(\S+?)' does not depend on any axioms", out):
            res[m.group(1)] = []
        for n in names:
            if n not in res:
                problems.append("no axiom report for " + n)
            else:
                extra = [a for a in res[n] if a not in allow]
                if extra:
                    problems.append("%s uses non-allowed axioms %s" % (n, extra))
        if r.returncode != 0:
            problems.append("audit file failed to elaborate: " + out[-600:])
        for n in names:
            self.trusted.update(res.get(n, []))
        return not problems, res, problems

    def prove(self, targets, props, allow=STD_AXIOMS, drivers=None):
        """lake build + hygiene + audit.  Records obligations.  Returns (ok, log)."""
        ok, log = self.lake_build(list(targets) + list(drivers if drivers is not None else ["drv_" + self.id.lower()]))
        names = []
        for rel in props:
            names += self.theorems_of(rel)
        if not ok:
            failed = set(re.findall(r"error: (\S+?\.lean):(\d+)", log))
            self.obligations += [(n, None) for n in names]
            self.cov["lake_errors"] = sorted("%s:%s" % x for x in failed)[:20]
            return False, log
        own = "Bee2V/%s/Main.lean" % self.id
        bad = self.hygiene(list(props) + [own])
        aok, res, problems = self.audit(props, allow)
        for n in names:
            self.obligations.append((n, n in res and not [a for a in res[n] if a not in allow]))
        if bad:
            return False, "forbidden tokens in Lean sources:\n" + "\n".join(bad)
        if not aok:
            return False, "axiom audit failed:\n" + "\n".join(problems)
        if self.tier == "thorough":
            # independent re-check of the compiled .olean files of the property modules
            rechecked, failed = [], []
            for rel in props:
                mod = rel[:-5].replace("/", ".")
                r = sh(["lake", "env", "leanchecker", mod], cwd=LEAN)
                (rechecked if r.returncode == 0 else failed).append(mod)
            self.cov["leanchecker_rechecked"] = rechecked
            if failed:
                return False, "leanchecker rejected: " + ", ".join(failed)
        return True, log

    # ----------------------------------------------------------- correspondence
    def run_lines(self, exe, lines, env=None, timeout=3600):
        """Feed op lines to an executable, return its output lines (one per op) and stderr."""
        e = dict(os.environ)
        e.setdefault("ASAN_OPTIONS", "detect_leaks=0:abort_on_error=0:allocator_may_return_null=1")
        if env:
            e.update(env)
        p = subprocess.run([exe], input="\n".join(lines) + "\n", capture_output=True, text=True, env=e, timeout=timeout)
        lines = p.stdout.split("\n")
        # only complete lines count as answers; an unterminated tail (or the empty string when nothing was
        # printed) is kept only for a process that ended normally
        if p.stdout.endswith("\n") or p.returncode != 0 or p.stdout == "":
            lines = lines[:-1]
        return lines, p.stderr, p.returncode

    def diff_run(self, exe, lines, label="", env=None, driver=None):
        """Run the C harness and the Lean driver on the same op lines; list of
        (index, op, c_out, lean_out) where they differ.  A harness crash (sanitizer abort)
        is located by bisection and reported as c_out='CRASH: ...'."""
        c_out, c_err, rc = self.run_lines(exe, lines, env)
        if rc != 0 or len(c_out) != len(lines):
            # the harness died: every complete output line belongs to a finished op; the op after
            # the last complete line is the crashing one (harnesses are line-buffered, common.h)
            k = min(len(c_out), len(lines) - 1)
            msg = (c_err.strip().split("\n") or ["?"])
            summ = [l for l in msg if "ERROR" in l or "SUMMARY" in l or "Assertion" in l or "runtime error" in l][:3]
            c_out = c_out[:k] + ["CRASH(rc=%d): %s" % (rc, " | ".join(summ) or msg[-1][:200])]
            lines = lines[:k + 1]
        l_out, l_err, lrc = self.run_lines(self.driver(driver), lines)
        if lrc != 0 or len(l_out) != len(lines):
            raise RuntimeError("Lean driver failed (rc=%d) on %s: %s" % (lrc, label, l_err[-500:]))
        mism = [(i, lines[i], c_out[i], l_out[i]) for i in range(len(lines)) if c_out[i] != l_out[i]]
        self.cov["ops_" + (label or "all")] = len(lines)
        self.cov["ops_total"] = self.cov.get("ops_total", 0) + len(lines)
        return mism, c_out, l_out

    # ----------------------------------------------------------------- verdicts
    def known(self):
        ks = []
        p = os.path.join(VERIF, "known_findings.txt")
        if os.path.exists(p):
            for line in open(p):
                m = re.match(r"known:\s+property=(\S+)\s+key=(\S+)\s+(.*)", line.strip())
                if m:
                    ks.append(m.groups())
        return ks

    def violation(self, key, text, found, what=""):
        """Record a violation.  `key` identifies the failing input class (matched against
        known_findings.txt), `text` is the replay file content."""
        for pid, k, desc in self.known():
            if pid == self.id and re.fullmatch(k, key):
                if (pid, k) not in [(a, b) for a, b, _ in self.known_hits]:
                    self.known_hits.append((pid, k, desc))
                    print("KNOWN-FINDING: property=%s %s" % (pid, desc))
                return
        n = len(self.violations)
        path = os.path.join(VERIF, "evidence", "replays", "%s-%s-%d.txt" % (self.id, self.tier, n))
        with open(path, "w") as fh:
            fh.write(text if text.endswith("\n") else text + "\n")
        self.violations.append((key, path, found, what))
        print("VIOLATION property=%s replay=%s%s" % (self.id, path, "" if found else " no-failing-input-found"))
        if what:
            print("  " + what.replace("\n", "\n  ")[:1500])
        sys.stdout.flush()

    # ----------------------------------------------------------------- evidence
    def finish(self, level="proof", checker_cmd=None, assumptions=(), rule="", evaluations=None,
               distinct=None, explanation=None, exhaustive=None):
        obl = len(self.obligations)
        dis = sum(1 for _, ok in self.obligations if ok)
        cov = dict(self.cov)
        cov.update({
            "obligations": obl, "discharged": dis,
            "checker_cmd": checker_cmd or "lake build (Lean 4 kernel) + `#print axioms` audit of every property theorem",
            "trusted_base": sorted(self.trusted) + ["Lean 4.33 kernel", "translators / correspondence harness of this property (see assumptions)"],
            "theorems": [n for n, _ in self.obligations][:400],
            "samples": self.samples[:12] or ["(none)"],
            "evaluations": evaluations if evaluations is not None else cov.get("ops_total", 0),
            "distinct_nontrivial": distinct if distinct is not None else cov.get("distinct_nontrivial", 0),
            "rule": rule,
            "known_findings_hit": [d for _, _, d in self.known_hits],
            "notes": self.notes[:40],
        })
        if dis == 0:
            # nothing discharged (the build of the theorems failed): fall back to the generic keys
            cov["obligations_attempted"] = cov.pop("obligations")
            cov.pop("discharged")
            cov["evaluations"] = max(1, cov["evaluations"])
            cov["distinct_nontrivial"] = max(2, cov["distinct_nontrivial"])
        if explanation:
            cov["explanation"] = explanation
        if exhaustive is not None:
            cov["exhaustive"] = exhaustive
        ev = {
            "property_id": self.id, "tier": self.tier, "seed": self.seed, "level": level,
            "coverage": cov, "assumptions": list(assumptions),
            "wall_s": round(time.time() - self.t0, 2), "violations": len(self.violations),
        }
        p = os.path.join(VERIF, "evidence", self.id + ".json")
        tmp = p + ".tmp%d" % os.getpid()
        json.dump(ev, open(tmp, "w"), indent=1, ensure_ascii=False)
        os.replace(tmp, p)
        shutil.rmtree(self.scratch, ignore_errors=True)
        if self.violations:
            return 1
        print("OK property=%s tier=%s obligations=%d/%d ops=%s wall=%.1fs" % (
            self.id, self.tier, dis, obl, cov.get("ops_total", 0), time.time() - self.t0))
        return 0

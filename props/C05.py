"""C05 — arithmetic layer (word, ww, zz, zm/gfp/qr, pp, gf2) = exact integer / modular /
GF(2)[x] arithmetic.

Proof:  Bee2V/C05/Props*.lean — theorems about code-shaped models (generic word size, all
        lengths): carries/borrows, comparisons, modular add family (SAFE and FAST), word
        multiplication, Montgomery/Crandall reduction, bit fields, shifts, 16-bit helpers.
Tie  :  correspondence.  The same op lines go to harness/c05.c (real library, ASan, exact-size
        buffers, documented aliasing patterns) and to the Lean driver drv_c05, which evaluates the
        code-shaped model where one exists and the exact-arithmetic spec (Bee2V/C05/Spec.lean:
        Nat/Int/carry-less Nat) for the rest.  Configurations: asan (64-bit words), w32 (32-bit
        words); thorough adds fast / w32-fast (SAFE_FAST bodies) and asan-dbg (ASSERTs).
Search: Python big-int evaluation of the header formula on the C outputs (result == formula,
        result < mod, safe == fast, a == q b + r, Bezout identity, ...).
"""
import os, sys, random, math
import vcommon
from vcommon import VERIF

PROPS = ["Bee2V/C05/Props.lean", "Bee2V/C05/PropsAdd.lean", "Bee2V/C05/PropsMul.lean", "Bee2V/C05/PropsBits.lean",
         "Bee2V/C05/PropsDiv.lean", "Bee2V/C05/PropsGcd.lean", "Bee2V/C05/PropsAlias.lean",
         "Bee2V/C05/PropsPp.lean", "Bee2V/C05/PropsRed.lean", "Bee2V/C05/PropsEtc.lean",
         "Bee2V/C05/PropsPpMul.lean", "Bee2V/C05/PropsPpRed.lean", "Bee2V/C05/PropsMisc.lean", "Bee2V/C05/PropsGf2.lean",
         "Bee2V/C05/PropsPpDiv.lean", "Bee2V/C05/PropsZm.lean", "Bee2V/C05/PropsGf2Ops.lean",
         "Bee2V/C05/PropsPpModOps.lean", "Bee2V/C05/PropsFld.lean", "Bee2V/C05/PropsGcdW.lean",
         "Bee2V/C05/PropsMinPoly.lean", "Bee2V/C05/PropsEtcW.lean", "Bee2V/C05/PropsPpW.lean"]
# theorems that discharge a hypothesis of ANOTHER area (C06) and therefore import that area's modules: checked
# separately, so that a build error located in the other area's files is reported as a note, not as a C05 failure
PROPS_CROSS = ["Bee2V/C05/PropsSimC06.lean"]

# ----------------------------------------------------------------------------- helpers

def hx(v, n, W):
    """n-word little-endian hex"""
    if n == 0:
        return "-"
    return (v % (1 << (n * W))).to_bytes(n * W // 8, "little").hex()


def ho(v, no):
    return v.to_bytes(no, "little").hex() if no else "-"


def unhex(s):
    return 0 if s == "-" else int.from_bytes(bytes.fromhex(s), "little")


def nwords(s, W):
    return 0 if s == "-" else len(s) // 2 // (W // 8)


PRIMES = [3, 5, 7, 11, 13, 251, 257, 65521, 65537, (1 << 31) - 1, (1 << 61) - 1, (1 << 64) - 59, (1 << 89) - 1,
          (1 << 127) - 1, (1 << 128) - 159, (1 << 192) - (1 << 64) - 1, (1 << 255) - 19, (1 << 256) - 189,
          (1 << 256) - (1 << 224) + (1 << 192) + (1 << 96) - 1, (1 << 521) - 1]


def is_prime(n):
    if n < 2:
        return False
    for p in (2, 3, 5, 7, 11, 13, 17, 19, 23, 29, 31, 37):
        if n % p == 0:
            return n == p
    d, s = n - 1, 0
    while d % 2 == 0:
        d //= 2
        s += 1
    for a in (2, 3, 5, 7, 11, 13, 17, 19, 23, 29, 31, 37):
        x = pow(a, d, n)
        if x in (1, n - 1):
            continue
        for _ in range(s - 1):
            x = x * x % n
            if x == n - 1:
                break
        else:
            return False
    return True


# carry-less arithmetic (search oracle / generator only)
def clmul(a, b):
    r = 0
    while b:
        if b & 1:
            r ^= a
        a <<= 1
        b >>= 1
    return r


def pdivmod(a, b):
    q, db = 0, b.bit_length()
    while a.bit_length() >= db:
        s = a.bit_length() - db
        q ^= 1 << s
        a ^= b << s
    return q, a


def pgcd(a, b):
    while b:
        a, b = b, pdivmod(a, b)[1]
    return a


def p_irred(f):
    n = f.bit_length() - 1
    if n < 1:
        return False
    x = pdivmod(2, f)[1]
    y = x
    for _ in range(n // 2):
        y = pdivmod(clmul(y, y), f)[1]
        if pgcd(f, y ^ x) != 1:
            return False
    return True


# trinomials / pentanomials (m, k, l, l1) accepted by gf2Create for BOTH word sizes where noted
FIELDS = [
    (163, 7, 6, 3), (233, 74, 0, 0), (283, 12, 7, 5), (409, 87, 0, 0), (571, 10, 5, 2),
    (113, 9, 0, 0), (131, 8, 3, 2), (193, 15, 0, 0), (239, 36, 0, 0), (239, 158, 0, 0),
    (191, 9, 0, 0), (97, 6, 0, 0), (97, 33, 0, 0), (127, 1, 0, 0), (127, 63, 0, 0),
    (167, 6, 0, 0), (199, 34, 0, 0), (257, 12, 0, 0), (353, 69, 0, 0), (431, 120, 0, 0),
    (128, 7, 2, 1), (160, 5, 3, 2), (192, 7, 2, 1), (256, 10, 5, 2), (176, 43, 2, 1) if False else (224, 9, 8, 3),
    (173, 8, 5, 2), (179, 4, 2, 1), (359, 68, 0, 0), (367, 21, 0, 0),
]


class G:
    """generator of op lines for one word size"""

    def __init__(self, rng, W, tier):
        self.r, self.W, self.tier = rng, W, tier
        self.B = 1 << W
        self.lines = []
        self.cov = {}

    def add(self, *toks):
        self.lines.append(" ".join(str(t) for t in toks))
        self.cov[toks[0]] = self.cov.get(toks[0], 0) + 1

    # ---- values
    def word(self):
        r, B = self.r, self.B
        return r.choice([0, 1, 2, 3, B - 1, B - 2, B // 2, B // 2 - 1, B // 2 + 1, r.randrange(B), r.randrange(B),
                         1 << r.randrange(self.W), (1 << r.randrange(1, self.W + 1)) - 1, r.randrange(1, 1 << (self.W // 2))])

    def val(self, n):
        """a value below B^n, boundary heavy"""
        r, W = self.r, self.W
        if n == 0:
            return 0
        N = 1 << (n * W)
        k = r.randrange(12)
        if k == 0:
            return r.choice([0, 1, N - 1, N // 2, N - 2, N // 2 - 1])
        if k == 1:
            return 1 << r.randrange(n * W)
        if k == 2:
            return (1 << r.randrange(1, n * W + 1)) - 1
        if k in (3, 4, 5):
            v = 0
            for i in range(n):
                v |= self.word() << (i * W)
            return v
        if k == 6:  # long runs of ones / zeros
            v, pos = 0, 0
            bit = r.randrange(2)
            while pos < n * W:
                ln = r.randrange(1, 2 * W)
                if bit:
                    v |= ((1 << ln) - 1) << pos
                pos += ln
                bit ^= 1
            return v % N
        if k == 7:
            return r.randrange(1 << r.randrange(1, n * W + 1))
        return r.randrange(N)

    def length(self, hi=20):
        r = self.r
        return r.choice([0, 1, 1, 2, 2, 3, 3, 4, 4, 5, 6, 7, 8, 9, 10, 11, 12, 13, 16, 17, 19, 20, r.randrange(hi + 1)])

    def nzlen(self, hi=20):
        return max(1, self.length(hi))

    def modulus(self, n, odd=None, top=True):
        """modulus of n >= 1 words with mod[n-1] != 0 (if top); classes: odd/even, Crandall B^n - c,
        near-Crandall, top bit set/clear, prime, composite, powers of two, B^n - 1, minimal B^(n-1)"""
        r, W, B = self.r, self.W, self.B
        N = 1 << (n * W)
        lo = (1 << ((n - 1) * W)) if top else 2
        for _ in range(100):
            k = r.randrange(12)
            if k == 0:
                m = N - r.choice([1, 2, 3, B - 1, B - 2, r.randrange(1, B), r.randrange(1, B)])      # Crandall form
            elif k == 1:
                m = N - r.choice([B, B + 1, 2 * B - 1, r.randrange(B, B * B if n > 1 else B + 1)])    # near miss
            elif k == 2:
                m = r.choice([lo, lo + 1, lo + 2, N // 2, N // 2 + 1, N // 2 - 1, N - 1])
            elif k == 3:
                p = r.choice(PRIMES)
                m = p
            elif k == 4:  # composite with known factors
                m = r.choice(PRIMES) * r.choice(PRIMES)
            elif k == 5:  # top bit clear, small top word
                m = (r.randrange(1, 1 << r.randrange(1, W)) << ((n - 1) * W)) | self.val(n - 1)
            elif k == 6:  # top bit set
                m = (N // 2) | self.val(n)
            elif k == 7:
                m = self.val(n)
            else:
                m = r.randrange(lo, N)
            if m < 2 or m >= N or (top and m < lo):
                continue
            if odd is True:
                m |= 1
            elif odd is False:
                m &= ~1
                if m < max(lo, 2):
                    continue
            return m
        return N - 1 if odd is not False else N - 2

    def crand(self, n):
        """B^n - c, 0 < c < B, n >= 2 ; odd if asked through c"""
        r, B = self.r, self.B
        c = r.choice([1, 2, 3, B - 1, B - 2, B // 2, r.randrange(1, B), r.randrange(1, B), r.randrange(1, 1 << 16)])
        return (1 << (n * self.W)) - c

    def below(self, m):
        """residue modulo m, boundary heavy"""
        r = self.r
        k = r.randrange(10)
        if k == 0:
            return r.choice([0, 1 % m, m - 1, (m - 2) % m, m // 2, (m + 1) // 2 % m, (m - 1) // 2])
        if k == 1:
            return self.val((m.bit_length() + self.W - 1) // self.W) % m
        if k == 2:
            return (m - r.randrange(1, 1 << 16)) % m
        if k == 3:
            return r.randrange(1 << 16) % m
        return r.randrange(m)

    def pat3(self):
        return self.r.choice(["d", "d", "ca", "cb", "ab", "cab"])

    def pat2(self):
        return self.r.choice(["d", "c"])

    # ---- families
    def words(self, count):
        W, r = self.W, self.r
        for _ in range(count):
            x = self.word()
            self.add("word", W, x)
            self.add("wordCmp", W, self.word(), r.choice([x, self.word()]))
            self.add("wordRot", W, x, r.randrange(1, W))
        for bits in (16, 32, 64):
            for _ in range(count):
                x = r.choice([0, 1, (1 << bits) - 1, 1 << (bits - 1), r.randrange(1 << bits), 1 << r.randrange(bits),
                              (1 << r.randrange(1, bits + 1)) - 1, r.randrange(1 << bits) | 1])
                self.add("u", bits, x)
        for _ in range(count // 4 + 1):
            cnt = r.randrange(0, 40)
            self.add("wwFromTo", W, ho(r.getrandbits(8 * cnt) if cnt else 0, cnt))

    def ww(self, count):
        W, r, B = self.W, self.r, self.B
        for _ in range(count):
            n = self.length()
            a = self.val(n)
            b = r.choice([a, a, self.val(n), a ^ (1 << r.randrange(n * W)) if n else 0, (a + 1) % (1 << (n * W)) if n else 0])
            self.add("wwEq", W, hx(a, n, W), hx(b, n, W))
            self.add("wwCmp", W, hx(a, n, W), hx(b, n, W))
            m = self.length()
            b2 = r.choice([a % (1 << (m * W)), self.val(m), self.val(min(n, m))])
            self.add("wwCmp2", W, hx(a, n, W), hx(b2, m, W))
            w = r.choice([a % B, self.word(), 0])
            a1 = r.choice([a, a % B, w, self.val(1)]) % (1 << (n * W)) if n else 0
            self.add("wwCmpW", W, hx(a1, n, W), w)
            self.add("wwIsZero", W, hx(r.choice([0, a, 1 << r.randrange(n * W) if n else 0]), n, W))
            self.add("wwIsW", W, hx(a1, n, W), w)
            rep = sum(w << (i * W) for i in range(n))
            self.add("wwIsRepW", W, hx(r.choice([rep, rep, a, rep ^ (1 << r.randrange(n * W)) if n else 0]), n, W), w if n else r.choice([0, w]))
            self.add("wwSizes", W, hx(a, n, W))
            p = self.pat3()
            x, y = self.ab_vals(p, a, b)
            self.add("wwXor", W, p, hx(x, n, W), hx(y, n, W))
        for _ in range(count):
            n = self.nzlen()
            a = self.val(n)
            pos = r.randrange(n * W)
            self.add("wwTestBit", W, hx(a, n, W), pos)
            self.add("wwSetBit", W, hx(a, n, W), pos, r.randrange(2))
            self.add("wwFlipBit", W, hx(a, n, W), pos)
            width = r.choice([0, 1, 2, W - 1, W, W // 2, r.randrange(1, W + 1), 8])      # 0: the empty field (bd3b537)
            pos = r.choice([r.randrange(n * W), (r.randrange(n) + 1) * W - r.randrange(1, width + 2), r.randrange(n + 1) * W])
            pos = max(0, min(pos, n * W - width))
            self.add("wwGetBits", W, hx(a, n, W), pos, width)
            self.add("wwSetBits", W, hx(a, n, W), pos, width, r.choice([self.word(), B - 1, 0, r.randrange(B)]))
        for _ in range(count):
            n = self.length()
            a = self.val(n)
            s = r.choice([0, 1, W - 1, W, W + 1, 2 * W, n * W, n * W - 1 if n else 0, n * W + 1, (n + 1) * W, (n + 1) * W + 3, (n + 2) * W,
                          r.randrange((n + 2) * W + 1), r.randrange(W), r.randrange(n + 1) * W])
            c = self.word()
            self.add("wwShLo", W, hx(a, n, W), s)
            self.add("wwShHi", W, hx(a, n, W), s)
            self.add("wwShLoCarry", W, hx(a, n, W), s, c)
            self.add("wwShHiCarry", W, hx(a, n, W), s, c)
            self.add("wwTrimLo", W, hx(a, n, W), s)
            self.add("wwTrimHi", W, hx(a, n, W), s)
            self.add("wwCopy", W, self.pat2(), hx(a, n, W))
            self.add("wwSwap", W, hx(a, n, W), hx(self.val(n), n, W))
            self.add("wwSetZero", W, n)
            w = self.word() if n else 0
            self.add("wwSetW", W, n, w)
            self.add("wwRepW", W, n, w)
        for _ in range(count // 2):
            n = self.length(8)
            self.add("wwNAF", W, hx(self.val(n), n, W), r.choice([2, 3, 4, 5, 6, 7, r.randrange(2, min(W, 12))]))

    def ww_sweep(self):
        """every shift / position value for a 2-word (3-word for bit fields) operand: position-dependent slips"""
        W, r = self.W, self.r
        n = 2
        for s in range(0, (n + 2) * W + 2):
            a = r.getrandbits(n * W) | 1 | (1 << (n * W - 1))
            c = r.getrandbits(W) | 1 | (1 << (W - 1))
            self.add("wwShLo", W, hx(a, n, W), s)
            self.add("wwShHi", W, hx(a, n, W), s)
            self.add("wwShLoCarry", W, hx(a, n, W), s, c)
            self.add("wwShHiCarry", W, hx(a, n, W), s, c)
            self.add("wwTrimLo", W, hx((1 << (n * W)) - 1, n, W), s)
            self.add("wwTrimHi", W, hx((1 << (n * W)) - 1, n, W), s)
        n = 3
        for pos in range(0, 2 * W + 1):
            a = r.getrandbits(n * W)
            self.add("wwTestBit", W, hx(a, n, W), pos)
            self.add("wwSetBit", W, hx(a, n, W), pos, 1 - ((a >> pos) & 1))
            self.add("wwFlipBit", W, hx(a, n, W), pos)
            for width in (0, 1, 7, W - 1, W):
                self.add("wwGetBits", W, hx(a, n, W), pos, width)
                self.add("wwSetBits", W, hx(a, n, W), pos, width, r.getrandbits(W))

    def pat3_fix(self, f, n):
        return self.pat3()

    def ab_vals(self, pat, a, b):
        return (a, a) if pat in ("ab", "cab") else (a, b)

    def zz_add(self, count):
        W, r, B = self.W, self.r, self.B
        for _ in range(count):
            n = self.length()
            N = 1 << (n * W)
            a = self.val(n)
            b = r.choice([self.val(n), (N - a) % N, (N - a - 1) % N, (N - a + 1) % N, a, (a + 1) % N, (a - 1) % N if a else 0])
            for f in ("zzAdd", "zzSub"):
                p = self.pat3()
                x, y = self.ab_vals(p, a, b)
                self.add(f, W, p, hx(x, n, W), hx(y, n, W))
            for f in ("zzAdd2", "zzSub2"):
                p = r.choice(["d", "ab"])
                x, y = self.ab_vals(p, a, b)
                self.add(f, W, p, hx(x, n, W), hx(y, n, W))
            m = self.length()
            bm = self.val(m)
            k = max(n, m)
            p = r.choice(["d"] + (["ca"] if n == k else []) + (["cb"] if m == k else []))
            self.add("zzAdd3", W, p, hx(a, n, W), hx(bm, m, W))
            w = r.choice([self.word(), (B - a % B) % B, B - 1, 1, 0])
            for f in ("zzAddW", "zzSubW"):
                self.add(f, W, self.pat2(), hx(a, n, W), w)
            for f in ("zzAddW2", "zzSubW2"):
                self.add(f, W, hx(a, n, W), w)
            c = r.choice([(a + b) % N, (a + b) % N, (a + b + 1) % N, self.val(n), (a + b) % N ^ (1 << r.randrange(n * W)) if n else 0])
            self.add("zzIsSumEq", W, hx(c, n, W), hx(a, n, W), hx(b, n, W))
            c = r.choice([(a + w) % N, (a + w) % N, (a + w + 1) % N, self.val(n)]) if n else 0
            self.add("zzIsSumWEq", W, hx(c, n, W), hx(a, n, W), w)
            self.add("zzNeg", W, self.pat2(), hx(a, n, W))
            self.add("zzIsEven", W, hx(a, n, W))

    def zz_mul(self, count):
        W, r, B = self.W, self.r, self.B
        for _ in range(count):
            n = self.length()
            a = self.val(n)
            b = self.val(n)
            w = self.word()
            self.add("zzMulW", W, self.pat2(), hx(a, n, W), w)
            for f in ("zzAddMulW", "zzSubMulW"):
                p = r.choice(["d", "ab"])
                self.add(f, W, p, hx(b if p == "d" else a, n, W), hx(a, n, W), w)
            m = self.length()
            p = r.choice(["d", "d", "ab"])
            if p == "ab":
                self.add("zzMul", W, p, hx(a, n, W), hx(a, n, W))
            else:
                self.add("zzMul", W, p, hx(a, n, W), hx(self.val(m), m, W))
            self.add("zzSqr", W, hx(a, n, W))
        for _ in range(count):
            n = self.length(12)
            k = r.randrange(6)
            if k == 0:
                s = self.val((n + 1) // 2)
                a = r.choice([s * s, s * s + 1, max(s * s, 1) - 1, s * s + 2 * s, s * (s + 1)])
                a %= 1 << (n * W) if n else 1
            else:
                a = self.val(n)
            self.add("zzSqrt", W, hx(a, n, W))
        for _ in range(count):
            n = self.length()
            a = self.val(n)
            w = max(1, self.word())
            self.add("zzDivW", W, self.pat2(), hx(a, n, W), w)
            self.add("zzModW", W, hx(a, n, W), w)
            w2 = max(1, r.choice([1, 2, 3, 10, 255, 256, (1 << (W // 2)), (1 << (W // 2)) - 1, r.randrange(1, (1 << (W // 2)) + 1)]))
            self.add("zzModW2", W, hx(a, n, W), w2)
        for _ in range(2 * count):
            self.div_case()

    def divisor(self, m):
        """m-word divisor with b[m-1] != 0; un-normalised (top bit clear) in most cases"""
        r, W = self.r, self.W
        s = r.choice([0, 0, 1, 2, W // 2, W - 1, W - 2, r.randrange(W)])
        top = (1 << (W - 1 - s))
        k = r.randrange(6)
        if k == 0:
            hi = top
        elif k == 1:
            hi = (top << 1) - 1
        else:
            hi = top | r.randrange(top)
        return (hi << ((m - 1) * W)) | (self.val(m - 1) if m > 1 else 0), s

    def div_case(self):
        """zzDiv / zzMod operands; classes: a < b, single-word divisor, n == m, quotient digit B-1,
        trial quotient off by one (Knuth D add-back, constructed backwards), exact multiples, maximal"""
        W, r, B = self.W, self.r, self.B
        m = r.choice([1, 2, 2, 3, 3, 4, 5, 8, 9, self.nzlen(12)])
        n = m + r.choice([0, 0, 1, 1, 2, 3, m, r.randrange(8)])
        n = min(n, 24)
        N = 1 << (n * W)
        b, s = self.divisor(m)
        k = r.randrange(14)
        if k == 0:
            a = r.randrange(b)                                   # a < b
        elif k == 1:
            a = b * r.randrange(N // b + 1) % N                  # exact multiple
            a = a - a % b
        elif k == 2:
            a = N - 1
        elif k in (3, 4, 5) and m >= 3:
            # add-back: b = top * B^(m-1) + c with a zero second digit, a = Q * (b - c) => quotient Q - 1, the
            # 3-by-2 trial quotient still says Q's digit
            top = (b >> ((m - 1) * W))
            top = 1 << (top.bit_length() - 1)                    # power of two: divisor top digit
            c = r.choice([1, 2, 3, r.randrange(1, 1 << r.randrange(1, (m - 2) * W + 1))])
            b = (top << ((m - 1) * W)) + c
            maxq = min(N // b, b // c)
            if maxq < 1:
                a = 0
            else:
                Q = r.choice([1, 2, 3, min(maxq, B - 1), min(maxq, B), maxq, r.randrange(1, maxq + 1), r.randrange(1, min(maxq, B) + 1)])
                a = Q * (b - c)
        elif k == 6:
            # quotient digit B-1 with equal top words: a = b * B^j - x
            j = n - m
            a = (b << (j * W)) - r.choice([1, 2, b, b - 1, r.randrange(1, b + 1)])
            a %= N
        elif k == 7:
            q = self.val(n - m + 1)
            a = (q * b + r.choice([0, 1, b - 1, r.randrange(b)])) % N
        elif k == 8:
            a = self.val(n)
        elif k == 9:
            a = b + r.choice([0, 1, B, b])
            a %= N
        else:
            a = r.randrange(N)
        self.add("zzDiv", W, r.choice(["d", "d", "ra"]), hx(a, n, W), hx(b, m, W))
        self.add("zzMod", W, r.choice(["d", "d", "ra"]), hx(a, n, W), hx(b, m, W))
        if r.randrange(4) == 0:
            n2 = r.randrange(m)                                   # zzMod allows n < m
            self.add("zzMod", W, "d", hx(self.val(n2), n2, W), hx(b, m, W))

    def zz_gcd(self, count):
        W, r = self.W, self.r
        for _ in range(count):
            n, m = self.nzlen(10), self.nzlen(10)
            g = r.choice([1, 1, 2, 1 << r.randrange(1, 2 * W), 3, r.choice(PRIMES), max(1, self.val(1))])
            a = max(1, self.val(n))
            b = max(1, self.val(m))
            if r.randrange(3) == 0:
                a = max(1, (a // g) * g % (1 << (n * W)))
                b = max(1, (b // g) * g % (1 << (m * W)))
            if r.randrange(8) == 0:
                b, m = a, n
            self.add("zzGCD", W, hx(a, n, W), hx(b, m, W))
            self.add("zzLCM", W, hx(a, n, W), hx(b, m, W))
            self.add("zzExGCD", W, hx(a, n, W), hx(b, m, W))     # raw: completed to zzExGCD? after pass 1
            z = r.randrange(10)
            a0 = 0 if z == 0 else a
            b0 = 0 if z == 1 else (1 if z == 2 else b)
            self.add("zzIsCoprime", W, hx(a0, n, W), hx(b0, m, W))
            bo = b | 1
            self.add("zzJacobi", W, hx(r.choice([a, a % bo, 0, 1, 2, bo - 1, bo]) % (1 << (n * W)), n, W), hx(bo, m, W))

    def zz_mod(self, count):
        W, r, B = self.W, self.r, self.B
        for _ in range(count):
            n = self.nzlen()
            mod = self.modulus(n)
            a, b = self.below(mod), self.below(mod)
            k = r.randrange(8)
            if k == 0:
                b = (mod - a) % mod                              # a + b == mod
            elif k == 1:
                b = (mod - a - 1) % mod
            elif k == 2:
                b = (mod - a + 1) % mod
            elif k == 3:
                b = a
            elif k == 4 and (1 << (n * W)) - a < mod:
                b = (1 << (n * W)) - a                            # a + b == B^n (carry out, sum word zero)
            for f in ("zzAddMod", "zzSubMod", "zzMulMod"):
                p = self.pat3()
                x, y = self.ab_vals(p, a, b)
                self.add(f, W, p, hx(x, n, W), hx(y, n, W), hx(mod, n, W))
            w = r.choice([self.word(), (mod - a) % mod, (mod - a - 1) % mod, (mod - a + 1) % mod, a % B, B - 1]) % min(mod, B)
            for f in ("zzAddWMod", "zzSubWMod"):
                self.add(f, W, self.pat2(), hx(a, n, W), w, hx(mod, n, W))
            self.add("zzMulWMod", W, self.pat2(), hx(a, n, W), self.word(), hx(mod, n, W))
            self.add("zzNegMod", W, self.pat2(), hx(a, n, W), hx(mod, n, W))
            self.add("zzDoubleMod", W, self.pat2(), hx(r.choice([a, mod // 2, (mod + 1) // 2 % mod, (mod - 1) // 2, 1 << (n * W - 1) if (1 << (n * W - 1)) < mod else a]), n, W), hx(mod, n, W))
            self.add("zzSqrMod", W, self.pat2(), hx(a, n, W), hx(mod, n, W))
        # zzAddMod & co. do not require mod[n-1] != 0 (nor n > 0)
        for _ in range(count // 3):
            n = self.length()
            mod = self.modulus(n, top=False) if n else 0
            if n and mod < 2:
                continue
            a, b = (self.below(mod), self.below(mod)) if n else (0, 0)
            if n == 0:
                continue
            p = self.pat3()
            x, y = self.ab_vals(p, a, b)
            self.add("zzAddMod", W, p, hx(x, n, W), hx(y, n, W), hx(mod, n, W))
            self.add("zzDoubleMod", W, self.pat2(), hx(a, n, W), hx(mod, n, W))
            w = self.word() % min(mod, B)
            self.add("zzAddWMod", W, self.pat2(), hx(a, n, W), w, hx(mod, n, W))
            self.add("zzSubWMod", W, self.pat2(), hx(a, n, W), w, hx(mod, n, W))
        for _ in range(count):
            n = self.nzlen(12)
            mod = self.modulus(n, odd=True)
            a = self.below(mod)
            self.add("zzHalfMod", W, self.pat2(), hx(a, n, W), hx(mod, n, W))
            d = self.below(mod)
            k = r.randrange(6)
            if k == 0:                                           # non-invertible
                g = math.gcd(mod, r.choice([3, 5, 7, 9, 15, 21, 255, 3 * 5 * 7 * 11 * 13]))
                if g > 1:
                    a = (a // g) * g % mod
            self.add("zzInvMod", W, self.pat2(), hx(a, n, W), hx(mod, n, W))
            self.add("zzDivMod", W, r.choice(["d", "ca", "cb"]), hx(d, n, W), hx(a, n, W), hx(mod, n, W))
            if a:
                self.add("zzAlmostInvMod", W, hx(a, n, W), hx(mod, n, W))
        for _ in range(count // 2):
            n = self.nzlen(8)
            mod = self.modulus(n)
            a = self.below(mod)
            m = r.choice([0, 1, 1, 2, 3, 4, 4, 5, 11, 12] + ([28, 30] if self.tier == "thorough" else []))   # every qrPower window width
            e = r.choice([0, 1, 2, 3, mod - 1 if m * W >= mod.bit_length() else 5, self.val(m), (1 << (m * W)) - 1 if m else 0]) % (1 << (m * W)) if m else 0
            self.add("zzPowerMod", W, hx(a, n, W), hx(e, m, W), hx(mod, n, W))
            mw = max(1, self.word())
            self.add("zzPowerModW", W, self.word(), r.choice([0, 1, 2, 7, 8, B - 1, self.word()]), mw)

    def zz_rand(self, count):
        """zzRandMod / zzRandNZMod as functions of the generator tape: k rejected chunks (>= mod, or zero for NZ),
        then an accepted one; k around the give-up thresholds 65 / 129"""
        W, r = self.W, self.r
        for _ in range(count):
            n = self.nzlen(6)
            mod = self.modulus(n) if r.randrange(4) else r.choice([2, 3, 255, 256, 65535, 65536, 65537, (1 << 16) - 15])
            n = max(n, (mod.bit_length() + W - 1) // W) if mod < (1 << ((n - 1) * W)) else n
            if mod < (1 << ((n - 1) * W)):
                n = (mod.bit_length() + W - 1) // W
            l = mod.bit_length()
            c = (l + 7) // 8
            nz = r.randrange(2)
            k = r.choice([0, 0, 1, 2, 3, 63, 64, 65, 66, 127, 128, 129, 130, r.randrange(70)])
            tape = b""
            for _ in range(k):
                bad = r.choice([(1 << (8 * c)) - 1, mod, mod + r.randrange(1 << 8), 0 if nz else mod, r.randrange(mod, 1 << l) if mod < (1 << l) else mod])
                bad = min(bad, (1 << (8 * c)) - 1)
                tape += bad.to_bytes(c, "little")
            good = r.choice([self.below(mod), 1 % mod, mod - 1])
            hi = r.getrandbits(8 * c - l) << l if 8 * c > l else 0          # bits above l are trimmed off
            tape += (good | hi).to_bytes(c, "little") if r.randrange(8) else b""
            self.add("zzRandNZMod" if nz else "zzRandMod", W, hx(mod, n, W), tape.hex() if tape else "-")

    def red_value(self, mod, n, lim):
        """2n-word value below lim: multiples of the modulus, maximal, squares of mod-1, ..."""
        r = self.r
        k = r.randrange(10)
        if k == 0:
            a = mod * r.choice([0, 1, 2, 3, 4, lim // mod, lim // mod - 1 if lim // mod else 0, r.randrange(lim // mod + 1)])
        elif k == 1:
            a = lim - r.choice([1, 2, mod, mod + 1])
        elif k == 2:
            a = (mod - 1) * (mod - 1)
        elif k == 3:
            a = mod * r.randrange(lim // mod + 1) + r.choice([0, 1, mod - 1])
        elif k == 4:
            a = self.below(mod) * self.below(mod)
        elif k == 5:
            a = self.val(2 * n)
        elif k == 6:
            a = self.below(mod)
        else:
            a = r.randrange(lim)
        return max(0, a) % lim

    def zz_red(self, count):
        W, r, B = self.W, self.r, self.B
        for _ in range(count):
            n = self.nzlen(12)
            N = 1 << (n * W)
            mod = self.modulus(n)
            self.add("zzRed", W, hx(self.red_value(mod, n, N * N), 2 * n, W), hx(mod, n, W))
            self.add("zzRedBarrStart", W, hx(mod, n, W))
            self.add("zzRedBarr", W, hx(self.red_value(mod, n, N * N), 2 * n, W), hx(mod, n, W))
            if n >= 3 and r.randrange(3) == 0:
                # Barrett estimate off by two (a[n] == 2 after the first subtraction): mod = B^n - d, d ~ B^(n/2)
                d = (math.isqrt(1 + 4 * N) - 1) // 2 + r.choice([0, 0, 1, -1, r.randrange(-1000, 1000)])
                mb = N - d
                ab = (N * B - B) * (N // B) + N // B - 1 - r.choice([0, 0, 1, r.randrange(1 << W)])
                self.add("zzRedBarr", W, hx(ab, 2 * n, W), hx(mb, n, W))
            mo = self.modulus(n, odd=True)
            if r.randrange(4) == 0:
                mo = N // 2 + 1 if n * W > 1 else mo             # the modulus of the repaired stale-mask defect
            self.add("zzRedMont", W, hx(self.red_value(mo, n, mo * N), 2 * n, W), hx(mo, n, W))
            if n >= 2:
                mc = self.crand(n)
                self.add("zzRedCrand", W, hx(self.red_value(mc, n, N * N), 2 * n, W), hx(mc, n, W))
                mc |= 1
                self.add("zzRedCrandMont", W, hx(self.red_value(mc, n, mc * N), 2 * n, W), hx(mc, n, W))

    def zm(self, count):
        W, r = self.W, self.r
        ow = W // 8
        for _ in range(count):
            kind = r.choice(["plain", "crand", "barr", "mont", "auto", "auto", "auto", "gfp"])
            no = r.choice([1, 2, ow - 1, ow, ow + 1, 2 * ow - 1, 2 * ow, 2 * ow + 1, 3 * ow, 3 * ow + 1, 4 * ow - 1, 4 * ow, 4 * ow + 3, 5 * ow,
                           6 * ow, 8 * ow, r.randrange(1, 12 * ow)])
            n = (no + ow - 1) // ow
            if kind == "crand":
                n = max(2, n)
                no = n * ow
                mod = self.crand(n)
            else:
                k = r.randrange(8)
                if k == 0 and no >= 2 * ow:
                    mod = (1 << (8 * no)) - r.randrange(1, 1 << W)             # Crandall value; Crandall ring iff no % ow == 0
                elif k == 1:
                    mod = r.choice(PRIMES)
                    no = (mod.bit_length() + 7) // 8
                else:
                    mod = r.randrange(1 << (8 * no - 8), 1 << (8 * no)) if no > 1 else r.randrange(2, 256)
                    if k in (2, 3):
                        mod |= 1
                    if k == 4:
                        mod &= ~1
                if mod < 2:
                    mod = 3
                if kind in ("mont",):
                    mod |= 1
                if kind == "gfp" and r.randrange(4):
                    mod |= 1
                no = max(1, (mod.bit_length() + 7) // 8) if kind != "crand" else no
            a, b = self.below(mod), self.below(mod)
            ha, hb, hm = ho(a, no), ho(b, no), ho(mod, no)
            self.add("zm", W, kind, "d", hm, "unity")
            self.add("zm", W, kind, "d", hm, "from", ho(r.choice([a, mod, mod + 1 if mod + 1 < (1 << (8 * no)) else mod, (1 << (8 * no)) - 1]), no))
            for op in ("add", "sub", "mul"):
                p = self.pat3()
                x, y = (ha, ha) if p in ("ab", "cab") else (ha, hb)
                self.add("zm", W, kind, p, hm, op, x, y)
            for op in ("neg", "sqr"):
                self.add("zm", W, kind, r.choice(["d", "ca"]), hm, op, ha)
            if mod % 2 == 1:
                ia = a
                for _ in range(20):
                    if math.gcd(ia, mod) == 1:
                        break
                    ia = self.below(mod)
                if math.gcd(ia, mod) == 1:
                    self.add("zm", W, kind, r.choice(["d", "ca"]), hm, "inv", ho(ia, no))
                    self.add("zm", W, kind, r.choice(["d", "ca", "cb"]), hm, "div", hb, ho(ia, no))
            m = r.choice([0, 1, 1, 2, 3])
            e = r.choice([0, 1, 2, mod - 1, self.val(m)]) % (1 << (m * W)) if m else 0
            self.add("zm", W, kind, r.choice(["d", "ca"]), hm, "power", ha, hx(e, m, W))

    def poly(self, n):
        return self.val(n)

    def pp(self, count):
        W, r, B = self.W, self.r, self.B
        for n in list(range(0, 21)) + [24, 27, 32, 33, 36, 40]:            # every Karatsuba size and above
            reps = 6 if self.tier == "quick" else 16
            for _ in range(reps if n <= 20 else 1):
                a, b = self.poly(n), self.poly(n)
                self.add("ppMul", W, "d", hx(a, n, W), hx(b, n, W))
                self.add("ppSqr", W, hx(a, n, W))
        for _ in range(count):
            n, m = self.length(), self.length()
            a, b = self.poly(n), self.poly(m)
            p = r.choice(["d", "d", "ab"])
            if p == "ab":
                self.add("ppMul", W, p, hx(a, n, W), hx(a, n, W))
            else:
                self.add("ppMul", W, p, hx(a, n, W), hx(b, m, W))
            self.add("ppDeg", W, hx(a, n, W))
            w = self.word()
            self.add("ppMulW", W, self.pat2(), hx(a, n, W), w)
            pt = r.choice(["d", "ab"])
            self.add("ppAddMulW", W, pt, hx(self.poly(n) if pt == "d" else a, n, W), hx(a, n, W), w)
        for _ in range(count):
            m = self.nzlen(10)
            n = m + r.choice([0, 0, 1, 2, 3, m, r.randrange(6)])
            b = self.poly(m)
            b |= r.choice([1, 1 << (W - 1), 1 << r.randrange(W)]) << ((m - 1) * W)   # b[m-1] != 0
            a = r.choice([self.poly(n), clmul(self.poly(n - m + 1), b) % (1 << (n * W)), b, b ^ 1, 0])
            a %= 1 << (n * W)
            self.add("ppDiv", W, r.choice(["d", "ra"]), hx(a, n, W), hx(b, m, W))
            self.add("ppMod", W, r.choice(["d", "ra"]), hx(a, n, W), hx(b, m, W))
            n2 = r.randrange(m)
            self.add("ppMod", W, "d", hx(self.poly(n2), n2, W), hx(b, m, W))
            self.add("ppRed", W, hx(self.poly(2 * m), 2 * m, W), hx(b, m, W))
        for _ in range(count):
            n, m = self.nzlen(8), self.nzlen(8)
            a, b = max(1, self.poly(n)), max(1, self.poly(m))
            if r.randrange(3) == 0:
                g = max(1, self.poly(1)) >> r.randrange(W)
                g = max(g, 1)
                a = max(1, clmul(pdivmod(a, g)[0], g) % (1 << (n * W)))
                b = max(1, clmul(pdivmod(b, g)[0], g) % (1 << (m * W)))
            self.add("ppGCD", W, hx(a, n, W), hx(b, m, W))
            self.add("ppExGCD", W, hx(a, n, W), hx(b, m, W))     # raw: completed after pass 1
        for _ in range(count):
            n = self.nzlen(8)
            mod = self.poly(n) | (r.choice([1, 1 << (W - 1), 1 << r.randrange(W)]) << ((n - 1) * W)) | 1
            if mod == 1:
                mod = 3                                          # deg(mod) >= 1: a, divident < mod must be satisfiable with divident = 1
            dm = mod.bit_length() - 1
            a = self.poly(n) % (1 << dm) if dm else 0
            b = self.poly(n) % (1 << dm) if dm else 0
            for f in ("ppMulMod",):
                p = self.pat3()
                x, y = self.ab_vals(p, a, b)
                self.add(f, W, p, hx(x, n, W), hx(y, n, W), hx(mod, n, W))
            self.add("ppSqrMod", W, self.pat2(), hx(a, n, W), hx(mod, n, W))
            self.add("ppInvMod", W, self.pat2(), hx(a, n, W), hx(mod, n, W))
            self.add("ppDivMod", W, r.choice(["d", "ca", "cb"]), hx(b, n, W), hx(a, n, W), hx(mod, n, W))
        for _ in range(count):
            m, k, l, l1 = r.choice(FIELDS)
            # also arbitrary (not irreducible) parameter sets allowed by ppRed*'s preconditions
            if r.randrange(3) == 0:
                m = r.randrange(W + 2, 12 * W)
                if r.randrange(2):
                    if m % 8 == 0:
                        m += 1
                    k, l, l1 = r.randrange(1, m - W + 1), 0, 0
                else:
                    k = r.randrange(3, W)
                    if m - k < W:
                        m = k + W + r.randrange(W)
                    l = r.randrange(2, k)
                    l1 = r.randrange(1, l)
            nw = (m + W - 1) // W
            k_ = r.randrange(4)
            a = self.poly(2 * nw)
            if k_ == 0:
                a = (1 << (2 * nw * W)) - 1
            # the product of two reduced elements has degree <= 2m - 2 ; the header allows any [2n]a
            if l == 0:
                if m % 8 != 0 and m - k >= W:
                    self.add("ppRedTrinomial", W, hx(a, 2 * nw, W), m, k)
            else:
                if m - k >= W and k < W:
                    self.add("ppRedPentanomial", W, hx(a, 2 * nw, W), m, k, l, l1)
            self.add("ppRedBelt", W, hx(self.poly(256 // W), 256 // W, W))
        for _ in range(count // 2):
            n = r.choice([1, 1, 1, 2, 2, 3, 4]) if self.tier == "quick" else self.nzlen(6)
            a = self.poly(n)
            if r.randrange(3) == 0:
                # an irreducible one: search
                for _ in range(200):
                    c = self.r.randrange(1 << (n * W - r.randrange(W))) | 1
                    if p_irred(c):
                        a = c
                        break
            self.add("ppIsIrred", W, hx(a, n, W))
        for _ in range(count // 2):
            # sequence of 2l bits generated by an LFSR of degree <= l  (linear complexity <= l)
            l = r.choice([1, 2, 3, W // 2, W - 1, W, W + 1, 2 * W, r.randrange(1, 3 * W)])
            d = r.randrange(0, l + 1)
            g = (1 << d) | r.randrange(1 << d) if d else 1          # monic, degree d: s_{i+d} = sum g_j s_{i+j}
            s = [r.randrange(2) for _ in range(d)]
            while len(s) < 2 * l:
                i = len(s) - d
                s.append(sum(s[i + j] for j in range(d) if (g >> j) & 1) % 2 if d else 0)
            s = s[:2 * l]
            a = sum(bit << (2 * l - 1 - i) for i, bit in enumerate(s))
            nw = (2 * l + W - 1) // W
            nw = max(nw, 2 * ((l + W - 1) // W))
            self.add("ppMinPoly", W, hx(a, nw, W), l)
        for _ in range(count // 4):
            n = r.choice([1, 1, 2, 2, 3])
            mod = None
            for _ in range(400):
                c = self.r.randrange(1 << (n * W - r.randrange(W))) | 1 | (1 << ((n - 1) * W))
                if c.bit_length() > 2 and p_irred(c):
                    mod = c
                    break
            if mod:
                a = max(1, self.poly(n) % (1 << (mod.bit_length() - 1)))
                self.add("ppMinPolyMod", W, hx(a, n, W), hx(mod, n, W))

    def gf2(self, count):
        W, r = self.W, self.r
        for _ in range(count):
            m, k, l, l1 = r.choice(FIELDS)
            if r.randrange(8) == 0:                              # descriptions gf2Create must reject / special shapes
                m, k, l, l1 = r.choice([(163, 0, 0, 0), (160, 7, 0, 0), (100, 80, 0, 0), (163, 7, 0, 3), (163, 7, 6, 0), (163, 7, 7, 3),
                                        (163, 70, 6, 3), (130, 100, 6, 3), (163, 7, 6, 6)])
            ring_only = False
            if r.randrange(3) == 0:
                # arbitrary descriptions accepted by gf2Create (p(x) need not be irreducible: only ring operations then);
                # shapes: (m - k) % W == 0 (gf2RedTrinomial0), m % W == 0, k <= m % W, l <= m % W < k, l1 <= m % W < l, m % W < l1
                ring_only = True
                m = r.choice([r.randrange(W + 2, 9 * W), r.randrange(2, 9) * W, r.randrange(2, 9) * W + r.randrange(1, W)])
                if r.randrange(2):
                    if m % 8 == 0:
                        m += 1
                    k = r.choice([m - W * r.randrange(1, m // W + 1), r.randrange(1, m - W + 1), 1, m - W])
                    k = min(max(k, 1), m - W)
                    l = l1 = 0
                else:
                    k = r.randrange(3, W)
                    if m - k < W:
                        m = k + W + r.randrange(2 * W)
                    l = r.randrange(2, k)
                    l1 = r.randrange(1, l)
            no = (m + 7) // 8
            f = (1 << m) | (1 << k) | (1 << l) | (1 << l1) | 1 if l else (1 << m) | (1 << k) | 1
            a = r.getrandbits(m) if r.randrange(6) else r.choice([0, 1, 2, (1 << m) - 1, 1 << (m - 1)])
            b = r.getrandbits(m) if r.randrange(6) else r.choice([0, 1, (1 << m) - 1])
            ha, hb = ho(a, no), ho(b, no)
            pre = ("gf2", W, m, k, l, l1)
            self.add(*pre, "d", "from", ho(r.choice([a, a | (1 << m) if 8 * no > m else a, (1 << (8 * no)) - 1]), no))
            for op in ("add", "mul"):
                p = self.pat3()
                x, y = (ha, ha) if p in ("ab", "cab") else (ha, hb)
                self.add(*pre, p, op, x, y)
            self.add(*pre, r.choice(["d", "ca"]), "sqr", ha)
            if ring_only:
                continue
            if a:
                self.add(*pre, r.choice(["d", "ca"]), "inv", ha)
                self.add(*pre, r.choice(["d", "ca", "cb"]), "div", hb, ha)
            self.add(*pre, "d", "tr", ha)
            if m % 2 == 1:
                self.add(*pre, "d", "qsolve", ho(r.choice([a, a, 0, 1]), no), ho(r.choice([b, b, 0]), no))


def corpus(W):
    """witnesses of the defects already repaired in /repo (regression corpus): run first"""
    B = 1 << W
    L = []
    # 6101ea2  FAST(zzAddWMod): a + w == mod
    L.append("zzAddWMod %d d %s 3 %s" % (W, hx(4 + 5 * B, 2, W), hx(7 + 5 * B, 2, W)))
    L.append("zzAddWMod %d c %s 3 %s" % (W, hx(4 + 5 * B, 2, W), hx(7 + 5 * B, 2, W)))
    L.append("zzAddWMod %d d %s 3 %s" % (W, hx(4, 1, W), hx(7, 1, W)))
    # 0a84810  SAFE(zzRedMont)/SAFE(zzRedCrandMont): a = k * mod, mod = B/2 + 1 (stale compare mask)
    m = B // 2 + 1
    for k in (1, 2, 3, 4, B - 1):
        L.append("zzRedMont %d %s %s" % (W, hx(k * m, 2, W), hx(m, 1, W)))
    m2 = B * B - 1
    for k in (1, 2, 4, B * B - 1):
        L.append("zzRedCrandMont %d %s %s" % (W, hx(k * m2, 4, W), hx(m2, 2, W)))
        L.append("zzRedMont %d %s %s" % (W, hx(k * m2, 4, W), hx(m2, 2, W)))
    # e22b6b9  wwSetBits with a field straddling a word boundary
    L.append("wwSetBits %d %s %d 8 92" % (W, hx((1 << (2 * W)) - 1, 2, W), W - 4))
    L.append("wwSetBits %d %s %d 8 92" % (W, hx(0x1111111111111111111111111111111111 % (1 << (2 * W)), 2, W), W - 4))
    L.append("wwSetBits %d %s %d %d 0" % (W, hx((1 << (3 * W)) - 1, 3, W), 2 * W - 1, W))
    # docs/C05.fix-11.diff  SAFE(zzRedBarr): first estimate off by two (a[n] == 2)
    for n in (3, 4):
        N = 1 << (n * W)
        d = (math.isqrt(1 + 4 * N) - 1) // 2
        L.append("zzRedBarr %d %s %s" % (W, hx((N * B - B) * (N // B) + N // B - 1, 2 * n, W), hx(N - d, n, W)))
    # bd3b537 (fix-10)  empty bit field: no change / 0, no word outside W_OF_B(pos) touched
    L.append("wwSetBits %d %s 4 0 11259375" % (W, hx(0x1111111111111111, 64 // W, W)))
    L.append("wwSetBits %d %s %d 0 %d" % (W, hx((1 << (2 * W)) - 1, 2, W), 2 * W, B - 1))
    L.append("wwGetBits %d %s %d 0" % (W, hx((1 << (2 * W)) - 1, 2, W), 2 * W))
    # docs/C05.fix-1.diff  zzInvMod / zzDivMod / zzAlmostInvMod with gcd(a, mod) != 1 must give 0
    L.append("zzInvMod %d d %s %s" % (W, hx(3, 1, W), hx(9, 1, W)))
    L.append("zzDivMod %d d %s %s %s" % (W, hx(5, 1, W), hx(6, 1, W), hx(9, 1, W)))
    L.append("zzAlmostInvMod %d %s %s" % (W, hx(3, 1, W), hx(9, 1, W)))
    L.append("zzInvMod %d c %s %s" % (W, hx(15 * B, 2, W), hx(45 * B + 75, 2, W)))
    # 13a8c37 (docs/C05.fix-2.diff)  zzDivMod / zzInvMod with a == 0 did not return
    L.append("zzInvMod %d c %s %s" % (W, hx(0, 2, W), hx(1 + (B - 2) * B, 2, W)))
    L.append("zzDivMod %d d %s %s %s" % (W, hx(5, 1, W), hx(0, 1, W), hx(9, 1, W)))
    L.append("zm %d plain d %s inv %s" % (W, ho(0xfffffffffffffffffffffffffffffeff, 16), ho(1, 16)))
    # 6b1ebef (fix-3)  zzExGCD: da == bb was reduced alone, Bezout identity lost
    for a, b in ((12, 8), (5, 1), (6, 2), (1 << (W + 3), 1 << W), (3 * B, B)):
        L.append("zzExGCD %d %s %s" % (W, hx(a, 2, W), hx(b, 2, W)))
    # 61f41d9 (fix-4)  zzJacobi with a shorter than b
    bj = int.from_bytes(bytes.fromhex("61b420ff9a84288a56309fc8a5b7ad16f213a29034f7d9a0081e1c5cf4cbe18d7fe3c235a875bbcf78fdea5f913a27b44ccf01"), "little")
    L.append("zzJacobi %d %s %s" % (W, hx(0x8A28849AFF20B461, 64 // W, W), hx(bj, 24 * 64 // W, W)))
    L.append("zzJacobi %d %s %s" % (W, hx(2, 1, W), hx(B * B + 7, 3, W)))
    # d5a222a (fix-5)  zzPowerModW: exponent 1 with a >= mod, exponent 0 with mod == 1
    L += ["zzPowerModW %d 10 1 3" % W, "zzPowerModW %d %d 1 %d" % (W, B - 2, B // 2 + 3), "zzPowerModW %d 5 0 1" % W]
    # 206667c (fix-6)  ppDiv: deg b a multiple of W (implicit top word), divisor 1
    L.append("ppDiv %d d %s %s" % (W, hx((1 << (16 * W)) - 2, 16, W), hx((1 << (12 * W)) | 0x87, 13, W)))
    L.append("ppDiv %d ra %s %s" % (W, hx((1 << (5 * W)) - 1, 5, W), hx((1 << W) | 3, 2, W)))
    L += ["ppDiv %d d %s %s" % (W, hx(5 + 7 * B, 2, W), hx(1, 1, W)), "ppMod %d d %s %s" % (W, hx(5, 1, W), hx(1, 1, W)),
          "ppMod %d ra %s %s" % (W, hx(5 + 7 * B, 2, W), hx(1, 1, W))]
    # 8e1147b (fix-7)  ppExGCD: gcd longer than [min(n, m)]d ; Bezout identity for even b
    L.append("ppExGCD %d %s %s" % (W, hx(1, 4, W), hx(0x37335540, 1, W)))
    L.append("ppExGCD %d %s %s" % (W, hx(0xc8787a78, 1, W), hx((1 << (6 * W + 6)) - 1, 8, W)))
    L.append("ppExGCD %d %s %s" % (W, hx(7, 1, W), hx(6 << W, 3, W)))
    # 19f9cad (fix-8)  gf2 inversion / division when m is a multiple of the word size
    for fld in ((256, 10, 5, 2), (128, 7, 2, 1), (192, 7, 2, 1)):
        no = fld[0] // 8
        L.append("gf2 %d %d %d %d %d d inv %s" % ((W,) + fld + (ho((1 << fld[0]) - 5, no),)))
        L.append("gf2 %d %d %d %d %d cb div %s %s" % ((W,) + fld + (ho(3, no), ho(1 << (fld[0] - 1), no))))
    return L


def generate(ctx, W):
    r = random.Random(ctx.rng.getrandbits(64))
    g = G(r, W, ctx.tier)
    q = 3 if ctx.tier == "quick" else 10
    g.words(60 * q)
    g.ww(60 * q)
    g.ww_sweep()
    g.zz_add(120 * q)
    g.zz_mul(80 * q)
    g.zz_gcd(40 * q)
    g.zz_mod(100 * q)
    g.zz_red(100 * q)
    g.zz_rand(30 * q)
    g.zm(60 * q)
    g.pp(40 * q)
    g.gf2(30 * q)
    return g


# ----------------------------------------------------------------------------- two-pass ops

RAW = {"zzExGCD": "zzExGCD?", "ppExGCD": "ppExGCD?", "zzAlmostInvMod": "zzAlmostInvMod?"}


def complete(ctx, exe, lines):
    """ops whose header does not determine the output uniquely (Bezout coefficients, the exponent k of
    the almost inverse): pass 1 asks the implementation for its outputs, pass 2 (the differential)
    has the implementation confirm them and the specification check the header's relation."""
    idx = [i for i, l in enumerate(lines) if l.split(" ", 1)[0] in RAW]
    if not idx:
        return lines
    raw = [lines[i] for i in idx]
    outs = []
    import subprocess
    while len(outs) < len(raw):                       # an abort loses only the op that aborted
        try:
            o, err, rc = ctx.run_lines(exe, raw[len(outs):])
        except subprocess.TimeoutExpired:
            outs += ["CRASH"] * (len(raw) - len(outs))
            break
        if rc == 0 and len(o) == len(raw) - len(outs):
            outs += o
            break
        good = o[:-1] if o and len(o) <= len(raw) - len(outs) else o[:0]
        outs += good + ["CRASH"]
    out = list(lines)
    for j, i in enumerate(idx):
        t = lines[i].split(" ")
        res = outs[j] if j < len(outs) else "CRASH"
        out[i] = " ".join([RAW[t[0]]] + t[1:] + res.split(" "))
    return out


def diff_all(ctx, exe, lines, cfg):
    """ctx.diff_run stops at a sanitizer abort; continue behind the aborting op (at most 12 times)"""
    import functools, subprocess
    mism, c_all, l_all, base = [], [], [], 0
    rest = lines
    if not isinstance(ctx.run_lines, functools.partial):
        ctx.run_lines = functools.partial(ctx.run_lines, timeout=300 if ctx.tier == "quick" else 1200)
    for _ in range(12):
        try:
            m, c, l = ctx.diff_run(exe, rest, cfg)
        except subprocess.TimeoutExpired:
            # a call that does not return although every op returned when the stream was first screened
            # (drop_hangs): behaviour depends on memory contents outside the operands
            ctx.violation("stream:no-return", "# property C05: the harness did not finish the op stream of configuration %s "
                          "(a library call does not return; not reproducible op by op)\ncfg %s\n" % (cfg, cfg), True,
                          "[%s] a library call does not return on the op stream (state-dependent)" % cfg)
            break
        mism += [(base + i, op, co, lo) for i, op, co, lo in m]
        c_all += c
        l_all += l
        if len(c) == len(rest):
            break
        base += len(c)
        rest = rest[len(c):]
    ctx.cov["ops_" + cfg] = len(c_all)
    return mism, c_all, l_all


def drop_hangs(ctx, exe, lines, budget=120):
    """A library call that does not return is a result too: find such op lines (timeout + bisection),
    return (lines without them, [hanging lines]).  Bounded: after 12 located hangs every further chunk
    that times out is dropped as a whole (its first line is reported)."""
    import subprocess
    env = dict(os.environ, ASAN_OPTIONS="detect_leaks=0:abort_on_error=0:allocator_may_return_null=1")

    def ok(chunk, tmo):
        try:
            subprocess.run([exe], input="\n".join(chunk) + "\n", capture_output=True, text=True, timeout=tmo, env=env)
            return True
        except subprocess.TimeoutExpired:
            return False
    if ok(lines, budget):
        return lines, []
    hangs, keep = [], []
    step = 300
    for i in range(0, len(lines), step):
        chunk = lines[i:i + step]
        if ok(chunk, 12):
            keep += chunk
        elif len(hangs) >= 12:
            hangs.append(chunk[0])
        else:
            for l in chunk:
                if ok([l], 4):
                    keep.append(l)
                else:
                    hangs.append(l)
    return keep, hangs


# ----------------------------------------------------------------------------- search oracle

def oracle(op, c_out):
    """Property itself evaluated on the implementation's output with Python big integers.
    Returns None if the output satisfies the header formula (or the op has no oracle here),
    else a description."""
    t = op.split(" ")
    f, W = t[0], int(t[1]) if t[1].isdigit() else 0
    a = t[2:]
    o = c_out.split(" ")
    B = 1 << W if W else 0
    try:
        if c_out.startswith("CRASH"):
            return "implementation aborted: " + c_out
        two = lambda: o[0] == o[1]
        if f in ("zzAddMod", "zzSubMod", "zzAddWMod", "zzSubWMod", "zzNegMod", "zzDoubleMod", "zzHalfMod",
                 "zzRedCrand", "zzRedBarr", "zzRedMont", "zzRedCrandMont"):
            if not two():
                return "SAFE and FAST editions differ: %s vs %s" % (o[0], o[1])
        if f in ("wwEq", "wwCmp", "wwCmp2", "wwCmpW", "wwIsZero", "wwIsW", "wwIsRepW", "zzIsSumEq", "zzIsSumWEq") and not two():
            return "SAFE and FAST editions differ"
        if f in ("zzAdd", "zzSub"):
            x, y, n = unhex(a[1]), unhex(a[2]), nwords(a[1], W)
            if a[0] in ("ab", "cab"):
                y = x
            e = x + y if f == "zzAdd" else x - y
            N = 1 << (n * W)
            want = (e % N, (e // N) if f == "zzAdd" else (1 if e < 0 else 0))
            if (unhex(o[0]), int(o[1])) != want:
                return "expected %s %d" % (hx(want[0], n, W), want[1])
        elif f in ("zzAddMod", "zzSubMod", "zzMulMod"):
            x, y, m, n = unhex(a[1]), unhex(a[2]), unhex(a[3]), nwords(a[1], W)
            if a[0] in ("ab", "cab"):
                y = x
            e = {"zzAddMod": x + y, "zzSubMod": x - y, "zzMulMod": x * y}[f] % m
            if unhex(o[0]) != e:
                return "expected %s%s" % (hx(e, n, W), " (result >= mod)" if unhex(o[0]) >= m else "")
        elif f in ("zzAddWMod", "zzSubWMod", "zzMulWMod"):
            x, w, m, n = unhex(a[1]), int(a[2]), unhex(a[3]), nwords(a[1], W)
            e = {"zzAddWMod": x + w, "zzSubWMod": x - w, "zzMulWMod": x * w}[f] % m
            if unhex(o[0]) != e:
                return "expected %s%s" % (hx(e, n, W), " (result >= mod)" if unhex(o[0]) >= m else "")
        elif f in ("zzNegMod", "zzDoubleMod", "zzHalfMod", "zzSqrMod", "zzInvMod"):
            x, m, n = unhex(a[1]), unhex(a[2]), nwords(a[1], W)
            if f == "zzHalfMod":
                ok = unhex(o[0]) < m and 2 * unhex(o[0]) % m == x
                e = None
            elif f == "zzInvMod":
                e = pow(x, -1, m) if math.gcd(x, m) == 1 else 0
                ok = unhex(o[0]) == e
            else:
                e = {"zzNegMod": -x, "zzDoubleMod": 2 * x, "zzSqrMod": x * x}[f] % m
                ok = unhex(o[0]) == e
            if not ok:
                return "expected %s" % (hx(e, n, W) if e is not None else "a / 2 mod m")
        elif f == "zzDivMod":
            d, x, m, n = unhex(a[1]), unhex(a[2]), unhex(a[3]), nwords(a[1], W)
            e = d * pow(x, -1, m) % m if math.gcd(x, m) == 1 else 0
            if unhex(o[0]) != e:
                return "expected %s" % hx(e, n, W)
        elif f == "zzAlmostInvMod?":
            x, m, b, k = unhex(a[0]), unhex(a[1]), unhex(a[2]), int(a[3])
            if math.gcd(x, m) != 1:
                if b != 0:
                    return "gcd(a, mod) != 1 but b != 0"
            elif b != pow(x, -1, m) * pow(2, k, m) % m or not (m.bit_length() <= k <= 2 * m.bit_length()):
                return "b != a^-1 2^k mod m or k out of range"
        elif f in ("zzRed", "zzRedCrand", "zzRedBarr"):
            x, m, n = unhex(a[0]), unhex(a[1]), nwords(a[1], W)
            if unhex(o[0]) != x % m:
                return "expected %s%s" % (hx(x % m, n, W), " (result >= mod)" if unhex(o[0]) >= m else "")
        elif f in ("zzRedMont", "zzRedCrandMont"):
            x, m, n = unhex(a[0]), unhex(a[1]), nwords(a[1], W)
            e = x * pow(1 << (n * W), -1, m) % m
            if unhex(o[0]) != e:
                return "expected %s%s" % (hx(e, n, W), " (result >= mod)" if unhex(o[0]) >= m else "")
        elif f in ("zzDiv", "zzMod"):
            x, y, m = unhex(a[1]), unhex(a[2]), nwords(a[2], W)
            if f == "zzDiv":
                if (unhex(o[0]), unhex(o[1])) != (x // y, x % y):
                    return "expected q=%x r=%x" % (x // y, x % y)
            elif unhex(o[0]) != x % y:
                return "expected %s" % hx(x % y, m, W)
        elif f in ("zzMul", "zzSqr", "ppMul", "ppSqr"):
            if f == "zzMul":
                x, y = unhex(a[1]), unhex(a[2])
                e = x * (x if a[0] == "ab" else y)
            elif f == "zzSqr":
                e = unhex(a[0]) ** 2
            elif f == "ppMul":
                x, y = unhex(a[1]), unhex(a[2])
                e = clmul(x, x if a[0] == "ab" else y)
            else:
                e = clmul(unhex(a[0]), unhex(a[0]))
            if unhex(o[0]) != e:
                return "expected %x" % e
        elif f in ("zzMulW", "zzDivW"):
            x, w, n = unhex(a[1]), int(a[2]), nwords(a[1], W)
            N = 1 << (n * W)
            e = (x * w % N, x * w // N) if f == "zzMulW" else (x // w, x % w)
            if (unhex(o[0]), int(o[1])) != e:
                return "expected %s %d" % (hx(e[0], n, W), e[1])
        elif f in ("zzModW", "zzModW2"):
            if int(o[0]) != unhex(a[0]) % int(a[1]):
                return "expected %d" % (unhex(a[0]) % int(a[1]))
        elif f in ("zzGCD", "zzLCM"):
            x, y = unhex(a[0]), unhex(a[1])
            e = math.gcd(x, y) if f == "zzGCD" else x * y // math.gcd(x, y)
            if unhex(o[0]) != e:
                return "expected %x" % e
        elif f == "zzExGCD?":
            x, y, d, da, db = [unhex(v) for v in a[:5]]
            if d != math.gcd(x, y) or da * x - db * y != d:
                return "da * a - db * b != d or d != gcd(a, b)"
        elif f == "ppExGCD?":
            x, y, d, da, db = [unhex(v) for v in a[:5]]
            if d != pgcd(x, y) or clmul(da, x) ^ clmul(db, y) != d:
                return "a da + b db != d or d != gcd(a, b)"
        elif f in ("ppDiv", "ppMod"):
            x, y = unhex(a[1]), unhex(a[2])
            q, rr = pdivmod(x, y)
            if f == "ppDiv" and (unhex(o[0]), unhex(o[1])) != (q, rr):
                return "expected q=%x r=%x" % (q, rr)
            if f == "ppMod" and unhex(o[0]) != rr:
                return "expected r=%x" % rr
        elif f == "ppRed":
            if unhex(o[0]) != pdivmod(unhex(a[0]), unhex(a[1]))[1]:
                return "expected %x" % pdivmod(unhex(a[0]), unhex(a[1]))[1]
        elif f in ("ppRedTrinomial", "ppRedPentanomial", "ppRedBelt"):
            if f == "ppRedBelt":
                mod = (1 << 128) | 0x87
            else:
                mod = 1
                for e in a[1:]:
                    mod |= 1 << int(e)
            if unhex(o[0]) != pdivmod(unhex(a[0]), mod)[1]:
                return "expected %x" % pdivmod(unhex(a[0]), mod)[1]
        elif f in ("ppMulMod", "ppSqrMod"):
            if f == "ppMulMod":
                x, y, m = unhex(a[1]), unhex(a[2]), unhex(a[3])
                if a[0] in ("ab", "cab"):
                    y = x
            else:
                x, m = unhex(a[1]), unhex(a[2])
                y = x
            e = pdivmod(clmul(x, y), m)[1]
            if unhex(o[0]) != e:
                return "expected %x" % e
        elif f == "zm" or f == "gf2":
            return ring_oracle(f, W, a, o)
        elif f in ("wwShLo", "wwShHi", "wwTrimLo", "wwTrimHi"):
            x, s, n = unhex(a[0]), int(a[1]), nwords(a[0], W)
            N = 1 << (n * W)
            e = {"wwShLo": x >> s, "wwShHi": (x << s) % N, "wwTrimLo": (x >> s) << s, "wwTrimHi": x % (1 << s)}[f]
            if unhex(o[0]) != e:
                return "expected %s" % hx(e, n, W)
        elif f in ("wwGetBits", "wwSetBits"):
            x, pos, width, n = unhex(a[0]), int(a[1]), int(a[2]), nwords(a[0], W)
            if f == "wwGetBits":
                if int(o[0]) != (x >> pos) % (1 << width):
                    return "expected %d" % ((x >> pos) % (1 << width))
            else:
                v = int(a[3]) % (1 << width)
                e = x - (((x >> pos) % (1 << width)) << pos) + (v << pos)
                if unhex(o[0]) != e:
                    return "expected %s (bits outside the field changed or field wrong)" % hx(e, n, W)
        elif f in ("zzAdd2", "zzSub2"):
            y, x, n = unhex(a[1]), unhex(a[2]), nwords(a[1], W)          # b op= a
            if a[0] == "ab":
                x = y
            N = 1 << (n * W)
            e = y + x if f == "zzAdd2" else y - x
            want = (e % N, e // N if f == "zzAdd2" else (1 if e < 0 else 0))
            if (unhex(o[0]), int(o[1])) != want:
                return "expected %s %d" % (hx(want[0], n, W), want[1])
        elif f in ("zzAddW", "zzSubW", "zzAddW2", "zzSubW2"):
            x, w, n = (unhex(a[1]), int(a[2]), nwords(a[1], W)) if f in ("zzAddW", "zzSubW") else (unhex(a[0]), int(a[1]), nwords(a[0], W))
            N = 1 << (n * W)
            e = x + w if "Add" in f else x - w
            if n and (unhex(o[0]), int(o[1])) != (e % N, e // N if "Add" in f else (1 if e < 0 else 0)):
                return "expected %s" % hx(e % N, n, W)
        elif f == "zzAdd3":
            x, y = unhex(a[1]), unhex(a[2])
            k = max(nwords(a[1], W), nwords(a[2], W))
            if (unhex(o[0]), int(o[1])) != ((x + y) % (1 << (k * W)), (x + y) >> (k * W)):
                return "expected %s" % hx(x + y, k, W)
        elif f == "zzNeg":
            x, n = unhex(a[1]), nwords(a[1], W)
            if unhex(o[0]) != (-x) % (1 << (n * W)):
                return "expected %s" % hx(-x, n, W)
        elif f in ("wwCmp", "wwCmp2", "wwEq"):
            x, y = unhex(a[0]), unhex(a[1])
            e = (1 if x == y else 0) if f == "wwEq" else (x > y) - (x < y)
            if int(o[0]) != e:
                return "expected %d" % e
        elif f == "zzIsSumEq":
            if int(o[0]) != (1 if unhex(a[1]) + unhex(a[2]) == unhex(a[0]) else 0):
                return "wrong flag"
        elif f == "zzJacobi":
            x, y = unhex(a[0]), unhex(a[1])
            e = jacobi_ref(x, y)
            if int(o[0]) != e:
                return "Jacobi symbol is %d" % e
        elif f == "zzSqrt":
            x, n = unhex(a[0]), nwords(a[0], W)
            e = math.isqrt(x)
            if (unhex(o[0]), int(o[1])) != (e, 1 if e * e == x else 0):
                return "expected %x %d" % (e, e * e == x)
        elif f == "zzPowerMod":
            x, e, m = unhex(a[0]), unhex(a[1]), unhex(a[2])
            if unhex(o[0]) != pow(x, e, m):
                return "expected %x" % pow(x, e, m)
        elif f == "zzPowerModW":
            if int(o[0]) != pow(int(a[0]), int(a[1]), int(a[2])):
                return "expected %d" % pow(int(a[0]), int(a[1]), int(a[2]))
        elif f == "ppGCD":
            if unhex(o[0]) != pgcd(unhex(a[0]), unhex(a[1])):
                return "expected %x" % pgcd(unhex(a[0]), unhex(a[1]))
        elif f in ("ppInvMod", "ppDivMod"):
            d, x, m = (1, unhex(a[1]), unhex(a[2])) if f == "ppInvMod" else (unhex(a[1]), unhex(a[2]), unhex(a[3]))
            got = unhex(o[0])
            if pgcd(x, m) != 1:
                if got != 0:
                    return "gcd(a, mod) != 1 but result != 0"
            elif got.bit_length() >= m.bit_length() or pdivmod(clmul(got, x), m)[1] != pdivmod(d, m)[1]:
                return "b * a != divident mod mod"
        elif f in ("wwShLoCarry", "wwShHiCarry"):
            x, sft, c, n = unhex(a[0]), int(a[1]), int(a[2]), nwords(a[0], W)
            N = 1 << (n * W)
            if f == "wwShLoCarry":
                v = x + c * N
                e = ((v >> sft) % N, ((v << W) >> sft) % B)
            else:
                v = c + x * B
                e = (((v << sft) >> W) % N, ((v << sft) >> ((n + 1) * W)) % B)
            if (unhex(o[0]), int(o[1])) != e:
                return "expected %s %d" % (hx(e[0], n, W), e[1])
        elif f in ("zzRandMod", "zzRandNZMod"):
            m, n = unhex(a[0]), nwords(a[0], W)
            tape = b"" if a[1] == "-" else bytes.fromhex(a[1])
            l = m.bit_length()
            c = (l + 7) // 8
            nz = f == "zzRandNZMod"
            tries = 129 if nz and l <= 16 else 65
            want = None
            for j in range(tries):
                v = int.from_bytes((tape[j * c:(j + 1) * c] + bytes(c))[:c], "little") % (1 << l)
                if v < m and not (nz and v == 0):
                    want = ["1", hx(v, n, W), str((j + 1) * c)]
                    break
            if want is None:
                want = ["0", str(tries * c)]
            if o != want:
                return "expected " + " ".join(want)
        elif f == "wwNAF":
            x, w, n = unhex(a[0]), int(a[1]), nwords(a[0], W)
            size, code = int(o[0]), unhex(o[1])
            # a zero symbol is one 0 bit, a non-zero one is w bits sign||magnitude
            digits, pos = [], 0
            for _ in range(size):
                if (code >> pos) & 1 == 0:
                    digits.append(0)
                    pos += 1
                else:
                    d = (code >> pos) & ((1 << w) - 1)
                    digits.append(-(d & ((1 << (w - 1)) - 1)) if d >> (w - 1) else d)
                    pos += w
            digits.reverse()                                   # the code of a_{l-1} comes first (lowest bits)
            if sum(d << i for i, d in enumerate(digits)) != x:
                return "NAF digits do not sum to a"
            if any(d and d % 2 == 0 for d in digits) or (x and digits[-1] == 0):
                return "NAF digit not odd / leading zero"
            nzpos = [i for i, d in enumerate(digits) if d]
            if any(q - p < w for p, q in zip(nzpos, nzpos[1:-1])):
                return "two non-zero NAF digits within a window"
        elif f == "u":
            bits, x = int(t[1]), int(t[2])
            want = u_ref(bits, x)
            if o != want:
                return "expected " + " ".join(want)
        elif f == "word":
            want = u_ref(W, int(a[0]))
            if o != want:
                return "expected " + " ".join(want)
    except Exception as e:      # malformed output counts as a failure of the implementation's answer
        return "unparsable implementation output (%s)" % e
    return None


def jacobi_ref(a, n):
    a %= n
    result = 1
    while a != 0:
        while a % 2 == 0:
            a //= 2
            if n % 8 in (3, 5):
                result = -result
        a, n = n, a
        if a % 4 == 3 and n % 4 == 3:
            result = -result
        a %= n
    return result if n == 1 else 0


def u_ref(bits, x):
    M = (1 << bits) - 1
    x &= M
    rev = int.from_bytes(x.to_bytes(bits // 8, "little"), "big")
    bitrev = int(format(x, "0%db" % bits)[::-1], 2)
    wt = bin(x).count("1")
    ctz = bits if x == 0 else (x & -x).bit_length() - 1
    clz = bits - x.bit_length()
    h = bits // 2
    sh = 0
    for i in range(h):
        sh |= ((x >> i) & 1) << (2 * i)
        sh |= ((x >> (h + i)) & 1) << (2 * i + 1)
    de = 0
    for i in range(h):
        de |= ((x >> (2 * i)) & 1) << i
        de |= ((x >> (2 * i + 1)) & 1) << (h + i)
    ni = str((-pow(x, -1, 1 << bits)) % (1 << bits)) if x & 1 else "-"
    return [str(v) for v in (rev, bitrev, wt, wt % 2, ctz, ctz, clz, clz, sh, de)] + [ni]


def ring_oracle(f, W, a, o):
    if o[0] in ("no-ring", "no-field"):
        return None
    if f == "zm":
        kind, pat, mod, op, args = a[0], a[1], unhex(a[2]), a[3], a[4:]
        no = len(a[2]) // 2
        exported = o[-1]
        if exported in ("not-in", "bad-op") or op in ("from",):
            if op == "from" and o[2] == "1" and unhex(o[-1]) != unhex(args[0]):
                return "to(from(a)) != a"
            return None
        x = unhex(args[0]) if args else 0
        y = unhex(args[1]) if len(args) > 1 and op != "power" else 0
        if pat in ("ab", "cab") and op in ("add", "sub", "mul"):
            y = x
        if op == "unity":
            e = 1 % mod
        elif op == "add":
            e = (x + y) % mod
        elif op == "sub":
            e = (x - y) % mod
        elif op == "neg":
            e = -x % mod
        elif op == "mul":
            e = x * y % mod
        elif op == "sqr":
            e = x * x % mod
        elif op == "inv":
            e = pow(x, -1, mod)
        elif op == "div":
            e = x * pow(y, -1, mod) % mod
        elif op == "power":
            e = pow(x, unhex(args[1]), mod)
        else:
            return None
        if unhex(exported) != e:
            return "ring %s: expected %s%s" % (op, ho(e, no), " (result >= mod)" if unhex(exported) >= mod else "")
        return None
    m, k, l, l1, pat, op, args = int(a[0]), int(a[1]), int(a[2]), int(a[3]), a[4], a[5], a[6:]
    fpoly = (1 << m) | (1 << k) | (1 << l) | (1 << l1) | 1 if l else (1 << m) | (1 << k) | 1
    no = (m + 7) // 8
    if o[-1] in ("not-in", "bad-op") or op in ("from", "tr") or (op == "qsolve" and o[2] != "1"):
        return None
    x = unhex(args[0])
    y = unhex(args[1]) if len(args) > 1 else 0
    if pat in ("ab", "cab") and op in ("add", "mul"):
        y = x
    red = lambda v: pdivmod(v, fpoly)[1]
    got = unhex(o[-1])
    if op == "add" and got != x ^ y:
        return "gf2 add"
    if op == "mul" and got != red(clmul(x, y)):
        return "gf2 mul: expected %s" % ho(red(clmul(x, y)), no)
    if op == "sqr" and got != red(clmul(x, x)):
        return "gf2 sqr: expected %s" % ho(red(clmul(x, x)), no)
    if op == "inv" and pgcd(x, fpoly) == 1 and red(clmul(got, x)) != 1:
        return "gf2 inv: a * a^-1 != 1"
    if op == "div" and pgcd(y, fpoly) == 1 and red(clmul(got, y)) != x:
        return "gf2 div: (d / a) * a != d"
    if op == "qsolve" and o[2] == "1":
        if red(clmul(got, got)) ^ red(clmul(x, got)) ^ y != 0:
            return "gf2 qsolve: x^2 + a x + b != 0"
    return None


# ----------------------------------------------------------------------------- run / replay

CONFIGS_QUICK = [("asan", 64), ("w32", 32)]
CONFIGS_THOROUGH = [("asan", 64), ("w32", 32), ("fast", 64), ("w32-fast", 32), ("asan-dbg", 64)]


def key_of(op):
    t = op.split(" ")
    if t[0] in ("zm", "gf2"):
        return "%s:%s" % (t[0], t[2] + ":" + t[5] if t[0] == "zm" else t[7])
    return t[0]


def replay_text(cfg, op, c, l, why):
    return "\n".join(["# property C05: implementation output differs from the exact-arithmetic model",
                      "# %s" % why, "cfg %s" % cfg, "op %s" % op, "impl %s" % c, "model %s" % l]) + "\n"


ARITH_HEADERS = ["core/u16.h", "core/u32.h", "core/u64.h", "core/word.h", "math/ww.h", "math/zz.h", "math/pp.h", "math/gf2.h",
                 "math/zm.h", "math/qr.h", "math/gfp.h"]


def edition_pairs():
    """SAFE(f)/FAST(f) pairs declared in the arithmetic headers of the current tree, and the ones that have BOTH
    a `f_safe` and a `f_fast` definition in the Lean models (a new pair without models fails closed)."""
    import re
    names = set()
    for h in ARITH_HEADERS:
        p = os.path.join(vcommon.REPO, "include", "bee2", h)
        if os.path.exists(p):
            names |= set(re.findall(r"\bSAFE\((\w+)\)", open(p, encoding="utf-8", errors="replace").read()))
    names -= {"f", "tag"}
    defs = set()
    d = os.path.join(vcommon.LEAN, "Bee2V", "C05")
    for f in os.listdir(d):
        if f.startswith("Model") and f.endswith(".lean"):
            defs |= set(re.findall(r"^def (\w+)", open(os.path.join(d, f)).read(), flags=re.M))
    missing = sorted(n for n in names if not (n + "_safe" in defs and n + "_fast" in defs))
    return sorted(names), missing


def run(ctx):
    present = [p for p in PROPS if os.path.exists(os.path.join(vcommon.LEAN, p))]
    proof_ok, log = ctx.prove([p[:-5].replace("/", ".") for p in present], present)
    for rel in PROPS_CROSS:
        if not os.path.exists(os.path.join(vcommon.LEAN, rel)):
            continue
        n_obl = len(ctx.obligations)
        ok2, log2 = ctx.prove([rel[:-5].replace("/", ".")], [rel], drivers=[])
        if not ok2:
            import re
            errs = set(re.findall(r"error: (\S+?\.lean):\d+", log2))
            if errs and all(not e.startswith("Bee2V/C05/") for e in errs):
                ctx.notes.append("cross-area module %s not checked in this run: build error in %s" % (rel, ", ".join(sorted(errs))[:300]))
                del ctx.obligations[n_obl:]
                ctx.cov.pop("lake_errors", None)
            else:
                proof_ok = False
                log += "\n" + log2
    pairs, missing = edition_pairs()
    ctx.cov["safe_fast_pairs_in_headers"] = len(pairs)
    ctx.cov["safe_fast_pairs_without_model"] = missing
    if missing:
        proof_ok = False
        log += "\nerror: SAFE/FAST pairs declared in the headers without a pair of Lean models: " + ", ".join(missing)
        ctx.cov.setdefault("lake_errors", []).append("pairs without model: " + ", ".join(missing))
    cfgs = CONFIGS_QUICK if ctx.tier == "quick" else CONFIGS_THOROUGH
    import functools
    ctx.run_lines = functools.partial(ctx.run_lines, timeout=300 if ctx.tier == "quick" else 1200)
    streams = {}
    total_mism = 0
    reported = set()
    for cfg, W in cfgs:
        exe = ctx.cc("harness/c05.c", cfg)
        if W not in streams:
            g = generate(ctx, W)
            streams[W] = (g, corpus(W) + g.lines)
            if W == 64:
                streams[W][1].extend("u 16 %d" % x for x in range(65536))      # complete enumeration of the 16-bit helpers
                ctx.cov["u16_enumerated_completely"] = True
        g, lines = streams[W]
        lines, hangs = drop_hangs(ctx, exe, lines)
        for h in hangs[:6]:
            ctx.violation(key_of(h) + ":no-return", replay_text(cfg, h, "(does not return within 10 s)", "-", "the call does not terminate"), True,
                          "[%s] %s : the library call does not return" % (cfg, h[:300]))
        lines = complete(ctx, exe, lines)
        mism, c_out, l_out = diff_all(ctx, exe, lines, cfg)
        total_mism += len(mism)
        ctx.cov["functions_" + cfg] = len(g.cov)
        for i, op, c, l in mism:
            k = key_of(op)
            if (cfg, k) in reported or len(reported) > 30:
                continue
            reported.add((cfg, k))
            why = oracle(op, c)
            if why:
                ctx.violation(k, replay_text(cfg, op, c, l, why), True,
                              "[%s] %s\n  impl : %s\n  model: %s\n  %s" % (cfg, op[:300], c[:200], l[:200], why))
            else:
                ctx.violation(k, replay_text(cfg, op, c, l, "no property-level oracle confirms the difference (model or implementation?)"), False,
                              "[%s] %s\n  impl : %s\n  model: %s" % (cfg, op[:300], c[:200], l[:200]))
        # the property itself on the implementation's outputs, independently of the model (sampled: all lines with an oracle)
        if not mism:
            bad = 0
            for op, c in zip(lines, c_out):
                why = oracle(op, c)
                if why:
                    bad += 1
                    if bad <= 3:
                        ctx.violation(key_of(op), replay_text(cfg, op, c, "(agrees)", why), True,
                                      "[%s] %s -> %s : %s (model agrees with the implementation: model is wrong too)" % (cfg, op[:300], c[:200], why))
        if W == 64 and cfg == "asan":
            k = min(len(lines), len(c_out))
            ctx.samples += [{"op": lines[i][:200], "impl": c_out[i][:200]} for i in range(0, k, max(1, k // 6))][:6]
            ctx.cov["ops_by_function"] = dict(sorted(g.cov.items()))
            ctx.cov["distinct_nontrivial"] = len(set(zip((l.split(" ")[0] for l in lines), c_out)))
    ctx.cov["correspondence_disagreements"] = total_mism
    if not proof_ok and not ctx.violations:
        ctx.violation("proof", "# property C05: the theorems of Bee2V/C05/Props*.lean no longer check, and the correspondence run "
                      "found no input on which the implementation deviates from exact arithmetic.\n" +
                      "\n".join("# " + l for l in log.split("\n") if "error" in l)[:3000], False,
                      "theorems no longer check: " + "; ".join(ctx.cov.get("lake_errors", []))[:400])
    return ctx.finish(
        level="proof",
        assumptions=[
            "theorems are about hand-written code-shaped Lean models (ModelAdd/ModelMul/ModelBits/ModelWord); that the models "
            "compute what the C computes is CHECKED by the correspondence run (same op lines through the real library and "
            "through the compiled models), not proved",
            "functions without a code-shaped model (Knuth division, gcd family, Barrett, zm/qr dispatch, pp/gf2, sqrt, Jacobi, "
            "power, NAF) are tied to the exact-arithmetic spec by correspondence only",
            "aliasing (output == input) is exercised by the harness patterns; the list-based models do not represent addresses",
            "the C compiler and the word size: 64- and 32-bit words are run, 16-bit words are proved (generic w) but never run",
        ],
        rule="per function family: lengths 0..20 words (24 for division), values from boundary pools (0, 1, B-1, B/2, B^n-1, 2^k, "
             "2^k-1, runs of ones, per-word boundary mixes, random), moduli of every class (odd/even, Crandall, near-Crandall, "
             "top bit set/clear, prime, composite), residues 0/1/mod-1/mod/2 and pairs with a+b in {mod-1, mod, mod+1, B^n}, "
             "reduction inputs k*mod / mod*R-1 / (mod-1)^2, division operands constructed backwards for quotient digit B-1 and the "
             "add-back branch with un-normalised divisors, every Karatsuba size, alias patterns d/ca/cb/ab/cab; all 65536 values of every 16-bit helper (complete); "
             "distinct_nontrivial = number of distinct (function, output) pairs in the 64-bit stream",
        distinct=ctx.cov.get("distinct_nontrivial", 0),
        exhaustive=False)


def replay(ctx, path):
    cfg, op = "asan", None
    for line in open(path):
        w = line.rstrip("\n").split(" ", 1)
        if w[0] == "cfg":
            cfg = w[1]
        elif w[0] == "op":
            op = w[1]
    if op is None:
        print("replay file names a theorem, not an input: nothing to execute")
        return 0
    exe = ctx.cc("harness/c05.c", cfg)
    t = op.split(" ")
    if t[0] in RAW:
        op = complete(ctx, exe, [op])[0]
    elif t[0] in RAW.values():
        # re-ask the implementation for its current outputs
        raw = [k for k, v in RAW.items() if v == t[0]][0]
        nin = {"zzExGCD": 2, "ppExGCD": 2, "zzAlmostInvMod": 2}[raw]
        op = complete(ctx, exe, [" ".join([raw] + t[1:2 + nin])])[0]
    if drop_hangs(ctx, exe, [op], 20)[1]:
        print("op   %s" % op)
        print("impl does not return within 20 s")
        print("property VIOLATED on the current tree: the call does not terminate")
        return 1
    out, err, rc = ctx.run_lines(exe, [op])
    c = out[0] if out and rc == 0 else "CRASH(rc=%d): %s" % (rc, err.strip().split("\n")[-1][:200])
    why = oracle(op, c)
    print("op   %s" % op)
    print("impl %s" % c)
    if why is None and os.path.exists(ctx.driver()):
        l, _, _ = ctx.run_lines(ctx.driver(), [op])
        print("model %s" % l[0])
        if l[0] != c:
            why = "differs from the exact-arithmetic model"
    print("property %s on the current tree%s" % ("VIOLATED" if why else "holds", (": " + why) if why else ""))
    return 1 if why else 0

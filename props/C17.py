"""C17 — token layer: CV certificates, secure messaging, password-protected containers detect tampering.

Proof: lean/Bee2V/C17/Props*.lean over the code-shaped models ModelSM / ModelCVC / ModelBpki
(belt from the C01 model, DER/APDU from the C08 model, dates from C12, the signature layer abstract with laws).
Tie (a): xlate/x_c17.py regenerates Bee2V/Gen/C17Src.lean from btok_sm.c, btok_cvc.c, bpki.c, apdu.c, bign96.c
         (parity of each of the four SM calls, minimal lengths, the Lc* bound, name/key lengths, OIDs, iteration
         minimum, bign96 curve) — the models and theorems use these constants.
Tie (b): harness/c17.c (real library, statics via #include) vs drv_c17 on the same op lines (staged: later
         stages are built from the implementation's own certificates / protected APDUs / containers).
Search oracle (implementation only, every run): Unwrap(Wrap x) == x, altered octet => rejected, wrong parity =>
         ERR_BAD_LOGIC for each of the four calls, counter = +1 mod 2^128, name/date rules against a Python
         reference (calendar from `datetime`), prefix/suffix-named issuer rejected, wrong password rejected.
"""
import os, re, datetime, concurrent.futures as cf
import vcommon
from vcommon import VERIF, REPO

PROPS = ["Bee2V/C17/PropsSM.lean", "Bee2V/C17/PropsCVC.lean", "Bee2V/C17/PropsBpki.lean"]
TARGETS = ["Bee2V.C17.PropsSM", "Bee2V.C17.PropsCVC", "Bee2V.C17.PropsBpki"]
CORPUS = os.path.join(VERIF, "gen", "c17_corpus.txt")

OK, BAD_INPUT, BAD_FORMAT, BAD_DATE, BAD_NAME, OUTOFRANGE, BAD_APDU = 0, 109, 306, 308, 309, 310, 312
BAD_SECKEY, BAD_PRIVKEY, BAD_PUBKEY, BAD_KEYPAIR, BAD_SHAREKEY, BAD_SIG, BAD_MAC, BAD_KEYTOKEN, BAD_LOGIC = \
    503, 504, 505, 506, 508, 510, 511, 513, 517


def regen(ctx):
    import importlib
    import x_c17
    importlib.reload(x_c17)
    ctx.regen("Bee2V/Gen/C17Src.lean", x_c17.generate(REPO))


# ----------------------------------------------------------------------------- helpers
def hx(b):
    return bytes(b).hex() if len(b) else "-"


def unhx(s):
    return b"" if s == "-" else bytes.fromhex(s)


def ctr_hex(v):
    return (v % (1 << 128)).to_bytes(16, "little").hex()


def date6(y, m, d):
    return bytes([y // 10 % 10, y % 10, m // 10, m % 10, d // 10, d % 10])


PRINTABLE = set(b"0123456789ABCDEFGHIJKLMNOPQRSTUVWXYZabcdefghijklmnopqrstuvwxyz '()+,-./:=?")


def name_ok(n):
    n = n.split(b"\0")[0]
    return 8 <= len(n) <= 12 and all(c in PRINTABLE for c in n)


def date_ok(d):
    if len(d) != 6 or any(x > 9 for x in d):
        return False
    try:
        datetime.date(2000 + 10 * d[0] + d[1], 10 * d[2] + d[3], 10 * d[4] + d[5])
        return True
    except ValueError:
        return False


def cvc_tok(c):
    return " ".join([hx(c["a"]), hx(c["h"]), hx(c["f"]), hx(c["u"]), hx(c["e"]), hx(c["g"]), hx(c["pk"])])


def mk(a, h, f, u, pk=b"", e=bytes(5), g=bytes(2)):
    return {"a": a, "h": h, "f": f, "u": u, "pk": pk, "e": e, "g": g}


def tlv(tag, val):
    n = len(val)
    if n < 128:
        L = bytes([n])
    else:
        k = (n.bit_length() + 7) // 8
        L = bytes([0x80 | k]) + n.to_bytes(k, "big")
    return bytes(tag) + L + bytes(val)


def oid_der(s):
    a = [int(x) for x in s.split(".")]
    arcs = [40 * a[0] + a[1]] + a[2:]
    out = b""
    for v in arcs:
        g = [v & 0x7F]
        v >>= 7
        while v:
            g.append(0x80 | (v & 0x7F))
            v >>= 7
        out += bytes(reversed(g))
    return tlv([6], out)


def int_der(v):
    """DER INTEGER of a non-negative value (minimal two's complement)"""
    k = max(1, (v.bit_length() + 8) // 8)
    return tlv([2], v.to_bytes(k, "big"))


PK_CURVE = {24: "1.2.112.0.2.0.34.101.45.3.0", 32: "1.2.112.0.2.0.34.101.45.3.1", 48: "1.2.112.0.2.0.34.101.45.3.2", 64: "1.2.112.0.2.0.34.101.45.3.3"}
SH_FIELD = {17: "1.2.112.0.2.0.34.101.60.2.1", 25: "1.2.112.0.2.0.34.101.60.2.2", 33: "1.2.112.0.2.0.34.101.60.2.3"}


def epki_len_ref(kind, n, it):
    """length of the EncryptedPrivateKeyInfo bpkiPrivkeyWrap / bpkiShareWrap must announce AND write (Python DER reference):
    it depends on the iteration count through the DER INTEGER iterCount (2 content octets up to 32767, 3 up to 8388607, ...)"""
    alg = oid_der("1.2.112.0.2.0.34.101.45.2.1") + oid_der(PK_CURVE[n]) if kind == "pk" else \
        oid_der("1.2.112.0.2.0.34.101.60.11") + oid_der(SH_FIELD[n])
    pki = tlv([0x30], int_der(0) + tlv([0x30], alg) + tlv([4], bytes(n)))
    prf = tlv([0x30], oid_der("1.2.112.0.2.0.34.101.47.12") + tlv([5], b""))
    kdf = tlv([0x30], oid_der("1.2.840.113549.1.5.12") + tlv([0x30], tlv([4], bytes(8)) + int_der(it) + prf))
    kwp = tlv([0x30], oid_der("1.2.112.0.2.0.34.101.31.73") + tlv([5], b""))
    encalg = tlv([0x30], oid_der("1.2.840.113549.1.5.13") + tlv([0x30], kdf + kwp))
    return len(tlv([0x30], encalg + tlv([4], bytes(len(pki) + 16))))


def body_der(c, auth_tag=(0x42,), ver=0, eid_present=None, esign_present=None, key_oid="1.2.112.0.2.0.34.101.45.2.1"):
    """CertificateBody as btokCVCBodyEnc writes it (Python reference used to craft malformed bodies)"""
    b = tlv([0x5F, 0x29], bytes([ver])) + tlv(auth_tag, c["a"])
    b += tlv([0x7F, 0x49], oid_der(key_oid) + tlv([3], b"\0" + c["pk"]))
    b += tlv([0x5F, 0x20], c["h"])
    if (any(c["e"]) if eid_present is None else eid_present):
        b += tlv([0x7F, 0x4C], oid_der("1.2.112.0.2.0.34.101.79.6.1") + tlv([4], c["e"]))
    b += tlv([0x5F, 0x25], c["f"]) + tlv([0x5F, 0x24], c["u"])
    if (any(c["g"]) if esign_present is None else esign_present):
        b += tlv([0x65], tlv([0x73], oid_der("1.2.112.0.2.0.34.101.79.8.1") +
                            tlv([0x7F, 0x4C], oid_der("1.2.112.0.2.0.34.101.79.6.2") + tlv([4], c["g"]))))
    return tlv([0x7F, 0x4E], b)


def alter(rng, b, i):
    """a different octet at position i (bit flip, +-1, 00/FF) """
    x = b[i]
    cands = [x ^ (1 << rng.randrange(8)), (x + 1) & 255, (x - 1) & 255, 0, 255, x ^ 0x80]
    cands = [c for c in cands if c != x]
    bb = bytearray(b)
    bb[i] = rng.choice(cands)
    return bytes(bb)


class Bag:
    """op lines with the oracle's expectation: want = None (correspondence only) | regex the C output must match"""

    def __init__(self):
        self.ops, self.want, self.key, self.what, self.lean = [], [], [], [], []

    def add(self, op, want=None, key="", what="", lean=True):
        self.ops.append(op)
        self.want.append(want)
        self.key.append(key)
        self.what.append(what)
        self.lean.append(lean)


def diff_par(ctx, exe, lines, use_lean, label, nproc=6):
    """C harness on all lines; the Lean driver (several processes) on the lines flagged in use_lean"""
    c_out, c_err, rc = ctx.run_lines(exe, lines)
    crashed = None
    if rc != 0 or len(c_out) != len(lines):
        k = min(len(c_out), len(lines) - 1)
        msg = c_err.strip().split("\n") or ["?"]
        summ = [l for l in msg if "ERROR" in l or "SUMMARY" in l or "Assertion" in l or "runtime error" in l][:3]
        crashed = k
        c_out = c_out[:k] + ["CRASH(rc=%d): %s" % (rc, " | ".join(summ) or msg[-1][:200])]
        lines, use_lean = lines[:k + 1], use_lean[:k + 1]
    idx = [i for i in range(len(lines)) if use_lean[i]]
    mism = []
    if idx and os.path.exists(ctx.driver()):
        n = max(1, min(nproc, len(idx) // 8))
        chunks = [idx[i::n] for i in range(n)]
        with cf.ThreadPoolExecutor(n) as ex:
            res = list(ex.map(lambda ch: ctx.run_lines(ctx.driver(), [lines[i] for i in ch]), chunks))
        for ch, (out, err, lrc) in zip(chunks, res):
            if lrc != 0 or len(out) != len(ch):
                raise RuntimeError("Lean driver failed (rc=%d) on %s: %s" % (lrc, label, err[-500:]))
            for i, o in zip(ch, out):
                if o != c_out[i]:
                    mism.append((i, lines[i], c_out[i], o))
    ctx.cov["ops_" + label] = len(lines)
    ctx.cov["ops_lean_" + label] = len(idx)
    ctx.cov["ops_total"] = ctx.cov.get("ops_total", 0) + len(lines)
    return mism, c_out, crashed


# ----------------------------------------------------------------------------- secure messaging
K0 = "00" * 32
# absent, short, 256 / 65536 specials, and extended values whose two octets DIFFER (a swapped or truncated encoding shows)
LE_FORMS = [0, 1, 255, 256, 257, 258, 300, 511, 512, 4096, 0x1234, 0xFF00, 65535, 65536]


def cdf_star_len(n, le):
    """len(CDF*) = [der(0x87, 02 || Y)] [der(0x97, Le)] der(0x8E, T) (Python reference)"""
    r = 10
    if n:
        r += len(tlv([0x87], bytes(n + 1)))
    if le:
        l = 1 if (n < 256 and le <= 256) else (2 if n else 3)
        r += 2 + l
    return r


def sm_cmd_ref(cla, ins, p1, p2, n, le):
    """regex of the protected command btokSMCmdWrap must write (independent Python encoding of the header, Lc*, the 0x87 /
    0x97 / 0x8E objects and Le*; the ciphertext and the tag are wildcards)"""
    f87 = (tlv([0x87], bytes(n + 1))[:-(n + 1)].hex() + "02" + "[0-9a-f]{%d}" % (2 * n)) if n else ""
    n87 = len(tlv([0x87], bytes(n + 1))) if n else 0
    if le == 0:
        f97 = b""
    elif n < 256 and le <= 256:
        f97 = bytes([0x97, 1, le & 255])
    elif n:
        f97 = bytes([0x97, 2, (le >> 8) & 255, le & 255])
    else:
        f97 = bytes([0x97, 3, 0, (le >> 8) & 255, le & 255])
    L = n87 + len(f97) + 10
    if le == 0:
        lc, lez = (bytes([L]) if L < 256 else bytes([0, L >> 8, L & 255])), b""
    elif le <= 256 and L < 256:
        lc, lez = bytes([L]), b"\0"
    else:
        lc, lez = bytes([0, L >> 8, L & 255]), b"\0\0"
    return "0 " + bytes([cla | 4, ins, p1, p2]).hex() + lc.hex() + f87 + f97.hex() + "8e08[0-9a-f]{16}" + lez.hex()


def sm_resp_ref(sw1, sw2, n):
    f87 = (tlv([0x87], bytes(n + 1))[:-(n + 1)].hex() + "02" + "[0-9a-f]{%d}" % (2 * n)) if n else ""
    return "0 " + f87 + "8e08[0-9a-f]{16}" + bytes([sw1, sw2]).hex()


def apdu_ref(cla, ins, p1, p2, cdf, le):
    """unprotected command APDU (ISO 7816-4 cases 1..4, short / extended)"""
    n = len(cdf)
    ext = n >= 256 or le > 256
    out = bytes([cla, ins, p1, p2])
    if n:
        out += (bytes([0, n >> 8, n & 255]) if ext else bytes([n])) + cdf
    if le:
        if not ext:
            out += bytes([le & 255])
        else:
            out += (b"" if n else b"\0") + bytes([(le >> 8) & 255, le & 255])
    return out


def cmd_expect(cla, ins, p1, p2, cdf, le):
    return r"0 %d \| 0 %d %d %d %d %s %d" % (len(cdf), cla, ins, p1, p2, hx(cdf), le)


def sm_stage1(ctx, bag, st):
    rng, quick = ctx.rng, ctx.tier == "quick"
    keys = [K0, rng.randbytes(32).hex(), bytes(range(32)).hex()]
    for k in keys:
        bag.add("smstart " + k)
    cvals = [0, 1, 2, 255, 256, (1 << 128) - 1, (1 << 128) - 2, (1 << 64) - 1, 1 << 64] + [(1 << (8 * k)) - 1 for k in range(1, 17)] + \
            [rng.getrandbits(128) for _ in range(10)] + [((1 << (8 * k)) - 1) << (8 * j) for k, j in [(3, 2), (5, 7), (15, 1)]]
    for v in cvals:
        bag.add("smctr " + ctr_hex(v), ctr_hex(v + 1), "sm:ctrinc", "btokSMCtrInc is not +1 modulo 2^128 (little-endian)")
    st["cw"] = []       # (index of the smcw op, key, ctr value, cmd tuple)
    lens = list(range(0, 301)) + [65500, 65515, 65516, 65517, 65519, 65520, 65521, 65534, 65535]
    if not quick:
        lens += [301 + 97 * i for i in range(40)] + [32767, 32768, 65000]
    odd_ctrs = [1, 3, 255, (1 << 128) - 1, (1 << 64) + 1]
    n_cla = 0
    for n in lens:
        boundary = n in (0, 1, 2, 254, 255, 256, 257) or 226 <= n <= 246 or n >= 65500
        les = LE_FORMS if boundary else [LE_FORMS[(n + j * 5) % 14] for j in range(2)]
        if n >= 65500 and quick:
            les = [0, 1, 65536, 0x1234] if n in (65516, 65517, 65520, 65521, 65535) else [0, 0xFF00][:1 + (n == 65500)]
        for le in les:
            key = keys[(n + le) % 3] if n < 1000 else K0
            cv = rng.choice(odd_ctrs) if n % 4 else (rng.getrandbits(128) | 1)
            cla = (n_cla * 8 + rng.randrange(4) + (n_cla // 32) * 0) & 0xFB
            n_cla += 1
            cmd = (cla, rng.randrange(256), rng.randrange(256), rng.randrange(256), rng.randbytes(n), le)
            line = "smcw %s %s %d %d %d %d %s %d" % (key, ctr_hex(cv), cmd[0], cmd[1], cmd[2], cmd[3], hx(cmd[4]), le)
            # accepted for protection unless CDF* is not representable (fix-1): then ERR_BAD_APDU; never anything else
            if cdf_star_len(n, le) > 65535:
                bag.add(line, str(BAD_APDU), "sm:cmdwrap:unrepresentable",
                        "btokSMCmdWrap accepted a command whose protected data field (%d octets) does not fit the two-octet Lc*" % cdf_star_len(n, le))
            else:
                bag.add(line, sm_cmd_ref(cmd[0], cmd[1], cmd[2], cmd[3], n, le), "sm:cmdwrap:accept",
                        "btokSMCmdWrap refused a valid unprotected command at an odd counter, or the protected octets (header, Lc*, 0x87 / 0x97 / 0x8E objects, Le*) differ from the reference encoding")
            st["cw"].append((len(bag.ops) - 1, key, cv, cmd))
            if n % 5 == 0 and n < 1000:
                # wrong parity: the documented refusal
                bag.add("smcw %s %s %d %d %d %d %s %d" % (key, ctr_hex(cv + 1), cmd[0], cmd[1], cmd[2], cmd[3], hx(cmd[4]), le),
                        str(BAD_LOGIC), "sm:cmdwrap:parity", "btokSMCmdWrap at an even counter must return ERR_BAD_LOGIC")
    # every CLA value (the protected ones are refused)
    for cla in range(256):
        want = str(BAD_APDU) if cla & 4 else sm_cmd_ref(cla, 1, 2, 3, 3, 7)
        bag.add("smcw %s %s %d 1 2 3 aabbcc 7" % (K0, ctr_hex(1), cla), want, "sm:cmdwrap:cla", "CLA handling of btokSMCmdWrap")
        if not cla & 4:
            st["cw"].append((len(bag.ops) - 1, K0, 1, (cla, 1, 2, 3, bytes.fromhex("aabbcc"), 7)))
    # full-octet sweeps of INS, P1, P2 (and of CLA above): the header must come back unchanged from wrap -> unwrap (stage 2)
    for pos in (1, 2, 3):
        for v in range(256):
            hdr = [0x80 if pos != 0 else 0, 0xA4, 0x04, 0x0C]
            hdr[pos] = v
            hdr[0] = (v * 8) & 0xF8 & 0xFB
            cdf = bytes([v]) if v % 3 else b""
            le = (0, 1, 256)[v % 3]
            bag.add("smcw %s %s %d %d %d %d %s %d" % (K0, ctr_hex(3), hdr[0], hdr[1], hdr[2], hdr[3], hx(cdf), le),
                    sm_cmd_ref(hdr[0], hdr[1], hdr[2], hdr[3], len(cdf), le), "sm:cmdwrap:hdr",
                    "btokSMCmdWrap altered INS / P1 / P2 (or CLA bits other than 0x04)")
            st["cw"].append((len(bag.ops) - 1, K0, 3, (hdr[0], hdr[1], hdr[2], hdr[3], cdf, le)))
    for le in (65537, 1 << 32):
        bag.add("smcw %s %s 0 1 2 3 aabbcc %d" % (K0, ctr_hex(1), le), str(BAD_APDU), "sm:cmdwrap:invalid", "invalid command accepted")
    bag.add("smcw %s %s 0 1 2 3 %s 0" % (K0, ctr_hex(1), "5a" * 65536), str(BAD_APDU), "sm:cmdwrap:invalid", "invalid command accepted")
    st["rw"] = []
    rlens = list(range(0, 301)) + [65535, 65536]
    if not quick:
        rlens += [301 + 89 * i for i in range(40)]
    for n in rlens:
        key = keys[n % 3] if n < 1000 else K0
        cv = rng.choice([0, 2, 254, (1 << 128) - 2]) if n % 4 else (rng.getrandbits(128) & ~1)
        resp = (rng.choice([0x90, 0x61, 0x6A, rng.randrange(256)]), rng.randrange(256), rng.randbytes(n))
        bag.add("smrw %s %s %d %d %s" % (key, ctr_hex(cv), resp[0], resp[1], hx(resp[2])), sm_resp_ref(resp[0], resp[1], n), "sm:respwrap:accept",
                "btokSMRespWrap refused a valid response at an even counter, or the protected octets differ from the reference encoding")
        st["rw"].append((len(bag.ops) - 1, key, cv, resp))
        if n % 5 == 0:
            bag.add("smrw %s %s %d %d %s" % (key, ctr_hex(cv + 1), resp[0], resp[1], hx(resp[2])), str(BAD_LOGIC),
                    "sm:respwrap:parity", "btokSMRespWrap at an odd counter must return ERR_BAD_LOGIC")
    bag.add("smrw %s %s 144 0 %s" % (K0, ctr_hex(0), "5a" * 65537), str(BAD_APDU), "sm:respwrap:invalid", "invalid response accepted")
    # crafted protected commands / responses: every combination of field forms (the MAC is random: never accepted);
    # compares the FORMAT rules of Unwrap (Lc* / Le* forms, the three Le encodings and their consistency with the data
    # length, first octet 02, tag length) between model and implementation
    le_vals = [None, b"", b"\x00", b"\x01", b"\xff", b"\x00\x00", b"\x00\x01", b"\x01\x00", b"\x01\x01", b"\xff\xff",
               b"\x00\x00\x00", b"\x00\x01\x00", b"\x00\x01\x01", b"\x01\x00\x00", b"\x00\xff\xff", b"\x00\x00\x00\x00"]
    ncraft = 0
    for n in (0, 1, 5, 225, 235, 239, 240, 254, 255, 256, 300):
        f87s = [b""] if n == 0 else [tlv([0x87], b"\x02" + rng.randbytes(n))]
        if n == 5:
            f87s += [tlv([0x87], b"\x01" + rng.randbytes(n)), tlv([0x87], b"\x02"), tlv([0x87], b""), tlv([0x85], b"\x02" + rng.randbytes(n))]
        for f87 in f87s:
            for lv in le_vals:
                f97 = b"" if lv is None else tlv([0x97], lv)
                macs = [tlv([0x8E], rng.randbytes(8))]
                if lv in (None, b"\x01") and n in (0, 5):
                    macs += [tlv([0x8E], rng.randbytes(7)), tlv([0x8E], rng.randbytes(9)), tlv([0x8F], rng.randbytes(8)), b""]
                for mac in macs:
                    body = f87 + f97 + mac
                    L = len(body)
                    lcs = [bytes([0, L >> 8, L & 255])] + ([bytes([L])] if 0 < L < 256 else [])
                    if n == 5 and lv in (None, b"\x01"):
                        lcs += [bytes([L + 1]), bytes([L - 1]), bytes([0, 0, 0])]
                    for lc in lcs:
                        for lez in (b"", b"\x00", b"\x00\x00", b"\x00\x00\x00", b"\x01", b"\x00\x01"):
                            if quick and len(lez) == 3 and n not in (0, 5):
                                continue
                            x = bytes([0x04 | (ncraft * 8 & 0xF8), 0xA4, 4, ncraft & 255]) + lc + body + lez
                            ncraft += 1
                            bag.add("smcu %s %s %s" % (K0, ctr_hex(1), hx(x)), r"(312|0 \d+ \| 511)", "sm:cmd:crafted",
                                    "a crafted protected command with a random tag was accepted")
    for n in (0, 1, 5, 126, 127, 128, 255, 256):
        f87s = [b""] if n == 0 else [tlv([0x87], b"\x02" + rng.randbytes(n))]
        if n == 5:
            f87s += [tlv([0x87], b"\x01" + rng.randbytes(n)), tlv([0x87], b"\x02"), tlv([0x87], b""), tlv([0x97], b"\x01")]
        for f87 in f87s:
            for mac in (tlv([0x8E], rng.randbytes(8)), tlv([0x8E], rng.randbytes(7)), tlv([0x8E], rng.randbytes(9)), tlv([0x8F], rng.randbytes(8)), b""):
                for tail in (b"\x90\x00", b"\x90", b"\x00\x90\x00", b""):
                    bag.add("smru %s %s %s" % (K0, ctr_hex(2), hx(f87 + mac + tail)), r"(312|0 \d+ \| 511)", "sm:resp:crafted",
                            "a crafted protected response with a random tag was accepted")
    st["ncraft"] = ncraft
    # without a state: plain encoding
    for n in (0, 1, 255, 256, 257, 300, 0x1234):
        for le in LE_FORMS:
            cdf = rng.randbytes(n)
            cla = rng.randrange(256)
            bag.add("smcw0 %d 1 2 3 %s %d" % (cla, hx(cdf), le), "0 " + apdu_ref(cla, 1, 2, 3, cdf, le).hex(), "sm:cmdwrap:nostate",
                    "unprotected command encoding differs from ISO 7816-4 (Lc / Le forms)")
    bag.add("smrw0 144 0 " + hx(rng.randbytes(20)))
    bag.add("smrw0 144 0 -")


def sm_stage2(ctx, bag, st, c_out):
    rng, quick = ctx.rng, ctx.tier == "quick"
    alt_budget = 14 if quick else 60
    picked = 0
    st["seqs"] = []
    for (i, key, cv, cmd) in st["cw"]:
        o = c_out[i] if i < len(c_out) else ""
        if not o.startswith("0 "):
            continue
        apdu = o.split()[1]
        n = len(cmd[4])
        want = cmd_expect(*cmd)
        bag.add("smcu %s %s %s" % (key, ctr_hex(cv), apdu), want, "sm:cmd:roundtrip",
                "a command accepted by btokSMCmdWrap is not recovered by btokSMCmdUnwrap of a peer whose counter is in step")
        if n < 1000 and n % 3 == 0:
            bag.add("smcu %s %s %s" % (key, ctr_hex(cv + 1), apdu), r"0 %d \| %d" % (n, BAD_LOGIC), "sm:cmdunwrap:parity",
                    "btokSMCmdUnwrap at an even counter must return ERR_BAD_LOGIC")
        if n < 1000 and n % 50 == 7:
            # counter out of step by 2: parity right, MAC does not cover the counter (replay is not claimed): correspondence only
            bag.add("smcu %s %s %s" % (key, ctr_hex(cv + 2), apdu))
        if n < 1000 and n % 40 == 9:
            bag.add("smcu0 " + apdu, str(BAD_APDU), "sm:cmdunwrap:nostate", "protected command decoded without a state")
        b = unhx(apdu)
        if picked < alt_budget and (n in (0, 1, 2, 16, 17, 33, 240, 255, 256, 300) or (n < 300 and rng.random() < 0.02)) and len(b) < 400:
            picked += 1
            for pos in range(len(b)):
                for _ in range(1 if len(b) > 120 else 2):
                    bag.add("smcu %s %s %s" % (key, ctr_hex(cv), hx(alter(rng, b, pos))), r"(312|511|0 \d+ \| (312|511))", "sm:cmd:altered",
                            "an altered octet of a protected command was not rejected (offset %d)" % pos)
            for cut in (1, 2, 3, len(b) - 15):
                if 0 < cut < len(b):
                    bag.add("smcu %s %s %s" % (key, ctr_hex(cv), hx(b[:-cut])), r"(312|511|0 \d+ \| (312|511))", "sm:cmd:altered", "truncated protected command accepted")
            bag.add("smcu %s %s %s" % (key, ctr_hex(cv), hx(b + b"\0")), r"(312|511|0 \d+ \| (312|511))", "sm:cmd:altered", "extended protected command accepted")
            bag.add("smcu %s %s %s" % ("11" * 32, ctr_hex(cv), apdu), r"0 \d+ \| 511", "sm:cmd:wrongkey", "protected command accepted under another key")
    picked = 0
    for (i, key, cv, resp) in st["rw"]:
        o = c_out[i] if i < len(c_out) else ""
        if not o.startswith("0 "):
            continue
        apdu = o.split()[1]
        n = len(resp[2])
        bag.add("smru %s %s %s" % (key, ctr_hex(cv), apdu), r"0 %d \| 0 %d %d %s" % (n, resp[0], resp[1], hx(resp[2])), "sm:resp:roundtrip",
                "a response accepted by btokSMRespWrap is not recovered by btokSMRespUnwrap of a peer whose counter is in step")
        if n < 1000 and n % 3 == 0:
            bag.add("smru %s %s %s" % (key, ctr_hex(cv + 1), apdu), r"0 %d \| %d" % (n, BAD_LOGIC), "sm:respunwrap:parity",
                    "btokSMRespUnwrap at an odd counter must return ERR_BAD_LOGIC")
        if n < 1000 and n % 50 == 7:
            bag.add("smru %s %s %s" % (key, ctr_hex(cv + 2), apdu))
        b = unhx(apdu)
        if picked < alt_budget and (n in (0, 1, 2, 16, 17, 115, 116, 117, 118, 255, 256) or (n < 300 and rng.random() < 0.02)):
            picked += 1
            for pos in range(len(b)):
                bag.add("smru %s %s %s" % (key, ctr_hex(cv), hx(alter(rng, b, pos))), r"(312|511|0 \d+ \| (312|511))", "sm:resp:altered",
                        "an altered octet of a protected response was not rejected (offset %d)" % pos)
            for cut in (1, 2, 9):
                bag.add("smru %s %s %s" % (key, ctr_hex(cv), hx(b[:-cut])), r"(312|511|0 \d+ \| (312|511))", "sm:resp:altered", "truncated protected response accepted")
            bag.add("smru %s %s %s" % (key, ctr_hex(cv), hx(b + b"\0")), r"(312|511|0 \d+ \| (312|511))", "sm:resp:altered", "extended protected response accepted")
            bag.add("smru %s %s %s" % ("11" * 32, ctr_hex(cv), apdu), r"0 \d+ \| 511", "sm:resp:wrongkey", "protected response accepted under another key")
    # dialogues on two real states: at every step the wrong-parity call is tried first
    nseq = 8 if quick else 40
    for s in range(nseq):
        key = rng.randbytes(32).hex()
        steps, want = [], []
        ca = cb = 0
        for rnd in range(rng.randint(2, 6)):
            cdf = rng.randbytes(rng.choice([0, 1, 5, 16, 31, 100, 250, 260]))
            le = rng.choice([0, 1, 255, 256, 257, 300, 0x1234, 0xFF00])
            cla = rng.randrange(256) & 0xFB
            cw = "cw:%d:%d:%d:%d:%s:%d" % (cla, 164, 4, rnd, hx(cdf), le)
            rdf = rng.randbytes(rng.choice([0, 1, 8, 16, 40, 255, 256]))
            rw = "rw:%d:%d:%s" % (0x90, rnd, hx(rdf))
            cexp = cmd_expect(cla, 164, 4, rnd, cdf, le)
            rexp = r"0 %d \| 0 %d %d %s" % (len(rdf), 0x90, rnd, hx(rdf))
            # terminal A: wrong parity first (counter even), then increment and wrap
            steps += ["A" + cw, "Ai", "A" + cw]
            want += [str(BAD_LOGIC), None, r"0 [0-9a-f]+"]
            ca += 1
            # card B: unwrap before incrementing (even counter) is refused, then in step
            steps += ["Bcu", "Bi", "Bcu"]
            want += [r"0 \d+ \| %d" % BAD_LOGIC, None, cexp]
            cb += 1
            # response: wrong parity first
            steps += ["B" + rw, "Bi", "B" + rw, "Aru", "Ai", "Aru"]
            want += [str(BAD_LOGIC), None, r"0 [0-9a-f]+", r"0 \d+ \| %d" % BAD_LOGIC, None, rexp]
            ca += 1
            cb += 1
            if len(steps) > 48:
                break
        st["seqs"].append((len(bag.ops), want))
        bag.add("smseq %s %s" % (key, " ".join(steps)), ";".join(w if w is not None else r"[0-9a-f]{32}" for w in want), "sm:dialogue",
                "a dialogue on two btokSM states (wrong-parity call, increment, call) did not behave as documented")


# ----------------------------------------------------------------------------- CV certificates
KEYLENS = [24, 32, 48, 64]


def cvc_expect_check(c, pk_valid=True):
    if not name_ok(c["a"]) or not name_ok(c["h"]):
        return BAD_NAME
    if not date_ok(c["f"]) or not date_ok(c["u"]) or c["f"] > c["u"]:
        return BAD_DATE
    return OK if pk_valid else None


def cvc_expect_check2(c, ca):
    r = cvc_expect_check(c)
    if r != OK:
        return r
    if c["a"].split(b"\0")[0] != ca["h"].split(b"\0")[0]:
        return BAD_NAME
    if not date_ok(ca["f"]) or not date_ok(ca["u"]) or ca["f"] > c["f"] or c["f"] > ca["u"]:
        return BAD_DATE
    return OK


def content_valid(o):
    """a nonzero code, or ERR_OK with names of 8..12 printable characters, valid dates, from <= until"""
    f = o.split()
    if f[0] != "0":
        return f[0].isdigit()
    if len(f) < 9:
        return False
    a, h, fr, un = unhx(f[1]), unhx(f[2]), unhx(f[3]), unhx(f[4])
    return name_ok(a) and name_ok(h) and date_ok(fr) and date_ok(un) and fr <= un


def cvc_stage(ctx, bag, run_c):
    """all certificate ops; certificates / keys come from helper queries to the implementation"""
    rng, quick = ctx.rng, ctx.tier == "quick"
    cov = {}
    privs = {n: [bytes([rng.randrange(1, 256)]) + rng.randbytes(n - 2) + bytes([rng.randrange(0, 128)]) for _ in range(2)] for n in KEYLENS}
    q = ["pubcalc " + hx(p) for n in KEYLENS for p in privs[n]]
    out = run_c(q)
    pubs = {}
    for (n, j), o in zip([(n, j) for n in KEYLENS for j in range(2)], out):
        if not o.startswith("0 "):
            raise RuntimeError("pubcalc failed on a random private key: " + o)
        pubs[(n, j)] = unhx(o.split()[1])
    for l in q:
        bag.add(l)
    for bad in (bytes(32), b"\xff" * 32, rng.randbytes(31), rng.randbytes(33), b"\xff" * 24, bytes(64)):
        bag.add("pubcalc " + hx(bad))
    F, U = date6(22, 7, 7), date6(29, 12, 31)
    base = {n: mk(b"BYCA0000", b"BYHOLDER%02d" % n, F, U, pubs[(n, 0)]) for n in KEYLENS}

    def chk(c, key, what, pk_valid=True):
        e = cvc_expect_check(c, pk_valid)
        bag.add("cvccheck " + cvc_tok(c), None if e is None else str(e), key, what)

    # ---- names
    for n in KEYLENS:
        chk(base[n], "cvc:check:valid", "valid certificate content rejected")
    b0 = base[32]
    for ln in range(0, 13):
        nm = (b"ABCDEFGHIJKLM" * 2)[:ln]
        chk(dict(b0, a=nm), "cvc:check:namelen", "authority of length %d: names must have 8..12 characters" % ln)
        chk(dict(b0, h=nm), "cvc:check:namelen", "holder of length %d: names must have 8..12 characters" % ln)
    for ln in (8, 10, 12):
        for pos in range(ln):
            for ch in (0x00, 0x1F, 0x21, 0x2A, 0x5F, 0x7F, 0x80, 0xFF, 0x40, 0x3B, 0x60, 0x7B, 0x5B, 0x2F, 0x3A):
                nm = bytearray(b"ByCa 2024(x)"[:ln])
                nm[pos] = ch
                if not quick or rng.random() < 0.35 or ch in (0, 0x80):
                    chk(dict(b0, a=bytes(nm)) if pos % 2 else dict(b0, h=bytes(nm)), "cvc:check:printable",
                        "name with octet %02X at position %d" % (ch, pos))
    for ch in range(256):
        chk(dict(b0, h=b"BYCA" + bytes([ch]) + b"1234"), "cvc:check:printable", "holder with octet %02X" % ch)
    # ---- dates: octets 10..255 at every position, calendar, order
    for fld in ("f", "u"):
        for pos in range(6):
            for v in [10, 11, 15, 16, 48, 49, 57, 127, 128, 200, 255] + [rng.randrange(10, 256) for _ in range(2)]:
                d = bytearray(b0[fld])
                d[pos] = v
                chk(dict(b0, **{fld: bytes(d)}), "cvc:check:datedigit", "date octet %d at position %d of %s" % (v, pos, fld))
    cal = [(23, 2, 29), (24, 2, 29), (24, 2, 30), (0, 2, 29), (0, 1, 1), (99, 12, 31), (23, 4, 31), (23, 6, 31), (23, 9, 31), (23, 11, 31),
           (23, 1, 31), (23, 0, 10), (23, 13, 1), (23, 10, 0), (23, 10, 32), (23, 12, 31), (23, 2, 28), (22, 19, 39), (23, 3, 31)]
    for (y, m, d) in cal:
        chk(dict(b0, f=date6(y, m, d), u=date6(99, 12, 31)), "cvc:check:calendar", "from = %02d-%02d-%02d" % (y, m, d))
        chk(dict(b0, f=date6(0, 1, 1), u=date6(y, m, d)), "cvc:check:calendar", "until = %02d-%02d-%02d" % (y, m, d))
    for f, u in [((23, 5, 5), (23, 5, 5)), ((23, 5, 6), (23, 5, 5)), ((23, 6, 1), (23, 5, 30)), ((24, 1, 1), (23, 12, 31)), ((23, 5, 5), (23, 5, 6)),
                 ((23, 1, 31), (23, 2, 1)), ((23, 10, 1), (23, 9, 30)), ((19, 12, 31), (20, 1, 1)), ((20, 1, 1), (19, 12, 31))]:
        chk(dict(b0, f=date6(*f), u=date6(*u)), "cvc:check:order", "from %r until %r" % (f, u))
    # ---- public keys (correspondence decides; Python has no curve arithmetic)
    for n in KEYLENS:
        pk = pubs[(n, 0)]
        for bad in (alter(rng, pk, 0), alter(rng, pk, len(pk) - 1), bytes(len(pk)), pk[:-1], pk + b"\0", pk[:len(pk) // 2], b"\xff" * len(pk), pk[:n] + bytes(n)):
            chk(dict(base[n], pk=bad), "cvc:check:pubkey", "invalid public key", pk_valid=False)
    chk(dict(b0, pk=b""), "cvc:check:pubkey", "empty public key", pk_valid=False)
    # ---- Check2: names and the validity window
    iss = mk(b"BYCA0000", b"BYCA1000", date6(22, 1, 10), date6(24, 3, 20), pubs[(32, 1)])
    sub = mk(b"BYCA1000", b"590082394654", date6(23, 1, 1), date6(23, 12, 31), pubs[(32, 0)])

    def chk2(c, ca, key, what):
        bag.add("cvccheck2 %s %s" % (cvc_tok(c), cvc_tok(ca)), str(cvc_expect_check2(c, ca)), key, what)

    chk2(sub, iss, "cvc:check2:valid", "matching certificate / issuer rejected")
    for auth, what in [(b"BYCA1000X", "authority = holder + suffix"), (b"BYCA10000", "authority = holder + suffix"), (b"XBYCA1000", "authority = prefix + holder"),
                       (b"BYCA1000\0XYZ", "authority = holder, NUL, garbage"), (b"byca1000", "case differs"), (b"BYCA100 ", "last char differs"),
                       (b"BYCA1001", "last char differs"), (b"BYCA0000", "other name")]:
        chk2(dict(sub, a=auth), iss, "cvc:check2:name", what)
    for hold, what in [(b"BYCA1000X", "issuer holder = authority + suffix"), (b"BYCA10001234", "issuer holder = authority + suffix"), (b"BYCA100", "issuer holder = proper prefix (7)"),
                       (b"ABYCA1000", "issuer holder = prefix + authority"), (b"BYCA1000\0", "explicit NUL")]:
        chk2(sub, dict(iss, h=hold), "cvc:check2:name", what)
    chk2(dict(sub, a=b"BYCA10001"), dict(iss, h=b"BYCA10001"), "cvc:check2:name", "9-character names")
    chk2(dict(sub, a=b"BYCA1000ABCD"), dict(iss, h=b"BYCA1000ABC"), "cvc:check2:name", "12 vs 11 characters")
    for f in [(22, 1, 10), (22, 1, 9), (22, 1, 11), (24, 3, 20), (24, 3, 21), (24, 3, 19), (21, 12, 31), (24, 4, 1), (25, 1, 1), (0, 1, 1)]:
        chk2(dict(sub, f=date6(*f), u=date6(99, 12, 31)), iss, "cvc:check2:window", "from = %r against issuer window" % (f,))
    for fld in ("f", "u"):
        for pos in range(6):
            d = bytearray(iss[fld])
            d[pos] = rng.choice([10, 58, 255, 0x30])
            chk2(sub, dict(iss, **{fld: bytes(d)}), "cvc:check2:issuerdate", "invalid issuer date")
    chk2(sub, dict(iss, f=date6(23, 2, 29)), "cvc:check2:issuerdate", "invalid issuer date")
    chk2(sub, dict(iss, u=date6(23, 2, 30)), "cvc:check2:issuerdate", "invalid issuer date")
    chk2(sub, dict(iss, f=date6(24, 1, 1), u=date6(22, 1, 1)), "cvc:check2:window", "issuer from > until")
    chk2(sub, dict(iss, pk=b""), "cvc:check2:valid", "issuer content is not checked beyond holder and dates")
    # ---- body codec: genuine and crafted bodies
    for n in KEYLENS:
        for e, g in [(bytes(5), bytes(2)), (b"\xee" * 5, bytes(2)), (bytes(5), b"\x77\x11"), (b"\0\0\0\0\1", b"\0\1"), (b"\x80" + bytes(4), b"\x80\0")]:
            c = dict(base[n], e=e, g=g)
            bag.add("cvcbody " + cvc_tok(c), hx(body_der(c)), "cvc:body:enc", "btokCVCBodyEnc differs from the grammar in btok_cvc.c")
            bag.add("cvcbdec " + hx(body_der(c)), None)
    bag.add("cvcbody " + cvc_tok(dict(b0, a=b"SHORT")), "err", "cvc:body:enc", "body of invalid content encoded")
    for ln in (7, 8, 12, 13, 14, 0):
        nm = (b"ABCDEFGHIJKLMNOP")[:ln]
        for who in ("a", "h"):
            bdy = body_der(dict(b0, **{who: nm}))
            bag.add("cvcbdec " + hx(bdy), "err" if ln not in range(8, 13) else r"[0-9a-f-]+ .* %d" % len(bdy), "cvc:body:namelen",
                    "btokCVCBodyDec with a %d-character name" % ln)
    # over-long names on the wire: the decoder must refuse them BEFORE copying (the struct fields hold 12 characters + NUL;
    # the harness decodes into an exact-size heap block, so a copy of a name longer than the rest of the struct is an ASan report)
    for ln in (15, 16, 64, 127, 128, 200, 255, 256, 300, 1000, 5000):
        nm = (b"ABCDEFGHIJKLMNOPQRSTUVWXYZ0123456789" * 140)[:ln]
        for who in ("a", "h"):
            bag.add("cvcbdec " + hx(body_der(dict(b0, **{who: nm}))), "err", "cvc:body:namelen", "btokCVCBodyDec with a %d-character name" % ln)
    bag.add("cvcbdec " + hx(body_der(dict(b0, h=b"BYCA*1000"))), "err", "cvc:body:printable", "non-printable name in a certificate body accepted")
    for pk in (rng.randbytes(40), rng.randbytes(65), b"", rng.randbytes(47), rng.randbytes(129)):
        bag.add("cvcbdec " + hx(body_der(dict(b0, pk=pk))), "err", "cvc:body:keylen", "public key of %d octets in a certificate body accepted" % len(pk))
    crafted = [body_der(b0, ver=1), body_der(b0, auth_tag=(0x5F, 0x20)), body_der(b0, key_oid="1.2.112.0.2.0.34.101.45.2.2"),
               body_der(dict(b0, e=b"\1\2\3\4")), body_der(dict(b0, e=b"\1\2\3\4\5\6")), body_der(dict(b0, g=b"\1")), body_der(dict(b0, g=b"\1\2\3")),
               body_der(dict(b0, f=b0["f"][:5])), body_der(dict(b0, u=b0["u"] + b"\0")), body_der(b0) + b"\0", body_der(b0)[:-1]]
    for bdy in crafted:
        bag.add("cvcbdec " + hx(bdy))
    # explicit zero rights (documented: accepted on decoding)
    bag.add("cvcbdec " + hx(body_der(b0, eid_present=True)))
    bag.add("cvcbdec " + hx(body_der(b0, esign_present=True)))
    bdy = body_der(dict(b0, e=b"\xee" * 5, g=b"\1\2"))
    for pos in range(len(bdy)):
        if not quick or pos % 3 == 0:
            bag.add("cvcbdec " + hx(alter(rng, bdy, pos)))
    for cut in range(1, len(bdy), 7):
        bag.add("cvcbdec " + hx(bdy[:cut]))
    # ---- certificates: self-signed roots, chains of depth 1..3 (mixed key lengths), produced by the implementation
    chains = [[64, 48, 32, 24], [32, 32, 32, 32], [24, 64, 24, 48]] if quick else [[64, 48, 32, 24], [32, 32, 32, 32], [24, 64, 24, 48], [48, 48, 24, 64], [24, 24, 24, 24], [64, 64, 64, 64]]
    certs = []          # dicts: cert, content, priv, issuer index (or None), level
    names = [b"BYCA0000", b"BYCA1000", b"BYCA1023", b"590082394654"]
    win = [(date6(20, 1, 1), date6(39, 12, 31)), (date6(21, 6, 15), date6(30, 6, 15)), (date6(22, 7, 7), date6(25, 7, 7)), (date6(23, 1, 1), date6(23, 12, 31))]
    for ci, ch in enumerate(chains):
        prev = None
        for lvl, n in enumerate(ch):
            j = (ci + lvl) % 2
            e = b"\xee" * 5 if (ci + lvl) % 3 == 0 else bytes(5)
            g = b"\x77\x11" if (ci + lvl) % 2 == 0 else bytes(2)
            if lvl == 0:
                c = mk(names[0], names[0], win[0][0], win[0][1], b"" if ci % 2 == 0 else pubs[(n, j)], e, g)
                line = "cvcwrap %s %s" % (cvc_tok(c), hx(privs[n][j]))
            else:
                c = mk(names[lvl - 1], names[lvl], win[lvl][0], win[lvl][1], pubs[(n, j)], e, g)
                line = "cvciss %s %s %s" % (cvc_tok(c), hx(certs[prev]["cert"]), hx(certs[prev]["priv"]))
            o = run_c([line])[0]
            if not o.startswith("0 "):
                raise RuntimeError("the implementation refused to create a valid certificate: %s -> %s" % (line[:200], o))
            f = o.split()
            cont = dict(c, pk=pubs[(n, j)])
            rec = {"cert": unhx(f[1]), "c": cont, "priv": privs[n][j], "n": n, "iss": prev, "lvl": lvl, "sig": f[9], "line": line}
            # the content reported back is the content given (with the public key filled in)
            bag.add(line, r"0 [0-9a-f]+ %s [0-9a-f]+" % cvc_tok(cont).replace("-", r"\-"), "cvc:wrap", "btokCVCWrap/Iss changed the certificate content")
            certs.append(rec)
            prev = len(certs) - 1
    cov["certs"] = len(certs)
    cov["cert_lengths"] = sorted(set(len(r["cert"]) for r in certs))
    for k, r in enumerate(certs):
        ipk = certs[r["iss"]]["c"]["pk"] if r["iss"] is not None else r["c"]["pk"]
        full = r"0 %s %s" % (cvc_tok(r["c"]).replace("-", r"\-"), r["sig"])
        bag.add("cvcunwrap %s 0 %s" % (hx(r["cert"]), hx(ipk)), full, "cvc:roundtrip", "btokCVCUnwrap(btokCVCWrap(c)) under the issuer's key does not return c")
        bag.add("cvcunwrap %s 1 -" % hx(r["cert"]), full, "cvc:roundtrip", "btokCVCUnwrap(btokCVCWrap(c)) without verification does not return c")
        bag.add("cvcunwrap %s 2 -" % hx(r["cert"]), full if r["iss"] is None else r"(510|505|306)", "cvc:unwrap:self",
                "verification with the certificate's own key: must succeed exactly for self-signed certificates")
        bag.add("cvcunwrap %s 3 -" % hx(r["cert"]), str(BAD_INPUT), "cvc:unwrap:args", "foreign pointer with zero length must be ERR_BAD_INPUT")
        for n in KEYLENS:
            other = pubs[(n, 0)] if pubs[(n, 0)] != ipk else pubs[(n, 1)]
            bag.add("cvcunwrap %s 0 %s" % (hx(r["cert"]), hx(other)), r"(510|306)", "cvc:unwrap:wrongkey", "certificate accepted under a key that did not sign it")
        bag.add("cvcunwrap %s 0 %s" % (hx(r["cert"]), hx(ipk[:-1])), str(BAD_INPUT), "cvc:unwrap:args", "key length")
        bag.add("cvcmatch %s %s" % (hx(r["cert"]), hx(r["priv"])), "0", "cvc:match", "btokCVCMatch rejects the matching private key")
        o = privs[r["n"]][1] if privs[r["n"]][0] == r["priv"] else privs[r["n"]][0]
        bag.add("cvcmatch %s %s" % (hx(r["cert"]), hx(o)), r"(505|506)", "cvc:match", "btokCVCMatch accepts another private key")
        bag.add("cvcmatch %s %s" % (hx(r["cert"]), hx(privs[48 if r["n"] != 48 else 32][0])), str(BAD_KEYPAIR), "cvc:match", "key of another length")
        bag.add("cvclen %s" % hx(r["cert"] + rng.randbytes(3)), str(len(r["cert"])), "cvc:len", "btokCVCLen")
        bag.add("cvclen %s" % hx(r["cert"][:-1]), "err", "cvc:len", "btokCVCLen on a truncated certificate")
        if r["iss"] is not None:
            ca = certs[r["iss"]]
            f, u = r["c"]["f"], r["c"]["u"]

            def day(d, k):
                t = datetime.date(2000 + 10 * d[0] + d[1], 10 * d[2] + d[3], 10 * d[4] + d[5]) + datetime.timedelta(days=k)
                return date6(t.year - 2000, t.month, t.day) if 2000 <= t.year <= 2099 else None
            dates = [("N", OK), (hx(f), OK), (hx(u), OK), (hx(day(f, 1)), OK), (hx(day(u, -1)), OK), (hx(day(f, -1)), OUTOFRANGE), (hx(day(u, 1)), OUTOFRANGE),
                     (hx(date6(23, 2, 29)), BAD_DATE), (hx(date6(23, 6, 31)), BAD_DATE), (hx(bytes([2, 3, 0, 6, 1, 10])), BAD_DATE), (hx(bytes([2, 3, 0, 0x36, 1, 1])), BAD_DATE),
                     (hx(date6(0, 1, 1)), OUTOFRANGE), (hx(date6(99, 12, 31)), OUTOFRANGE)]
            for d, e in dates:
                bag.add("cvcval %s %s %s" % (hx(r["cert"]), hx(ca["cert"]), d), str(e), "cvc:val:date",
                        "btokCVCVal of a genuine chain link with date %s" % d)
                if d in ("N", hx(f), hx(day(u, 1)), hx(date6(23, 6, 31))):
                    bag.add("cvcval2 %s %s %s" % (hx(r["cert"]), cvc_tok(ca["c"]), d), str(e) if e else full, "cvc:val2:date", "btokCVCVal2 of a genuine chain link")
            # the issuer's content with altered name / window / key
            for hold, what in [(ca["c"]["h"] + b"X", "issuer holder = authority + suffix"), (b"X" + ca["c"]["h"], "issuer holder = prefix + authority"),
                               (ca["c"]["h"][:-1], "issuer holder = authority without its last character"), (ca["c"]["h"].lower(), "case")]:
                if len(hold) <= 12:
                    bag.add("cvcval2 %s %s N" % (hx(r["cert"]), cvc_tok(dict(ca["c"], h=hold))), str(BAD_NAME), "cvc:val2:name", what + ": the chain must not validate")
            bag.add("cvcval2 %s %s N" % (hx(r["cert"]), cvc_tok(dict(ca["c"], f=day(f, 1)))), str(BAD_DATE), "cvc:val2:window", "certificate starts before the issuer's window")
            bag.add("cvcval2 %s %s N" % (hx(r["cert"]), cvc_tok(dict(ca["c"], u=day(f, -1)))), str(BAD_DATE), "cvc:val2:window", "certificate starts after the issuer's window")
            bag.add("cvcval2 %s %s N" % (hx(r["cert"]), cvc_tok(dict(ca["c"], f=f, u=f))), full, "cvc:val2:window", "window boundaries are inclusive")
            bag.add("cvcval2 %s %s N" % (hx(r["cert"]), cvc_tok(dict(ca["c"], pk=b""))), str(BAD_INPUT), "cvc:val2:args", "issuer content without a key")
            # a wrong issuer: the grandparent or a certificate of another chain
            for w in ([certs[ca["iss"]]] if ca["iss"] is not None else []) + [certs[(k + 4) % len(certs)]]:
                if w["cert"] != ca["cert"]:
                    bag.add("cvcval %s %s N" % (hx(r["cert"]), hx(w["cert"])), r"(510|306|309|308)", "cvc:val:wrongissuer", "chain link validated against a certificate that did not issue it")
            # Iss refusals
            c2 = dict(r["c"], h=b"NEWHOLDER1")
            bag.add("cvciss %s %s %s" % (cvc_tok(c2), hx(ca["cert"]), hx(privs[ca["n"]][0] if privs[ca["n"]][0] != ca["priv"] else privs[ca["n"]][1])),
                    r"(506|505)", "cvc:iss:keypair", "btokCVCIss with a private key that does not match the issuer certificate")
            bag.add("cvciss %s %s %s" % (cvc_tok(dict(c2, a=ca["c"]["h"] + b"1")) if len(ca["c"]["h"]) < 12 else cvc_tok(dict(c2, a=ca["c"]["h"][:-1])), hx(ca["cert"]), hx(ca["priv"])),
                    str(BAD_NAME), "cvc:iss:name", "btokCVCIss with authority = issuer holder +/- one character")
            bag.add("cvciss %s %s %s" % (cvc_tok(dict(c2, f=day(ca["c"]["f"], -1))), hx(ca["cert"]), hx(ca["priv"])), str(BAD_DATE), "cvc:iss:window", "issued before the issuer's window")
            bag.add("cvciss %s %s %s" % (cvc_tok(dict(c2, f=day(ca["c"]["u"], 1), u=date6(99, 12, 31))), hx(ca["cert"]), hx(ca["priv"])), str(BAD_DATE), "cvc:iss:window", "issued after the issuer's window")
    # wrap refusals
    for n in KEYLENS:
        c = mk(b"BYCA0000", b"BYCA0000", F, U)
        bag.add("cvcwrap %s %s" % (cvc_tok(dict(c, a=b"BYCA000")), hx(privs[n][0])), str(BAD_NAME), "cvc:wrap:refuse", "7-character authority")
        bag.add("cvcwrap %s %s" % (cvc_tok(dict(c, u=date6(23, 2, 29))), hx(privs[n][0])), str(BAD_DATE), "cvc:wrap:refuse", "invalid until")
        bag.add("cvcwrap %s %s" % (cvc_tok(dict(c, f=U, u=F)), hx(privs[n][0])), str(BAD_DATE), "cvc:wrap:refuse", "from > until")
        bag.add("cvcwrap %s %s" % (cvc_tok(c), hx(privs[n][0][:-1])), str(BAD_INPUT), "cvc:wrap:refuse", "private key length")
        bag.add("cvcwrap %s %s" % (cvc_tok(c), hx(bytes(n))), str(BAD_PRIVKEY), "cvc:wrap:refuse", "zero private key")
        bag.add("cvcwrap %s %s" % (cvc_tok(dict(c, pk=alter(rng, pubs[(n, 0)], 5))), hx(privs[n][0])), None)
        # a preliminary certificate: foreign valid key of another length, signed by privs[n]
        m = KEYLENS[(KEYLENS.index(n) + 1) % 4]
        bag.add("cvcwrap %s %s" % (cvc_tok(dict(c, h=b"REQUESTER1", pk=pubs[(m, 1)])), hx(privs[n][0])), r"0 .*", "cvc:wrap", "preliminary certificate refused")
    # ---- every single-octet alteration of a certificate (verification with the issuer's key)
    nalt = 0
    for k, r in enumerate(certs):
        if k >= (8 if quick else len(certs)):
            break
        ipk = certs[r["iss"]]["c"]["pk"] if r["iss"] is not None else r["c"]["pk"]
        heavy = len(ipk) >= 96
        b = r["cert"]
        for pos in range(len(b)):
            x = alter(rng, b, pos)
            lean = (not quick) or (not heavy) or pos % 9 == k % 9
            if quick and not heavy and k >= 4 and pos % 2:
                lean = False
            bag.add("cvcunwrap %s 0 %s" % (hx(x), hx(ipk)), r"[1-9]\d*", "cvc:altered", "an altered octet of a certificate was not rejected (offset %d of %d)" % (pos, len(b)), lean=lean)
            nalt += 1
            if r["iss"] is not None and pos % 11 == 3:
                bag.add("cvcval %s %s N" % (hx(x), hx(certs[r["iss"]]["cert"])), r"[1-9]\d*", "cvc:altered:val", "altered certificate validated (offset %d)" % pos, lean=lean)
            if pos % 13 == 5 or pos % 7 == 2:
                # without verification: format / content rules only -- whatever is accepted must be valid content
                bag.add("cvcunwrap %s 1 -" % hx(x), content_valid, "cvc:unwrap:content", "btokCVCUnwrap returned ERR_OK with invalid content (offset %d)" % pos, lean=lean)
        for cut in (1, 2, 35, 49):
            bag.add("cvcunwrap %s 0 %s" % (hx(b[:-cut]), hx(ipk)), r"[1-9]\d*", "cvc:altered", "truncated certificate accepted")
        bag.add("cvcunwrap %s 0 %s" % (hx(b + b"\0"), hx(ipk)), r"[1-9]\d*", "cvc:altered", "extended certificate accepted")
    cov["alterations"] = nalt
    # direct signature checks
    for k, r in enumerate(certs[:8]):
        ipk = certs[r["iss"]]["c"]["pk"] if r["iss"] is not None else r["c"]["pk"]
        bdy = body_der(r["c"])
        bag.add("sigvfy %s %s %s" % (hx(bdy), r["sig"], hx(ipk)), "0", "cvc:sig", "the signature of a certificate does not verify over its body")
        bag.add("sigvfy %s %s %s" % (hx(bdy + b"\0"), r["sig"], hx(ipk)), str(BAD_SIG), "cvc:sig", "signature verifies over another message")
    return cov


# ----------------------------------------------------------------------------- containers
def bpki_stage1(ctx, bag, st):
    rng, quick = ctx.rng, ctx.tier == "quick"
    st["wraps"] = []          # (index, kind, payload, pwd, salt, iter, genuine, model side too?)
    def add(kind, payload, pwd, salt, it, want, key, what, raw=False, lean=True):
        if raw:
            line = "rawwrap %s %s %s %s %d" % (kind, hx(payload), hx(pwd), hx(salt), it)
        else:
            line = "%swrap %s %s %s %d" % (kind, hx(payload), hx(pwd), hx(salt), it)
        bag.add(line, want, key, what, lean=lean)
        st["wraps"].append((len(bag.ops) - 1, kind, payload, pwd, salt, it, not raw, lean))
    pwds = [b"", b"zed", rng.randbytes(7), rng.randbytes(31), rng.randbytes(32), rng.randbytes(33), rng.randbytes(300)]
    # genuine Wrap: the iteration minimum and the key lengths (PBKDF2 with 10000 iterations: few ops)
    add("pk", rng.randbytes(32), b"zed", rng.randbytes(8), 9999, str(BAD_INPUT), "bpki:wrap:iter", "iteration count below the minimum accepted")
    add("pk", rng.randbytes(32), b"zed", rng.randbytes(8), 0, str(BAD_INPUT), "bpki:wrap:iter", "iteration count below the minimum accepted")
    add("sh", b"\1" + rng.randbytes(16), b"zed", rng.randbytes(8), 9999, str(BAD_INPUT), "bpki:wrap:iter", "iteration count below the minimum accepted")
    for n in (16, 23, 25, 33, 0, 65):
        add("pk", rng.randbytes(n), b"zed", rng.randbytes(8), 10000, str(BAD_PRIVKEY), "bpki:wrap:keylen", "private key of %d octets accepted" % n)
    for sh in (b"\1" + rng.randbytes(15), b"\1" + rng.randbytes(17), bytes(17), b"\x11" + rng.randbytes(16), b"\0" + rng.randbytes(32), b""):
        add("sh", sh, b"zed", rng.randbytes(8), 10000, str(BAD_SHAREKEY), "bpki:wrap:share", "invalid share accepted")
    gen = [("pk", 24, 10000), ("pk", 32, 10000), ("pk", 48, 10001), ("pk", 64, 10000), ("sh", 17, 10000), ("sh", 25, 10000), ("sh", 33, 10007)]
    if quick:
        gen = [gen[i] for i in sorted(rng.sample(range(7), 4))]
    for j, (kind, n, it) in enumerate(gen):
        payload = rng.randbytes(n) if kind == "pk" else bytes([rng.choice([1, 16, rng.randrange(1, 17)])]) + rng.randbytes(n - 1)
        add(kind, payload, pwds[(j * 3 + ctx.seed) % len(pwds)], rng.randbytes(8), it, r"0 [0-9a-f]{%d}" % (2 * epki_len_ref(kind, n, it)),
            "bpki:wrap:accept", "valid container refused (or of a length other than the DER reference)")
    # ---- the iteration count at the boundaries of its DER length (iterCount INTEGER: 2 | 3 | 4 ... content octets):
    # (a) the sizing pass alone (epki == 0, no PBKDF2): announced length against the Python DER reference, every key / share length
    ITERS = [10000, 10001, 32767, 32768, 65535, 65536, 8388607, 8388608, (1 << 31) - 1, 1 << 31, (1 << 32) - 1, 1 << 32,
             (1 << 39) - 1, 1 << 39, (1 << 47) - 1, 1 << 47, (1 << 55) - 1, 1 << 55, (1 << 63) - 1, 1 << 63, (1 << 64) - 1]
    for it in ITERS + [rng.randrange(10000, 1 << 64) for _ in range(4)]:
        for n in (24, 32, 48, 64):
            bag.add("pkwraplen %s %d" % (hx(rng.randbytes(n)), it), "0 %d" % epki_len_ref("pk", n, it), "bpki:wraplen",
                    "bpkiPrivkeyWrap announces a wrong container length for iter = %d (DER length of iterCount)" % it)
        for n in (17, 25, 33):
            for idx in ((1, 16) if it in (10000, 32768) else (rng.randrange(1, 17),)):
                bag.add("shwraplen %s %d" % (hx(bytes([idx]) + rng.randbytes(n - 1)), it), "0 %d" % epki_len_ref("sh", n, it), "bpki:wraplen",
                        "bpkiShareWrap announces a wrong container length for iter = %d (DER length of iterCount)" % it)
    for it in (0, 1, 9999):
        bag.add("pkwraplen %s %d" % (hx(rng.randbytes(32)), it), str(BAD_INPUT), "bpki:wrap:iter", "iteration count below the minimum accepted by the sizing pass")
    bag.add("pkwraplen %s 10000" % hx(rng.randbytes(31)), str(BAD_PRIVKEY), "bpki:wrap:keylen", "key length")
    bag.add("shwraplen %s 10000" % hx(b"\x11" + rng.randbytes(16)), str(BAD_SHAREKEY), "bpki:wrap:share", "share index 17")
    # (b) the real thing: length query, then the call into an exact-size block of the announced length (harness: code 9999 if the
    # written length differs; ASan if it is exceeded), then Unwrap of exactly these octets (stage 2).  PBKDF2 cost grows with iter:
    # 32767/32768 run on the model too, 65535/65536 on the implementation only in the quick tier, 8388607/8388608 thorough only.
    kl = [24, 32, 48, 64]
    sl = [17, 25, 33]
    b = ctx.seed
    plan = [("pk", kl[b % 4], 32767, True), ("pk", kl[(b + 1) % 4], 32768, True), ("sh", sl[b % 3], 32767, True), ("sh", sl[(b + 1) % 3], 32768, True),
            ("pk", kl[(b + 2) % 4], 65535, not quick), ("pk", kl[(b + 3) % 4], 65536, not quick), ("sh", sl[(b + 2) % 3], 65536, not quick),
            # values that are not a boundary themselves: every octet of iterCount non-zero / distinct (a truncated or byte-swapped
            # count on the way to PBKDF2 in Unwrap shows up as ERR_BAD_KEYTOKEN for the right password); implementation only
            ("pk", kl[b % 4], 65537, False), ("sh", sl[b % 3], rng.randrange(66000, 200000) | 0x010101, False),
            ("pk", kl[(b + 1) % 4], 0x012345 + rng.randrange(16), False)]
    if not quick:
        plan += [("pk", n, it, True) for n in kl for it in (10001, 32768)] + [("sh", n, it, True) for n in sl for it in (10001, 32767)]
        # 8388608 (iterCount grows to 4 content octets) costs ~45 s of PBKDF2 per call on the ASan build: one container per run,
        # implementation only; 8388607 and everything above are covered by the sizing-pass ops
        plan += [("sh", sl[b % 3], 65535, True), (("pk", kl[b % 4], 8388608, False) if b % 2 else ("sh", sl[(b + 1) % 3], 8388608, False))]
    for j, (kind, n, it, lean) in enumerate(plan):
        payload = rng.randbytes(n) if kind == "pk" else bytes([rng.choice([1, 16, rng.randrange(1, 17)])]) + rng.randbytes(n - 1)
        add(kind, payload, pwds[(j + ctx.seed) % 4], rng.randbytes(8), it, r"0 [0-9a-f]{%d}" % (2 * epki_len_ref(kind, n, it)), "bpki:wrap:iterlen",
            "container for iter = %d refused, or announced / written / reference lengths differ" % it, lean=lean)
    # the same construction with small iteration counts (static codecs + beltPBKDF2 + beltKWPWrap): many cases
    for kind, sizes in (("pk", (24, 32, 48, 64)), ("sh", (17, 25, 33))):
        for n in sizes:
            for pw in pwds:
                payload = rng.randbytes(n) if kind == "pk" else bytes([rng.randrange(1, 17)]) + rng.randbytes(n - 1)
                add(kind, payload, pw, rng.choice([bytes(8), b"\xff" * 8, rng.randbytes(8)]), rng.choice([1, 2, 3, 5, 5, 127, 128, 255, 256]),
                    r"0 [0-9a-f]+", "bpki:rawwrap", "container construction failed", raw=True)
    # payloads the decoders must refuse after a successful key unwrap
    add("sh", bytes(17), b"pw", rng.randbytes(8), 2, None, "", "", raw=True)                       # share[0] = 0
    add("sh", b"\x11" + rng.randbytes(32), b"pw", rng.randbytes(8), 2, None, "", "", raw=True)     # share[0] = 17
    add("raw", rng.randbytes(16), b"pw", rng.randbytes(8), 2, None, "", "", raw=True)
    add("raw", rng.randbytes(60), b"pw", rng.randbytes(8), 2, None, "", "", raw=True)
    add("raw", rng.randbytes(15), b"pw", rng.randbytes(8), 2, None, "", "", raw=True)              # KWP refuses < 16
    bag.add("pbkdf %s 0 %s" % (hx(b"pw"), hx(bytes(8))), str(BAD_INPUT), "bpki:pbkdf", "zero iterations accepted")
    for it in (1, 2, 3):
        bag.add("pbkdf %s %d %s" % (hx(rng.randbytes(5)), it, hx(rng.randbytes(8))))


def bpki_stage2(ctx, bag, st, c_out):
    rng, quick = ctx.rng, ctx.tier == "quick"
    nalt = 0
    for (i, kind, payload, pwd, salt, it, genuine, lean) in st["wraps"]:
        o = c_out[i] if i < len(c_out) else ""
        if not o.startswith("0 "):
            continue
        e = unhx(o.split()[1])
        un = "pkunwrap" if kind == "pk" else "shunwrap"
        if kind == "raw":
            bag.add("pkunwrap %s %s" % (hx(e), hx(pwd)), r"[1-9]\d*", "bpki:unwrap:payload", "container with a malformed payload accepted")
            bag.add("shunwrap %s %s" % (hx(e), hx(pwd)), r"[1-9]\d*", "bpki:unwrap:payload", "container with a malformed payload accepted")
            continue
        bad_share = kind == "sh" and not (1 <= payload[0] <= 16)
        if bad_share:
            bag.add("%s %s %s" % (un, hx(e), hx(pwd)), r"0 %d \| %d %s" % (len(payload), BAD_SHAREKEY, hx(payload)), "bpki:unwrap:share", "share with a bad first octet")
            continue
        bag.add("%s %s %s" % (un, hx(e), hx(pwd)), r"0 %d \| 0 %s" % (len(payload), hx(payload)), "bpki:roundtrip",
                "Unwrap(Wrap(key, pwd), pwd) does not return the key (iter = %d)" % it, lean=lean)
        if it > 20000:
            # costly PBKDF2: one wrong password, nothing else
            if it < 100000:
                bag.add("%s %s %s" % (un, hx(e), hx(pwd + b"\1")), str(BAD_KEYTOKEN), "bpki:wrongpwd", "container opened with a wrong password", lean=lean and it < 40000)
            continue
        other = "shunwrap" if kind == "pk" else "pkunwrap"
        bag.add("%s %s %s" % (other, hx(e), hx(pwd)), str(BAD_FORMAT), "bpki:unwrap:kind", "container of the other kind accepted")
        if it > 300 and quick and rng.random() < 0.5:
            continue
        # HMAC pads a key of at most 32 octets with zeros (STB 34.101.47 / RFC 2104): passwords that differ only by
        # trailing zero octets are the same password for PBKDF2 -- they are not "wrong" (correspondence only)
        eq = lambda p: p.rstrip(b"\0") if len(p) <= 32 else p
        wrong = [pwd[:-1] if pwd else b"x", pwd + b"\1", bytes(len(pwd)) + b"\2", alter(rng, pwd, rng.randrange(len(pwd))) if pwd else b"\0\1"]
        for w in wrong[:(2 if it > 300 else 4)]:
            if eq(w) != eq(pwd):
                bag.add("%s %s %s" % (un, hx(e), hx(w)), str(BAD_KEYTOKEN), "bpki:wrongpwd", "container opened with a wrong password")
        if it <= 300 and len(pwd) < 32:
            bag.add("%s %s %s" % (un, hx(e), hx(pwd + b"\0")))
        # alterations: every octet of a few small-iteration containers; the length octet of iterCount is treated apart
        p_iter = e.find(b"\x04\x08" + salt) + 10      # tag of the INTEGER iterCount
        if it <= 5 and (nalt < (3 if quick else 12)) and len(pwd) < 40:
            nalt += 1
            for pos in range(len(e)):
                if pos == p_iter + 1:
                    cands = [bytes([0]), bytes([2])]
                    xs = [e[:pos] + c + e[pos + 1:] for c in cands if c[0] != e[pos]]
                elif pos == p_iter + 2 and e[p_iter + 1] == 1:
                    xs = [e[:pos] + bytes([v]) + e[pos + 1:] for v in (0, 1, 0x7F, 0x80) if v != e[pos]]
                else:
                    xs = [alter(rng, e, pos)]
                for x in xs:
                    bag.add("%s %s %s" % (un, hx(x), hx(pwd)), r"[1-9]\d*", "bpki:altered", "an altered octet of a container was not rejected (offset %d of %d)" % (pos, len(e)))
            for cut in (1, 16, 17):
                bag.add("%s %s %s" % (un, hx(e[:-cut]), hx(pwd)), r"[1-9]\d*", "bpki:altered", "truncated container accepted")
            bag.add("%s %s %s" % (un, hx(e + b"\0"), hx(pwd)), r"[1-9]\d*", "bpki:altered", "extended container accepted")
        elif genuine:
            # genuine containers: alter only the encrypted data and the salt (iterCount alterations would cost up to 2^24 iterations)
            for pos in [rng.randrange(len(e) - 60, len(e)), p_iter - 3]:
                bag.add("%s %s %s" % (un, hx(alter(rng, e, pos)), hx(pwd)), r"[1-9]\d*", "bpki:altered", "an altered octet of a container was not rejected (offset %d of %d)" % (pos, len(e)))


# ----------------------------------------------------------------------------- run
def corpus_lines():
    if not os.path.exists(CORPUS):
        return []
    out = []
    for l in open(CORPUS):
        l = l.rstrip("\n")
        if l and not l.startswith("#"):
            op, _, want = l.partition(" => ")
            out.append((op, want or None))
    return out


def fmt_replay(key, op, got, want, what, model=None):
    L = ["# property C17 key=%s : %s" % (key, what), "# replay with ./check C17 --replay <this file> (implementation only)", "op %s" % op,
         "impl %s" % got]
    if want is not None:
        L.append("expect %s" % (want if isinstance(want, str) else "@" + want.__name__))
    if model is not None:
        L.append("model %s" % model)
    return "\n".join(L) + "\n"


def judge(bag, c_out, fails, limit_per_key=3):
    seen = {}
    for i, o in enumerate(c_out):
        if i >= len(bag.ops):
            break
        w = bag.want[i]
        if callable(w):
            bad = o.startswith("CRASH") or not w(o)
        else:
            bad = o.startswith("CRASH") or (w is not None and not re.fullmatch(w, o))
        if bad:
            k = bag.key[i] or ("crash:" + bag.ops[i].split()[0])
            seen[k] = seen.get(k, 0) + 1
            if seen[k] <= limit_per_key:
                fails.append((k, bag.ops[i], o, w, bag.what[i] or "sanitizer report / crash"))


def run(ctx):
    translator_error = None
    try:
        regen(ctx)
    except Exception as e:
        translator_error = "%s: %s" % (type(e).__name__, e)
    if translator_error:
        proof_ok, log = False, "translator: " + translator_error
        ctx.obligations += [(n, None) for rel in PROPS for n in ctx.theorems_of(rel)]
    else:
        proof_ok, log = ctx.prove(TARGETS, PROPS)
    exe = ctx.cc("harness/c17.c", "asan")

    def run_c(lines):
        out, err, rc = ctx.run_lines(exe, lines)
        if rc != 0 or len(out) != len(lines):
            raise RuntimeError("c17 harness failed on a helper query: " + err[-400:])
        return out

    fails, all_mism, distinct = [], [], set()
    st = {}
    stages = []

    def do(label, bag):
        mism, c_out, crashed = diff_par(ctx, exe, bag.ops, bag.lean, label)
        all_mism.extend(mism)
        distinct.update(c_out)
        judge(bag, c_out, fails)
        stages.append((label, bag, c_out))
        return c_out

    cb = Bag()
    for op, want in corpus_lines():
        cb.add(op, want, "corpus:" + op.split()[0], "regression corpus (witness of a defect found earlier)")
    if cb.ops:
        do("corpus", cb)
    b1 = Bag()
    sm_stage1(ctx, b1, st)
    bpki_stage1(ctx, b1, st)
    o1 = do("stage1", b1)
    b2 = Bag()
    sm_stage2(ctx, b2, st, o1)
    bpki_stage2(ctx, b2, st, o1)
    do("stage2", b2)
    b3 = Bag()
    try:
        ccov = cvc_stage(ctx, b3, run_c)
    except RuntimeError as e:
        ccov = {"error": str(e)[:300]}
        fails.append(("cvc:create", "(helper query)", str(e)[:300], None, "the implementation could not create the certificates of a valid chain"))
    if b3.ops:
        do("cvc", b3)
    if ctx.tier == "thorough":
        # other build configurations must behave identically (32-bit words, FAST editions)
        for cfg in ("w32", "fast"):
            exe2 = ctx.cc("harness/c17.c", cfg)
            for label, bag, c_out in stages:
                out2, err2, rc2 = ctx.run_lines(exe2, bag.ops)
                for i, (x, y) in enumerate(zip(c_out, out2)):
                    if x != y:
                        fails.append(("cfg-%s:%s" % (cfg, bag.ops[i].split()[0]), bag.ops[i], y, re.escape(x), "build configuration %s disagrees with the default build" % cfg))
                        break
                ctx.cov["ops_" + cfg] = ctx.cov.get("ops_" + cfg, 0) + len(bag.ops)
    kinds, keys = {}, {}
    for _, bag, c_out in stages:
        for o, k in zip(bag.ops, bag.key):
            kinds[o.split()[0]] = kinds.get(o.split()[0], 0) + 1
            if k:
                keys[k] = keys.get(k, 0) + 1
    codes = {}
    for _, bag, c_out in stages:
        for op, o in zip(bag.ops, c_out):
            m = re.match(r"(?:0 \d+ \| )?(\d{1,3})( |$)", o)
            if m and op.split()[0] not in ("smstart", "smctr", "cvcbody", "cvcbdec", "cvclen"):
                codes[m.group(1)] = codes.get(m.group(1), 0) + 1
    ctx.cov.update({"ops_by_kind": kinds, "oracle_checks_by_class": keys, "result_codes": codes, "cvc": ccov,
                    "correspondence_disagreements": len(all_mism), "implementation_property_failures": len(fails),
                    "distinct_nontrivial": len(distinct)})
    for label, bag, c_out in stages[1:]:
        k = len(bag.ops) // 2
        ctx.samples.append({"op": bag.ops[k][:300], "impl": c_out[k][:200] if k < len(c_out) else ""})
    ctx.samples.append({"theorem": "Bee2V.C17.cmd_roundtrip", "statement": "smCmdWrap C cmd st = (ok, apdu) → smCmdUnwrap C apdu st = (ok, some cmd)"})
    seen = set()
    for key, op, got, want, what in fails:
        if key in seen:
            continue
        seen.add(key)
        ctx.violation(key, fmt_replay(key, op, got, want, what), True, "%s\n  op: %s\n  impl: %s\n  required: %s" % (what, op[:400], got[:200], (want if isinstance(want, str) else (want.__doc__ if want else "") or "")[:200]))
    if not fails:
        if not proof_ok:
            errs = "\n".join("# " + l for l in log.split("\n") if "error" in l)[:3000]
            ctx.violation("proof", "# property C17: the theorems of Bee2V/C17/Props*.lean no longer check; the implementation-only "
                          "property tests found no failing input.\n# first errors:\n" + errs, False,
                          "theorems no longer check: " + (translator_error or "; ".join(ctx.cov.get("lake_errors", [])) or log[-300:])[:400])
        seen = set()
        for i, op, c, l in all_mism:
            key = "model:" + op.split()[0]
            if key in seen:
                continue
            seen.add(key)
            ctx.violation(key, fmt_replay(key, op, c, None, "model and implementation disagree", model=l), False,
                          "model and implementation disagree\n  op: %s\n  impl: %s\n  model: %s" % (op[:400], c[:200], l[:200]))
    return ctx.finish(
        level="proof",
        assumptions=[
            "theorems are about the hand-written code-shaped models (ModelSM/ModelCVC/ModelBpki), tied to btok_sm.c/btok_cvc.c/bpki.c by the correspondence run and by the constants regenerated from the sources (xlate/x_c17.py)",
            "the signature layer (bign/bign96 sign, verify, key validation, hashing) is abstract in the CVC theorems: completeness laws are hypotheses (proved for the bign model in C02); soundness is not a theorem: the theorems show WHICH octets reach Verify",
            "belt-CFB/MAC/KWP/PBKDF2 come from the C01 model, DER/APDU codecs from the C08 model, tmDateIsValid from the C12 model",
            "MAC/KWP collisions are exhibited as explicit witnesses, replay (the MAC does not cover the counter) is not claimed",
            "model follows /repo with docs/C17.fix-1.diff applied (btokSMCmdWrap rejects len(CDF*) > 65535)"],
        rule="staged: (1) SM wraps for every data length 0..300 + 255/256/65516..65535 x Le forms {0,1,255,256,257,65535,65536} x all 256 CLA values, counters of both parities; "
             "containers for key lengths 24/32/48/64 + shares 17/25/33, passwords empty..300 octets, iteration counts at/below 10000 and small counts through the static codecs; "
             "(2) unwraps of the implementation's own outputs with in-step / wrong-parity / out-of-step counters, every single-octet alteration of selected APDUs and containers, dialogues on two real states; "
             "(3) certificate content at the limits (names 0..12, every octet value, date octets 10..255 at all 12 positions, calendar, order), chains of depth 1..3 with mixed key lengths created by the implementation, "
             "validation dates at the window boundaries, prefix/suffix-named issuers, every single-octet alteration of the certificates. distinct = number of distinct output lines",
        distinct=len(distinct), exhaustive=False)


def replay(ctx, path):
    op = want = model = None
    for l in open(path):
        l = l.rstrip("\n")
        if l.startswith("op "):
            op = l[3:]
        elif l.startswith("expect "):
            want = l[7:]
        elif l.startswith("model "):
            model = l[6:]
    if op is None:
        print("no op line in the replay file")
        return 2
    exe = ctx.cc("harness/c17.c", "asan")
    out, err, rc = ctx.run_lines(exe, [op])
    got = out[0] if out else "CRASH(rc=%d)" % rc
    print("op:   " + op[:300])
    print("impl: " + got[:300])
    if want is not None and want.startswith("@"):
        print("required: " + (globals()[want[1:]].__doc__ or want))
        still = rc != 0 or not globals()[want[1:]](got)
    elif want is not None:
        print("required: " + want[:300])
        still = rc != 0 or not re.fullmatch(want, got)
    elif model is not None:
        print("model: " + model[:300])
        still = rc != 0 or got != model
    else:
        still = rc != 0
    print("STILL FAILING" if still else "no longer failing")
    return 1 if still else 0


# ------------------------------------------------------------------ C19: a quick-sized stream for the configuration replay
def c19_stream():
    """(harness, driver, fn, uses_bash) for props/C19.py: fn(ctx, exe, w) -> op lines (at most 4000).
    The three stages of the quick generator are produced in full (later stages from the outputs of `exe`, the reference
    build), then thinned: every oracle class keeps its first cases, the rest is sampled; the ops whose model side is slow
    (PBKDF2 with >= 10000 iterations, bign verification / signing) and the very long lines are capped.
    All ops are octet-level: nothing depends on the machine-word size `w`."""

    class _Shim:
        def __init__(self, ctx):
            self.rng, self.tier, self.seed = ctx.rng, "quick", ctx.seed

    def fn(ctx, exe, w):
        def run_c(lines):
            out, err, rc = ctx.run_lines(exe, lines)
            if rc != 0 or len(out) != len(lines):
                raise RuntimeError("c17 harness failed while building the C19 stream: " + err[-300:])
            return out

        sh, rng = _Shim(ctx), ctx.rng
        st = {}
        b1 = Bag()
        sm_stage1(sh, b1, st)
        bpki_stage1(sh, b1, st)
        o1 = run_c(b1.ops)
        b2 = Bag()
        sm_stage2(sh, b2, st, o1)
        bpki_stage2(sh, b2, st, o1)
        b3 = Bag()
        cvc_stage(sh, b3, run_c)
        ops, keys = [], []
        for b in (b1, b2, b3):          # only ops the model side is meant to run
            for o, k, l in zip(b.ops, b.key, b.lean):
                if l:
                    ops.append(o)
                    keys.append(k)
        CRYPTO = ("cvcwrap", "cvciss", "cvcunwrap", "cvcval", "cvcval2", "cvcmatch", "sigvfy", "pubcalc")

        def cls(op):
            t = op.split()
            if t[0] in ("pkwrap", "shwrap") and int(t[4]) >= 10000:
                return "pbkdf"
            if t[0] in ("pkunwrap", "shunwrap"):
                m = re.search(r"0408[0-9a-f]{16}02(0[1-8])", t[1])
                if m:
                    k = int(m.group(1), 16)
                    if int(t[1][m.end():m.end() + 2 * k] or "0", 16) >= 5000:
                        return "pbkdf"
            if len(op) > 20000:
                return "long"
            if t[0] in CRYPTO:
                return "crypto"
            return "plain"

        cap = {"pbkdf": 3, "long": 3, "crypto": 110, "plain": 3800}     # the model side of the capped classes costs 0.1 .. 3 s per op
        first, rest = [], []
        seen = {}
        for i, (o, k) in enumerate(zip(ops, keys)):
            kk = (o.split()[0], k)
            seen[kk] = seen.get(kk, 0) + 1
            (first if seen[kk] <= 2 else rest).append(i)
        rng.shuffle(rest)
        used = {c: 0 for c in cap}
        keep = []
        for i in first + rest:
            c = cls(ops[i])
            if used[c] < cap[c]:
                used[c] += 1
                keep.append(i)
        return [ops[i] for i in sorted(keep)][:4000]

    return "harness/c17.c", "drv_c17", fn, False

"""C09 — error contract: bad arguments and failed allocations yield errors, not damage; no
unauthenticated plaintext released.

Proof   : Bee2V/C09/Props.lean (soundness of allocFailSafe / releaseSafe / verifyFirst over the path
          semantics) + Bee2V/Gen/C09Obl.lean: alloc_<f> for EVERY err_t function, release_/vfirst_<f>
          for the unwrap functions, contract_/accept_<f>: code's argument-check cascade (regenerated
          by xlate/x_cfg.py) vs the header's \\expect lists (xlate/x_c09spec.py).
Tie     : regenerated skeletons / cascades; harness/c09.c:
          (a) `chk`  : each scalar argument swept over the boundaries of every constant its cascade or
                       its header mentions, plus 0, 1, 2^32, SIZE_MAX — implementation vs the cascade
                       evaluated by the Lean driver;
          (b) `scen` with the 1st..n-th allocation failing (malloc/realloc interposed): error returned,
                       nothing left allocated, outputs still canary, no crash; own blob events must be
                       a path of the skeleton;
          (c) `scen` on the failing-authentication exits: outputs untouched / zeroed as documented.
Search  : the same runs judged WITHOUT the model: header domain (evaluated in Python from the
          \\expect lists) vs returned code; leak / crash / output canaries.
"""
import os, sys, re
import vcommon
from vcommon import VERIF
sys.path.insert(0, os.path.join(VERIF, "xlate"))

PROPS = ["Bee2V/C09/Props.lean", "Bee2V/Gen/C09Obl.lean"]
TARGETS = ["Bee2V.C09.Props", "Bee2V.Gen.C09Obl"]
SIZE_MAX = 2 ** 64 - 1

# functions the harness can call (`chk`) with their scalar parameters (order of the C definition)
# and a valid baseline
CHK = {
    "beltECBEncr": (48, 32), "beltECBDecr": (48, 32), "beltCBCEncr": (48, 32), "beltCBCDecr": (48, 32),
    "beltCFBEncr": (40, 32), "beltCFBDecr": (40, 32), "beltCTR": (40, 32), "beltMAC": (40, 32),
    "beltBDEEncr": (48, 32), "beltBDEDecr": (48, 32), "beltSDEEncr": (48, 32), "beltSDEDecr": (48, 32),
    "beltKWPWrap": (32, 32), "beltKWPUnwrap": (48, 32),
    "beltDWPWrap": (40, 20, 32), "beltDWPUnwrap": (40, 20, 32), "beltCHEWrap": (40, 20, 32), "beltCHEUnwrap": (40, 20, 32),
    "beltFMTEncr": (10, 20, 32), "beltFMTDecr": (10, 20, 32), "beltKRP": (32, 32), "beltPBKDF2": (8, 3, 8),
    "bashHash": (128, 40), "belsStdM": (16, 3), "belsShare": (5, 3, 16), "belsShare2": (5, 3, 16), "belsShare3": (5, 3, 16),
    "belsRecover2": (3, 16), "botpHOTPRand": (8, 32), "botpTOTPRand": (8, 32, 1000000),
    "bpkiPrivkeyWrap": (32, 8, 10000), "bpkiShareWrap": (33, 8, 10000),
    "belsValM": (16,), "belsGenMid": (16, 11), "belsRecover": (3, 16), "bignKeyWrap": (32,),
}
# arguments that are sizes of buffers the harness supplies (a value beyond this bound may only be
# passed when the call is going to be rejected)
BUFMAX = 4096
NOT_BUFFER = {("beltFMTEncr", 0), ("beltFMTDecr", 0), ("beltPBKDF2", 1), ("botpTOTPRand", 2), ("bpkiPrivkeyWrap", 2), ("bpkiShareWrap", 2)}
BUFLIMIT = {("beltFMTEncr", 1): 600, ("beltFMTDecr", 1): 600, ("beltPBKDF2", 1): 2000, ("bpkiPrivkeyWrap", 2): 20000, ("bpkiShareWrap", 2): 20000,
            ("bashHash", 0): 4096, ("belsShare", 0): 16, ("belsShare2", 0): 16, ("belsShare3", 0): 16, ("belsRecover2", 0): 16, ("belsStdM", 1): 16,
            ("belsRecover", 0): 16}


# ---- boundary sweep of private keys and points (harness ops `key` / `pt`, Spec via drv_c09 keyclass / ptclass)
KEY_FUNCS = ["bignPubkeyCalc", "bignKeypairVal", "bignDH", "bignSign", "bignSign2", "bignKeyUnwrap", "btokCVCWrap", "btokCVCIss",
             "bign96PubkeyCalc", "bign96KeypairVal", "bign96Sign", "bign96Sign2", "g12sSign", "dstuSign",
             "pfokPubkeyCalc", "pfokDH", "pfokMTI"]
PT_FUNCS = ["bignPubkeyVal", "bignKeypairVal", "bignDH", "bignVerify", "bignKeyWrap", "bignIdVerify",
            "bign96PubkeyVal", "bign96Verify", "bign96KeypairVal", "g12sVerify"]
PT_VALID_ANY = {"bignKeypairVal", "bign96KeypairVal"}     # a valid point that does not match the private key is ERR_BAD_PUBKEY too
KEY_NAMES = ["d=0", "d=1", "d=q-1", "d=q", "d=q+1", "d=ff..ff"]
PT_NAMES = ["(0,0)", "(p-1,yG)", "(p,yG)", "(p+1,yG)", "(xG,p)", "y with one bit flipped", "G", "-G", "valid key"]


def le_int(h):
    return int.from_bytes(bytes.fromhex(h), "little") if h != "-" else 0


def boundary_sweep(ctx, exe, have_drv, problems):
    import x_c09obl
    ops = ["key %s %d" % (f, i) for f in KEY_FUNCS for i in range(6)] + ["pt %s %d" % (f, i) for f in PT_FUNCS for i in range(9)]
    out = x_c09obl.run_scen(ctx, exe, ops)
    mops, midx, recs = [], [], []
    for op, line in zip(ops, out):
        kind, fn, idx = op.split()
        idx = int(idx)
        if line in ("skip", "unknown"):
            recs.append(None)
            continue
        if not line.startswith("code="):
            recs.append({"crash": line})
            problems.append(("%s:%s-boundary" % (fn, "privkey" if kind == "key" else "point"), op, "crashed: " + line[:200]))
            continue
        f = dict(kv.split("=") for kv in line.split())
        f["code"], f["out"] = int(f["code"]), int(f["out"])
        if kind == "key":
            z = fn in x_c09obl.ZERO_VALID_KEY
            d, q = le_int(f["d"]), le_int(f["q"])
            f["spec"] = "valid" if ((d > 0 or z) and d < q) else "504"
            mops.append("keyclass %s %s %s" % (f["d"], f["q"], "z" if z else "n"))
        else:
            P, a, b, x, y = (le_int(f[k]) for k in "pabxy")
            f["spec"] = "valid" if (x < P and y < P and (y * y - (x * x * x + a * x + b)) % P == 0) else "505"
            mops.append("ptclass %s %s %s %s %s" % (f["p"], f["a"], f["b"], f["x"], f["y"]))
        midx.append(len(recs))
        recs.append(f)
    model_bad = []
    if have_drv and mops:
        mo, merr, mrc = ctx.run_lines(ctx.driver(), mops)
        if mrc != 0 or len(mo) != len(mops):
            raise RuntimeError("drv_c09 failed: " + merr[-300:])
        for i, m, mop in zip(midx, mo, mops):
            if m != recs[i]["spec"]:
                model_bad.append((mop, m, recs[i]["spec"]))
    classes = set()
    for op, f in zip(ops, recs):
        if not f or "crash" in f:
            continue
        kind, fn, idx = op.split()
        idx = int(idx)
        what = (KEY_NAMES if kind == "key" else PT_NAMES)[idx]
        cls = 504 if kind == "key" else 505
        classes.add((fn, kind, idx, f["code"]))
        key = "%s:%s-boundary" % (fn, "privkey" if kind == "key" else "point")
        if f["spec"] != "valid":
            if f["code"] != cls:
                problems.append((key, op, "%s is outside the valid range but %s returned %d (header: %d)" % (what, fn, f["code"], cls)))
            elif f["out"] != 0:
                problems.append((key, op, "%s rejected with %d but an output buffer was written" % (what, cls)))
        elif f["code"] == cls and fn not in PT_VALID_ANY:
            problems.append((key, op, "%s is a valid %s but %s rejected it with %d" % (what, "private key" if kind == "key" else "point", fn, cls)))
    ctx.cov["boundary_ops"] = sum(1 for r in recs if r)
    ctx.cov["boundary_spec_model_mismatches"] = len(model_bad)
    return len(ops), classes, model_bad


def regen(ctx):
    import x_c09obl
    import importlib
    importlib.reload(x_c09obl)
    return x_c09obl.regen_all(ctx)


# ------------------------------------------------------------------ (a) argument sweep
def consts_of(c, acc):
    if isinstance(c, tuple):
        if c and c[0] == "const":
            acc.add(c[1])
        for x in c[1:]:
            consts_of(x, acc)
    return acc


def header_conds(info):
    """{function: (scalars, [(err code, cond)])} from the headers (Python side of the spec)"""
    import x_c09spec
    codes = x_c09spec.err_codes()
    docs = x_c09spec.documented()
    out = {}
    for f in info["fns"]:
        d = docs.get(f["name"])
        if not d or f["static"]:
            continue
        scal = f["checks"]["scalars"]
        conds = []
        for en, text in d["items"]:
            en = x_c09spec.ALIASES.get(en, en)
            try:
                conds.append((codes[en], x_c09spec.parse_cond(text, set(scal))))
            except (x_c09spec.ParseError, KeyError):
                pass
        out[f["name"]] = (scal, conds)
    return out


def ev_expr(e, env):
    k = e[0]
    if k == "var":
        return env[e[1]]
    if k == "const":
        return e[1]
    a, b = ev_expr(e[1], env), ev_expr(e[2], env)
    W = 2 ** 64
    return {"add": (a + b) % W, "sub": (a - b) % W, "mul": (a * b) % W, "div": a // b if b else 0, "mod": a % b if b else 0}[k]


def ev_cond(c, env):
    k = c[0]
    if k == "or":
        return ev_cond(c[1], env) or ev_cond(c[2], env)
    if k == "and":
        return ev_cond(c[1], env) and ev_cond(c[2], env)
    if k == "not":
        return not ev_cond(c[1], env)
    if k == "nz":
        return ev_expr(c[1], env) != 0
    a, b = ev_expr(c[2], env), ev_expr(c[3], env)
    return {"==": a == b, "!=": a != b, "<": a < b, "<=": a <= b, ">": a > b, ">=": a >= b}[c[1]]


def sweep_ops(ctx, info, hdr):
    byname = {f["name"]: f for f in info["fns"]}
    ops = []
    for fn, base in sorted(CHK.items()):
        f = byname.get(fn)
        if f is None or len(f["checks"]["scalars"]) != len(base):
            raise RuntimeError("harness table out of date for " + fn)
        cs = set()
        for c, e in f["checks"]["list"]:
            consts_of(c, cs)
        for e, c in hdr.get(fn, ([], []))[1]:
            consts_of(c, cs)
        vals = {0, 1, 2, 2 ** 32, 2 ** 32 + 1, SIZE_MAX, SIZE_MAX - 1}
        for c in cs:
            vals |= {max(c - 1, 0), c, c + 1, 2 * c, c + 16}
        vals = sorted(v for v in vals if 0 <= v <= SIZE_MAX)
        tuples = {tuple(base)}
        ptypes = f["checks"]["ptypes"]
        lim = [2 ** 32 - 1 if ptypes.get(p, "").strip() in ("u32", "unsigned int", "int") else SIZE_MAX for p in f["checks"]["scalars"]]
        for i in range(len(base)):
            for v in vals:
                t = list(base)
                t[i] = min(v, lim[i])
                tuples.add(tuple(t))
        # pairs / random combinations of boundary values
        nrand = 40 if ctx.tier == "quick" else 600
        for _ in range(nrand):
            t = list(base)
            for i in range(len(base)):
                if ctx.rng.random() < 0.6:
                    t[i] = min(ctx.rng.choice(vals), lim[i])
            tuples.add(tuple(t))
        for t in sorted(tuples):
            ops.append("chk %s %s" % (fn, " ".join(str(x) for x in t)))
    return ops


def safe_to_run(op, pred):
    """a call the model accepts must stay within the harness buffers"""
    w = op.split()
    fn, args = w[1], [int(x) for x in w[2:]]
    if pred != "pass":
        return True
    for i, a in enumerate(args):
        lim = BUFLIMIT.get((fn, i), None if (fn, i) in NOT_BUFFER else BUFMAX)
        if lim is not None and a > lim:
            return False
    return True


def oracle_chk(op, c_out, hdr):
    """implementation vs header only: returns a description if the property fails on this input"""
    w = op.split()
    fn, args = w[1], [int(x) for x in w[2:]]
    scal, conds = hdr.get(fn, ([], []))
    if len(scal) != len(args):
        return None
    env = dict(zip(scal, args))
    violated = sorted({e for e, c in conds if not ev_cond(c, env)})
    if c_out.startswith("CRASH"):
        return "crash (%s) on %s" % (c_out[:160], "an argument outside the documented domain" if violated else "valid arguments")
    if violated:
        if c_out == "pass":
            return "arguments outside the documented domain (class %s) accepted" % violated
        if c_out.isdigit() and int(c_out) not in violated:
            return "arguments violate the documented conditions of class %s but %s is returned" % (violated, c_out)
    return None


# ------------------------------------------------------------------ (b), (c) scenarios
# committed: functions that leave partially written PUBLIC data in an output when they return an error
# (by design: they parse / encode first and check afterwards); recorded as a statistic, not a violation.
# For every other function an error return with data in an output buffer is a violation.
OUTPUT_ON_ERROR = {
    "btokCVCUnwrap": "*cvc is cleared and filled from the certificate body before signature, key and date checks",
    "btokCVCVal2": "passes the caller's cvc to btokCVCUnwrap",
    "btokCVCWrap": "the certificate body is encoded into cert[] before the signature is made",
    "btokSMCmdWrap": "the unprotected encoding is written to apdu[] before the counter-parity check",
    "btokSMRespWrap": "the unprotected encoding is written to apdu[] before the counter-parity check",
}


def judge_scen(d, failat):
    if "crash" in d:
        return ["crashed: " + str(d["crash"])[:200]]
    pr = []
    if d["live"] != 0:
        pr.append("%d allocation(s) left behind" % d["live"])
    if failat and d["failed"]:
        if d["code"] == 0:
            pr.append("an allocation failed but ERR_OK was returned")
        # (an output written or wiped before a later allocation fails is not excluded by the
        #  property; it is recorded as a statistic, see run())
    if not failat:
        if d["code"] != d["exp"]:
            pr.append("returned %d where the header promises %d" % (d["code"], d["exp"]))
        if d["code"] != 0 and d["out"] == 2 and d["fn"] not in OUTPUT_ON_ERROR:
            pr.append("error %d returned but an output buffer holds data" % d["code"])
        if d["code"] != 0 and d["out"] == 1 and d["outdoc"] == 0:
            pr.append("error %d returned and an output buffer was modified (zeroised) although nothing should be written" % d["code"])
    return pr


def scen_part(ctx, exe, have_drv, problems, exits):
    import x_c09obl
    listing, _, _ = ctx.run_lines(exe, ["list"])
    base = []
    for item in listing[0].split():
        name, fn, nvar = item.split(":")
        for v in range(int(nvar)):
            base.append(("scen %s %d 0" % (name, v), name, v))
    lines = x_c09obl.run_scen(ctx, exe, [b[0] for b in base])
    ops2, fail2 = [], []
    for (op, name, v), line in zip(base, lines):
        d = x_c09obl.parse_scen(line)
        ops2.append(op)
        fail2.append(0)
        n = d.get("allocs", 0) if "crash" not in d else 0
        ks = list(range(1, n + 1))
        if ctx.tier == "quick" and len(ks) > 4:
            ks = ks[:3] + [ctx.rng.choice(ks[3:])]
        for k in ks:
            ops2.append("scen %s %d %d" % (name, v, k))
            fail2.append(k)
    out2 = x_c09obl.run_scen(ctx, exe, ops2)
    res2 = [x_c09obl.parse_scen(l) for l in out2]
    for op, k, d in zip(ops2, fail2, res2):
        for p in judge_scen(d, k):
            problems.append(("%s:%s" % (d.get("fn", op.split()[1]), "alloc-failure" if k else "exit%s" % op.split()[2]), op, p))
        if "crash" not in d:
            exits.add((d["fn"], d["code"], d["own"], d["out"]))
    path_bad = []
    if have_drv:
        pops = ["path %s %s %s" % (d["fn"], "ok" if d["code"] == 0 else "bad", d["own"]) for d in res2 if "crash" not in d]
        pidx = [i for i, d in enumerate(res2) if "crash" not in d]
        pout, perr, prc = ctx.run_lines(ctx.driver(), pops)
        if prc != 0 or len(pout) != len(pops):
            raise RuntimeError("drv_c09 failed: " + perr[-400:])
        for i, po, o in zip(pidx, pops, pout):
            if o not in ("yes", "yes-inlined"):
                path_bad.append((ops2[i], po, o))
    return ops2, fail2, res2, path_bad


def run(ctx):
    import x_c09obl
    terr, info = None, {}
    try:
        info = regen(ctx)
    except Exception as e:
        terr = "%s: %s" % (type(e).__name__, e)
    proof_ok, log = (False, "translator: " + terr) if terr else ctx.prove(TARGETS, PROPS)
    exe = ctx.cc("harness/c09.c", "asan", extra=x_c09obl.WRAP)
    have_drv = os.path.exists(ctx.driver()) and not terr
    problems = []       # (key, replay op, text)
    # ---- (a)
    mism, n_chk, classes = [], 0, set()
    if info:
        hdr = header_conds(info)
        ops = sweep_ops(ctx, info, hdr)
        if have_drv:
            pred, perr, prc = ctx.run_lines(ctx.driver(), ops)
            if prc != 0 or len(pred) != len(ops):
                raise RuntimeError("drv_c09 failed: " + perr[-400:])
        else:
            # no model: use the header (Python) to decide which calls are safe to make
            pred = []
            for op in ops:
                w = op.split()
                scal, conds = hdr.get(w[1], ([], []))
                env = dict(zip(scal, [int(x) for x in w[2:]]))
                pred.append("pass" if all(ev_cond(c, env) for e, c in conds) and len(scal) == len(w) - 2 else "reject")
        run_ops = [op for op, p in zip(ops, pred) if safe_to_run(op, p)]
        run_pred = [p for op, p in zip(ops, pred) if safe_to_run(op, p)]
        c_out = x_c09obl.run_scen(ctx, exe, run_ops)
        n_chk = len(run_ops)
        for op, c, p in zip(run_ops, c_out, run_pred):
            classes.add((op.split()[1], c))
            bad = oracle_chk(op, c, hdr)
            if bad:
                problems.append(("%s:args" % op.split()[1], op, bad))
            elif have_drv and c != p:
                mism.append((op, c, p))
        ctx.cov["chk_ops"] = n_chk
        ctx.cov["chk_rejected"] = sum(1 for c in c_out if c != "pass")
        ctx.samples += [{"op": op, "impl": c, "model": p} for op, c, p in list(zip(run_ops, c_out, run_pred))[::max(1, n_chk // 6)][:6]]
    # ---- (a2) boundary values of private keys and points
    nb, bclasses, bmodel = boundary_sweep(ctx, exe, have_drv, problems)
    classes |= {(fn, "%s%d:%d" % (k, i, c)) for fn, k, i, c in bclasses}
    # ---- (b), (c): in every configuration of this tier
    ops2, fail2, res2, exits, path_bad = [], [], [], set(), []
    for cfg in (["asan"] if ctx.tier == "quick" else ["asan", "rel", "fast", "O0"]):
        exe_c = exe if cfg == "asan" else ctx.cc("harness/c09.c", cfg, extra=x_c09obl.WRAP)
        o2, f2, r2, pb = scen_part(ctx, exe_c, have_drv, problems, exits)
        ops2 += o2
        fail2 += f2
        res2 += r2
        path_bad += pb
    ctx.cov["error_exit_output_modified_by_design"] = sorted({d["fn"] for k, d in zip(fail2, res2) if not k and "crash" not in d and d["code"] != 0 and d["out"] == 2 and d["fn"] in OUTPUT_ON_ERROR})
    ctx.cov["alloc_failure_output_modified"] = sorted({d["fn"] for k, d in zip(fail2, res2) if k and "crash" not in d and d["failed"] and d["out"] != 0})
    ctx.cov.update({"ops_total": n_chk + nb + len(ops2), "scenario_runs": len(ops2), "alloc_failure_runs": sum(1 for k in fail2 if k),
                    "auth_failure_runs": sum(1 for d in res2 if "crash" not in d and d["code"] in (511, 513)),
                    "distinct_nontrivial": len(exits) + len(classes),
                    "functions_translated": len(info.get("fns", [])), "gen_functions_unhandled": [terr] if terr else [],
                    "contracts_proved_for": info.get("spec", {}).get("contracts", []),
                    "contracts_partial": info.get("spec", {}).get("partial", []),
                    "prose_expect_items_not_modelled": info.get("spec", {}).get("prose_items", 0),
                    "prose_expect_items_as_named_predicates": info.get("spec", {}).get("prose_items_named", 0),
                    "named_predicates_checked_after_the_cascade": len(info.get("spec", {}).get("named_items_after_cascade", [])),
                    "field_guards": ["%s:%s->%d" % tuple(x) for x in info.get("spec", {}).get("field_guards", [])],
                    "field_guards_unrecognised": info.get("spec", {}).get("field_guards_unrecognised", []),
                    "order_theorems_for": info.get("spec", {}).get("order_theorems", []),
                    "order_differs_from_header_listing": info.get("spec", {}).get("order_differs", []),
                    "verify_before_release": info.get("release", []),
                    "cascade_model_mismatches": len(mism), "skeleton_path_mismatches": len(path_bad)})
    ctx.samples.append({"theorem": "Bee2V.C09.allocFailSafe_sound",
                        "statement": "allocFailSafe c = true → ∀ tr s' r, Exec c St.init tr s' (.ret r) → NoNullUse tr ∧ ((∃ e ∈ tr, IsAllocFailure e) → r = .bad ∧ ClosesAll tr)"})
    # documented classes that the code cannot produce at all (static refutation of the contract; the Lean side
    # keeps them as proved `…_unproducible` counterexamples)
    for fn, en in info.get("unproducible", []):
        problems.append(("contract:%s:%s" % (fn, en), "class %s %s" % (fn, en),
                         "the header of %s promises %s but neither the function nor a callee whose code it passes through ever "
                         "returns that class" % (fn, en)))
    ctx.cov["documented_classes_unproducible"] = ["%s:%s" % x for x in info.get("unproducible", [])]
    ctx.cov["violating_inputs"] = len({op for key, op, what in problems})
    seen = set()
    for key, op, what in problems:
        if key in seen:
            continue
        seen.add(key)
        if len(seen) > 12:
            continue          # the rest is counted in the evidence (`violating_inputs`)
        ctx.violation(key, "# property C09: %s\n# replay: ./check C09 --replay <this file>\n%s\n" % (what, op), True, "%s [%s]" % (what, op))
    if not problems:
        if not proof_ok:
            errs = "\n".join("# " + l for l in log.split("\n") if "error" in l)[:3000]
            ctx.violation("proof", "# property C09: the obligations of Bee2V/Gen/C09Obl.lean / Bee2V/C09/Props.lean no longer check against the "
                          "skeletons and argument-check cascades regenerated from the sources; the argument sweep, the allocation-failure "
                          "injection and the failing-authentication runs found no failing input.\n" + errs, False,
                          "theorems no longer check: " + (terr or "; ".join(ctx.cov.get("lake_errors", [])) or log[-300:])[:500])
        elif mism:
            op, c, p = mism[0]
            ctx.violation("cascade-model", "# property C09: implementation and regenerated argument-check cascade disagree; the header is not violated\n%s\n# impl %s model %s\n" % (op, c, p),
                          False, "%d sweep points differ, first: %s impl=%s model=%s" % (len(mism), op, c, p))
        elif bmodel:
            mop, m, sp = bmodel[0]
            ctx.violation("spec-model", "# property C09: Lean Spec and the Python oracle disagree on a boundary value\n# %s -> %s, oracle %s\n" % (mop, m, sp),
                          False, "%d boundary values: Lean Spec says %s, oracle %s (%s)" % (len(bmodel), m, sp, mop))
        elif path_bad:
            op, po, o = path_bad[0]
            ctx.violation("skeleton", "# property C09: observed blob events are not a path of the regenerated skeleton\n%s\n# %s -> %s\n" % (op, po, o),
                          False, "%d observed event sequences are not paths of the skeleton, first: %s (%s)" % (len(path_bad), po, op))
    return ctx.finish(
        level="proof",
        assumptions=["xlate/x_cfg.py extracts skeletons and argument-check cascades faithfully (validated each run by the sweep and by matching "
                     "observed blob events against skeleton paths); xlate/x_c09spec.py parses the C-like \\expect items of the headers",
                     "argument contracts are proved for the scalar conditions with all pointers valid; prose \\expect items (pointer validity, key/point "
                     "correctness) are not part of the contract theorems (covered by the scenario runs only)",
                     "the skeleton over-approximates paths (opaque conditions): an obligation may fail on a path that is dead at run time",
                     "`wr d` = the output may be written: d passed to a callee parameter of type pointer-to-non-const or stored through; "
                     "verification routines = committed table VERIFY in xlate/x_cfg.py",
                     "malloc/realloc return NULL on failure and leave the old block intact (C standard); blobCreate is the only allocator used by err_t functions"],
        rule="(a) per function: every scalar argument over {0,1,2,2^32,2^32+1,SIZE_MAX-1,SIZE_MAX} ∪ {c-1,c,c+1,2c,c+16 : c a constant of its cascade "
             "or header} with the others valid, plus random combinations; calls the model accepts are made only within the harness buffers; "
             "(b) every scenario x every allocation index failing; (c) every failing-authentication exit; distinct = distinct (function, code, own "
             "blob events, output state) + distinct (function, returned class)",
        distinct=len(exits) + len(classes))


def c19_stream():
    """op stream for property C19 (same ops in every build configuration): the argument sweep `chk` only.
    harness/c09.c builds WITHOUT --wrap link flags when C09_WRAP is not defined (the interposers are then dead
    code); the scenario ops need the interposers and are therefore not part of the stream."""
    def fn(ctx, exe, w):
        import x_cfg
        fns, bad = x_cfg.translate_all()
        if bad:
            raise RuntimeError("C09 translator: " + "; ".join(bad)[:300])
        info = {"fns": fns}
        hdr = header_conds(info)
        saved = ctx.tier
        ctx.tier = "quick"
        try:
            ops = sweep_ops(ctx, info, hdr)
        finally:
            ctx.tier = saved
        pred, perr, prc = ctx.run_lines(ctx.driver("drv_c09"), ops)
        if prc != 0 or len(pred) != len(ops):
            raise RuntimeError("drv_c09 failed: " + perr[-300:])
        return [op for op, p in zip(ops, pred) if safe_to_run(op, p)]
    return ("harness/c09.c", "drv_c09", fn, False)


def replay(ctx, path):
    import x_c09obl
    ops = [l.strip() for l in open(path) if l.split() and l.split()[0] in ("scen", "chk")]
    bops = [l.strip() for l in open(path) if l.split() and l.split()[0] in ("key", "pt")]
    if bops:
        import x_c09obl
        exe = ctx.cc("harness/c09.c", "asan", extra=x_c09obl.WRAP)
        bad = 0
        for op in bops:
            kind, fn, idx = op.split()
            saved_k, saved_p = list(KEY_FUNCS), list(PT_FUNCS)
            KEY_FUNCS[:] = [fn] if kind == "key" else []
            PT_FUNCS[:] = [fn] if kind == "pt" else []
            pr = []
            try:
                boundary_sweep(ctx, exe, False, pr)
            finally:
                KEY_FUNCS[:] = saved_k
                PT_FUNCS[:] = saved_p
            hit = [p for p in pr if p[1] == op]
            print("%s -> %s" % (op, "; ".join(p[2] for p in hit) or "as specified"))
            bad |= bool(hit)
        print("property C09 %s on the current tree for this input" % ("VIOLATED" if bad else "holds"))
        return 1 if bad else 0
    cls = [l.split()[1:3] for l in open(path) if l.split() and l.split()[0] == "class" and len(l.split()) == 3]
    if cls:
        import x_cfg, x_c09obl
        fns, _ = x_cfg.translate_all()
        x_c09obl.class_obl(fns)
        bad = 0
        for fn, en in cls:
            still = (fn, en) in x_c09obl.UNPRODUCIBLE
            print("class %s %s -> %s" % (fn, en, "still not producible by the code" if still else "producible"))
            bad |= still
        print("property C09 %s on the current tree for this input" % ("VIOLATED" if bad else "holds"))
        return 1 if bad else 0
    if not ops:
        print("replay file names a theorem/correspondence, not an input: nothing to execute")
        return 0
    exe = ctx.cc("harness/c09.c", "asan", extra=x_c09obl.WRAP)
    info = None
    bad = 0
    for op, line in zip(ops, x_c09obl.run_scen(ctx, exe, ops)):
        print("%s -> %s" % (op, line))
        if op.startswith("scen"):
            pr = judge_scen(x_c09obl.parse_scen(line), int(op.split()[3]))
        else:
            if info is None:
                import x_cfg
                fns, _ = x_cfg.translate_all()
                info = header_conds({"fns": fns})
            b = oracle_chk(op, line, info)
            pr = [b] if b else []
        for p in pr:
            print("  STILL FAILS: " + p)
            bad = 1
    print("property C09 %s on the current tree for this input" % ("VIOLATED" if bad else "holds"))
    return bad

"""C16 — bign96, g12s (GOST R 34.10-2012), dstu (DSTU 4145-2002) signatures and pfok key agreement.

Proof : lean/Bee2V/C16/Props*.lean over abstract groups / an abstract field of characteristic 2 / Z_p:
        completeness of sign->verify, exact acceptance set of each verifier, key-pair validity,
        Recover(Compress P) = P, both pfok parties derive the same key.
Tie   : (a) Bee2V/Gen/C16Params.lean regenerated from bign96.c, g12s.c, dstu.c, pfok.c (xlate/x_c16.py);
        (b) correspondence: the same op lines go to harness/c16.c (real library) and to drv_c16 (the models
        instantiated with affine arithmetic over Nat mod p / Nat-coded GF(2^m), the C01 belt model, the
        C08 OID decoder).  Staged: later stages are built from the implementation's own outputs.
Search: on the implementation alone — Verify(Sign) == OK, KeypairVal(KeypairGen) == OK, every verifier
        result == the scheme's equations recomputed in Python (own affine arithmetic), Recover(Compress P)
        == P, keyA == keyB.
"""
import os, sys, importlib
import vcommon

PROPS = ["Bee2V/C16/Props.lean", "Bee2V/C16/PropsB96.lean", "Bee2V/C16/PropsG12.lean", "Bee2V/C16/PropsDstuSig.lean",
         "Bee2V/C16/PropsDstuPoint.lean", "Bee2V/C16/PropsPfok.lean", "Bee2V/C16/PropsDstuSub.lean", "Bee2V/C16/PropsC06.lean"]
PROPS = [p for p in PROPS if os.path.exists(os.path.join(vcommon.LEAN, p))]
TARGETS = [p[:-5].replace("/", ".") for p in PROPS]
CORPUS = os.path.join(vcommon.VERIF, "gen", "c16_corpus.txt")
OK, BAD_INPUT, BAD_OID, BAD_RNG, BAD_POINT, BAD_PARAMS, BAD_PRIVKEY, BAD_PUBKEY, BAD_SIG = 0, 109, 301, 304, 401, 502, 504, 505, 510


def hx(b):
    return bytes(b).hex() if len(b) else "-"


def unh(s):
    return b"" if s == "-" else bytes.fromhex(s)


def le(v):
    return int.from_bytes(bytes(v), "little")


def flip(b, i):
    b = bytearray(b)
    b[i // 8] ^= 1 << (i % 8)
    return bytes(b)


def regen(ctx):
    import x_c16
    importlib.reload(x_c16)
    ctx.regen("Bee2V/Gen/C16Params.lean", x_c16.generate(vcommon.REPO))


# ------------------------------------------------------------------ Python reference arithmetic (independent of the Lean model and of the library)
class F2m:
    """GF(2^m), polynomial basis, ints as polynomials"""

    def __init__(self, m, ks):
        self.m = m
        self.ks = [k for k in ks if k] + [0]
        self.mod = 1 << m
        for k in self.ks:
            self.mod |= 1 << k
        self.mask = (1 << m) - 1

    def red(self, t):
        m = self.m
        while t >> m:
            hi = t >> m
            t &= self.mask
            for k in self.ks:
                t ^= hi << k
        return t

    def mul(self, a, b):
        r = 0
        while b:
            if b & 1:
                r ^= a
            a <<= 1
            b >>= 1
        return self.red(r)

    def sqr(self, a):
        return self.mul(a, a)

    def inv(self, a):
        if a == 0:
            raise ZeroDivisionError
        u, v, g1, g2 = a, self.mod, 1, 0
        while u != 1:
            j = u.bit_length() - v.bit_length()
            if j < 0:
                u, v, g1, g2, j = v, u, g2, g1, -j
            u ^= v << j
            g1 ^= g2 << j
        return self.red(g1)

    def div(self, a, b):
        return self.mul(a, self.inv(b))

    def tr(self, a):
        t = a
        for _ in range(self.m - 1):
            t = self.sqr(t) ^ a
        assert t in (0, 1)
        return t

    def sqrt(self, a):
        for _ in range(self.m - 1):
            a = self.sqr(a)
        return a

    def htr(self, a):
        """half-trace (odd m): a solution z of z^2 + z = a when Tr(a) = 0"""
        t = a
        for _ in range((self.m - 1) // 2):
            t = self.sqr(self.sqr(t)) ^ a
        return t


class C2:
    """y^2 + xy = x^3 + A x^2 + B over GF(2^m), affine, textbook formulas"""

    def __init__(self, i, rec):
        self.i = i
        self.f = F2m(rec["poly"][0], rec["poly"][1:])
        self.m = rec["poly"][0]
        self.no = (self.m + 7) // 8
        self.A, self.B, self.n, self.c = rec["A"], le(rec["B"]), le(rec["n"]), rec["c"]
        self.nb = self.n.bit_length()
        self.oo = (self.nb + 7) // 8
        self.P = None

    def on(self, P):
        x, y = P
        f = self.f
        return x >> self.m == 0 and y >> self.m == 0 and \
            f.sqr(y) ^ f.mul(x, y) == f.mul(f.sqr(x), x) ^ (f.sqr(x) if self.A else 0) ^ self.B

    def neg(self, P):
        return None if P is None else (P[0], P[0] ^ P[1])

    def add(self, P, Q):
        if P is None:
            return Q
        if Q is None:
            return P
        f = self.f
        (x1, y1), (x2, y2) = P, Q
        if x1 == x2:
            if y1 ^ y2 == x1:
                return None
            lam = x1 ^ f.div(y1, x1)
            x3 = f.sqr(lam) ^ lam ^ self.A
            return (x3, f.sqr(x1) ^ f.mul(lam ^ 1, x3))
        lam = f.div(y1 ^ y2, x1 ^ x2)
        x3 = f.sqr(lam) ^ lam ^ x1 ^ x2 ^ self.A
        return (x3, f.mul(lam, x1 ^ x3) ^ x3 ^ y1)

    def mul(self, k, P):
        R = None
        for bit in bin(k)[2:] if k else "":
            R = self.add(R, R)
            if bit == "1":
                R = self.add(R, P)
        return R

    def n2b(self, v, n=None):
        return v.to_bytes(n or self.no, "little")

    def pt(self, P):
        return self.n2b(P[0]) + self.n2b(P[1])

    def unpt(self, b):
        return (le(b[:self.no]), le(b[self.no:]))

    def hash_f(self, H):
        """section 5.9 of DSTU as implemented: the hash value as a field element, 0 -> 1"""
        if len(H) < self.no:
            v = le(H)
        else:
            b = bytearray(H[:self.no])
            b[-1] &= (1 << (self.m % 8)) - 1
            v = le(b)
        return v or 1

    def trunc(self, v):
        return v & ((1 << (self.nb - 1)) - 1)


class CP:
    """y^2 = x^3 + ax + b over F_p, affine, textbook formulas"""

    def __init__(self, i, p, a, b, q, G, no, mo):
        self.i, self.p, self.a, self.b, self.q, self.G, self.no, self.mo = i, p, a, b, q, G, no, mo

    def on(self, P):
        x, y = P
        return x < self.p and y < self.p and (y * y - (x * x * x + self.a * x + self.b)) % self.p == 0

    def add(self, P, Q):
        if P is None:
            return Q
        if Q is None:
            return P
        p = self.p
        (x1, y1), (x2, y2) = P, Q
        if x1 == x2:
            if (y1 + y2) % p == 0:
                return None
            lam = (3 * x1 * x1 + self.a) * pow(2 * y1, -1, p) % p
        else:
            lam = (y2 - y1) * pow(x2 - x1, -1, p) % p
        x3 = (lam * lam - x1 - x2) % p
        return (x3, (lam * (x1 - x3) - y1) % p)

    def mul(self, k, P):
        R = None
        for bit in bin(k)[2:] if k else "":
            R = self.add(R, R)
            if bit == "1":
                R = self.add(R, P)
        return R

    def neg(self, P):
        return None if P is None else (P[0], (-P[1]) % self.p)

    def n2b(self, v, n=None):
        n = n or self.no
        return (v % (1 << (8 * n))).to_bytes(n, "little")

    def pt(self, P):
        return self.n2b(P[0]) + self.n2b(P[1])

    def unpt(self, b):
        return (le(b[:self.no]), le(b[self.no:]))

    def pub(self, d):
        return self.pt(self.mul(d, self.G))

    def sqrt_rhs(self, x):
        """a y with y^2 = x^3+ax+b, or None (Tonelli-free: p = 3 mod 4 only, else brute Euler + Cipolla avoided: returns 'unknown')"""
        t = (x * x * x + self.a * x + self.b) % self.p
        if pow(t, (self.p - 1) // 2, self.p) not in (0, 1):
            return None
        if self.p % 4 == 3:
            return pow(t, (self.p + 1) // 4, self.p)
        return "unknown"


class PF:
    """pfok: the Montgomery group B_p, u o v = u v R^-1 mod p, R = 2^(l+2)"""

    def __init__(self, i, rec):
        self.i, self.l, self.r, self.n = i, rec["l"], rec["r"], rec["n"]
        self.p, self.g = le(rec["p"]), le(rec["g"])
        self.no, self.mo, self.ko = (self.l + 7) // 8, (self.r + 7) // 8, (self.n + 7) // 8
        self.R = pow(2, self.l + 2, self.p)
        self.Ri = pow(self.R, -1, self.p)

    def pow(self, a, e):
        """a^(e) in B_p = (a R^-1)^e R"""
        return pow(a * self.Ri, e, self.p) * self.R % self.p

    def key(self, v):
        return (v & ((1 << self.n) - 1)).to_bytes(self.ko, "little")


def load_sets():
    import x_c16
    d = x_c16.parse(vcommon.REPO)
    r = d["b96"]
    b96 = CP(0, le(r["p"]), le(r["a"]), le(r["b"]), le(r["q"]), (0, le(r["yG"])), 24, 24)
    g12 = []
    for i, r in enumerate(d["g12"]):
        no, mo = r["no"], r["l"] // 8
        g12.append(CP(i, le(r["p"]), le(r["a"][:no]), le(r["b"][:no]), le(r["q"][:mo]), (le(r["xP"][:no]), le(r["yP"][:no])), no, mo))
        g12[-1].cof = r["n"]
    dstu = [C2(i, r) for i, r in enumerate(d["dstu"])]
    pfok = [PF(i, r) for i, r in enumerate(d["pfok"])]
    return b96, g12, dstu, pfok


# ------------------------------------------------------------------ DER OIDs (bign96)
def der_oid(arcs):
    body = bytearray()
    vals = [arcs[0] * 40 + arcs[1]] + list(arcs[2:])
    for v in vals:
        chunk = [v & 127]
        v >>= 7
        while v:
            chunk.append(128 | (v & 127))
            v >>= 7
        body += bytes(reversed(chunk))
    return bytes([6, len(body)]) + bytes(body)


OID_HBELT = der_oid([1, 2, 112, 0, 2, 0, 34, 101, 31, 81])
OID_GOOD = [OID_HBELT, der_oid([1, 2, 3]), der_oid([2, 999, 4294967295])]
OID_BAD = [b"", bytes([6, 0]), bytes([5, 3, 42, 3, 4]), bytes([6, 3, 42, 3]), bytes([6, 3, 42, 3, 132])]


def oid_ok(der):
    """DER OBJECT IDENTIFIER with sub-identifiers within 32 bits (what oidFromDER accepts), written from X.690"""
    if len(der) < 3 or der[0] != 6 or der[1] >= 128 or der[1] != len(der) - 2:
        return False
    body = der[2:]
    if body[-1] & 128:
        return False
    v = 0
    for b in body:
        if v >> 25:
            return False
        if v == 0 and b == 128:
            return False
        v = (v << 7) | (b & 127)
        if not (b & 128):
            v = 0
    return True


# ------------------------------------------------------------------ generator
class Gen:
    def __init__(self, ctx, sets, run_c):
        self.ctx, self.rng, self.run_c = ctx, ctx.rng, run_c
        self.b96, self.g12, self.dstu, self.pfok = sets
        self.thorough = ctx.tier == "thorough"
        self.cov = {}
        self.nsig_prev = {}

    def count(self, k, n=1):
        self.cov[k] = self.cov.get(k, 0) + n

    def rb(self, n):
        return bytes(self.rng.getrandbits(8) for _ in range(n))

    def bits(self, nbits, quick_n, must=()):
        """positions of single-bit alterations: all in the thorough tier (when `full`), a sample (always incl. the
        first, the last and the `must` positions) in the quick tier"""
        if nbits <= quick_n:
            return list(range(nbits))
        s = {0, nbits - 1} | {m for m in must if 0 <= m < nbits}
        while len(s) < quick_n:
            s.add(self.rng.randrange(nbits))
        return sorted(s)

    def nz_tapes(self, q, full):
        """tapes for zzRandNZMod(·, q): (label, tape); chunks of O_OF_B(bitlen q) octets, values trimmed to bitlen q bits"""
        lb = q.bit_length()
        co = (lb + 7) // 8
        n2b = lambda v: v.to_bytes(co, "little")
        good = lambda: n2b(self.rng.randrange(1, q))
        top = (1 << lb) - 1
        t = [("accept", good()), ("one", n2b(1)), ("q-1", n2b(q - 1)), ("zero-then", n2b(0) + good()), ("q-then", n2b(q) + good()),
             ("q+1-then", n2b(min(q + 1, top)) + good()), ("max-then", n2b(top) + good())]
        if lb % 8:
            # bits above bitlen q are trimmed: 2^lb + v is read as v
            t.append(("trimmed", n2b((1 << lb) | self.rng.randrange(1, q))))
            t.append(("trimmed-zero", n2b(1 << lb) + good()))
        if full:
            t += [("empty", b""), ("short", good()[: co - 1]), ("64bad+good", b"\xff" * (64 * co) + n2b(1)),
                  ("65bad", bytes(65 * co) + good())]
        return t

    # ---------------------------------------------------------------- stage 1
    def stage1(self):
        ops, meta = [], []

        def add(op, **m):
            ops.append(op)
            meta.append(m)
        self.s1_b96(add)
        for cv in self.g12:
            self.s1_g12(cv, add)
        for cv in self.dstu:
            self.s1_dstu(cv, add)
        for pf in self.pfok:
            self.s1_pfok(pf, add)
        return ops, meta

    def s1_b96(self, add):
        cv, rng = self.b96, self.rng
        q, p, W = cv.q, cv.p, 1 << 192
        n2b = lambda v: cv.n2b(v, 24)
        add("b96.params", kind="params")
        ds = [1, q - 1, rng.randrange(1, q)] + ([rng.randrange(1, q) for _ in range(3)] if self.thorough else [])
        cv.keys = [(d, cv.pub(d)) for d in ds]
        for lab, t in self.nz_tapes(q, True):
            add("b96.kgen " + hx(t), kind="b96.kgen", tape=t, lab=lab)
            self.count("b96.kgen:" + lab)
        for d in ds + [0, q, q + 1, W - 1]:
            add("b96.pcalc " + hx(n2b(d)), kind="b96.pcalc", d=d)
        for d, Q in cv.keys:
            add("b96.kval %s %s" % (hx(n2b(d)), hx(Q)), kind="expect", expect=OK)
            add("b96.kval %s %s" % (hx(n2b(d)), hx(flip(Q, rng.randrange(384)))), kind="expect", expect=BAD_PUBKEY)
            add("b96.kval %s %s" % (hx(n2b(d % (q - 1) + 1)), hx(Q)), kind="expect", expect=BAD_PUBKEY)
        d0, Q0 = cv.keys[2]
        for dd in (0, q, W - 1):
            add("b96.kval %s %s" % (hx(n2b(dd)), hx(Q0)), kind="expect", expect=BAD_PRIVKEY)
        for lab, Qb in self.pubs_p(cv, Q0):
            add("b96.pval " + hx(Qb), kind="b96.pval", pub=Qb, lab=lab)
        hs = [0, W - 1, q - 1, q, q + 1, rng.randrange(q, W), rng.randrange(0, q)]
        tapes = self.nz_tapes(q, False)
        combos, must = [], []
        for i, (d, Q) in enumerate(cv.keys):
            for j, H in enumerate(hs):
                (must if (i, j) in ((0, 0), (1, 1), (2, 3), (2, 5)) else combos).append((d, Q, n2b(H), tapes[(i * 5 + j) % len(tapes)]))
        rng.shuffle(combos)
        for nc, (d, Q, H, (lab, t)) in enumerate(must + (combos if self.thorough else combos[:4])):
            oid = rng.choice(OID_GOOD) if rng.random() < 0.4 else OID_HBELT
            add("b96.sign %s %s %s %s" % (hx(oid), hx(H), hx(n2b(d)), hx(t)), kind="b96.sign", d=d, Q=Q, H=H, oid=oid, tape=t)
            self.count("b96.sign:tape=" + lab)
            if self.thorough or nc % 2 == 0:
                tt = rng.choice(["N", "-", hx(self.rb(rng.choice([1, 16, 33])))])
                add("b96.sign2 %s %s %s %s" % (hx(oid), hx(H), hx(n2b(d)), tt), kind="b96.sign2", d=d, Q=Q, H=H, oid=oid)
        # constructed: H >= q, k fixed, d chosen so that c = k - (s0 + 2^103) d mod q is below H - q (the subtraction of the
        # unreduced hash would borrow twice), and d with s1 = 0 / q - 1; s0 (depends on k, H, oid only) is learned with d = 1
        cases = [(rng.randrange(1, q), n2b(W - 1)), (rng.randrange(1, q), n2b(rng.randrange(q + (1 << 20), W)))]
        outs = self.run_c(["b96.sign %s %s %s %s" % (hx(OID_HBELT), hx(Hc), hx(n2b(1)), hx(n2b(k))) for k, Hc in cases])
        for (k, Hc), o in zip(cases, outs):
            w = o.split()
            if w[0] != "0":
                continue
            u = (le(unh(w[1])[:10]) + (1 << 103)) % q
            Hn = le(Hc)
            for lab, c in [("borrow:c=0", 0), ("borrow:c=1", 1), ("borrow:c=H-q-1", Hn - q - 1), ("s1=0", (Hn - q) % q), ("s1=q-1", (Hn - q - 1) % q)]:
                d = (k - c) * pow(u, -1, q) % q
                if d:
                    add("b96.sign %s %s %s %s" % (hx(OID_HBELT), hx(Hc), hx(n2b(d)), hx(n2b(k))), kind="b96.sign", d=d, Q=cv.pub(d), H=Hc,
                        oid=OID_HBELT, tape=n2b(k))
                    self.count("b96.sign:constructed:" + lab.split("=")[0])
        H = n2b(hs[5])
        add("b96.sign %s %s %s -" % (hx(OID_BAD[3]), hx(H), hx(n2b(0))), kind="expect", expect=BAD_OID)
        add("b96.sign %s %s %s -" % (hx(OID_HBELT), hx(H), hx(n2b(0))), kind="expect", expect=BAD_PRIVKEY)
        add("b96.sign %s %s %s -" % (hx(OID_HBELT), hx(H), hx(n2b(q))), kind="expect", expect=BAD_PRIVKEY)
        add("b96.sign %s %s %s -" % (hx(OID_HBELT), hx(H), hx(n2b(1))), kind="expect", expect=BAD_RNG)
        add("b96.sign2 %s %s %s N" % (hx(OID_BAD[4]), hx(H), hx(n2b(q))), kind="expect", expect=BAD_OID)
        add("b96.sign2 %s %s %s -" % (hx(OID_HBELT), hx(H), hx(n2b(q))), kind="expect", expect=BAD_PRIVKEY)
        for o in OID_BAD + OID_GOOD:
            add("b96.vfy %s %s %s %s" % (hx(o), hx(H), hx(self.rb(34)), hx(flip(Q0, 1))), kind="expect",
                expect=BAD_OID if o in OID_BAD else BAD_PUBKEY)

    def pubs_p(self, cv, Q):
        """prime curves: (label, octets): the valid key first, then keys that must be rejected"""
        p, no = cv.p, cv.no
        W = 1 << (8 * no)
        x, y = cv.unpt(Q)
        out = [("valid", Q), ("off-curve", cv.n2b(x) + cv.n2b((y + 1) % p)), ("zero", bytes(2 * no)), ("bitflip", flip(Q, self.rng.randrange(16 * no)))]
        xt = self.rng.randrange(p)
        while cv.sqrt_rhs(xt) is not None:
            xt = (xt + 1) % p
        out.append(("twist-x", cv.n2b(xt) + cv.n2b(self.rng.randrange(p))))
        if p < W:
            out.append(("x=p", cv.n2b(p) + cv.n2b(y)))
            out.append(("y=p", cv.n2b(x) + cv.n2b(p)))
        out.append(("x+p", cv.n2b(x + p) + cv.n2b(y)) if x + p < W else ("x=max", b"\xff" * no + cv.n2b(y)))
        out.append(("y+p", cv.n2b(x) + cv.n2b(y + p)) if y + p < W else ("y=max", cv.n2b(x) + b"\xff" * no))
        return out

    def s1_g12(self, cv, add):
        rng, i, q, mo = self.rng, cv.i, cv.q, cv.mo
        W = 1 << (8 * mo)
        add("g12.params %d" % i, kind="params")
        full = self.thorough or i in (0, 4)
        ds = [1, q - 1, rng.randrange(1, q)]
        cv.keys = [(d, cv.pub(d)) for d in ds]
        for lab, t in self.nz_tapes(q, full)[: None if full else 5]:
            add("g12.kgen %d %s" % (i, hx(t)), kind="g12.kgen", cv=cv, tape=t, lab=lab)
            self.count("g12.kgen:" + lab)
        kmax = (W - 1) // q
        hs = [0, W - 1, q - 1, q, q + 1, kmax * q, rng.randrange(q, W), rng.randrange(1, q), 1]
        tapes = self.nz_tapes(q, False)
        combos = [(d, Q, h.to_bytes(mo, "big"), tapes[(a * 3 + b) % len(tapes)]) for a, (d, Q) in enumerate(cv.keys) for b, h in enumerate(hs)]
        must = [combos[0], combos[9 + 1], combos[18 + 3], combos[18 + 5]]
        rest = [c for c in combos if c not in must]
        rng.shuffle(rest)
        for d, Q, H, (lab, t) in must[: None if full else 3] + (rest if self.thorough else rest[: 3 if full else 1]):
            add("g12.sign %d %s %s %s" % (i, hx(H), hx(d.to_bytes(mo, "little")), hx(t)), kind="g12.sign", cv=cv, d=d, Q=Q, H=H, tape=t)
            self.count("g12.sign:tape=" + lab)
        # constructed retry (GOST step 5): s = r d + k e = 0 for the first draw k  (docs/C16.fix-6.diff)
        for H in ([hs[7], hs[0]] if full else [hs[7]]):
            H = H.to_bytes(mo, "big")
            k1, k2 = rng.randrange(1, q), rng.randrange(1, q)
            r1 = cv.mul(k1, cv.G)[0] % q
            if r1:
                d = (-k1 * (int.from_bytes(H, "big") % q or 1) * pow(r1, -1, q)) % q
                t = k1.to_bytes(mo, "little") + k2.to_bytes(mo, "little")
                add("g12.sign %d %s %s %s" % (i, hx(H), hx(d.to_bytes(mo, "little")), hx(t)), kind="g12.sign", cv=cv, d=d, Q=cv.pub(d), H=H, tape=t)
                self.count("g12.sign:constructed-s=0")
        H = hs[6].to_bytes(mo, "big")
        add("g12.sign %d %s %s -" % (i, hx(H), hx(bytes(mo))), kind="expect", expect=BAD_PRIVKEY)
        add("g12.sign %d %s %s -" % (i, hx(H), hx(q.to_bytes(mo, "little"))), kind="expect", expect=BAD_PRIVKEY)
        add("g12.sign %d %s %s -" % (i, hx(H), hx((1).to_bytes(mo, "little"))), kind="expect", expect=BAD_RNG)

    def s1_dstu(self, cv, add):
        rng, i = self.rng, cv.i
        add("dstu.params %d" % i, kind="params")
        # base point "as the header prescribes": dstuPointGen with the caller's generator
        add("dstu.pgen %d %s" % (i, hx(self.rb(40 * cv.no))), kind="dstu.pgen", cv=cv, base=True)
        if self.thorough or i in (0, 2):
            add("dstu.pgen %d %s" % (i, hx(bytes(cv.no) + b"\xff" * cv.no + self.rb(40 * cv.no))), kind="dstu.pgen", cv=cv)
            add("dstu.pgen %d %s" % (i, hx(self.rb(cv.no - 1))), kind="raw", expect_raw="exhausted")
        y0 = cv.f.sqrt(cv.B)
        add("dstu.comp %d %s" % (i, hx(cv.pt((0, y0)))), kind="dstu.comp", cv=cv, P=(0, y0))
        add("dstu.rec %d %s" % (i, hx(bytes(cv.no))), kind="dstu.rec0", cv=cv, want="0 " + hx(cv.pt((0, y0))))
        if cv.A == 1 and cv.f.tr(cv.B) == 0:
            # the points (1, y), y^2 + y = B: they have order n; the one with Tr(y) = 0 has no compressed form (docs/C16.fix-5.diff)
            y1 = cv.f.htr(cv.B)
            for yy in (y1, y1 ^ 1):
                add("dstu.pval %d %s" % (i, hx(cv.pt((1, yy)))), kind="expect", expect=OK, what="PointVal((1, y))")
                add("dstu.comp %d %s" % (i, hx(cv.pt((1, yy)))), kind="dstu.comp", cv=cv, P=(1, yy))
                self.count("dstu.comp:x=1")
        if cv.A == 0:
            # 01 00..00: the x-coordinate becomes 0 after the trace rule; not the code of a point (docs/C16.fix-8.diff)
            add("dstu.rec %d %s" % (i, hx(b"\x01" + bytes(cv.no - 1))), kind="expect", expect=BAD_POINT, what="Recover(01 00..00)")
        add("dstu.pval %d %s" % (i, hx(cv.pt((0, y0)))), kind="expect", expect=BAD_POINT)
        add("dstu.pval %d %s" % (i, hx(bytes(2 * cv.no))), kind="expect", expect=BAD_POINT)
        add("dstu.comp %d %s" % (i, hx(b"\xff" * (2 * cv.no))), kind="expect", expect=BAD_POINT)
        add("dstu.rec %d %s" % (i, hx(b"\xff" * cv.no)), kind="expect", expect=BAD_POINT)

    def s1_pfok(self, pf, add):
        rng, i = self.rng, pf.i
        add("pfok.params %d" % i, kind="params")
        small = i == 0 or self.thorough
        xs = [0, 1, (1 << pf.r) - 1, rng.randrange(1 << pf.r), rng.randrange(1 << pf.r)]
        if not small:
            xs = [rng.choice(xs[:3]), xs[3], xs[4]]
        pf.xs = xs
        for x in xs:
            add("pfok.pcalc %d %s" % (i, hx(x.to_bytes(pf.mo, "little"))), kind="pfok.pcalc", pf=pf, x=x)
        if (8 * pf.mo) > pf.r:
            add("pfok.pcalc %d %s" % (i, hx((1 << pf.r).to_bytes(pf.mo, "little"))), kind="expect", expect=BAD_PRIVKEY)
            add("pfok.pcalc %d %s" % (i, hx(b"\xff" * pf.mo)), kind="expect", expect=BAD_PRIVKEY)
        for t in [self.rb(pf.mo), b"\xff" * pf.mo, b"", self.rb(pf.mo - 1)][: 4 if small else 2]:
            add("pfok.kgen %d %s" % (i, hx(t)), kind="pfok.kgen", pf=pf, tape=t)
        for lab, v in [("zero", 0), ("p", pf.p), ("p-1", pf.p - 1), ("one", 1), ("p+1", pf.p + 1), ("max", (1 << (8 * pf.no)) - 1)]:
            add("pfok.pval %d %s" % (i, hx(v.to_bytes(pf.no, "little"))), kind="expect", expect=OK if 0 < v < pf.p else BAD_PUBKEY)

    # ---------------------------------------------------------------- stage 2: from the implementation's stage-1 outputs
    def follow(self, ops1, meta1, out1):
        ops, meta = [], []

        def add(op, **m):
            ops.append(op)
            meta.append(m)
        nsig = {}
        pf_pubs = {}
        for op, m, o in zip(ops1, meta1, out1):
            w = o.split()
            k = m.get("kind")
            if not w or w[0] != "0":
                continue
            if k == "b96.kgen":
                kp = unh(w[1])
                add("b96.kval %s %s" % (hx(kp[:24]), hx(kp[24:])), kind="expect", expect=OK, what="KeypairVal(KeypairGen)")
                add("b96.pval " + hx(kp[24:]), kind="expect", expect=OK, what="PubkeyVal(KeypairGen)")
            elif k in ("b96.sign", "b96.sign2"):
                n = nsig["b96"] = nsig.get("b96", 0) + 1
                self.b96_sig_cases(m, unh(w[1]), add, n)
            elif k == "g12.kgen":
                cv = m["cv"]
                kp = unh(w[1])
                # g12s has no KeypairVal: the generated pair is validated by signing with it and verifying (stage 3)
                add("g12.sign %d %s %s %s" % (cv.i, hx(self.rb(cv.mo)), hx(kp[:cv.mo]), hx(self.nz_tapes(cv.q, False)[0][1])), kind="g12.sign",
                    cv=cv, d=le(kp[:cv.mo]), Q=kp[cv.mo:], H=None, tape=None, gen=True)
            elif k == "g12.sign":
                cv = m["cv"]
                n = nsig[("g12", cv.i)] = nsig.get(("g12", cv.i), 0) + 1
                self.g12_sig_cases(cv, m, op, unh(w[1]), add, n)
            elif k == "dstu.pgen":
                cv = m["cv"]
                P = unh(w[1])
                add("dstu.pval %d %s" % (cv.i, hx(P)), kind="expect", expect=OK, what="PointVal(PointGen)")
                add("dstu.comp %d %s" % (cv.i, hx(P)), kind="dstu.comp", cv=cv, P=cv.unpt(P))
                if m.get("base"):
                    cv.P = P
                    self.dstu_base_cases(cv, add)
            elif k == "dstu.comp":
                cv = m["cv"]
                add("dstu.rec %d %s" % (cv.i, w[1]), kind="dstu.rec", cv=cv, P=m["P"], xp=unh(w[1]))
            elif k == "dstu.kgen":
                cv = m["cv"]
                kp = unh(w[1])
                d, Qb = le(kp[:cv.oo]), kp[cv.oo:]
                add("dstu.pval %d %s" % (cv.i, hx(Qb)), kind="expect", expect=OK, what="PointVal(pubkey of KeypairGen)")
                add("dstu.comp %d %s" % (cv.i, hx(Qb)), kind="dstu.comp", cv=cv, P=cv.unpt(Qb))
                if m["lab"] in ("accept", "zero-then"):
                    t = (self.rng.randrange(1, 1 << (cv.nb - 1))).to_bytes(cv.oo, "little")
                    add("dstu.sign %d %s %d %s %s %s" % (cv.i, hx(cv.P), 16 * cv.oo, hx(self.rb(32)), hx(kp[:cv.oo]), hx(t)), kind="dstu.sign",
                        cv=cv, d=d, ld=16 * cv.oo, H=None, tape=t, Qb=Qb, gen=True)
            elif k == "dstu.sign":
                cv = m["cv"]
                n = nsig[("dstu", cv.i)] = nsig.get(("dstu", cv.i), 0) + 1 + self.nsig_prev.get(("dstu", cv.i), 0)
                self.dstu_sig_cases(cv, m, op, unh(w[1]), add, n)
            elif k == "pfok.pcalc":
                pf_pubs.setdefault(m["pf"].i, []).append((m["x"], unh(w[1])))
            elif k == "pfok.kgen":
                pf = m["pf"]
                kp = unh(w[1])
                add("pfok.pval %d %s" % (pf.i, hx(kp[pf.mo:])), kind="expect", expect=OK, what="PubkeyVal(KeypairGen)")
                add("pfok.pcalc %d %s" % (pf.i, hx(kp[:pf.mo])), kind="raw", expect_raw="0 " + hx(kp[pf.mo:]), what="PubkeyCalc(priv) == pub of KeypairGen")
                pf_pubs.setdefault(pf.i, []).append((le(kp[:pf.mo]), kp[pf.mo:]))
        for pf in self.pfok:
            self.pfok_cases(pf, pf_pubs.get(pf.i, []), add)
        for key, v in nsig.items():
            self.nsig_prev[key] = self.nsig_prev.get(key, 0) + v
        return ops, meta

    def b96_sig_cases(self, m, sig, add, n):
        cv, rng = self.b96, self.rng
        q, W = cv.q, 1 << 192
        oid, H, Q, d = m["oid"], m["H"], m["Q"], m["d"]
        full = n == 1

        def v(oid_, H_, sig_, Q_, lab):
            add("b96.vfy %s %s %s %s" % (hx(oid_), hx(H_), hx(sig_), hx(Q_)), kind="b96.vfy", oid=oid_, H=H_, sig=sig_, pub=Q_, lab=lab,
                genuine=(lab == "genuine"))
            self.count("b96.vfy:" + lab)
        v(oid, H, sig, Q, "genuine")
        s1 = le(sig[10:])
        for lab, s1x in [("s1=q", q), ("s1+q", s1 + q), ("s1=max", W - 1), ("s1=0", 0), ("s1+1", (s1 + 1) % q)][: None if (full or self.thorough) else 2]:
            if s1x < W and s1x != s1:
                v(oid, H, sig[:10] + cv.n2b(s1x, 24), Q, lab)
        Hn = le(H)
        for lab, Hx in [("H+q", Hn + q), ("H-q", Hn - q)]:     # same residue, different octets: rejected (the octets are hashed)
            if 0 <= Hx < W:
                v(oid, cv.n2b(Hx, 24), sig, Q, lab)
        if not full:
            v(oid, H, flip(sig, rng.randrange(272)), Q, "bit:sig")
            v(oid, flip(H, rng.randrange(192)), sig, Q, "bit:hash")
            v(oid, H, sig, flip(Q, rng.randrange(384)), "bit:pub")
            return
        T = self.thorough
        for i in range(272) if T else self.bits(272, 20, (79, 80, 271)):
            v(oid, H, flip(sig, i), Q, "bit:sig")
        for i in range(192) if T else self.bits(192, 8):
            v(oid, flip(H, i), sig, Q, "bit:hash")
        for i in range(384) if T else self.bits(384, 8, (191, 192)):
            v(oid, H, sig, flip(Q, i), "bit:pub")
        for i in self.bits(8 * len(oid), 4):
            v(flip(oid, i), H, sig, Q, "bit:oid")
        for lab, Qb in self.pubs_p(cv, Q)[1:]:
            v(oid, H, sig, Qb, "pub:" + lab)
        v(oid, H, sig, cv.pt(cv.neg(cv.unpt(Q))), "pub:-Q")
        v(oid, H, sig, cv.pub(d % (q - 1) + 1), "pub:other")
        # the forgery that the unrepaired bign96Verify accepted (docs/C16.fix-1.diff): pubkey 0^48, s1 = (1 - H) mod q
        v(oid, H, sig[:10] + cv.n2b((1 - Hn) % q, 24), bytes(48), "pub:zero-forgery")

    def g12_sig_cases(self, cv, m, op, sig, add, n):
        rng, i, q, mo, no = self.rng, cv.i, cv.q, cv.mo, cv.no
        W = 1 << (8 * mo)
        H = m["H"] if m["H"] is not None else unh(op.split()[2])
        Q, d = m["Q"], m["d"]
        full = n == 1 and (self.thorough or i in (0, 4, 5))

        def v(H_, sig_, Q_, lab):
            add("g12.vfy %d %s %s %s" % (i, hx(H_), hx(sig_), hx(Q_)), kind="g12.vfy", cv=cv, H=H_, sig=sig_, pub=Q_, lab=lab, genuine=(lab == "genuine"))
            self.count("g12.vfy:" + lab)
        v(H, sig, Q, "genuine")
        if m.get("gen"):
            return
        r, s = int.from_bytes(sig[:mo], "big"), int.from_bytes(sig[mo:], "big")
        be = lambda x: x.to_bytes(mo, "big")
        alts = [("r=0", 0, s), ("s=0", r, 0), ("r=q", q, s), ("s=q", r, q), ("r+q", r + q, s), ("s+q", r, s + q), ("r=max", W - 1, s), ("s+1", r, (s + 1) % q or 1)]
        for lab, rx, sx in alts if (n == 1 or self.thorough) else rng.sample(alts, 2):
            if rx < W and sx < W:
                v(H, be(rx) + be(sx), Q, lab)
        Hn = int.from_bytes(H, "big")
        for lab, Hx in [("H+q", Hn + q), ("H-q", Hn - q), ("H:0<->1", 1 if Hn == 0 else 0 if Hn == 1 else -1), ("H:q<->1", 1 if Hn % q == 0 else -1)]:
            if 0 <= Hx < W and Hx != Hn:
                v(be(Hx), sig, Q, lab)           # same reduced hash e: NOT an alteration, must be accepted
        if not full:
            v(H, flip(sig, rng.randrange(16 * mo)), Q, "bit:sig")
            v(flip(H, rng.randrange(8 * mo)), sig, Q, "bit:hash")
            v(H, sig, flip(Q, rng.randrange(16 * no)), "bit:pub")
            return
        T = self.thorough
        T2 = T and mo == 32          # l = 512: every signature bit, 64-bit samples of hash and public key
        for b in range(16 * mo) if T else self.bits(16 * mo, 12 if i == 0 else 6, (8 * mo - 1, 8 * mo, 7)):
            v(H, flip(sig, b), Q, "bit:sig")
        for b in range(8 * mo) if T2 else self.bits(8 * mo, 64 if T else 6 if i == 0 else 3, (8 * mo - 8,)):
            v(flip(H, b), sig, Q, "bit:hash")
        for b in range(16 * no) if T2 else self.bits(16 * no, 64 if T else 6 if i == 0 else 3):
            v(H, sig, flip(Q, b), "bit:pub")
        for lab, Qb in self.pubs_p(cv, Q)[1:]:
            v(H, sig, Qb, "pub:" + lab)
        v(H, sig, cv.pt(cv.neg(cv.unpt(Q))), "pub:-Q")
        if cv.cof == 2:
            # cofactor 2: Q + T (T of order 2) is on the curve; accepted iff z2 is even — decided by the equation (oracle)
            for x in range(cv.p):
                if (x * x * x + cv.a * x + cv.b) % cv.p == 0:
                    v(H, sig, cv.pt(cv.add(cv.unpt(Q), (x, 0))), "pub:Q+T2")
                    break
                if x > 4:
                    break

    def dstu_base_cases(self, cv, add):
        rng, i, n, oo, no = self.rng, cv.i, cv.n, cv.oo, cv.no
        P = cv.P
        big = cv.m > 260
        full = self.thorough or i in (0, 2)
        tb = lambda v: v.to_bytes(oo, "little")
        trim = (1 << (cv.nb - 1)) - 1
        good = lambda: tb(rng.randrange(1, trim + 1))
        tapes = [("accept", good()), ("one", tb(1)), ("zero-then", tb(0) + good()), ("trimmed", tb((1 << (cv.nb - 1)) | rng.randrange(1, trim))),
                 ("trimmed-zero", tb(1 << (cv.nb - 1)) + good()), ("max", b"\xff" * oo)]
        for lab, t in tapes if full else tapes[:3]:
            add("dstu.kgen %d %s %s" % (i, hx(P), hx(t)), kind="dstu.kgen", cv=cv, tape=t, lab=lab)
            self.count("dstu.kgen:" + lab)
        add("dstu.kgen %d %s %s" % (i, hx(P), hx(tb(0) * 2)), kind="raw", expect_raw="exhausted")
        ds = [1, n - 1, rng.randrange(1, n)]
        lds = [16 * oo, 16 * oo + 16, 16 * oo + 16 * rng.randrange(2, 9), 512 if 512 >= 16 * oo else 1024]
        hls = [1, no - 1, no, no + 1, 32, 64]
        hvals = lambda hl: [bytes(hl), b"\xff" * hl, self.rb(hl)]
        combos = []
        for a, d in enumerate(ds):
            for b, ld in enumerate(lds):
                hl = hls[(a * 4 + b) % len(hls)]
                combos.append((d, ld, hvals(hl)[(a + b) % 3], tapes[(a + 2 * b) % 5]))
        must = [combos[0], combos[5], combos[10], combos[3]]
        rest = [c for c in combos if c not in must]
        rng.shuffle(rest)
        sel = must[: 4 if not big or self.thorough else 2] + (rest if self.thorough else rest[: 2 if full else 0])
        for d, ld, H, (lab, t) in sel:
            add("dstu.sign %d %s %d %s %s %s" % (i, hx(P), ld, hx(H), hx(tb(d)), hx(t + good())), kind="dstu.sign", cv=cv, d=d, ld=ld, H=H, tape=t + good())
            self.count("dstu.sign:tape=" + lab)
            self.count("dstu.sign:ld=" + ("min" if ld == 16 * oo else "larger"))
        H = self.rb(32)
        add("dstu.sign %d %s %d %s %s %s" % (i, hx(P), 16 * oo - 16, hx(H), hx(tb(1)), hx(good())), kind="expect", expect=BAD_INPUT)
        add("dstu.sign %d %s %d %s %s %s" % (i, hx(P), 16 * oo + 8, hx(H), hx(tb(1)), hx(good())), kind="expect", expect=BAD_INPUT)
        add("dstu.sign %d %s %d %s %s -" % (i, hx(P), 16 * oo, hx(H), hx(tb(1))), kind="raw", expect_raw="exhausted")
        # private keys outside {1..n-1} (docs/C16.fix-7.diff); ld is checked first
        for dd in (0, n, (1 << (8 * oo)) - 1):
            add("dstu.sign %d %s %d %s %s %s" % (i, hx(P), 16 * oo, hx(H), hx(tb(dd)), hx(good())), kind="expect", expect=BAD_PRIVKEY)
        add("dstu.sign %d %s %d %s %s %s" % (i, hx(P), 16 * oo + 8, hx(H), hx(tb(0)), hx(good())), kind="expect", expect=BAD_INPUT)
        # constructed retry: s = e + d r = 0 for the first draw e (r learned from the implementation with d = 1)
        if full:
            e1, e2 = rng.randrange(1, trim + 1), rng.randrange(1, trim + 1)
            o = self.run_c(["dstu.sign %d %s %d %s %s %s" % (i, hx(P), 16 * oo, hx(H), hx(tb(1)), hx(tb(e1)))])[0].split()
            if o[0] == "0":
                r = le(unh(o[1])[:oo])
                d = (-e1 * pow(r, -1, n)) % n
                add("dstu.sign %d %s %d %s %s %s" % (i, hx(P), 16 * oo, hx(H), hx(tb(d)), hx(tb(e1) + tb(e2))), kind="dstu.sign", cv=cv, d=d,
                    ld=16 * oo, H=H, tape=tb(e1) + tb(e2), lab="s=0-retry")
                self.count("dstu.sign:constructed-s=0")

    def pfok_cases(self, pf, pairs, add):
        """both sides of DH and MTI on the implementation's own public keys"""
        rng, i = self.rng, pf.i
        if len(pairs) < 2:
            return
        pb = lambda x: x.to_bytes(pf.mo, "little")
        npairs = len(pairs) if (i == 0 or self.thorough) else 2
        idx = [(a, b) for a in range(len(pairs)) for b in range(a, len(pairs))]
        rng.shuffle(idx)
        for a, b in idx[: max(2, npairs)]:
            (xa, ya), (xb, yb) = pairs[a], pairs[b]
            add("pfok.dh %d %s %s" % (i, hx(pb(xa)), hx(yb)), kind="pfok.dh", pf=pf, pair=(xa, xb), side=0)
            add("pfok.dh %d %s %s" % (i, hx(pb(xb)), hx(ya)), kind="pfok.dh", pf=pf, pair=(xa, xb), side=1)
        for _ in range(3 if (i == 0 or self.thorough) else 1):
            (xa, ya), (ua, va), (xb, yb), (ub, vb) = [pairs[rng.randrange(len(pairs))] for _ in range(4)]
            add("pfok.mti %d %s %s %s %s" % (i, hx(pb(xa)), hx(pb(ua)), hx(yb), hx(vb)), kind="pfok.mti", pf=pf, quad=(xa, ua, xb, ub), side=0)
            add("pfok.mti %d %s %s %s %s" % (i, hx(pb(xb)), hx(pb(ub)), hx(ya), hx(va)), kind="pfok.mti", pf=pf, quad=(xa, ua, xb, ub), side=1)
        (x0, y0) = pairs[-1]
        z = bytes(pf.no)
        add("pfok.dh %d %s %s" % (i, hx(pb(x0)), hx(z)), kind="expect", expect=BAD_PUBKEY)
        add("pfok.dh %d %s %s" % (i, hx(pb(x0)), hx(pf.p.to_bytes(pf.no, "little"))), kind="expect", expect=BAD_PUBKEY)
        add("pfok.mti %d %s %s %s %s" % (i, hx(pb(x0)), hx(pb(x0)), hx(y0), hx(z)), kind="expect", expect=BAD_PUBKEY)
        if 8 * pf.mo > pf.r:
            add("pfok.dh %d %s %s" % (i, hx(b"\xff" * pf.mo), hx(z)), kind="expect", expect=BAD_PRIVKEY)
            add("pfok.mti %d %s %s %s %s" % (i, hx(pb(x0)), hx(b"\xff" * pf.mo), hx(y0), hx(z)), kind="expect", expect=BAD_PRIVKEY)

    def dstu_sig_cases(self, cv, m, op, sig, add, n):
        rng, i, nn, oo, no = self.rng, cv.i, cv.n, cv.oo, cv.no
        P, ld, d = cv.P, m["ld"], m["d"]
        H = m["H"] if m["H"] is not None else unh(op.split()[4])
        Qb = m.get("Qb") or cv.pt(cv.neg(cv.mul(d, cv.unpt(P))))
        half = ld // 16
        big = cv.m > 260

        def v(ld_, H_, sig_, Q_, lab):
            add("dstu.vfy %d %s %d %s %s %s" % (i, hx(P), ld_, hx(H_), hx(sig_), hx(Q_)), kind="dstu.vfy", cv=cv, ld=ld_, H=H_, sig=sig_, pub=Q_, lab=lab,
                genuine=(lab == "genuine"))
            self.count("dstu.vfy:" + lab)
        v(ld, H, sig, Qb, "genuine")
        if m.get("gen"):
            return
        r, s = le(sig[:oo]), le(sig[half:half + oo])
        mk = lambda rx, sx: rx.to_bytes(half, "little") + sx.to_bytes(half, "little")
        W = 1 << (8 * oo)
        alts = [("r=0", 0, s), ("s=0", r, 0), ("r=n", nn, s), ("s=n", r, nn), ("r+n", r + nn, s), ("s+n", r, s + nn), ("s+1", r, (s + 1) % nn or 1)]
        for lab, rx, sx in alts if (n <= 2 or self.thorough) else rng.sample(alts, 2):
            if rx < (1 << (8 * half)) and sx < (1 << (8 * half)):
                v(ld, H, mk(rx, sx), Qb, lab)
        # the same (r, s) in a signature of another admissible length: accepted (padding only)
        v(ld + 16, H, mk(r, s)[:half] + b"\0" + mk(r, s)[half:] + b"\0", Qb, "relength")
        if len(H) >= no:
            v(ld, H + b"\x5a", sig, Qb, "hash:extended")        # octets beyond O_OF_B(m) are ignored: same h
        if half > oo:
            for pos in sorted({oo, half - 1, half + oo, 2 * half - 1}):
                b = bytearray(sig)
                b[pos] |= 1 << rng.randrange(8)
                v(ld, H, bytes(b), Qb, "padding")
        full = n <= 2
        if not full and not self.thorough:
            v(ld, H, flip(sig, rng.randrange(8 * len(sig))), Qb, "bit:sig")
            v(ld, flip(H, rng.randrange(8 * len(H))), sig, Qb, "bit:hash")
            v(ld, H, sig, flip(Qb, rng.randrange(16 * no)), "bit:pub")
            return
        # thorough: every bit for the first signature of each curve (a 64-bit sample on the large curves: the model costs
        # up to 0.5 s per verification there)
        T = self.thorough and n <= 1 and not big
        k = (64 if self.thorough and n <= 1 else 4) if big else (12 if i in (0, 2) else 6)
        for b in range(8 * len(sig)) if T else self.bits(8 * len(sig), k, (8 * oo - 1, 8 * oo, 8 * half, 8 * half - 1)):
            v(ld, H, flip(sig, b), Qb, "bit:sig")
        for b in range(8 * len(H)) if T else self.bits(8 * len(H), 3 if big else 5, (cv.m - 1, cv.m)):
            v(ld, flip(H, b), sig, Qb, "bit:hash")
        for b in range(16 * no) if T else self.bits(16 * no, 3 if big else 5):
            v(ld, H, sig, flip(Qb, b), "bit:pub")
        f = cv.f
        x, y = cv.unpt(Qb)
        v(ld, H, sig, cv.pt((x, y ^ 1)), "pub:off-curve")
        v(ld, H, sig, bytes(2 * no), "pub:zero")
        v(ld, H, sig, cv.pt((x, x ^ y)), "pub:-Q")
        v(ld, H, sig, b"\xff" * no + Qb[no:], "pub:x>=2^m")
        v(ld, H, sig, cv.pt((0, f.sqrt(cv.B))), "pub:order2")       # on the curve: decided by the equation (r even => r Q = O)
        v(ld - 16, H, sig[:half - 1] + sig[half:2 * half - 1], Qb, "ld-16") if half > oo else v(ld - 16, H, sig[:-2], Qb, "ld<min")


# ------------------------------------------------------------------ search oracle: the property on the implementation alone
def nz_first(q, tape):
    """zzRandNZMod on a tape (zero-filled once exhausted): (value or None, octets requested)"""
    lb = q.bit_length()
    co = (lb + 7) // 8
    for i in range(65):
        c = tape[i * co:(i + 1) * co]
        v = le(c + bytes(co - len(c))) & ((1 << lb) - 1)
        if 0 < v < q:
            return v, (i + 1) * co, tape[(i + 1) * co:]
    return None, 65 * co, b""


def trim_first(cv, tape, used=0):
    """the rejection loop of dstuKeypairGen / step 8 of dstuSign on a strict tape"""
    while True:
        if len(tape) < cv.oo:
            return None, used, tape
        v = cv.trunc(le(tape[:cv.oo]))
        tape, used = tape[cv.oo:], used + cv.oo
        if v:
            return v, used, tape


class Search:
    def __init__(self, ctx, sets, run_c):
        self.ctx, self.run_c, self.fail = ctx, run_c, []
        self.b96, self.g12, self.dstu, self.pfok = sets
        self._h = {}
        self.nv = {}

    def hashf(self, data):
        if data not in self._h:
            self._h[data] = unh(self.run_c(["hash " + hx(data)])[0])
        return self._h[data]

    def report(self, key, op, got, want, what):
        self.fail.append((key, op, got, want, what))

    # ---- the schemes' equations, recomputed
    def b96_verify(self, oid, H, sig, pub):
        cv = self.b96
        if not oid_ok(oid):
            return BAD_OID
        Q = cv.unpt(pub)
        if not cv.on(Q):
            return BAD_PUBKEY
        s0, s1 = le(sig[:10]), le(sig[10:])
        if s1 >= cv.q:
            return BAD_SIG
        R = cv.add(cv.mul((s1 + le(H)) % cv.q, cv.G), cv.mul(s0 + (1 << 103), Q))
        if R is None:
            return BAD_SIG
        return OK if self.hashf(oid + cv.n2b(R[0], 24) + H)[:10] == sig[:10] else BAD_SIG

    def b96_sig(self, m, k):
        cv = self.b96
        R = cv.mul(k, cv.G)
        s0 = self.hashf(m["oid"] + cv.n2b(R[0], 24) + m["H"])[:10]
        s1 = (k - le(m["H"]) - (le(s0) + (1 << 103)) * m["d"]) % cv.q
        return s0 + cv.n2b(s1, 24)

    @staticmethod
    def g12_e(cv, H):
        return int.from_bytes(H, "big") % cv.q or 1

    def g12_verify(self, cv, H, sig, pub):
        Q = cv.unpt(pub)
        if not cv.on(Q):
            return BAD_PUBKEY
        r, s = int.from_bytes(sig[:cv.mo], "big"), int.from_bytes(sig[cv.mo:], "big")
        if not (0 < r < cv.q and 0 < s < cv.q):
            return BAD_SIG
        v = pow(self.g12_e(cv, H), -1, cv.q)
        R = cv.add(cv.mul(s * v % cv.q, cv.G), cv.mul(-r * v % cv.q, Q))
        if R is None:
            return BAD_PARAMS
        return OK if R[0] % cv.q == r else BAD_SIG

    def dstu_verify(self, cv, ld, H, sig, pub):
        if ld % 16 or ld < 16 * cv.oo:
            return BAD_INPUT
        Q = cv.unpt(pub)
        if not cv.on(Q):
            return BAD_PUBKEY
        half = ld // 16
        r, s = le(sig[:cv.oo]), le(sig[half:half + cv.oo])
        if any(sig[cv.oo:half]) or any(sig[half + cv.oo:]):
            return BAD_SIG
        if not (0 < r < cv.n and 0 < s < cv.n):
            return BAD_SIG
        R = cv.add(cv.mul(s, cv.unpt(cv.P)), cv.mul(r, Q))
        if R is None:
            return BAD_SIG
        return OK if cv.trunc(cv.f.mul(R[0], cv.hash_f(H))) == r else BAD_SIG

    def dstu_sig(self, cv, m):
        """the signature DSTU defines for this tape (all retry conditions), or 'exhausted'"""
        tape, used = m["tape"], 0
        h = cv.hash_f(m["H"])
        Pb = cv.unpt(cv.P)
        while True:
            e, used, tape = trim_first(cv, tape, used)
            if e is None:
                return "exhausted"
            R = cv.mul(e, Pb)
            if R[0] == 0:
                continue
            r = cv.trunc(cv.f.mul(R[0], h))
            if r == 0:
                continue
            s = (e + m["d"] * r) % cv.n
            if s == 0:
                continue
            half = m["ld"] // 16
            return "0 %s %d" % (hx(r.to_bytes(half, "little") + s.to_bytes(half, "little")), used)

    def limit(self, kind, n):
        self.nv[kind] = self.nv.get(kind, 0) + 1
        return self.nv[kind] <= n

    def stage(self, ops, meta, out, lim):
        dh, mti = {}, {}
        for op, m, o in zip(ops, meta, out):
            w = o.split()
            k = m.get("kind")
            name = op.split()[0]
            if o.startswith("CRASH"):
                self.report("crash:" + name, op, o, "no sanitizer report", "the library crashed")
                continue
            if k == "expect":
                if int(w[0]) != m["expect"]:
                    self.report(name + ":" + m.get("what", "err").split("(")[0], op, o, str(m["expect"]), m.get("what", "unexpected result code"))
            elif k == "raw":
                if o != m["expect_raw"]:
                    self.report(name + ":value", op, o, m["expect_raw"], m.get("what", "unexpected result"))
            elif k == "b96.kgen":
                cv = self.b96
                d, used, _ = nz_first(cv.q, m["tape"])
                want = ("304 - %d" % used) if d is None else "0 %s %d" % (hx(cv.n2b(d, 24) + cv.pub(d)), used)
                if o != want:
                    self.report("b96.kgen:" + m["lab"], op, o, want, "key generation: private key not sampled in {1..q-1} from this tape / public key != dG")
            elif k == "b96.pcalc":
                cv = self.b96
                want = "0 " + hx(cv.pub(m["d"])) if 0 < m["d"] < cv.q else "504 -"
                if o != want:
                    self.report("b96.pcalc", op, o, want, "public key != dG / private key range")
            elif k == "b96.pval":
                want = OK if m["lab"] == "valid" else BAD_PUBKEY
                if int(w[0]) != want:
                    self.report("b96.pval:" + m["lab"], op, o, str(want), "public key validation")
            elif k == "b96.sign" and w[0] == "0":
                kk, used, _ = nz_first(self.b96.q, m["tape"])
                want = "0 %s %d" % (hx(self.b96_sig(m, kk)), used)
                if o != want:
                    self.report("b96.sign:value", op, o, want, "signature differs from the value defined by the signing equations")
            elif k == "b96.vfy" and (m["genuine"] or self.limit(k, lim)):
                want = self.b96_verify(m["oid"], m["H"], m["sig"], m["pub"])
                if int(w[0]) != want:
                    self.report("b96.vfy:" + m["lab"], op, o, str(want), "bign96Verify disagrees with the verification equations "
                                "(genuine signature rejected or altered input accepted)")
            elif k == "g12.kgen":
                cv = m["cv"]
                d, used, _ = nz_first(cv.q, m["tape"])
                want = ("304 - %d" % used) if d is None else "0 %s %d" % (hx(d.to_bytes(cv.mo, "little") + cv.pub(d)), used)
                if o != want:
                    self.report("g12.kgen:" + m["lab"], op, o, want, "key generation: private key not sampled in {1..q-1} from this tape / public key != dP")
            elif k == "g12.sign" and m.get("tape") is not None:
                cv = m["cv"]
                tape, used, want = m["tape"], 0, None
                while want is None:
                    kk, u, tape = nz_first(cv.q, tape)
                    used += u
                    if kk is None:
                        want = "304 - %d" % used
                        break
                    r = cv.mul(kk, cv.G)[0] % cv.q
                    s = (r * m["d"] + kk * self.g12_e(cv, m["H"])) % cv.q
                    if r and s:
                        want = "0 %s %d" % (hx(r.to_bytes(cv.mo, "big") + s.to_bytes(cv.mo, "big")), used)
                if o != want:
                    self.report("g12.sign:value", op, o, want, "signature differs from the value defined by GOST R 34.10 (e = H mod q, 0 -> 1)")
            elif k == "g12.vfy" and (m["genuine"] or self.limit((k, m["cv"].i), max(4, lim // 6))):
                want = self.g12_verify(m["cv"], m["H"], m["sig"], m["pub"])
                if int(w[0]) != want:
                    self.report("g12.vfy:" + m["lab"], op, o, str(want), "g12sVerify disagrees with the verification equation "
                                "(genuine signature rejected or altered input accepted)")
            elif k == "dstu.pgen" and w[0] == "0":
                cv = m["cv"]
                P = cv.unpt(unh(w[1]))
                used = int(w[2])
                tape = unh(op.split()[2])
                xw = le(tape[used - cv.no:used]) & ((1 << cv.m) - 1)
                if not (cv.on(P) and P[0] == xw and cv.mul(cv.n, P) is None):
                    self.report("dstu.pgen", op, o, "a point of order n with x = the trimmed draw", "dstuPointGen returned an invalid point")
            elif k == "dstu.comp":
                cv, P = m["cv"], m["P"]
                if P[0] == 0:
                    want = "0 " + hx(bytes(cv.no))
                else:
                    t = cv.f.tr(cv.f.div(P[1], P[0]))
                    # (1, y) with Tr(y) = 0 would get the code of (0, sqrt B): it must be refused
                    want = "401 -" if (P[0] == 1 and t == 0) else "0 " + hx(cv.n2b((P[0] & ~1) | t))
                if o != want:
                    self.report("dstu.comp", op, o, want, "compressed point != x with bit 0 replaced by Tr(y/x) (section 6.9) / unrepresentable point accepted")
            elif k == "dstu.rec":
                cv, P = m["cv"], m["P"]
                want = "0 " + hx(cv.pt(P))
                # Recover(Compress P) == P holds for P in the subgroup generated by the base point (Tr(x) = A) and for x = 0
                if (P[0] == 0 or cv.f.tr(P[0]) == cv.A) and o != want:
                    self.report("dstu.rec:roundtrip", op, o, want, "Recover(Compress(P)) != P")
            elif k == "dstu.rec0":
                if o != m["want"]:
                    self.report("dstu.rec:x=0", op, o, m["want"], "Recover(0) != (0, sqrt B)")
            elif k == "dstu.kgen":
                cv = m["cv"]
                d, used, _ = trim_first(cv, m["tape"])
                want = "exhausted" if d is None else "0 %s %d" % (hx(d.to_bytes(cv.oo, "little") + cv.pt(cv.neg(cv.mul(d, cv.unpt(cv.P))))), used)
                if o != want:
                    self.report("dstu.kgen:" + m["lab"], op, o, want, "key generation: d not the first non-zero trimmed draw / Q != -dP")
            elif k == "dstu.sign" and m.get("H") is not None and (m["cv"].m < 260 or self.limit((k, m["cv"].i), 2)):
                want = self.dstu_sig(m["cv"], m)
                if o != want:
                    self.report("dstu.sign:" + m.get("lab", "value"), op, o, want, "signature differs from the value defined by DSTU 4145 for this tape")
            elif k == "dstu.vfy" and (m["genuine"] or self.limit((k, m["cv"].i), max(3, lim // 10))):
                want = self.dstu_verify(m["cv"], m["ld"], m["H"], m["sig"], m["pub"])
                if int(w[0]) != want:
                    self.report("dstu.vfy:" + m["lab"], op, o, str(want), "dstuVerify disagrees with the verification equation "
                                "(genuine signature rejected or altered input accepted)")
            elif k == "pfok.pcalc":
                pf = m["pf"]
                want = "0 " + hx(pf.pow(pf.g, m["x"]).to_bytes(pf.no, "little"))
                if o != want:
                    self.report("pfok.pcalc", op, o, want, "public key != g^(x) in the Montgomery group with R = 2^(l+2)")
            elif k == "pfok.kgen":
                pf = m["pf"]
                t = m["tape"][:pf.mo]
                x = le(t + bytes(pf.mo - len(t))) & ((1 << pf.r) - 1)
                want = "0 %s %d" % (hx(x.to_bytes(pf.mo, "little") + pf.pow(pf.g, x).to_bytes(pf.no, "little")), pf.mo)
                if o != want:
                    self.report("pfok.kgen", op, o, want, "key pair != (x, g^(x))")
            elif k == "pfok.dh":
                pf = m["pf"]
                xa, xb = m["pair"]
                want = "0 " + hx(pf.key(pf.pow(pf.g, xa * xb)))
                if o != want:
                    self.report("pfok.dh:value", op, o, want, "pfokDH != n bits of g^(xa xb)")
                dh.setdefault((pf.i,) + m["pair"], {})[m["side"]] = (op, o)
            elif k == "pfok.mti":
                pf = m["pf"]
                xa, ua, xb, ub = m["quad"]
                want = "0 " + hx(pf.key(pf.pow(pf.g, xb * ua) ^ pf.pow(pf.g, ub * xa)))
                if o != want:
                    self.report("pfok.mti:value", op, o, want, "pfokMTI != n bits of g^(xb ua) xor g^(ub xa)")
                mti.setdefault((pf.i,) + m["quad"], {})[m["side"]] = (op, o)
        for name, tab in (("pfok.dh", dh), ("pfok.mti", mti)):
            for key, sides in tab.items():
                if len(sides) == 2 and sides[0][1] != sides[1][1]:
                    self.report(name + ":agree", sides[0][0] + " || " + sides[1][0], sides[0][1], sides[1][1], "the two parties derive different keys")


# ------------------------------------------------------------------ structured keys / nonces / hashes: sign-then-verify and key round trips in bulk
STRUCT_K = (1, 2, 3, -3, -2, -1)        # private keys d = k resp. order + k: the public key is a small multiple of +-(base point)


class Structured:
    """Boundary / structured keys in the round trips the theorems promise (`*_sign_complete`, `*_keygen_valid`, `recover_compress`,
    `pfok_*_agree`): d in {1, 2, 3, n-3, n-2, n-1} — the verifier's double-scalar multiplication then meets P = +-Q, P + P, P - P inside
    its window tables —, hashes {0, all-ones, = n, multiples of n, n +- 1, random}, nonces {1, 2, n-1 (largest injectable), random}
    through the generator tape.  Every produced signature must verify, every generated pair must validate: a rejection is a failing
    input.  The bulk runs on the implementation alone (it is cheap there); a sample of every (set, key) goes through the
    correspondence with the model as an extra stage."""

    def __init__(self, ctx, sets, run_c, srch):
        self.ctx, self.rng, self.run_c, self.srch = ctx, ctx.rng, run_c, srch
        self.b96, self.g12, self.dstu, self.pfok = sets
        self.thorough = ctx.tier == "thorough"
        self.cov = {}
        self.sample_ops, self.sample_meta = [], []

    def rb(self, n):
        return bytes(self.rng.getrandbits(8) for _ in range(n))

    def count(self, k, n=1):
        self.cov[k] = self.cov.get(k, 0) + n

    def reps(self, idx, heavy):
        """signatures per structured key on parameter set `idx`: 100 on EVERY set in the quick tier (the implementation signs and
        verifies in well under a millisecond .. a few ms), 300 in the thorough tier; `heavy` only selects the sets from which
        more samples go through the correspondence with the model"""
        return 300 if self.thorough else 100

    @staticmethod
    def klab(k):
        return str(k) if k > 0 else "n%d" % k

    def hashes_int(self, n, W, count):
        """hash values as integers below W: the structured ones first, then random"""
        hs = [0, W - 1, n % W, (n - 1) % W, (n + 1) % W, ((W - 1) // n) * n, 1, 2 * n % W if 2 * n < W else n >> 1]
        out = []
        for j in range(count):
            out.append(hs[j] if j < len(hs) else self.rng.randrange(W))
        return out

    def sample(self, op, **m):
        self.sample_ops.append(op)
        self.sample_meta.append(m)

    def check_all_ok(self, ops, outs, fam, what, signs=None):
        for j, (op, o) in enumerate(zip(ops, outs)):
            if not o.startswith("0"):
                extra = (" [signature produced by: %s]" % signs[j][:300]) if signs else ""
                self.srch.report("%s:structured" % fam, op, o, "0", what + extra)

    # ---- prime curves
    def pub_p(self, cv, k):
        return cv.pub(k) if k > 0 else cv.pt(cv.neg(cv.mul(-k, cv.G)))

    def nonce_tape(self, q, co, j, top=None):
        """the tape of signature number j: mostly random draws, every 7th a structured nonce"""
        n2b = lambda v: v.to_bytes(co, "little")
        top = top or (q - 1)
        spare = n2b(self.rng.randrange(1, top + 1)) + n2b(self.rng.randrange(1, top + 1))
        if j % 7 == 3:
            return n2b((1, 2, top)[(j // 7) % 3]) + spare
        return n2b(self.rng.randrange(1, top + 1)) + spare

    def run_b96(self):
        cv, q, W = self.b96, self.b96.q, 1 << 192
        n2b = lambda v: cv.n2b(v, 24)
        signs, metas = [], []
        for k in STRUCT_K:
            d = k if k > 0 else q + k
            Q = self.pub_p(cv, k)
            self.sample("b96.kval %s %s" % (hx(n2b(d)), hx(Q)), kind="expect", expect=OK, what="KeypairVal(d, dG), structured d")
            self.sample("b96.pcalc " + hx(n2b(d)), kind="b96.pcalc", d=d)
            self.sample("b96.kgen " + hx(n2b(d)), kind="b96.kgen", tape=n2b(d), lab="structured")
            for j, h in enumerate(self.hashes_int(q, W, 100)):
                H = n2b(h)
                if j % 5 == 4:
                    op = "b96.sign2 %s %s %s %s" % (hx(OID_HBELT), hx(H), hx(n2b(d)), "N" if j % 2 else hx(self.rb(8)))
                else:
                    op = "b96.sign %s %s %s %s" % (hx(OID_HBELT), hx(H), hx(n2b(d)), hx(self.nonce_tape(q, 24, j)))
                signs.append(op)
                metas.append((H, Q, k, j))
        outs = self.run_c(signs)
        vf, src = [], []
        for op, (H, Q, k, j), o in zip(signs, metas, outs):
            w = o.split()
            if w[0] != "0":
                self.srch.report("b96.sign:structured", op, o, "0 <sig>", "signing with a valid structured key failed")
                continue
            vf.append("b96.vfy %s %s %s %s" % (hx(OID_HBELT), hx(H), w[1], hx(Q)))
            src.append(op)
            if j < 2 or j == 10:
                self.sample(op, kind="bulk")
                self.sample(vf[-1], kind="bulk")
        self.check_all_ok(vf, self.run_c(vf), "b96.vfy", "Verify(Sign) != OK for a structured private key (public key = small multiple of +-G)", src)
        self.count("b96:sign+verify", len(vf))

    def run_g12(self):
        heavy = {0, 4, 1 + self.ctx.seed % 3, 5 + self.ctx.seed % 3}
        for cv in self.g12:
            q, mo, i = cv.q, cv.mo, cv.i
            W = 1 << (8 * mo)
            n = self.reps(i, heavy)
            signs, metas = [], []
            for k in STRUCT_K:
                d = k if k > 0 else q + k
                Q = self.pub_p(cv, k)
                db = d.to_bytes(mo, "little")
                self.sample("g12.kgen %d %s" % (i, hx(db)), kind="g12.kgen", cv=cv, tape=db, lab="structured")
                for j, h in enumerate(self.hashes_int(q, W, n)):
                    H = h.to_bytes(mo, "big")
                    signs.append("g12.sign %d %s %s %s" % (i, hx(H), hx(db), hx(self.nonce_tape(q, (q.bit_length() + 7) // 8, j))))
                    metas.append((H, Q, k, j))
            outs = self.run_c(signs)
            vf, src = [], []
            for op, (H, Q, k, j), o in zip(signs, metas, outs):
                w = o.split()
                if w[0] != "0":
                    self.srch.report("g12.sign:structured", op, o, "0 <sig>", "signing with a valid structured key failed")
                    continue
                vf.append("g12.vfy %d %s %s %s" % (i, hx(H), w[1], hx(Q)))
                src.append(op)
                if j < 1 or (j == 10 and i in heavy):
                    self.sample(op, kind="bulk")
                    self.sample(vf[-1], kind="bulk")
            self.check_all_ok(vf, self.run_c(vf), "g12.vfy", "Verify(Sign) != OK for a structured private key (public key = small multiple of +-P)", src)
            self.count("g12[%d]:sign+verify" % i, len(vf))

    # ---- binary curves
    def run_dstu(self):
        heavy = {0, 2, 3 + self.ctx.seed % 7}
        for cv in self.dstu:
            if cv.P is None:
                continue
            i, nn, oo, no = cv.i, cv.n, cv.oo, cv.no
            Pb, Pt = cv.P, cv.unpt(cv.P)
            n = self.reps(i, heavy)
            top = (1 << (cv.nb - 1)) - 1
            tb = lambda v: v.to_bytes(oo, "little")
            signs, metas = [], []
            mult = {1: Pt, 2: cv.add(Pt, Pt)}
            mult[3] = cv.add(mult[2], Pt)
            pubs = []
            for k in STRUCT_K:
                d = k if k > 0 else nn + k
                Qt = cv.neg(mult[k]) if k > 0 else mult[-k]          # Q = -dP
                Q = cv.pt(Qt)
                pubs.append((k, Qt, Q))
                if 0 < k:
                    self.sample("dstu.kgen %d %s %s" % (i, hx(Pb), hx(tb(d))), kind="dstu.kgen", cv=cv, tape=tb(d), lab="structured")
                hl_cycle = [32, no, no + 1, 1, no - 1, 64]
                for j in range(n):
                    hl = hl_cycle[j % 6] if j >= 6 else 32
                    if j < 6:
                        H = [bytes(32), b"\xff" * 32, cv.n2b(nn, no), cv.n2b(nn, no) + bytes(3), bytes(no - 1) + b"\x01", b"\x01"][j]
                    else:
                        H = self.rb(hl)
                    ld = 16 * oo + (16 * (j % 4) if j % 3 == 0 else 0)
                    signs.append("dstu.sign %d %s %d %s %s %s" % (i, hx(Pb), ld, hx(H), hx(tb(d)), hx(self.nonce_tape(nn, oo, j, top))))
                    metas.append((H, Q, k, j, ld))
            outs = self.run_c(signs)
            vf, src = [], []
            for op, (H, Q, k, j, ld), o in zip(signs, metas, outs):
                w = o.split()
                if w[0] != "0":
                    self.srch.report("dstu.sign:structured", op, o, "0 <sig>", "signing with a valid structured key failed")
                    continue
                vf.append("dstu.vfy %d %s %d %s %s %s" % (i, hx(Pb), ld, hx(H), w[1], hx(Q)))
                src.append(op)
                if j < 1 or (j == 9 and i in heavy):
                    self.sample(op, kind="bulk")
                    self.sample(vf[-1], kind="bulk")
            self.check_all_ok(vf, self.run_c(vf), "dstu.vfy", "Verify(Sign) != OK for a structured private key (public key = small multiple of +-P)", src)
            self.count("dstu[%d]:sign+verify" % i, len(vf))
            # key validation and compression round trip of the structured public keys
            ops = ["dstu.pval %d %s" % (i, hx(Q)) for _, _, Q in pubs]
            self.check_all_ok(ops, self.run_c(ops), "dstu.pval", "PointVal rejects the public key -dP of a structured d")
            comp = ["dstu.comp %d %s" % (i, hx(Q)) for _, _, Q in pubs]
            co = self.run_c(comp)
            rec, want = [], []
            for (k, Qt, Q), op, o in zip(pubs, comp, co):
                w = o.split()
                if w[0] == "0":
                    rec.append("dstu.rec %d %s" % (i, w[1]))
                    want.append("0 " + hx(Q))
                elif not (Qt[0] == 1 and w[0] == "401"):
                    self.srch.report("dstu.comp:structured", op, o, "0 <xpoint>", "Compress fails on a public key of order n")
            for op, o, wnt in zip(rec, self.run_c(rec), want):
                if o != wnt:
                    self.srch.report("dstu.rec:structured", op, o, wnt, "Recover(Compress(Q)) != Q for the public key of a structured d")
            if i in heavy or self.thorough:
                for (k, Qt, Q), op in zip(pubs, comp):
                    self.sample(op, kind="dstu.comp", cv=cv, P=Qt)
            self.count("dstu[%d]:pval+comp+rec" % i, len(pubs))

    # ---- pfok
    def run_pfok(self):
        for pf in self.pfok:
            i, r = pf.i, pf.r
            xs = [0, 1, 2, 3, (1 << r) - 3, (1 << r) - 2, (1 << r) - 1]
            pb = lambda x: x.to_bytes(pf.mo, "little")
            pc = ["pfok.pcalc %d %s" % (i, hx(pb(x))) for x in xs]
            po = self.run_c(pc)
            ys = []
            for x, op, o in zip(xs, pc, po):
                want = "0 " + hx(pf.pow(pf.g, x).to_bytes(pf.no, "little"))
                if o != want:
                    self.srch.report("pfok.pcalc:structured", op, o, want, "public key != g^(x) for a structured private key")
                ys.append(unh(o.split()[1]) if o.startswith("0 ") else None)
            kg = ["pfok.kgen %d %s" % (i, hx(pb(x))) for x in xs]
            for x, y, op, o in zip(xs, ys, kg, self.run_c(kg)):
                if y is not None and o != "0 %s %d" % (hx(pb(x) + y), pf.mo):
                    self.srch.report("pfok.kgen:structured", op, o, "0 %s %d" % (hx(pb(x) + y), pf.mo), "KeypairGen(tape = x) != (x, PubkeyCalc(x))")
            pv = ["pfok.pval %d %s" % (i, hx(y)) for y in ys if y is not None]
            self.check_all_ok(pv, self.run_c(pv), "pfok.pval", "PubkeyVal rejects g^(x) of a structured private key")
            pairs = [(a, b) for a in range(len(xs)) for b in range(a, len(xs)) if ys[a] is not None and ys[b] is not None]
            dh = []
            for a, b in pairs:
                dh += ["pfok.dh %d %s %s" % (i, hx(pb(xs[a])), hx(ys[b])), "pfok.dh %d %s %s" % (i, hx(pb(xs[b])), hx(ys[a]))]
            do = self.run_c(dh)
            for t, (a, b) in enumerate(pairs):
                want = "0 " + hx(pf.key(pf.pow(pf.g, xs[a] * xs[b])))
                if do[2 * t] != do[2 * t + 1] or do[2 * t] != want:
                    self.srch.report("pfok.dh:structured", dh[2 * t] + " || " + dh[2 * t + 1], do[2 * t], do[2 * t + 1] if do[2 * t] != do[2 * t + 1] else want,
                                     "DH with structured private keys: the two parties disagree / key != n bits of g^(xa xb)")
            quads = [tuple(self.rng.randrange(len(xs)) for _ in range(4)) for _ in range(24)] + [(1, 1, 1, 1), (0, 6, 6, 0), (6, 6, 6, 6), (1, 2, 3, 4)]
            mt = []
            for a, ua, b, ub in quads:
                mt += ["pfok.mti %d %s %s %s %s" % (i, hx(pb(xs[a])), hx(pb(xs[ua])), hx(ys[b]), hx(ys[ub])),
                       "pfok.mti %d %s %s %s %s" % (i, hx(pb(xs[b])), hx(pb(xs[ub])), hx(ys[a]), hx(ys[ua]))]
            mo_ = self.run_c(mt)
            for t, (a, ua, b, ub) in enumerate(quads):
                want = "0 " + hx(pf.key(pf.pow(pf.g, xs[b] * xs[ua]) ^ pf.pow(pf.g, xs[ub] * xs[a])))
                if mo_[2 * t] != mo_[2 * t + 1] or mo_[2 * t] != want:
                    self.srch.report("pfok.mti:structured", mt[2 * t] + " || " + mt[2 * t + 1], mo_[2 * t], mo_[2 * t + 1] if mo_[2 * t] != mo_[2 * t + 1] else want,
                                     "MTI with structured private keys: the two parties disagree / key != n bits of g^(xb ua) xor g^(ub xa)")
            if i == 0 or self.thorough:
                for x in xs[1:]:
                    self.sample("pfok.pcalc %d %s" % (i, hx(pb(x))), kind="pfok.pcalc", pf=pf, x=x)
                self.sample(dh[-2], kind="bulk")
                self.sample(dh[-1], kind="bulk")
                self.sample(mt[-2], kind="bulk")
                self.sample(mt[-1], kind="bulk")
            self.count("pfok[%d]:dh-pairs" % i, len(pairs))
            self.count("pfok[%d]:mti-quads" % i, len(quads))

    def run(self):
        self.run_b96()
        self.run_g12()
        self.run_dstu()
        self.run_pfok()


def diff_par(ctx, exe, lines, label, nproc=6):
    """ctx.diff_run with the Lean side split over several driver processes (the model's affine arithmetic is slow)"""
    import concurrent.futures as cf
    c_out, c_err, rc = ctx.run_lines(exe, lines)
    if rc != 0 or len(c_out) != len(lines):
        k = min(len(c_out), len(lines) - 1)
        msg = c_err.strip().split("\n") or ["?"]
        summ = [l for l in msg if "ERROR" in l or "SUMMARY" in l or "Assertion" in l or "runtime error" in l][:3]
        c_out = c_out[:k] + ["CRASH(rc=%d): %s" % (rc, " | ".join(summ) or msg[-1][:200])]
        lines = lines[:k + 1]
    n = max(1, min(nproc, len(lines) // 8))
    chunks = [lines[i::n] for i in range(n)]
    with cf.ThreadPoolExecutor(n) as ex:
        res = list(ex.map(lambda ch: ctx.run_lines(ctx.driver(), ch), chunks))
    l_out = [None] * len(lines)
    for i, (out, err, lrc) in enumerate(res):
        if lrc != 0 or len(out) != len(chunks[i]):
            raise RuntimeError("Lean driver failed (rc=%d) on %s: %s" % (lrc, label, err[-500:]))
        l_out[i::n] = out
    mism = [(i, lines[i], c_out[i], l_out[i]) for i in range(len(lines)) if c_out[i] != l_out[i]]
    ctx.cov["ops_" + label] = len(lines)
    ctx.cov["ops_total"] = ctx.cov.get("ops_total", 0) + len(lines)
    return mism, c_out, l_out


def fmt_replay(key, op, got, want, what):
    return "\n".join(["# property C16 key=%s : %s" % (key, what), "# replay with ./check C16 --replay <this file>",
                      "op %s" % op, "impl %s" % got, "expected %s" % want]) + "\n"


def corpus_lines():
    if not os.path.exists(CORPUS):
        return []
    return [l.strip() for l in open(CORPUS) if l.strip() and not l.startswith("#")]


def corpus_meta(line):
    """corpus lines are `op => expected output` (witnesses of repaired defects) or plain ops"""
    if " => " in line:
        op, want = line.split(" => ", 1)
        return op.strip(), {"kind": "raw", "expect_raw": want.strip(), "what": "regression witness of a repaired defect"}
    return line, {"kind": "corpus"}


def run(ctx):
    translator_error = None
    try:
        regen(ctx)
    except Exception as e:
        translator_error = "%s: %s" % (type(e).__name__, e)
    if translator_error:
        proof_ok, log = False, "translator: " + translator_error
        ctx.obligations += [(n, None) for rel in PROPS for n in ctx.theorems_of(rel)]
    else:
        proof_ok, log = ctx.prove(TARGETS, PROPS)
    exe = ctx.cc("harness/c16.c", "asan")

    def run_c(lines):
        out, err, rc = ctx.run_lines(exe, lines)
        if rc != 0 or len(out) != len(lines):
            raise RuntimeError("c16 harness failed on a helper query: " + err[-400:])
        return out

    have_driver = (not translator_error) and os.path.exists(ctx.driver())
    if translator_error:
        ctx.violation("proof", "# property C16: the parameter translator failed: %s\n" % translator_error, False, "translator: " + translator_error)
        return ctx.finish(level="proof", assumptions=["translator failed"], rule="", distinct=0)
    sets = load_sets()
    g = Gen(ctx, sets, run_c)
    srch = Search(ctx, sets, run_c)
    all_mism, distinct, stages = [], set(), []

    def do_stage(label, ops, meta):
        if not ops:
            return ops, meta, []
        if have_driver:
            mism, c_out, _ = diff_par(ctx, exe, ops, label)
        else:
            c_out, _, _ = ctx.run_lines(exe, ops)
            mism = []
        if len(c_out) < len(ops):       # crash: keep the lists aligned
            ops, meta = ops[:len(c_out)], meta[:len(c_out)]
        all_mism.extend(mism)
        distinct.update(c_out)
        stages.append((label, ops, meta, c_out))
        return ops, meta, c_out

    cl = [corpus_meta(l) for l in corpus_lines()]
    if cl:
        do_stage("corpus", [c[0] for c in cl], [c[1] for c in cl])
    o, m = g.stage1()
    o, m, c = do_stage("stage1", o, m)
    for lab in ("stage2", "stage3", "stage4"):
        o, m = g.follow(o, m, c)
        if not o:
            break
        o, m, c = do_stage(lab, o, m)
    # structured keys / nonces / hashes: bulk round trips on the implementation, a sample through the correspondence
    st = Structured(ctx, sets, run_c, srch)
    st.run()
    do_stage("structured", st.sample_ops, st.sample_meta)
    # other build configurations of the library must give the same outputs (32-bit words, FAST editions)
    if ctx.tier == "thorough":
        for cfg in ("w32", "fast"):
            exe2 = ctx.cc("harness/c16.c", cfg)
            for lab, ops, _, out in stages:
                out2, err2, rc2 = ctx.run_lines(exe2, ops)
                if rc2 != 0 or len(out2) != len(ops):
                    out2 = out2[:max(0, min(len(out2), len(ops) - 1))] + ["CRASH(rc=%d)" % rc2]
                for i, (x, y) in enumerate(zip(out, out2)):
                    if x != y:
                        all_mism.append((i, ops[i], y, "cfg asan: " + x))
                        srch.report("cfg-%s:%s" % (cfg, ops[i].split()[0]), ops[i], y, x, "build configuration %s disagrees with the default build" % cfg)
                        break
                ctx.cov["ops_" + cfg] = ctx.cov.get("ops_" + cfg, 0) + len(ops)
    # the property on the implementation alone (always evaluated; it does not involve the model)
    lim = 10 ** 9 if (all_mism or not proof_ok) else (400 if ctx.tier == "thorough" else 60)
    for lab, ops, meta, out in stages:
        srch.stage(ops, meta, out, lim)
    kinds = {}
    for _, ops, _, _ in stages:
        for op in ops:
            kinds[op.split()[0]] = kinds.get(op.split()[0], 0) + 1
    ctx.cov["structured_round_trips"] = st.cov
    ctx.cov["ops_structured_bulk_impl_only"] = sum(st.cov.values())
    ctx.cov.update({"ops_by_kind": kinds, "cases": g.cov, "correspondence_disagreements": len(all_mism),
                    "implementation_property_failures": len(srch.fail), "distinct_nontrivial": len(distinct),
                    "oracle_recomputed": {str(k): v for k, v in srch.nv.items()}})
    for st in stages[1:4]:
        if st[1]:
            j = len(st[1]) // 2
            ctx.samples.append({"op": st[1][j][:300], "impl": st[3][j][:200]})
    ctx.samples.append({"theorem": "Bee2V.C16.g12_verify_exact", "statement": "verify C H sig pub = ok ↔ pub on curve ∧ 0 < r, s < q ∧ x(z1·P + z2·Q) mod q = r, z1 = s·e⁻¹, z2 = −r·e⁻¹, e = H mod q (0 → 1)"})
    seen = set()
    for key, op, got, want, what in srch.fail:
        if key in seen:
            continue
        seen.add(key)
        ctx.violation(key, fmt_replay(key, op, got, want, what), True, "%s\n  op: %s\n  impl: %s\n  expected: %s" % (what, op[:400], got[:200], want[:200]))
    if not srch.fail:
        if not proof_ok:
            errs = "\n".join("# " + l for l in log.split("\n") if "error" in l)[:3000]
            ctx.violation("proof", "# property C16: the theorems of Bee2V/C16/Props*.lean no longer check; the implementation-only "
                          "property tests found no failing input.\n# first errors:\n" + errs, False,
                          "theorems no longer check: " + ("; ".join(ctx.cov.get("lake_errors", [])) or log[-300:])[:400])
        elif all_mism:
            i, op, c, l = all_mism[0]
            key = "correspondence:" + (op.split()[0] if op else "driver")
            ctx.violation(key, fmt_replay(key, op, c, l, "model and implementation disagree; no property failure found on the implementation"),
                          False, "%d ops differ, first: %s\n  impl=%s\n  model=%s" % (len(all_mism), op[:400], c[:200], l[:200]))
    return ctx.finish(
        level="proof",
        assumptions=[
            "theorems are about the code-shaped models over abstract contexts; the group laws (commutative group, base point of prime order, "
            "point encoding, on-curve test), the field laws of GF(2^m) (characteristic 2, x^(2^m) = x, m odd, polynomial-basis bit 0) and "
            "belt-hash / belt-32block (uninterpreted) are hypotheses of the theorems, not proved for ecp.c/ec2.c/gfp/gf2/pp (C05/C06 scope)",
            "pfok: p prime and g != 0 mod p are hypotheses (pfokParamsVal checks them; not re-proved for the 638..2462-bit standard moduli)",
            "model = code is checked by the correspondence run on every standard parameter set, not proved",
            "unbounded C loops (bign96Sign2 nonce, g12sSign r = 0 retry, dstu generator loops) are modelled with fuel: theorems hold whenever they terminate",
            "memIsValid / blobCreate failure / rng == 0 branches are not reachable through the harness and not modelled"],
        rule="staged generator on ALL standard sets (bign96; 8 g12s; 10 dstu with the base point from dstuPointGen; 4 pfok): stage 1 = keys {1, order-1, random}, "
             "generator tapes whose first draw is 0, q, q+1, max, has bits above bitlen(q) (rejection / trimming rounds), 64/65 rejected draws, hashes "
             "{0, all-ones, q-1, q, q+1, k*q, random}, hash lengths around O_OF_B(m) and several ld (dstu), constructed s = 0 retry (dstu); later stages = "
             "verification of the implementation's own signatures and of their alterations (component = 0, = order, + order, every/sampled single bit of "
             "signature incl. padding octets, hash, public key; off-curve / twist / >= p / zero public keys; alterations that keep the reduced hash are "
             "expected to be accepted), KeypairVal/PubkeyVal/PointVal of generated keys, Recover(Compress P), both sides of DH and MTI. "
             "structured round: d in {1,2,3,n-3,n-2,n-1} x 100 (300 thorough) signatures per set with hashes {0, all-ones, n, n+-1, k*n, random} and every 7th "
             "nonce in {1, 2, largest injectable}, each verified on the implementation, a sample of every (set, key) also on the model. "
             "distinct_nontrivial = number of distinct implementation outputs",
        distinct=len(distinct))


def replay(ctx, path):
    op = want = None
    for line in open(path):
        if line.startswith("op "):
            op = line[3:].strip()
        elif line.startswith("expected "):
            want = line[9:].strip()
    if not op or op.split()[0].split(".")[0] not in ("b96", "g12", "dstu", "pfok"):
        print("replay file names a theorem/correspondence, not an executable input")
        return 0
    exe = ctx.cc("harness/c16.c", "asan")
    ops = op.split(" || ")
    out, err, rc = ctx.run_lines(exe, ops)
    if len(out) < len(ops):
        out = out + ["CRASH " + err[-300:]]
    if len(ops) == 2:
        print("op A     %s\nimpl A   %s\nop B     %s\nimpl B   %s" % (ops[0], out[0], ops[1], out[1]))
        bad = out[0] != out[1]
    else:
        got = out[0]
        print("op       %s\nimpl     %s\nexpected %s" % (op, got, want))
        bad = (got != want) if (want and (" " in want or want.isdigit() or want == "exhausted")) else got.startswith("0") or got.startswith("CRASH")
        if want and want.isdigit():
            bad = got.split()[0] != want
    print("property %s on the current tree" % ("VIOLATED" if bad else "holds"))
    return 1 if bad else 0


# ------------------------------------------------------------------ C19: a quick-sized stream for the configuration replay
def c19_stream():
    """(harness, driver, fn, uses_bash) for props/C19.py: fn(ctx, exe, w) -> op lines.  The stream is the staged quick
    generator thinned to about 700 ops (the Lean affine arithmetic is slow and C19 runs the driver in one process);
    later stages are built from the outputs of `exe` (the reference build).  Kept on purpose: every op family on every
    parameter set at least once, BOTH sides of every DH / MTI pair (incl. pfok l = 2462, where a word-size dependent
    Montgomery constant would show), dstu signatures of minimal and larger ld with their padding alterations.
    All ops are octet-level: nothing depends on the machine-word size `w`."""

    class _Shim:
        def __init__(self, ctx):
            self.rng, self.tier = ctx.rng, "quick"

    def fn(ctx, exe, w):
        def run_c(lines):
            out, err, rc = ctx.run_lines(exe, lines)
            if rc != 0 or len(out) != len(lines):
                raise RuntimeError("c16 harness failed while building the C19 stream: " + err[-300:])
            return out

        g = Gen(_Shim(ctx), load_sets(), run_c)
        rng = ctx.rng

        def thin(ops, meta, fr):
            seen, ko, km = set(), [], []
            for o, m in zip(ops, meta):
                t = o.split()
                fam = t[0]
                si = t[1] if len(t) > 1 and t[1].isdigit() and len(t[1]) == 1 else "-"
                cls = m.get("lab", m.get("kind"))
                if fam == "dstu.sign" and "cv" in m and "ld" in m:
                    cls = (cls, "min" if m["ld"] == 16 * m["cv"].oo else "larger")
                key = (fam, si, cls, m.get("side"))
                keep_all = fam in ("pfok.dh", "pfok.mti", "dstu.pgen", "b96.sign", "b96.sign2") or fam.endswith(".params") or \
                    (m.get("genuine") and rng.random() < 0.5) or (fam in ("dstu.sign", "g12.sign") and rng.random() < 0.35)
                first = key not in seen
                if first and fam in ("dstu.vfy", "g12.vfy") and si not in ("0", "2", "4") and not m.get("genuine") and rng.random() < 0.5:
                    first = False       # altered verifications: every class on sets 0, 2, 4, every second class elsewhere
                if keep_all or first or rng.random() < fr:
                    ko.append(o)
                    km.append(m)
                seen.add(key)
            return ko, km

        stream = [corpus_meta(l)[0] for l in corpus_lines()]
        o, m = thin(*g.stage1(), fr=0.15)
        stream += o
        for fr in (0.04, 0.04, 0.04):
            c = run_c(o)
            o, m = thin(*g.follow(o, m, c), fr=fr)
            if not o:
                break
            stream += o
        return stream[:1500]

    return ("harness/c16.c", "drv_c16", fn, False)

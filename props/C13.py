"""C13 — bels (STB 34.101.60): any threshold-sized subset of shares, in any order, recovers the secret;
shares equal the standard's values; generated user keys are valid and deterministic in the identifier.

PROOF  lean/Bee2V/C13/Props*.lean over the executable model of src/crypto/bels.c
       (Model.lean: belsStdM / belsShare* / belsRecover* as register programs with the C's operand
       lengths; ModelGen.lean: belsValM / belsGenM0 / belsGenMi / belsGenMid with ppIsIrred, ppMinPoly,
       ppMinPolyMod code-shaped; ModelBelt.lean: belt-hash of the id, bels-genk of belsShare3):
       incremental-CRT invariant of the belsRecover loop for every number of shares, every subset and
       every order; share = ((x^l + m0) k + s) mod (x^l + mi); ERR_BAD_PUBKEY exactly when two moduli
       are not coprime (ppExGCD's binary algorithm returns THE gcd); the 51 standard polynomials are
       pairwise coprime (kernel evaluation), so belsShare2/3 + belsRecover2 need no hypothesis;
       no operand of ppMul/ppMod/ppExGCD is ever truncated by the declared word counts; layout arithmetic;
       PropsKeys.lean: belsValM = OK <=> x^l + m0 irreducible; keys written by belsGenM0/Mi/Mid pass belsValM, differ
       from m0 and are the minimal polynomial of the first acceptable candidate (on C05's Ben-Or / minimal-polynomial
       theorems); recovery with valid pairwise distinct keys without any coprimality hypothesis.
TIE    harness/c13.c (real library) vs drv_c13 (compiled model) on the same op lines, configs asan
       (64-bit words) and w32 (32-bit words): standard and generated keys, 3 lengths, count 1..16,
       threshold 1..count, ALL subsets of size >= t in ALL orders for count <= 4 (thorough: <= 6),
       sampled above (count 16, user 16, 12+ shares), generator tapes, key generation with rejected
       candidates, validators on standard / generated / perturbed keys, error paths.
SEARCH the implementation alone against an independent Python big-int GF(2)[x] reference: every
       op carries the value the PROPERTY demands (secret recovered, share = formula, generated key
       irreducible of degree l, != m0, annihilates the tape element, same id -> same key).
"""
import itertools, os, random, sys
import vcommon
from vcommon import VERIF

PROPS = ["Bee2V/C13/Props.lean", "Bee2V/C13/PropsRec.lean", "Bee2V/C13/PropsKeys.lean"]
LENS = (16, 24, 32)

M_STD = {
    16: [0x87, 0x285, 0xC41, 0x1821, 0x8015, 0x8301, 0x20281, 0x22081, 0x2A001,
         0x80141, 0x80205, 0x82801, 0x8A001, 0x108041, 0x200025, 0x200405, 0x200C01],
    24: [0x87, 0x1209, 0x1241, 0x8601, 0x8821, 0xC005, 0x20049, 0x20085, 0x21009,
         0x60801, 0x90201, 0xA0081, 0x200411, 0x228001, 0x400209, 0x420801, 0x810401],
    32: [0x425, 0x1000B, 0x1000D, 0x1A001, 0x20061, 0x40085, 0x200181, 0x204005, 0x280011,
         0x810201, 0x820401, 0x100000B, 0x1002801, 0x1200009, 0x2000029, 0x2002009, 0x800000B],
}

# ------------------------------------------------------------------ independent GF(2)[x] reference
def clmul(a, b):
    r = 0
    while b:
        if b & 1:
            r ^= a
        a <<= 1
        b >>= 1
    return r


def pdivmod(a, b):
    db = b.bit_length()
    q = 0
    while a.bit_length() >= db:
        sh = a.bit_length() - db
        a ^= b << sh
        q |= 1 << sh
    return q, a


def pmod(a, b):
    return pdivmod(a, b)[1]


def pgcd(a, b):
    while b:
        a, b = b, pmod(a, b)
    return a


def is_irred(f):
    """Rabin's test (NOT the Ben-Or test of ppIsIrred): x^(2^l) = x mod f and gcd(x^(2^(l/p)) - x, f) = 1, p | l prime"""
    l = f.bit_length() - 1
    if l < 1:
        return False
    if l == 1:
        return True
    if not f & 1 or bin(f).count("1") % 2 == 0:
        return False
    ps, r, q = [], l, 2
    while q * q <= r:
        if r % q == 0:
            ps.append(q)
            while r % q == 0:
                r //= q
        q += 1
    if r > 1:
        ps.append(r)
    marks = {l // p for p in ps}
    h = 2
    for i in range(1, l + 1):
        h = pmod(clmul(h, h), f)
        if i in marks and pgcd(h ^ 2, f) != 1:
            return False
    return h == 2


def usable(u, f0, l):
    """belsGenMi/Mid accept u iff its minimal polynomial over GF(2) has degree l (u in no proper subfield of
    GF(2)[x]/(f0), f0 irreducible) and is not f0 (u is no root of f0)"""
    t = u
    for d in range(1, l // 2 + 1):
        t = pmod(clmul(t, t), f0)
        if l % d == 0 and t == u:
            return False
    return peval_mod(f0, u, f0) != 0


def peval_mod(f, u, md):
    """f(u) mod md (Horner)"""
    r = 0
    for i in range(f.bit_length() - 1, -1, -1):
        r = pmod(clmul(r, u), md)
        if (f >> i) & 1:
            r ^= 1
    return r


def H(b):
    return b.hex() if b else "-"


def le(v, n):
    return (v % (1 << (8 * n))).to_bytes(n, "little")


def val(b):
    return int.from_bytes(b, "little")


def rb(rng, n):
    return bytes(rng.getrandbits(8) for _ in range(n))


def ref_shares(ln, thr, s, m0, mis, tape):
    """STB 34.101.60 bels-share with the generator output `tape` (zero-extended)"""
    l = 8 * ln
    kb = (tape + bytes(thr * ln))[:thr * ln - ln]
    c = clmul((1 << l) | val(m0), val(kb)) ^ val(s)
    return [le(pmod(c, (1 << l) | val(m)), ln) for m in mis]


def ref_recover(ln, m0, pairs):
    """Chinese remainder by Garner-free direct solve: returns the secret or None when moduli are not coprime"""
    l = 8 * ln
    G, C = 1, 0
    for m, sh in pairs:
        F = (1 << l) | val(m)
        if pgcd(F, G) != 1:
            return None
        # C' = C + G * ((sh - C) / G mod F)
        # inverse of G mod F by extended Euclid
        r0, r1, s0, s1 = F, pmod(G, F), 0, 1
        while r1:
            q, r = pdivmod(r0, r1)
            r0, r1, s0, s1 = r1, r, s1, s0 ^ clmul(q, s1)
        inv = s0
        t = pmod(clmul(pmod(val(sh) ^ C, F), inv), F)
        C ^= clmul(G, t)
        G = clmul(G, F)
    return le(pmod(C, (1 << l) | val(m0)), ln)


# ----------------------------------------------------------------------------------- op records
class Op:
    __slots__ = ("line", "kind", "expect", "pred", "why")

    def __init__(self, line, kind, expect=None, pred=None, why=""):
        self.line, self.kind, self.expect, self.pred, self.why = line, kind, expect, pred, why


def std_key(ln, i):
    return le(M_STD[ln][i], ln)


def orderings(count, thr, rng, exhaustive, nsample):
    """subsets of {0..count-1} of size >= thr in all orders, or a sample"""
    if exhaustive:
        for k in range(thr, count + 1):
            for sub in itertools.combinations(range(count), k):
                for perm in itertools.permutations(sub):
                    yield perm
    else:
        for j in range(nsample):
            k = rng.choice([thr, thr, count, rng.randint(thr, count), min(count, max(thr, 12))])
            sub = rng.sample(range(count), k)
            if j % 3 == 0 and (count - 1) not in sub:
                sub[rng.randrange(k)] = count - 1          # the last user (user 16 when count = 16)
            if j % 5 == 1:
                sub.sort()
            if j % 5 == 2:
                sub.sort(reverse=True)
            yield tuple(sub)


def gen_keys(ctx, exe, W):
    """generated common keys and user keys: produced by the REAL library in a preliminary run (the same op lines are
    part of the compared stream), checked by the independent reference"""
    rng = ctx.rng
    keys, ops = {}, []
    for ln in LENS:
        m0 = None
        for attempt in range(6):
            tape = rb(rng, ln * 500)
            line = "genm0 %d %d %s" % (W, ln, H(tape))
            out, _, _ = ctx.run_lines(exe, [line])
            if out and out[0].startswith("0 "):
                m0 = bytes.fromhex(out[0].split()[1])
                ops.append(Op(line, "genm0", pred=("genm0", ln, tape), why="belsGenM0: result is the first irreducible candidate of the tape"))
                break
        if m0 is None:
            m0 = std_key(ln, 0)
        lines = ["genmid %d %d %s %s" % (W, ln, H(m0), H(b"user-%d" % j + rb(rng, rng.randrange(0, 5)))) for j in range(20)]
        out, _, _ = ctx.run_lines(exe, lines)
        us = []
        for lnn, o in zip(lines, out):
            if o.startswith("0 "):
                k = bytes.fromhex(o.split()[1])
                if k not in us and k != m0:
                    us.append(k)
        keys[ln] = (m0, us[:16])
    return keys, ops


def gen_ops(ctx, W, keys, tier, light=False):
    rng = ctx.rng
    ops = []
    A = ops.append
    # ---- belsStdM
    for ln in LENS:
        for num in range(17):
            A(Op("stdm %d %d %d" % (W, ln, num), "stdm", expect="0 " + H(std_key(ln, num))))
    for ln, num in ((0, 0), (8, 1), (20, 3), (33, 0), (16, 17), (32, 2 ** 32), (24, 100)):
        A(Op("stdm %d %d %d" % (W, ln, num), "stdm-bad", expect="109 -"))
    # ---- belsValM: standard, generated, perturbed
    for ln in LENS:
        ks = [std_key(ln, i) for i in range(17)] + [keys[ln][0]] + keys[ln][1][:4]
        for k in (ks if not light else ks[:4]):
            A(Op("valm %d %d %s" % (W, ln, H(k)), "valm-ok", expect="0"))
        pert = []
        for k in rng.sample(ks, 4 if tier == "quick" else 12):
            v = val(k)
            pert += [le(v ^ (1 << rng.randrange(8 * ln)), ln), le(v ^ 1, ln), le(v ^ (1 << (8 * ln - 1)), ln)]
        pert += [bytes(ln), le(1, ln), le(2, ln), le(3, ln), b"\xff" * ln, rb(rng, ln), rb(rng, ln), le(clmul(7, val(rb(rng, ln - 1))), ln)]
        # products of two irreducible factors of degree l/2 (the last round of the Ben-Or loop decides), and of degrees 1 + (l-1)-ish
        def rand_irred(deg):
            while True:
                c = (1 << deg) | rng.getrandbits(deg) | 1
                if is_irred(c):
                    return c
        half = 4 * ln
        for _ in range(1 if light else 2):
            pert.append(le(clmul(rand_irred(half), rand_irred(half)), ln))
        pert.append(le(clmul(rand_irred(half - 1), rand_irred(half + 1)), ln))
        pert.append(le(clmul(rand_irred(2), rand_irred(8 * ln - 2)), ln))
        for k in pert:
            A(Op("valm %d %d %s" % (W, ln, H(k)), "valm", expect="0" if is_irred((1 << (8 * ln)) | val(k)) else "505"))
    for ln in (0, 8, 17, 40):
        A(Op("valm %d %d %s" % (W, ln, H(bytes(ln))), "valm-bad", expect="109"))
    # ---- belsGenM0 (beyond the preliminary ones): nothing irreducible on the tape -> ERR_BAD_ANG
    for ln in LENS:
        A(Op("genm0 %d %d -" % (W, ln), "genm0-ang", expect="305 -"))
        t = b"".join(le(clmul(3, val(rb(rng, ln - 1))), ln) for _ in range(3)) + std_key(ln, rng.randrange(17))
        A(Op("genm0 %d %d %s" % (W, ln, H(t)), "genm0", pred=("genm0", ln, t)))
    A(Op("genm0 %d 20 %s" % (W, "00" * 20), "genm0-bad", expect="109 -"))
    # ---- belsGenMi: rejected candidates first (x, x^2, x^4 have minimal polynomial f0; 0 and 1 give degree < l)
    for ln in LENS:
        for m0 in (std_key(ln, 0), keys[ln][0]):
            f0 = (1 << (8 * ln)) | val(m0)
            x = [le(2, ln), le(4, ln), le(16, ln), le(256, ln), le(pmod(1 << (8 * ln), f0), ln)]
            ordinary = [rb(rng, ln) for _ in range(3)]
            tapes = [ordinary[0], x[0] + ordinary[1], x[0] + x[1] + ordinary[2], x[1] + x[2] + x[3], x[0] + x[1] + bytes(ln),
                     bytes(ln) + le(1, ln) + ordinary[0], bytes(ln) + le(1, ln) + x[4], b"", x[0], le(1, ln) * 3, ordinary[1][:ln - 3],
                     x[4] + x[0] + rb(rng, ln)]
            if tier == "thorough":
                tapes += [rb(rng, ln * rng.randrange(1, 4)) for _ in range(10)]
            for tp in (tapes if not light else tapes[:5]):
                A(Op("genmi %d %d %s %s" % (W, ln, H(m0), H(tp)), "genmi", pred=("genmi", ln, m0, tp)))
        # reducible common key (outside \expect): error path only, model = code
        A(Op("genmi %d %d %s %s" % (W, ln, H(bytes(ln)), H(rb(rng, ln))), "genmi-badm0"))
    A(Op("genmi %d 8 %s %s" % (W, "00" * 8, "11" * 8), "genmi-bad", expect="109 -"))
    # ---- belsGenMid: many identifiers; determinism = the same line twice
    nid = 6 if light else (14 if tier == "quick" else 60)
    for ln in LENS:
        for m0 in (std_key(ln, 0), keys[ln][0]):
            for j in range(nid):
                idl = rng.choice([0, 1, 7, 31, 32, 33, 64, 65, rng.randrange(200)])
                ident = rb(rng, idl)
                line = "genmid %d %d %s %s" % (W, ln, H(m0), H(ident))
                A(Op(line, "genmid", pred=("genmid", ln, m0)))
                if j % 4 == 0:
                    A(Op(line, "genmid-again", pred=("same", line)))
    A(Op("genmid %d 12 %s 00" % (W, "00" * 12), "genmid-bad", expect="109 -"))
    # ---- belsGenMid's retry loop on chosen elements (hash hook, harness/c13_hook.c)
    for ln in LENS:
        for m0 in (std_key(ln, 0), keys[ln][0]):
            l = 8 * ln
            f0 = (1 << l) | val(m0)
            hi = val(rb(rng, 32 - ln)) << l                       # octets len..31 of the hash are cut by u[n] = 0
            us = [2, 4, 16, 0, 1, 2 + hi, 1 + hi, pmod(1 << l, f0), pmod(1 << l, f0) ^ 1, (1 << l) - 1, (1 << l) - 2,
                  val(rb(rng, 32)), val(rb(rng, 32)), 15, 255, 256]
            for u in (us if not light else us[:7]):
                A(Op("genmidu %d %d %s %s" % (W, ln, H(m0), H(le(u, 32))), "genmidu", pred=("gencands", ln, m0, u),
                     why="belsGenMid with hash value u: tries u, u + 1, u + 2; the key is the minimal polynomial of the first usable one"))
        A(Op("genmidu %d %d %s %s" % (W, ln, H(bytes(ln)), H(rb(rng, 32))), "genmidu-badm0"))
    # ---- share / recover
    exh_max = 3 if light else (4 if tier == "quick" else 6)

    def scenario(ln, count, thr, kind, exhaustive, nsample):
        s = rng.choice([rb(rng, ln), rb(rng, ln), bytes(ln), b"\xff" * ln, le(1 << (8 * ln - 1), ln)])
        tl = thr * ln - ln
        tape = rng.choice([rb(rng, tl), rb(rng, tl), b"\xff" * tl, bytes(tl), rb(rng, max(0, tl - 5)), rb(rng, tl + 9)])
        if kind == "std2":
            sh = ref_shares(ln, thr, s, std_key(ln, 0), [std_key(ln, i + 1) for i in range(count)], tape)
            blocks = [bytes([i + 1]) + sh[i] for i in range(count)]
            A(Op("share2 %d %d %d %d %s %s" % (W, count, thr, ln, H(s), H(tape)), "share2", expect="0 " + H(b"".join(blocks)),
                 why="share i = ((x^l + m0) k + s) mod (x^l + m_i), standard keys"))
            for perm in orderings(count, thr, rng, exhaustive, nsample):
                A(Op("recover2 %d %d %d %s" % (W, len(perm), ln, H(b"".join(blocks[i] for i in perm))), "recover2",
                     expect="0 " + H(s), why="users %s of %d, threshold %d" % ([i + 1 for i in perm], count, thr)))
        else:
            m0 = std_key(ln, 0) if kind == "std" else keys[ln][0]
            mis = [std_key(ln, i + 1) for i in range(count)] if kind == "std" else keys[ln][1][:count]
            if len(mis) < count:
                return
            sh = ref_shares(ln, thr, s, m0, mis, tape)
            A(Op("share %d %d %d %d %s %s %s %s" % (W, count, thr, ln, H(s), H(m0), H(b"".join(mis)), H(tape)), "share",
                 expect="0 " + H(b"".join(sh)), why="share i = ((x^l + m0) k + s) mod (x^l + m_i), %s keys" % kind))
            for perm in orderings(count, thr, rng, exhaustive, nsample):
                A(Op("recover %d %d %d %s %s %s" % (W, len(perm), ln, H(b"".join(sh[i] for i in perm)), H(m0), H(b"".join(mis[i] for i in perm))),
                     "recover", expect="0 " + H(s), why="users %s of %d, threshold %d, %s keys" % ([i + 1 for i in perm], count, thr, kind)))

    for ln in LENS:
        for kind in ("std2", "std", "gen"):
            for count in range(1, exh_max + 1):
                if count >= 5 and kind == "std":
                    continue
                for thr in range(1, count + 1):
                    scenario(ln, count, thr, kind, True, 0)
    big = [(16, 16), (16, 12), (16, 1), (16, 5), (13, 13), (12, 6), (9, 9), (7, 3), (5, 5), (6, 2), (8, 4), (10, 7), (15, 14), (11, 2), (14, 9)]
    nb = 3 if light else (len(big) if tier == "thorough" else 7)
    for ln in LENS:
        sel = big[:3] + rng.sample(big[3:], nb - 3) if nb > 3 else big[:nb]
        for j, (count, thr) in enumerate(sel):
            kind = ("std2", "gen", "std")[(j + ln // 8) % 3]
            scenario(ln, count, thr, kind, False, 3 if light else (5 if tier == "quick" else 25))
    # ---- belsShare3 (deterministic generator) + belsRecover2
    for ln in LENS:
        for count, thr in ((5, 3), (1, 1), (16, 16), (16, 2), (rng.randint(2, 16),) * 2, (9, rng.randint(1, 9))):
            s = rb(rng, ln)
            A(Op("share3 %d %d %d %d %s" % (W, count, thr, ln, H(s)), "share3", pred=("share3", ln, count, thr, s),
                 why="belsShare3: shares of a polynomial c with c mod (x^l + m0) = s, deg c < t l"))
    # ---- fewer than threshold shares: no property (model = code); the test suite does this too
    for ln in LENS:
        s, tape = rb(rng, ln), rb(rng, 3 * ln)
        sh = ref_shares(ln, 4, s, std_key(ln, 0), [std_key(ln, i + 1) for i in range(6)], tape)
        for perm in ((0,), (1, 2), (5, 0, 3)):
            A(Op("recover2 %d %d %d %s" % (W, len(perm), ln, H(b"".join(bytes([i + 1]) + sh[i] for i in perm))), "recover2-below"))
    # ---- error paths
    for ln in LENS:
        s, tape = rb(rng, ln), rb(rng, 2 * ln)
        k1, k2 = std_key(ln, 1), std_key(ln, 2)
        sh = ref_shares(ln, 2, s, std_key(ln, 0), [k1, k2], tape)
        m0 = std_key(ln, 0)
        ev = le(val(rb(rng, ln)) & ~1, ln)                       # x | (x^l + ev): shares a factor with another even key
        ev2 = le(val(rb(rng, ln)) & ~1, ln)
        prod = le(pmod(clmul((1 << (8 * ln)) | val(k1), 3), 1 << (8 * ln)), ln)
        bad = [
            ("recover %d 2 %d %s %s %s" % (W, ln, H(sh[0] + sh[0]), H(m0), H(k1 + k1)), "505 -", "duplicate key"),
            ("recover %d 3 %d %s %s %s" % (W, ln, H(sh[0] + sh[1] + sh[0]), H(m0), H(k1 + k2 + k1)), "505 -", "duplicate key at the end"),
            ("recover %d 2 %d %s %s %s" % (W, ln, H(sh[0] + sh[1]), H(m0), H(ev + ev2)), "505 -", "both moduli divisible by x"),
            ("recover %d 3 %d %s %s %s" % (W, ln, H(sh[0] + sh[1] + sh[1]), H(m0), H(k1 + ev + ev2)), "505 -", "moduli 2 and 3 divisible by x"),
            ("recover %d 0 %d - %s -" % (W, ln, H(m0)), "109 -", "count = 0"),
            ("recover %d 1 %d %s %s %s" % (W, ln + 1, H(sh[0] + b"\0"), H(m0 + b"\0"), H(k1 + b"\0")), "109 -", "bad length"),
            ("recover2 %d 2 %d %s" % (W, ln, H(b"\x01" + sh[0] + b"\x01" + sh[0])), "505 -", "same user twice"),
            ("recover2 %d 2 %d %s" % (W, ln, H(b"\x00" + sh[0] + b"\x02" + sh[1])), "505 -", "user number 0"),
            ("recover2 %d 2 %d %s" % (W, ln, H(b"\x01" + sh[0] + b"\x11" + sh[1])), "505 -", "user number 17"),
            ("recover2 %d 1 %d %s" % (W, ln, H(b"\xff" + sh[0])), "505 -", "user number 255"),
            ("recover2 %d 0 %d -" % (W, ln), "109 -", "count = 0"),
            ("recover2 %d 17 %d %s" % (W, ln, H(bytes(17 * (ln + 1)))), "109 -", "count = 17"),
            ("share2 %d 17 2 %d %s %s" % (W, ln, H(s), H(tape)), "109 -", "count = 17"),
            ("share2 %d 3 0 %d %s -" % (W, ln, H(s)), "109 -", "threshold = 0"),
            ("share2 %d 3 4 %d %s %s" % (W, ln, H(s), H(tape)), "109 -", "threshold > count"),
            ("share3 %d 3 4 %d %s" % (W, ln, H(s)), "109 -", "threshold > count"),
            ("share3 %d 17 4 %d %s" % (W, ln, H(s)), "109 -", "count = 17"),
            ("share3 %d 0 0 %d %s" % (W, ln, H(s)), "109 -", "count = 0"),
            ("share %d 2 3 %d %s %s %s %s" % (W, ln, H(s), H(m0), H(k1 + k2), H(tape)), "109 -", "threshold > count"),
            ("share %d 2 0 %d %s %s %s -" % (W, ln, H(s), H(m0), H(k1 + k2)), "109 -", "threshold = 0"),
        ]
        for line, e, why in bad:
            A(Op(line, "error", expect=e, why=why))
        # a key that is a multiple of another user's key polynomial (not coprime, not equal)
        A(Op("recover %d 2 %d %s %s %s" % (W, ln, H(sh[0] + sh[1]), H(m0), H(k1 + prod)), "error-multiple"))
    A(Op("share3 %d 3 2 20 %s" % (W, "00" * 20), "error", expect="109 -", why="bad length"))
    A(Op("share2 %d 3 2 8 %s -" % (W, "00" * 8), "error", expect="109 -", why="bad length"))
    return ops


# --------------------------------------------------------------------------- the property oracle
def check_pred(op, out, outs_by_line):
    """None if the implementation's output satisfies what the property demands, else a description"""
    if op.expect is not None:
        return None if out == op.expect else "property demands `%s`" % op.expect[:200]
    p = op.pred
    if p is None:
        return None
    if out.startswith("CRASH"):
        return "crash"
    code, _, buf = out.partition(" ")
    if p[0] == "same":
        first = outs_by_line.get(p[1])
        return None if first == out else "same identifier gave two different keys"
    if p[0] == "genm0":
        ln, tape = p[1], p[2]
        want = None
        for i in range(ln * 48):
            c = (tape[i * ln:(i + 1) * ln] + bytes(ln))[:ln]
            if is_irred((1 << (8 * ln)) | val(c)):
                want = c
                break
            if i * ln > len(tape):
                break
        e = ("0 " + H(want)) if want is not None else "305 -"
        return None if out == e else "first irreducible candidate of the tape: `%s`" % e
    if p[0] in ("genmi", "genmid", "gencands"):
        ln, m0 = p[1], p[2]
        l = 8 * ln
        f0 = (1 << l) | val(m0)
        cands = None
        if p[0] == "genmi":
            cands = [val((p[3][i * ln:(i + 1) * ln] + bytes(ln))[:ln]) for i in range(3)]
        elif p[0] == "gencands":
            cands = [(p[3] % (1 << l) + i) % (1 << l) for i in range(3)]        # u, u + 1, u + 2 on n words
        if cands is not None and not is_irred(f0):
            return None                                                           # outside \expect: model = code only
        first = None
        if cands is not None:
            for u in cands:
                if usable(u, f0, l):
                    first = u
                    break
        if code != "0":
            if cands is None:
                return "belsGenMid failed for a valid common key"
            if first is not None:
                return "a candidate generates the field and is no root of f0, yet no key was produced"
            if p[0] == "gencands" and out != "505 -":
                return "belsGenMid: all three candidates unusable demands ERR_BAD_PUBKEY"
            return None
        k = bytes.fromhex(buf)
        f = (1 << l) | val(k)
        if k == m0:
            return "generated key equals the common key"
        if not is_irred(f):
            return "generated key x^l + mi is not irreducible"
        if cands is not None:
            if first is None:
                return "no candidate is usable, yet a key was produced"
            if peval_mod(f, first, f0) != 0:
                return "generated key is not the minimal polynomial of the first usable candidate"
        return None
    if p[0] == "share3":
        ln, count, thr, s = p[1:]
        if code != "0":
            return "belsShare3 failed on valid input"
        sh = bytes.fromhex(buf)
        blocks = [sh[i * (ln + 1):(i + 1) * (ln + 1)] for i in range(count)]
        if [b[0] for b in blocks] != list(range(1, count + 1)):
            return "user numbers are not 1..count"
        pairs = [(std_key(ln, b[0]), b[1:]) for b in blocks]
        # reconstruct c from the first thr shares, check every other share and the secret, and deg c < thr l
        l = 8 * ln
        G, C = 1, 0
        for m, shv in pairs[:thr]:
            F = (1 << l) | val(m)
            r0, r1, s0, s1 = F, pmod(G, F), 0, 1
            while r1:
                q, r = pdivmod(r0, r1)
                r0, r1, s0, s1 = r1, r, s1, s0 ^ clmul(q, s1)
            C ^= clmul(G, pmod(clmul(pmod(val(shv) ^ C, F), s0), F))
            G = clmul(G, F)
        if le(pmod(C, (1 << l) | M_STD[ln][0]), ln) != s:
            return "the first t shares do not determine the secret"
        for m, shv in pairs[thr:]:
            if le(pmod(C, (1 << l) | val(m)), ln) != shv:
                return "a share beyond the first t is not c mod (x^l + m_i)"
        return None
    return None


def evaluate(ops, outs):
    by_line = {}
    bad = []
    for i, (op, o) in enumerate(zip(ops, outs)):
        why = check_pred(op, o, by_line)
        by_line.setdefault(op.line, o)
        if why:
            bad.append((i, op, o, why))
    return bad


def replay_text(op, impl, model, why):
    return ("# property C13 (bels).  %s\n# %s\nop %s\nexpect %s\n# implementation: %s\n# model:          %s\n"
            % (op.why or op.kind, why, op.line, op.expect if op.expect is not None else "pred:" + repr(op.pred), impl, model))


def corpus_ops(W):
    p = os.path.join(VERIF, "gen", "c13_corpus.txt")
    res = []
    if os.path.exists(p):
        for line in open(p):
            line = line.strip()
            if line and not line.startswith("#"):
                op, _, exp = line.partition(" => ")
                w = op.split()
                w[1] = str(W)
                res.append(Op(" ".join(w), "corpus", expect=exp or None))
    return res


def run(ctx):
    proof_ok, log = ctx.prove(["Bee2V.C13.Props", "Bee2V.C13.PropsRec", "Bee2V.C13.PropsKeys"], PROPS)
    tier = ctx.tier
    total_bad, mism_all = [], []
    kinds = {}
    distinct = set()
    for cfg, W in (("asan", 64), ("w32", 32)):
        exe = ctx.cc("harness/c13.c", cfg)
        keys, pre = gen_keys(ctx, exe, W)
        ops = corpus_ops(W) + pre + gen_ops(ctx, W, keys, tier, light=(cfg == "w32" and tier == "quick"))
        lines = [o.line for o in ops]
        mism, c_out, l_out = ctx.diff_run(exe, lines, cfg)
        c_out = c_out + ["(not run)"] * (len(ops) - len(c_out))
        for i, line, c, l in mism:
            mism_all.append((cfg, ops[i], c, l))
        for i, op, o, why in evaluate(ops[:len(c_out)], c_out):
            if o != "(not run)":
                total_bad.append((cfg, op, o, why, l_out[i] if i < len(l_out) else "?"))
        for o in ops:
            kinds[o.kind] = kinds.get(o.kind, 0) + 1
            distinct.add(o.line.split(" ", 2)[0] + " " + o.line.split(" ", 2)[2])
        if cfg == "asan":
            ctx.samples += [o.line[:300] for o in ops if o.kind in ("recover", "recover2", "genmi")][:4]
            rec = [o for o in ops if o.kind in ("recover", "recover2")]
            ctx.cov["recover_share_counts"] = sorted({int(o.line.split()[2]) for o in rec})
            ctx.cov["recover_max_operand_words"] = max([int(o.line.split()[2]) * int(o.line.split()[3]) * 8 // W for o in rec] or [0])
    ctx.cov["op_kinds"] = kinds
    ctx.cov["distinct_nontrivial"] = len(distinct)
    ctx.samples.append({"theorem": "Bee2V.C13.recover_any_subset_any_order",
                        "statement": "pairwise coprime keys, shares of c = (x^l+m0)k+s, any list of >= t (key, share) pairs => recoverCore = (ERR_OK, s)"})
    seen = set()
    # 1. the property fails on the implementation: concrete failing input
    for cfg, op, o, why, l in total_bad:
        key = "%s:%s" % (op.kind, cfg)
        if key in seen:
            continue
        seen.add(key)
        ctx.violation(key, replay_text(op, o, l, why) + "cfg %s\n" % cfg, True,
                      "%s [%s]: %s\n  op: %s\n  implementation: %s" % (op.kind, cfg, why, op.line[:400], o[:300]))
    # 2. model and implementation differ where the oracle has no verdict
    if not total_bad:
        for cfg, op, c, l in mism_all:
            key = "diff:%s:%s" % (op.kind, cfg)
            if key in seen:
                continue
            seen.add(key)
            ctx.violation(key, replay_text(op, c, l, "model and implementation disagree") + "cfg %s\nmodel %s\n" % (cfg, l), False,
                          "model and implementation disagree [%s] on %s\n  impl  %s\n  model %s" % (cfg, op.line[:400], c[:300], l[:300]))
    if not proof_ok and not total_bad and not mism_all:
        errs = "\n".join(x for x in log.split("\n") if "error" in x or "axiom" in x or "forbidden" in x)[:3000]
        ctx.violation("proof", "# property C13: the theorems of %s no longer check; the implementation satisfied the property oracle on %d ops\n%s\n"
                      % (", ".join(PROPS), ctx.cov.get("ops_total", 0), "\n".join("# " + x for x in errs.split("\n"))), False,
                      "theorems no longer check: " + errs[:600])
    return ctx.finish(
        level="proof",
        assumptions=[
            "ppMul / ppMod / ppExGCD / ppDiv on word arrays compute the Nat-coded GF(2)[x] product / remainder / binary gcd "
            "(word layer: property C05; here tied by correspondence on operands of up to 15*n words)",
            "validity of keys (belsValM = OK <=> irreducible; belsGenMi/belsGenMid/belsGenM0 results pass belsValM) rests on property C05's theorems about its "
            "value-level models ppIsIrredV / ppMinPolyModV (imported), bridged to this model by LemmasBridge.lean; every generated key of the run is "
            "additionally tested by an independent Rabin test",
            "general-key recovery theorems assume pairwise coprime key polynomials, or (recover_valid_distinct_keys) keys that pass belsValM and are "
            "pairwise distinct; for the standard keys nothing is assumed (kernel-evaluated)",
            "belt-hash / belt-ctr / belt-compress models are those of property C01 (imported)",
            "the region d overflows into the dead region u when count = 2 (layout theorem); registers are otherwise separate in the model",
        ],
        rule="per length (16/24/32) and key kind (standard via belsShare/belsRecover, standard via belsShare2/belsRecover2, keys generated by the "
             "library itself): every count <= 4 (thorough 6), every threshold, EVERY subset of size >= t in EVERY order; sampled (count, t) up to 16 "
             "with subsets containing the last user and >= 12 shares; secrets/tapes random and extreme (0, ff.., short, long); key generation with "
             "rejected candidates (x, x^2, x^4, 0, 1); validators on standard/generated/perturbed keys; all error paths. distinct = distinct op lines "
             "(word size removed)",
        distinct=len(distinct), exhaustive=False)


def c19_stream():
    """op stream for property C19 (same function in every build configuration): the light quick stream — all ops are
    octet-level; the word-size token only parameterises the model's bookkeeping, the harness accepts 32 and 64 on any build"""
    def fn(ctx, exe, w):
        keys, pre = gen_keys(ctx, exe, w)
        return [o.line for o in corpus_ops(w) + pre + gen_ops(ctx, w, keys, "quick", light=True)]
    return ("harness/c13.c", "drv_c13", fn, False)


def replay(ctx, path):
    op, exp, cfg, model = None, None, "asan", None
    for line in open(path):
        w = line.rstrip("\n").split(" ", 1)
        if w[0] == "op":
            op = w[1]
        elif w[0] == "expect":
            exp = w[1]
        elif w[0] == "cfg":
            cfg = w[1].strip()
        elif w[0] == "model":
            model = w[1]
    if op is None:
        print("replay file names a theorem, nothing to execute")
        return 0
    exe = ctx.cc("harness/c13.c", cfg)
    out, err, rc = ctx.run_lines(exe, [op])
    got = out[0] if out else "CRASH rc=%d %s" % (rc, err[-300:])
    print("impl:", got)
    if exp is not None and not exp.startswith("pred:"):
        print("property demands:", exp)
        return 1 if got != exp else 0
    if exp is not None:
        o = Op(op, "replay", pred=eval(exp[5:]))
        why = check_pred(o, got, {})
        print("oracle:", why or "ok")
        if why:
            return 1
    if model is not None:
        print("model:", model)
        return 1 if got != model else 0
    return 0

"""C08, containers: bpki (PrivateKeyInfo, share, EncryptedPrivateKeyInfo, CSR), bign params,
CV certificates, secure messaging — exercised on the IMPLEMENTATION (harness/c08b.c, ASan, exact-size
placement) with the property itself as oracle:
  (i)   decode(encode v) == v;
  (ii)  for every single-octet mutation (+1, -1, +5, -5, +9, ^0x80, =00, =FF at EVERY position), every
        truncation point and 1..3 trailing octets of every valid sample: the decoder reports an error, OR
        consumed <= input AND re-encoding the decoded value reproduces exactly the accepted octets AND
        the accepted octets are a well-formed DER tree (every constructed TLV is exactly filled by TLVs);
  (iii) no sanitizer report.
These are tests of the property on the implementation (no Lean model of the containers' glue code; the
primitives they are composed of are modelled and proved in Bee2V/C08).
"""
import os, re
import vcommon

CSR = bytes.fromhex(   # the certificate request of test/crypto/bpki_test.c (382 octets)
    "3082017A30820134020100305F3115301306035504030C0C524F4245525420534D495448310E300C06035504040C05534D495448310F300D06035504"
    "2A0C06524F42455254311830160603550405130F50415347422D353333333234343238310B3009060355040613024742305D3018060A2A7000020022"
    "652D0201060A2A7000020022652D0301034100F64CDDFFE4D546EF484471583FAEBA9A38061084E280BF996F90BA6AF0DB6620F59ABAA7AD29D4E7D1"
    "CA0C21DD9E32D485F9E740841F4317CA9481503D1F1B50A06F301F06092A864886F70D01090731120C102F494E464F3A65726970323334313233304C"
    "06092A864886F70D01090E313F303D30170603551D200410300E300C060A2A7000020022654E023D30220603551D11041B30198117726F626572742E"
    "736D697468406578616D706C652E756B300D06092A7000020022652D0C050003310082B4F9F934E3FD457F5DF06AE63A88E722E35D35F565551535BA"
    "94CEF9243011999DF2159E4F4BAC22AD8C3135A3BD26")
KEY = "11" * 32


def hx(b):
    b = bytes(b)
    return b.hex() if b else "-"


def unhx(s):
    return b"" if s == "-" else bytes.fromhex(s)


# ------------------------------------------------------------------ strict DER walker
def tl(x, off, end):
    """(header length, value length, constructed?) of the TLV at off, or None"""
    if off >= end:
        return None
    p = off
    cons = bool(x[p] & 0x20)
    if x[p] & 31 == 31:
        p += 1
        n = 0
        if p >= end or x[p] & 127 == 0:
            return None
        while True:
            if p >= end or n >= 3:
                return None
            n += 1
            if not x[p] & 128:
                break
            p += 1
        if n == 1 and x[p] < 31:
            return None
    p += 1
    if p >= end:
        return None
    b = x[p]
    if b < 128:
        l = b
        p += 1
    else:
        r = b - 128
        if r == 0 or r > 8 or p + 1 + r > end or x[p + 1] == 0 or (r == 1 and x[p + 1] < 128):
            return None
        l = int.from_bytes(x[p + 1:p + 1 + r], "big")
        p += 1 + r
    if p + l > end:
        return None
    return p - off, l, cons


def wellformed(x, off, end, opaque=()):
    """x[off:end] is a sequence of TLVs, recursively for constructed ones (offsets in `opaque` are not descended)"""
    while off < end:
        h = tl(x, off, end)
        if h is None:
            return False
        hl, l, cons = h
        if cons and off not in opaque and not wellformed(x, off + hl, off + hl + l, opaque):
            return False
        off += hl + l
    return off == end


def single_tree(x, opaque=()):
    h = tl(x, 0, len(x))
    return h is not None and h[0] + h[1] == len(x) and wellformed(x, 0, len(x), opaque)


def len_octets(l):
    if l < 128:
        return bytes([l])
    n = (l.bit_length() + 7) // 8
    return bytes([128 + n]) + l.to_bytes(n, "big")


def parse_tree(x, off, end):
    """[[tag octets, children | None, value]] for the TLVs in x[off:end] (strict DER assumed)"""
    out = []
    while off < end:
        hl, l, cons = tl(x, off, end)
        p = off + 1
        if x[off] & 31 == 31:
            while x[p] & 128:
                p += 1
            p += 1
        tag = x[off:p]
        val = x[off + hl:off + hl + l]
        kids = parse_tree(x, off + hl, off + hl + l) if cons and wellformed(x, off + hl, off + hl + l) else None
        out.append([tag, kids, val])
        off += hl + l
    return out


def serialize(nodes):
    b = b""
    for tag, kids, val in nodes:
        v = serialize(kids) if kids is not None else val
        b += bytes(tag) + len_octets(len(v)) + bytes(v)
    return b


def leaf_variants(x):
    """well-formed DER re-serialisations of x with ONE primitive leaf shortened / extended / emptied / dropped / doubled"""
    import copy
    tree = parse_tree(x, 0, len(x))
    leaves = []

    def walk(nodes, path):
        for i, n in enumerate(nodes):
            if n[1] is None:
                leaves.append(path + [i])
            else:
                walk(n[1], path + [i])
    walk(tree, [])
    out = []
    for path in leaves:
        for how in ("short", "long", "long2", "empty", "drop", "dup"):
            t = copy.deepcopy(tree)
            nodes = t
            for i in path[:-1]:
                nodes = nodes[i][1]
            n = nodes[path[-1]]
            if how == "short":
                if not n[2]:
                    continue
                n[2] = n[2][:-1]
            elif how == "long":
                n[2] = n[2] + b"A"
            elif how == "long2":
                n[2] = n[2] + b"\x00\x00"
            elif how == "empty":
                if not n[2]:
                    continue
                n[2] = b""
            elif how == "drop":
                del nodes[path[-1]]
            elif how == "dup":
                nodes.insert(path[-1], copy.deepcopy(n))
            y = serialize(t)
            if y != x:
                out.append(y)
    return out


CAP_SIZES = (0, 1, 2, 3, 5, 6, 7, 8, 9, 12, 13, 14, 16, 17, 24, 25, 26, 27, 32, 33, 34, 35, 47, 48, 49, 63, 64, 65, 72, 73, 96, 97,
             127, 128, 129, 130, 192, 256, 257, 283, 284, 296, 300, 600, 70000)


def leaf_sizes(x, sizes=CAP_SIZES):
    """well-formed DER re-serialisations of x in which ONE primitive leaf gets a value of n printable octets
    (BIT STRING: 00 + n octets), n running over and far beyond the capacity of every destination field;
    everything before that leaf stays well-formed"""
    import copy
    tree = parse_tree(x, 0, len(x))
    leaves = []

    def walk(nodes, path):
        for i, n in enumerate(nodes):
            if n[1] is None:
                leaves.append(path + [i])
            else:
                walk(n[1], path + [i])
    walk(tree, [])
    out = []
    for path in leaves:
        for sz in sizes:
            t = copy.deepcopy(tree)
            nodes = t
            for i in path[:-1]:
                nodes = nodes[i][1]
            n = nodes[path[-1]]
            n[2] = (b"\x00" if bytes(n[0]) == b"\x03" else b"") + b"A" * sz
            y = serialize(t)
            if y != x:
                out.append(y)
    return out


# ------------------------------------------------------------------ generation
def mutants(x, rng, stride=1):
    seen, out = {bytes(x)}, []

    def add(y):
        y = bytes(y)
        if y not in seen:
            seen.add(y)
            out.append(y)
    for i in range(0, len(x), stride):
        for d in (1, -1, 5, -5, 9):
            y = bytearray(x)
            y[i] = (y[i] + d) & 0xFF
            add(y)
        for v in (x[i] ^ 0x80, 0x00, 0xFF):
            y = bytearray(x)
            y[i] = v
            add(y)
    for k in range(len(x)):
        add(x[:k])
    for t in (b"\x00", b"\x00\x00", bytes(rng.randrange(256) for _ in range(3)), b"\x05\x00"):
        add(x + t)
    # one octet inserted / removed at a few places
    for _ in range(12):
        i = rng.randrange(len(x) + 1)
        add(x[:i] + bytes([rng.randrange(256)]) + x[i:])
        if len(x) > 1:
            i = rng.randrange(len(x))
            add(x[:i] + x[i + 1:])
    return out


def first(ctx, exe, ops):
    """outputs of the ops; an op the harness dies on (sanitizer report, abort) gets `CRASH(...)` and the run goes
    on behind it (at most 6 times, then the list is cut there), so one overrun does not hide the other checks"""
    res, done, todo = [], [], list(ops)
    for attempt in range(7):
        r, err, rc = ctx.run_lines(exe, todo)
        if rc == 0 and len(r) == len(todo):
            return res + r, done + todo
        k = min(len(r), len(todo) - 1)
        summ = " | ".join(l for l in err.split("\n") if "ERROR" in l or "SUMMARY" in l)[:400]
        res += r[:k] + ["CRASH(rc=%d): %s" % (rc, summ)]
        done += todo[:k + 1]
        todo = todo[k + 1:]
        if not todo:
            break
    return res, done


def build_ops(ctx, exe):
    """valid samples (produced by the implementation's own encoders) and their mutants"""
    rng = ctx.rng
    th = ctx.tier == "thorough"
    enc = []
    for n in (24, 32, 48, 64):
        enc.append("pkenc " + hx(bytes(rng.randrange(256) for _ in range(n))))
    for n in (17, 25, 33):
        enc.append("shenc " + hx(bytes([rng.randrange(1, 17)]) + bytes(rng.randrange(256) for _ in range(n - 1))))
    for n, it in ((0, 10000), (16, 10000), (48, 10000), (80, 65536), (127, 2 ** 31), (200, 2 ** 64 - 1), (48, 127), (48, 128), (70000, 10001)):
        enc.append("edenc %s %s %d" % (hx(bytes(rng.randrange(256) for _ in range(n)) if n < 1000 else bytes(n)), hx(bytes(rng.randrange(256) for _ in range(8))), it))
    for oid in ("1.2.112.0.2.0.34.101.45.3.1", "1.2.112.0.2.0.34.101.45.3.2", "1.2.112.0.2.0.34.101.45.3.3"):
        enc.append("bpstd " + hx(oid.encode()))
    for eid, es in (("0000000000", "0000"), ("0102030405", "0607"), ("0000000001", "0000"), ("0000000000", "8000")):
        enc.append("cvcwrap %s %s %s 020200070007 090900070007 %s %s" % (KEY, hx(b"BYCA0000"), hx(b"BYCA00000001"), eid, es))
    enc.append("cvcwrap %s %s %s 020200070007 020200070007 0000000000 0001" % ("22" * 48, hx(b"BYCA1000ab"), hx(b"BYCA1023")))
    enc.append("cvcwrap %s %s %s 020200070007 090900070007 0000000000 0000" % (KEY, hx(b"BYCA00000000"), hx(b"BYCA00000001")))  # names at the upper bound
    enc.append("cvcwrap %s %s %s 020200070007 090900070007 0000000000 0000" % (KEY, hx(b"BYCA0000"), hx(b"BYCA0001")))          # names at the lower bound
    enc.append("cvcwrap %s %s %s 020200070007 030100010001 0500000000 0000" % ("33" * 64, hx(b"BYCA0000"), hx(b"590082394654")))
    enc.append("cvcwrap %s %s %s 020200070007 030100010001 0500000000 0000" % ("44" * 24, hx(b"BYCA0000"), hx(b"590082394654")))
    sm = []
    for cdf_len in (0, 1, 2, 100, 241, 242, 243, 250, 251, 252, 255, 256, 257, 300):
        for rdf_len in (0, 1, 255, 256, 257, 65536):
            sm.append("smcw %s %d 164 4 12 %s %d" % (KEY, rng.choice([0, 0x80, 0x03]), hx(bytes(rng.randrange(256) for _ in range(cdf_len))), rdf_len))
    sm.append("smcw %s 4 164 4 12 0102 0" % KEY)          # already protected: must be refused
    for rdf_len in (0, 1, 2, 100, 123, 124, 125, 126, 127, 128, 252, 253, 254, 255, 256, 300):
        sm.append("smrw %s 144 0 %s" % (KEY, hx(bytes(rng.randrange(256) for _ in range(rdf_len)))))
    pub = ["pkwrap %s 7a7a 0102030405060708 32768" % ("55" * 32), "shwrap %s 7a7a 0102030405060708 40000" % ("03" + "66" * 16),   # 3-octet iter
           "pkwrap %s 7a7a 0102030405060708 10000" % ("55" * 32), "pkwrap %s 7a 0102030405060708 10001" % ("55" * 64),
           "pkwrap %s 7a7a 0102030405060708 9999" % ("55" * 32), "pkwrap %s 7a7a 0102030405060708 10000" % ("55" * 31),
           "shwrap %s 7a7a 0102030405060708 10000" % ("03" + "66" * 16), "shwrap %s 7a7a 0102030405060708 10000" % ("03" + "66" * 32),
           "shwrap %s 7a7a 0102030405060708 10000" % ("11" + "66" * 16)]
    enc_ops = enc + sm + pub
    enc_out, enc_ops = first(ctx, exe, enc_ops)
    dec_of = {"pkenc": "pkdec", "shenc": "shdec", "edenc": "eddec", "bpstd": "bpdec", "cvcwrap": "cvcdec", "smcw": "smcu", "smrw": "smru"}
    ops, valid = [], []
    for op, out in zip(enc_ops, enc_out):
        k = op.split(" ")[0]
        if out.startswith("err") or out in ("invalid", "bad-op") or out.startswith("CRASH"):
            continue
        x = unhx(out.split(" ")[0])
        if k in ("pkwrap", "shwrap"):
            pwd = op.split(" ")[2]
            d = "pkunwrap" if k == "pkwrap" else "shunwrap"
            valid.append((op, "%s %s %s" % (d, hx(x), pwd)))
            ops.append("%s %s %s" % (d, hx(x), pwd))
            ops.append("%s %s %s" % (d, hx(x), "7b"))
            for y in (x[:-1], x + b"\x00", x[:40], bytes([x[0]]) + bytes([x[1]]) + x[2:-1] + bytes([x[-1] ^ 1])):
                ops.append("%s %s %s" % (d, hx(y), pwd))
            # the parse path of the public function is bpkiEdataDec: all mutants go there
            ops.append("eddec " + hx(x))
            ops += ["eddec " + hx(y) for y in mutants(x, rng, 1 if th else 2)]
            continue
        d = dec_of[k]
        pre = (d + " " + KEY + " ") if d in ("smcu", "smru") else (d + " ")
        valid.append((op, pre + hx(x)))
        ops.append(pre + hx(x))
        if len(x) > 1000:
            ms = [x[:k2] for k2 in (0, 1, 2, 3, 4, 5, 80, 81, 82, 83, 84, 85, 86, 87, 88, 89, len(x) - 1)] + [x + b"\x00"]
            for i in range(0, 96):
                for dlt in (1, -1, 5, 9):
                    y = bytearray(x)
                    y[i] = (y[i] + dlt) & 255
                    ms.append(bytes(y))
        else:
            ms = mutants(x, rng, 1 if (th or len(x) < 400) else 2)
        ops += [pre + hx(y) for y in ms]
        if d in ("pkdec", "shdec", "eddec", "bpdec", "cvcdec") and len(x) < 1000:
            ops += [pre + hx(y) for y in leaf_variants(x)]
            ops += [pre + hx(y) for y in leaf_sizes(x)]
        if d == "smcu":
            # every combination of Lc* form and Le* form around the same protected body (these octets are
            # not covered by the MAC)
            if x[4] != 0:
                body = x[5:5 + x[4]]
            else:
                body = x[7:7 + x[5] * 256 + x[6]]
            for lc in ([bytes([len(body)])] if 0 < len(body) < 256 else []) + [b"\x00" + len(body).to_bytes(2, "big")]:
                for le in (b"", b"\x00", b"\x00\x00", b"\x00\x00\x00", b"\x01", b"\x00\x01"):
                    y = x[:4] + lc + body + le
                    if y != x:
                        ops.append(pre + hx(y))
        if d == "cvcdec":
            # the body alone (static decoder, no content check)
            h = tl(x, 0, len(x))
            body = x[h[0]:]
            hb = tl(body, 0, len(body))
            body = body[:hb[0] + hb[1]]
            ops.append("cvcbody " + hx(body))
            ops += ["cvcbody " + hx(y) for y in mutants(body, rng, 2)]
            ops += ["cvcbody " + hx(y) for y in leaf_variants(body)]
            # the destination structure after the decode (failed or not): field capacities
            ops.append("cvcimg " + hx(body))
            ops.append("cvcuimg " + hx(x))
            ops += ["cvcimg " + hx(y) for y in mutants(body, rng, 3) + leaf_variants(body) + leaf_sizes(body)]
            ops += ["cvcuimg " + hx(y) for y in mutants(x, rng, 3) + leaf_variants(x) + leaf_sizes(x)]
            # the verifying paths (signature length from the key length): own key (0) and external keys
            for kl in (0, 48, 64, 96, 128):
                ops.append("cvckimg %s %d" % (hx(x), kl))
                ops += ["cvckimg %s %d" % (hx(y), kl) for y in leaf_sizes(x, (0, 33, 34, 35, 48, 49, 72, 73, 96, 97, 128, 129, 192, 300, 600))]
            ops += ["cvckimg %s %d" % (hx(y), rng.choice((0, 48, 64, 96, 128))) for y in mutants(x, rng, 3) + leaf_variants(x)]
    # CSR (no encoder in the library: bounds + well-formedness outside the opaque fields)
    ops.append("csrdec " + hx(CSR))
    ops += ["csrdec " + hx(y) for y in mutants(CSR, rng)]
    ops += ["csrdec " + hx(y) for y in leaf_variants(CSR)]
    # hand-made alternatives of documented optional parts / forms
    return enc_ops, enc_out, valid, ops


CSR_OPAQUE = None


def csr_opaque():
    """offsets of the TLVs bpkiCSRDec skips without looking inside (subject Name, [0] attributes)"""
    global CSR_OPAQUE
    if CSR_OPAQUE is None:
        x = CSR
        h0 = tl(x, 0, len(x)); o = h0[0]                 # CertReq
        h1 = tl(x, o, len(x)); o1 = o + h1[0]            # CertReqInfo
        hv = tl(x, o1, len(x)); subj = o1 + hv[0] + hv[1]
        hs = tl(x, subj, len(x)); spki = subj + hs[0] + hs[1]
        hp = tl(x, spki, len(x)); attrs = spki + hp[0] + hp[1]
        ha = tl(x, attrs, len(x))
        CSR_OPAQUE = ((subj, subj + hs[0] + hs[1]), (attrs, attrs + ha[0] + ha[1]))
    return CSR_OPAQUE


def judge(op, out):
    """(second-pass ops [(op, expected, what)], immediate failures [what])"""
    w, o = op.split(" "), out.split(" ")
    k = w[0]
    second, fails = [], []
    if out.startswith("CRASH"):
        return [], ["sanitizer/abort: " + out[:400]]
    if "mismatch" in out:
        return [], ["probe call and real call disagree: " + out]
    if "field-overrun" in out:
        return [], ["a failed decode left octets beyond the used part of a 64-octet field of bign_params: " + out]
    if (out.startswith("err") or out in ("invalid", "bad-op") or out.startswith("fmt-ok")) and k not in ("cvcimg", "cvcuimg", "cvckimg"):
        return [], []
    try:
        if k in ("pkdec", "shdec"):
            x = unhx(w[1]); c = int(o[1])
            if c > len(x): fails.append("consumed %d > input %d" % (c, len(x)))
            else:
                second.append(("%s %s" % ("pkenc" if k == "pkdec" else "shenc", o[0]), hx(x[:c]), "re-encode of the accepted container"))
                if not single_tree(x[:c]): fails.append("accepted octets are not a well-formed DER tree")
        elif k == "eddec":
            x = unhx(w[1]); c = int(o[3])
            if c > len(x): fails.append("consumed %d > input %d" % (c, len(x)))
            else:
                second.append(("edenc %s %s %s" % (o[0], o[1], o[2]), hx(x[:c]), "re-encode of the accepted EncryptedPrivateKeyInfo"))
                if not single_tree(x[:c]): fails.append("accepted octets are not a well-formed DER tree")
        elif k == "csrdec":
            x = unhx(w[1]); bo, bl, po, so, c = map(int, o)
            if c > len(x) or bo + bl > c or po + 64 > c or so + 48 != c or po < bo or po + 64 > bo + bl:
                fails.append("offsets outside the accepted code: " + out)
            else:
                # descend everywhere except into the two skipped fields; they are located in the mutant by
                # walking the same path
                y = x[:c]
                try:
                    h0 = tl(y, 0, c); q = h0[0]; h1 = tl(y, q, c); q1 = q + h1[0]; hv = tl(y, q1, c)
                    subj = q1 + hv[0] + hv[1]; hs = tl(y, subj, c); spki = subj + hs[0] + hs[1]
                    hp = tl(y, spki, c); attrs = spki + hp[0] + hp[1]
                    ok = single_tree(y, opaque=(subj, attrs))
                except TypeError:
                    ok = False
                if not ok: fails.append("accepted CSR is not a well-formed DER tree (outside the skipped Name/attributes)")
        elif k == "bpdec":
            x = unhx(w[1])
            if not single_tree(x): fails.append("accepted octets are not a well-formed DER tree")
            exp = hx(x)
            # documented OPTIONAL cofactor INTEGER(1): accepted, never produced
            second.append(("bpenc " + " ".join(o[:7]), ("bp", x), "re-encode of the accepted parameters"))
        elif k == "cvcdec":
            x = unhx(w[1])
            if int(o[8]) != len(x): fails.append("btokCVCLen %s != accepted length %d" % (o[8], len(x)))
            if not single_tree(x): fails.append("accepted octets are not a well-formed DER tree")
            zero_hat = (o[4] == "0000000000" and bytes.fromhex("7f4c13060a2a7000020022654f0601") in x) or \
                       (o[5] == "0000" and bytes.fromhex("060a2a7000020022654f0801") in x)
            second.append(("cvcenc " + " ".join(o[:8]), hx(x), "re-encode of the accepted CV certificate" + (" [explicit all-zero HAT]" if zero_hat else "")))
        elif k == "cvcbody":
            x = unhx(w[1]); c = int(o[8])
            if c > len(x): fails.append("consumed %d > input %d" % (c, len(x)))
            elif not single_tree(x[:c]): fails.append("accepted body is not a well-formed DER tree")
            if not (8 <= len(unhx(o[0])) <= 12 and 8 <= len(unhx(o[1])) <= 12):
                fails.append("decoded authority/holder do not fit char[13] with 8..12 characters (lengths %d, %d)" % (len(unhx(o[0])), len(unhx(o[1]))))
            if len(unhx(o[6])) not in (48, 64, 96, 128):
                fails.append("decoded public key length %d" % len(unhx(o[6])))
        elif k in ("cvcimg", "cvcuimg", "cvckimg"):
            A, H, PK, FR, UN, EID, ESG, SG = (unhx(o[i]) for i in (1, 2, 3, 5, 6, 7, 8, 9))
            pkl, sgl = int(o[4]), int(o[10])
            for nm, v in (("authority", A), ("holder", H)):
                z = v.find(b"\x00")
                if len(v) != 13 or z < 0 or v[z:].strip(b"\x00"):
                    fails.append("%s[13] holds no terminated string after the decode (%s): a write beyond the field" % (nm, hx(v)))
                elif z > 12 or (z and not (8 <= z <= 12)):
                    fails.append("%s[13] holds a string of %d characters" % (nm, z))
            if pkl not in (0, 48, 64, 96, 128) or PK[pkl:].strip(b"\x00"):
                fails.append("pubkey[128] / pubkey_len = %d inconsistent after the decode" % pkl)
            if sgl not in (0, 34, 48, 72, 96) or SG[sgl:].strip(b"\x00"):
                fails.append("sig[96] / sig_len = %d inconsistent after the decode" % sgl)
        elif k == "smcu":
            second.append(("smcw %s %s" % (w[1], out), w[2], "re-wrap of the accepted protected command"))
        elif k == "smru":
            second.append(("smrw %s %s" % (w[1], out), w[2], "re-wrap of the accepted protected response"))
    except (ValueError, IndexError) as e:
        fails.append("unparsable implementation output %r (%s)" % (out[:200], e))
    return second, fails


def roundtrip_expect(op, out):
    """decode(encode v) == v: expected output of the decoder on the encoder's result"""
    w = op.split(" ")
    k = w[0]
    x = out.split(" ")[0]
    n = len(unhx(x))
    if k in ("pkenc", "shenc"): return "%s %d" % (w[1], n)
    if k == "edenc": return "%s %s %s %d" % (w[1], w[2], w[3], n)
    if k == "smcw": return " ".join(w[2:])
    if k == "smrw": return " ".join(w[2:])
    if k in ("pkwrap", "shwrap"): return w[1]
    return None


def run(ctx):
    exe = ctx.cc("harness/c08b.c", "asan")
    enc_ops, enc_out, valid, ops = build_ops(ctx, exe)
    bad = []
    for op, out in zip(enc_ops, enc_out):
        if out.startswith("CRASH") or "mismatch" in out:
            bad.append((op, "encoder: " + out[:300]))
    res, ops = first(ctx, exe, ops)
    index = dict(zip(ops, res))
    # (i) decode(encode v) == v
    for eop, dop in valid:
        out = enc_out[enc_ops.index(eop)]
        exp = roundtrip_expect(eop, out)
        got = index.get(dop)
        if got is None:
            continue
        if got.startswith("err") or got.startswith("CRASH") or got.startswith("fmt-ok"):
            bad.append((dop, "the decoder rejects what the encoder produced (`%s` -> %s)" % (eop[:200], got[:200])))
        elif exp is not None and got != exp:
            bad.append((dop, "decode(encode v) != v: `%s` gives `%s`, expected `%s`" % (eop[:200], got[:200], exp[:200])))
    # the library's own CSR test vector must be accepted with the offsets of its structure
    got = index.get("csrdec " + hx(CSR))
    if got is not None and got != "4 312 139 334 382":
        bad.append(("csrdec " + hx(CSR), "the valid certificate request of bpki_test.c is not decoded as expected: `%s`" % got[:200]))
    # (ii) mutants
    second, acc, got = [], 0, []
    kinds = {}
    for op, out in zip(ops, res):
        kinds[op.split(" ")[0]] = kinds.get(op.split(" ")[0], 0) + 1
        s, f = judge(op, out)
        acc += not (out.startswith("err") or out.startswith("fmt-ok"))
        for what in f:
            bad.append((op, what + " [impl: %s]" % out[:200]))
        second += [(op, out) + t for t in s]
    if second:
        got, _ = first(ctx, exe, [s[2] for s in second])
        for (op, out, s_op, exp, what), g in zip(second, got):
            if isinstance(exp, tuple):      # bign params: optional cofactor
                x = exp[1]
                e = unhx(g.split(" ")[0]) if not g.startswith(("err", "invalid", "CRASH")) else None
                if e is None:
                    bad.append((op, "%s fails: `%s` -> %s" % (what, s_op[:200], g[:200])))
                elif e != x:
                    # x == e with `02 01 01` appended inside the outer SEQUENCE?
                    he, hxx = tl(e, 0, len(e)), tl(x, 0, len(x))
                    if not (he and hxx and x[hxx[0]:] == e[he[0]:] + b"\x02\x01\x01"):
                        bad.append((op, "%s fails: `%s` -> `%s`, accepted `%s`" % (what, s_op[:120], g[:300], hx(x)[:300])))
            elif g != exp:
                bad.append((op, "%s fails: `%s` -> `%s`, accepted `%s`" % (what, s_op[:200], g[:300], exp[:300])))
    # correspondence with the Lean models of the bpki codecs (Bee2V/C08/Model3.lean)
    modelled = ("pkdec", "shdec", "eddec", "csrdec", "pkenc", "shenc", "edenc", "bpdec", "bpenc", "cvcimg", "cvcuimg", "cvckimg")
    mops = [(o, r) for o, r in list(zip(enc_ops, enc_out)) + list(zip(ops, res)) if o.split(" ")[0] in modelled]
    # the list-based Lean driver is quadratic in the input length: of the inputs with a 3-octet DER length
    # (>= 65536 octets) only a few go through the model (all of them go through the implementation-side oracle)
    huge = [i for i, (o, _) in enumerate(mops) if len(o) > 60000]
    keep = set(huge[::max(1, len(huge) // (4 if ctx.tier == "quick" else 24))][:(4 if ctx.tier == "quick" else 24)])
    mops = [m for i, m in enumerate(mops) if len(m[0]) <= 60000 or i in keep]
    mism = []
    if mops and os.path.exists(ctx.driver()):
        lres, lerr, lrc = ctx.run_lines(ctx.driver(), [o for o, _ in mops])
        if lrc != 0 or len(lres) != len(mops):
            raise RuntimeError("Lean driver failed on container ops: " + lerr[-300:])
        mism = [(o, c, l) for (o, c), l in zip(mops, lres) if c != l and not c.startswith("CRASH")]
    # second-pass ops of the modelled kinds (re-encodings of accepted mutants)
    if second and os.path.exists(ctx.driver()):
        sops = [(s_[2], g) for s_, g in zip(second, got) if s_[2].split(" ")[0] in modelled and not g.startswith("CRASH")]
        if sops:
            lres2, _, lrc2 = ctx.run_lines(ctx.driver(), [o for o, _ in sops])
            if lrc2 == 0 and len(lres2) == len(sops):
                mism += [(o, c, l) for (o, c), l in zip(sops, lres2) if c != l]
                mops = mops + sops
    ctx.cov["containers_model_ops"] = len(mops)
    ctx.cov["containers_model_disagreements"] = len(mism)
    ctx.cov["containers"] = {"samples": len(valid), "ops_by_kind": kinds, "accepted": acc, "rejected": len(ops) - acc,
                             "reencode_checks": len(second), "failures": len(bad)}
    ctx.cov["ops_total"] = ctx.cov.get("ops_total", 0) + len(ops) + len(enc_ops) + len(second)
    seen = set()
    for op, what in bad:
        key = "container:" + op.split(" ")[0] + (":explicit-zero-hat" if "[explicit all-zero HAT]" in what else "")
        if key in seen:
            continue
        seen.add(key)
        ctx.violation(key, "# property C08 (containers): %s\n# replay: ./check C08 --replay <this file>\nop c08b %s\n" % (what.replace("\n", " ")[:1500], op),
                      True, "%s: `%s`: %s" % (key, op[:200], what[:700]))
    if not bad:
        for o, c, l in mism[:2]:
            ctx.violation("correspondence:container:" + o.split(" ")[0],
                          "# property C08 (containers): Lean model (Model3.lean) and implementation disagree; the oracle found no property failure\nop c08b %s\nimpl %s\nmodel %s\n" % (o, c[:2000], l[:2000]),
                          False, "%d container ops differ, e.g. `%s` impl=`%s` model=`%s`" % (len(mism), o[:200], c[:200], l[:200]))
    return len(bad) + len(mism)


def replay(ctx, op):
    op = op[5:] if op.startswith("c08b ") else op
    exe = ctx.cc("harness/c08b.c", "asan")
    res, _ = first(ctx, exe, [op])
    print("op    %s\nimpl  %s" % (op, res[0]))
    s, f = judge(op, res[0])
    bad = list(f)
    if s:
        got, _ = first(ctx, exe, [t[0] for t in s])
        for (s_op, exp, what), g in zip(s, got):
            print("then  %s\nimpl  %s" % (s_op, g))
            if isinstance(exp, tuple):
                if g.split(" ")[0] != hx(exp[1]) and not hx(exp[1]).endswith("020101"):
                    bad.append(what + " fails")
            elif g != exp:
                bad.append("%s fails (accepted %s)" % (what, exp[:300]))
    for what in bad:
        print("FAIL  " + what)
    print("property %s on the current tree" % ("VIOLATED" if bad else "holds for this input"))
    return 1 if bad else 0

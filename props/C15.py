"""C15 — secret state is wiped before its memory is released.

Proof   : Bee2V/C15/Props.lean (checker soundness over the path semantics, memWipe / blobClose /
          blobResize model) + Bee2V/Gen/C15Obl.lean (one `allPathsClose cfg_f = true` per function
          that handles a secret; skeletons regenerated from the sources by xlate/x_cfg.py).
Tie     : (a) regenerated skeletons; (b) harness/c15.c built with --wrap=malloc/free/realloc/
          blobCreate/blobClose/blobResize: every block is snapshotted when it is released and
          scanned for the caller's secrets; the blobCreate/blobClose events the function under test
          performs itself are compared with the paths of its skeleton (Lean driver `path`); the
          block released by blobClose is compared with the Lean model (`wipe`).
Search  : the free-snapshot scan itself (implementation only): a released block that still
          contains a secret is the failing input (replay = scenario, exit, injected failure).
"""
import os, sys
import vcommon
from vcommon import VERIF
sys.path.insert(0, os.path.join(VERIF, "xlate"))

PROPS = ["Bee2V/C15/Props.lean", "Bee2V/Gen/C15Obl.lean"]
TARGETS = ["Bee2V.C15.Props", "Bee2V.Gen.C15Obl"]


def regen(ctx):
    import x_c09obl
    import importlib
    importlib.reload(x_c09obl)
    return x_c09obl.regen_all(ctx)


def scen_ops(listing, tier, rng):
    """(op, name, var, failat) — every scenario on every exit, without and with allocation failures"""
    ops = []
    for item in listing.split():
        name, fn, nvar = item.split(":")
        for v in range(int(nvar)):
            ops.append(("scen %s %d 0" % (name, v), name, v, 0))
    return ops


def judge(d):
    """C15 verdict on one scenario line: list of problems"""
    if "crash" in d:
        return ["crashed: " + str(d["crash"])[:200]]
    pr = []
    if d["leak"] != "-/-":
        pr.append("a block released by %s still contains the %s" % (d["leak"].split("/")[1], d["leak"].split("/")[0]))
    if d["live"] != 0:
        pr.append("%d block(s) never released (state neither wiped nor freed)" % d["live"])
    return pr


def check_config(ctx, cfg, page, info, do_paths=True):
    import x_c09obl
    exe = ctx.cc("harness/c15.c", cfg, extra=x_c09obl.WRAP)
    listing, _, _ = ctx.run_lines(exe, ["list"])
    base = scen_ops(listing[0], ctx.tier, ctx.rng)
    lines = x_c09obl.run_scen(ctx, exe, [o[0] for o in base])
    ops, res = [], []
    for (op, name, var, _), line in zip(base, lines):
        d = x_c09obl.parse_scen(line)
        ops.append(op)
        res.append(d)
        # allocation-failure exits: fail the 1st … n-th allocation of the call
        n = d.get("allocs", 0) if "crash" not in d else 0
        ks = list(range(1, n + 1))
        if ctx.tier == "quick" and len(ks) > 3:
            ks = ks[:2] + [ctx.rng.choice(ks[2:])]
        for k in ks:
            ops.append("scen %s %d %d" % (name, var, k))
            res.append(None)
    todo = [i for i, r in enumerate(res) if r is None]
    more = x_c09obl.run_scen(ctx, exe, [ops[i] for i in todo])
    for i, line in zip(todo, more):
        res[i] = x_c09obl.parse_scen(line)
    problems = []
    for op, d in zip(ops, res):
        for p in judge(d):
            problems.append((op, d.get("fn", "?"), p, cfg))
    # skeleton validation: own blob events of the function under test must be a path of its Cfg
    path_bad = []
    if do_paths and os.path.exists(ctx.driver()):
        pops, idx = [], []
        for i, d in enumerate(res):
            if "crash" in d:
                continue
            pops.append("path %s %s %s" % (d["fn"], "ok" if d["code"] == 0 else "bad", d["own"]))
            idx.append(i)
        pout, perr, prc = ctx.run_lines(ctx.driver(), pops)
        if prc != 0 or len(pout) != len(pops):
            raise RuntimeError("drv_c15 failed: " + perr[-400:])
        for i, o, po in zip(idx, pout, pops):
            if o not in ("yes", "yes-inlined"):
                path_bad.append((ops[i], po, o))
    # blobClose model vs implementation
    sizes = sorted(set([1, 7, 8, 9, 15, 16, 17, 40, 255, 256, 1015, 1016, 1017, 1024, 4000] +
                       [ctx.rng.randrange(1, 3000) for _ in range(10 if ctx.tier == "quick" else 200)]))
    wl, _, _ = ctx.run_lines(exe, ["wipe %d" % s for s in sizes])
    wipe_bad = []
    mops = []
    for s, l in zip(sizes, wl):
        f = dict(kv.split("=") for kv in l.split() if "=" in kv)
        mops.append("wipe %d %s %d" % (s, f.get("ptrmod", "0"), page))
    if os.path.exists(ctx.driver()):
        ml, _, _ = ctx.run_lines(ctx.driver(), mops)
        for s, l, m in zip(sizes, wl, ml):
            lc = " ".join(kv for kv in l.split() if not kv.startswith("ptrmod=") and not kv.startswith("stale="))
            if lc != m:
                wipe_bad.append((s, l, m))
    for s, l in zip(sizes, wl):
        if "fill_left=1" in l or "header_intact=1" in l or "not-released" in l or " stale=0@" not in l:
            problems.append(("wipe %d" % s, "blobClose", "the block handed to free() by blobClose is not overwritten: " + l[:120], cfg))
    return ops, res, problems, path_bad, wipe_bad, len(sizes)


def run(ctx):
    terr, info = None, {}
    try:
        info = regen(ctx)
    except Exception as e:
        terr = "%s: %s" % (type(e).__name__, e)
    proof_ok, log = (False, "translator: " + terr) if terr else ctx.prove(TARGETS, PROPS)
    configs = [("asan", 1), ("rel", 1)] if ctx.tier == "quick" else [("asan", 1), ("rel", 1), ("rel-plain", 1024), ("O0", 1), ("fast", 1)]
    all_problems, all_path, all_wipe, nops, nwipe = [], [], [], 0, 0
    exits = set()
    for cfg, page in configs:
        ops, res, problems, path_bad, wipe_bad, nw = check_config(ctx, cfg, page, info, do_paths=not terr)
        nops += len(ops)
        nwipe += nw
        all_problems += problems
        all_path += [(cfg,) + p for p in path_bad]
        all_wipe += [(cfg,) + w for w in wipe_bad]
        for op, d in zip(ops, res):
            if "crash" not in d:
                exits.add((d["fn"], d["code"], d["own"]))
        if cfg == "asan":
            ctx.samples += [{"op": op, "impl": " ".join("%s=%s" % (k, d[k]) for k in ("fn", "code", "allocs", "frees", "leak", "own") if k in d)}
                            for op, d in list(zip(ops, res))[:200:23]]
    ctx.cov.update({"ops_total": nops + nwipe, "scenario_runs": nops, "wipe_sizes": nwipe, "configs": [c for c, _ in configs],
                    "distinct_nontrivial": len(exits), "secret_functions": info.get("secret", [])[:200],
                    "secret_function_count": len(info.get("secret", [])), "functions_translated": len(info.get("fns", [])),
                    "gen_functions_unhandled": [terr] if terr else [],
                    "skeleton_path_mismatches": len(all_path), "blobClose_model_mismatches": len(all_wipe)})
    ctx.samples.append({"theorem": "Bee2V.C15.allPathsClose_sound",
                        "statement": "allPathsClose c = true → ∀ tr s' r, Exec c St.init tr s' (.ret r) → ClosesAll tr"})
    ctx.cov["violating_inputs"] = len({(op, cfg) for op, fn, what, cfg in all_problems})
    seen = set()
    for op, fn, what, cfg in all_problems:
        key = "blobClose:not-overwritten" if op.startswith("wipe") else "%s:%s" % (fn, op.split()[1] + "/" + "/".join(op.split()[2:]))
        if key in seen:
            continue
        seen.add(key)
        if len(seen) > 12:
            continue          # the rest is counted in the evidence (`violating_inputs`)
        ctx.violation(key, "# property C15: %s (%s build)\n# replay: ./check C15 --replay <this file>\nconfig %s\n%s\n" % (what, cfg, cfg, op), True,
                      "%s: %s [%s, %s build]" % (fn, what, op, cfg))
    if not all_problems:
        if not proof_ok:
            errs = "\n".join("# " + l for l in log.split("\n") if "error" in l)[:3000]
            ctx.violation("proof", "# property C15: the obligations of Bee2V/Gen/C15Obl.lean / Bee2V/C15/Props.lean no longer check against the "
                          "skeletons regenerated from the sources; the free-snapshot scan of all scenarios found no released block "
                          "containing a secret.\n" + errs, False,
                          "theorems no longer check: " + (terr or "; ".join(ctx.cov.get("lake_errors", [])) or log[-300:])[:500])
        elif all_path:
            cfg, op, pop, o = all_path[0]
            ctx.violation("skeleton", "# property C15: the blobCreate/blobClose events observed in the implementation are not a path of the "
                          "regenerated skeleton (translator or model out of date); no leak found\nconfig %s\n%s\n# %s -> %s\n" % (cfg, op, pop, o), False,
                          "%d observed event sequences are not paths of the skeleton, first: %s (%s)" % (len(all_path), pop, op))
        elif all_wipe:
            cfg, s, l, m = all_wipe[0]
            ctx.violation("blobClose-model", "# property C15: blobClose model and implementation disagree on the released block\nconfig %s\nwipe %d\n# impl  %s\n# model %s\n" % (cfg, s, l, m),
                          False, "blobClose(%d): impl %s / model %s" % (s, l[:100], m[:100]))
    return ctx.finish(
        level="proof",
        assumptions=["xlate/x_cfg.py extracts the control-flow skeletons faithfully (validated each run: the blobCreate/blobClose/blobResize "
                     "events each function under test performs are matched against the paths of its skeleton)",
                     "the skeleton over-approximates paths (opaque conditions): an obligation may fail on a path that is dead at run time",
                     "secret-handling functions = parameter names key/privkey*/pwd/secret/theta/share/s/sharekey + committed table (xlate/x_c09obl.py)",
                     "constructors that hand their blob to the caller (rngCreate, dstuEcCreate, g12sEcCreate) are outside the per-function obligation",
                     "stack copies of secrets and compiler-elided stores are outside the model (the -O2 non-sanitizer build is scanned dynamically)",
                     "memWipe's counter update after the loop (memchr) is not modelled: it does not write memory"],
        rule="every scenario (high-level function x success / each distinct error exit) x {no fault, 1st..n-th allocation failing}; "
             "distinct = distinct (function, return code, own blob event sequence); every block released through free/realloc is scanned "
             "for 8-octet windows of the registered secrets (key, expanded key, private key, nonce, password, shares)",
        distinct=len(exits))


def replay(ctx, path):
    import x_c09obl
    cfg, ops = "asan", []
    for line in open(path):
        w = line.split()
        if not w or w[0].startswith("#"):
            continue
        if w[0] == "config":
            cfg = w[1]
        elif w[0] in ("scen", "wipe"):
            ops.append(line.strip())
    if not ops:
        print("replay file names a theorem/correspondence, not an input: nothing to execute")
        return 0
    exe = ctx.cc("harness/c15.c", cfg, extra=x_c09obl.WRAP)
    bad = 0
    for op, line in zip(ops, x_c09obl.run_scen(ctx, exe, ops)):
        print("%s -> %s" % (op, line))
        if op.startswith("scen"):
            pr = judge(x_c09obl.parse_scen(line))
        else:
            pr = ["not overwritten"] if ("fill_left=1" in line or "header_intact=1" in line or "not-released" in line or " stale=0@" not in line) else []
        for p in pr:
            print("  STILL FAILS: " + p)
            bad = 1
    print("property C15 %s on the current tree for this input" % ("VIOLATED" if bad else "holds"))
    return bad

"""C12 — conjunct witnesses: for a conjunct of a parameter validator, an object that fails EXACTLY that conjunct and passes
all the others (only such an object can tell whether the conjunct is still checked).

* g12sParamsVal, J(E) ∉ {0, 1728}: curves y² = x³ + ax (p = A² + B²) and y² = x³ + b (4p = L² + 27M²) whose orders are read
  off the CM decomposition, chosen so that #E = n·q with q prime of the right size, q ≠ p, MOV satisfied, base point of
  order q — every other condition of the list holds;
* stb99ParamsVal / pfokParamsVal: freshly constructed sets (composite p with q | p − 1, composite q, q of the wrong length,
  d ≥ p, d^((p−1)/q) = e, …) — cheap because no point counting is involved;
* bign / dstu / the remaining g12s conjuncts: the perturbations of the standard sets that violate exactly one conjunct.
The exactness is CHECKED here (conjunct by conjunct evaluation), not assumed.
`CONJUNCTS` lists every conjunct of every validator; `report()` says which have a witness in the generated stream."""
import math
from C12_arith import *
from C12_val import Op, hx, lev, mov_ok, mont_pow

_MEMO = {}


# --------------------------------------------------------------------------------------------------- g12s: conjunct evaluation
def g12s_conjuncts(f):
    """{conjunct: holds?} for f = [l, p, a, b, q, n, xP, yP] (all evaluated, no short-circuit; None = not evaluable)"""
    l = int(f[0])
    c = {"l": l in (256, 512)}
    if not c["l"]:
        return c
    p = lev(f[1][: 2 * (68 * l // 512)])
    no = (p.bit_length() + 7) // 8
    a, b = lev(f[2][: 2 * no]), lev(f[3][: 2 * no])
    q = lev(f[4][: 2 * (l // 8)])
    n = int(f[5]) % (1 << 32)
    x, y = lev(f[6][: 2 * no]), lev(f[7][: 2 * no])
    c["p-odd"] = p % 2 == 1 and p > 3
    c["p-bits"] = p.bit_length() > (253 if l == 256 else 507)
    c["a,b<p"] = a < p and b < p
    c["P<p"] = x < p and y < p
    c["q,n!=0"] = q != 0 and n != 0
    c["q-bits"] = q.bit_length() > (254 if l == 256 else 508)
    c["q-odd"] = q % 2 == 1
    if not c["p-odd"]:
        return c
    c["p-prime"] = is_prime(p)
    c["nonsingular"] = (4 * a ** 3 + 27 * b * b) % p != 0
    E = Ecp(p, a % p, b % p)
    c["P-on-curve"] = E.on((x % p, y % p))
    c["hasse"] = n * q != 0 and (n * q - (p + 1)) ** 2 <= 4 * p
    c["q-prime"] = is_prime(q)
    c["q!=p"] = q != p
    c["mov"] = q > 1 and mov_ok(p, q, 31 if l == 256 else 131)
    c["qP=O"] = c["p-prime"] and c["nonsingular"] and c["P-on-curve"] and q != 0 and E.mul(q, (x % p, y % p)) is None
    c["a!=0"] = a % p != 0
    c["b!=0"] = b % p != 0
    return c


def failing(c):
    return sorted(k for k, v in c.items() if v is False)


# --------------------------------------------------------------------------------------------------- CM curves
def _order_point_test(E, N, rng, tries=3):
    """N annihilates random points of E (identifies the twist whose order is N)"""
    p = E.p
    for _ in range(tries):
        while True:
            x = rng.randrange(p)
            y = sqrt_mod((x * x * x + E.a * x + E.b) % p, p)
            if y is not None:
                break
        if E.mul(N, (x, y)) is not None:
            return False
    return True


def _base_point(E, N, q, rng):
    p = E.p
    while True:
        x = rng.randrange(p)
        y = sqrt_mod((x * x * x + E.a * x + E.b) % p, p)
        if y is None:
            continue
        P = E.mul(N // q, (x, y))
        if P is not None:
            assert E.mul(q, P) is None
            return P


def cm_curve_1728(rng, bits=256, mov=31):
    """y² = x³ + ax over p = A² + B², #E = 2q, q prime with more than bits − 2 bits: returns (p, a, q, n, P)"""
    half = bits // 2
    while True:
        A = rng.getrandbits(half) | (1 << (half - 1)) | 1
        B = (rng.getrandbits(half) | (1 << (half - 1))) & ~1
        p = A * A + B * B
        if p.bit_length() != bits or not is_prime(p):
            continue
        for t in (2 * A, -2 * A, 2 * B, -2 * B):
            N = p + 1 - t
            for n in (2, 4):
                if N % n or not N // n % 2:
                    continue
                q = N // n
                if q.bit_length() <= bits - 2 or q == p or not is_prime(q) or not mov_ok(p, q, mov):
                    continue
                for a in range(1, 60):
                    E = Ecp(p, a, 0)
                    if _order_point_test(E, N, rng):
                        return p, a, q, n, _base_point(E, N, q, rng)


def cm_curve_0(rng, bits=256, mov=31):
    """y² = x³ + b over p = (L² + 27M²)/4, #E = n·q (n ≤ 4), q prime with more than bits − 2 bits: (p, b, q, n, P)"""
    half = bits // 2
    while True:
        L = rng.getrandbits(half + 1) | (1 << half)
        M = rng.getrandbits(half - 2) | 1
        if (L - M) % 2:
            L += 1
        s = L * L + 27 * M * M
        if s % 4:
            continue
        p = s // 4
        if p.bit_length() != bits or p % 3 != 1 or not is_prime(p):
            continue
        ts = [L, -L]
        if (L + 9 * M) % 2 == 0:
            ts += [(L + 9 * M) // 2, -(L + 9 * M) // 2, (L - 9 * M) // 2, -(L - 9 * M) // 2]
        for t in ts:
            N = p + 1 - t
            for n in (1, 2, 3, 4):
                if N % n:
                    continue
                q = N // n
                if q % 2 == 0 or q.bit_length() <= bits - 2 or q == p or not is_prime(q) or not mov_ok(p, q, mov):
                    continue
                for b in range(1, 80):
                    E = Ecp(p, 0, b)
                    if _order_point_test(E, N, rng):
                        return p, b, q, n, _base_point(E, N, q, rng)


def g12s_fields(l, p, a, b, q, n, P):
    return [str(l), hx(p, 68), hx(a, 68), hx(b, 68), hx(q, 64), str(n), hx(P[0], 68), hx(P[1], 68)]


def g12s_cm_ops(rng, tier):
    """special curves that satisfy every condition of g12sParamsVal except J(E) ∉ {0, 1728}"""
    ops = []
    key = ("g12s-cm", tier, rng.random())
    cnt = 1 if tier == "quick" else 3
    for kind in ("1728", "0"):
        for i in range(cnt):
            if kind == "1728":
                p, a, q, n, P = cm_curve_1728(rng)
                b = 0
            else:
                p, b, q, n, P = cm_curve_0(rng)
                a = 0
            f = g12s_fields(256, p, a, b, q, n, P)
            c = g12s_conjuncts(f)
            fl = failing(c)
            want = ["b!=0"] if kind == "1728" else ["a!=0"]
            if fl != want:
                raise RuntimeError("CM curve j=%s is not an exact witness: failing %r" % (kind, fl))
            ops.append(Op("g12sval " + " ".join(f), "502", "cw:g12s:%s" % want[0],
                          note="CM curve with j = %s: every other condition of g12sParamsVal holds (p = %d, #E = %d·q)" % (kind, p, n)))
            # the same group through the generic predicates: valid, Hasse, safe, order — all TRUE
            no = 32
            ops.append(Op("ecpgroup %s %s %s %s %s %s %d 31" % (hx(p, no), hx(a, no), hx(b, no), hx(P[0], no), hx(P[1], no), hx(q, no), n),
                          "1 1 1 1 1", "cw:g12s:%s:other-conditions-hold" % want[0]))
            # and a non-zero neighbour coefficient destroys the group order: rejected for the usual reasons
            g = list(f)
            g[5] = str(n + 1)
            ops.append(Op("g12sval " + " ".join(g), "502", "cw:g12s:cm-curve-wrong-cofactor"))
    return ops


# --------------------------------------------------------------------------------------------------- stb99 / pfok constructions
def stb99_conjuncts(f, LR):
    l, r = int(f[0]), int(f[1])
    c = {"(l,r)": (l, r) in LR}
    if not c["(l,r)"]:
        return c
    no, mo = (l + 7) // 8, (r + 7) // 8
    p, q, a, d = lev(f[2][: 2 * no]), lev(f[3][: 2 * mo]), lev(f[4][: 2 * no]), lev(f[5][: 2 * no])
    c["tails"] = not any(int(t or "0", 16) for t in (f[2][2 * no:], f[3][2 * mo:], f[4][2 * no:], f[5][2 * no:]))
    c["p-bits"] = p.bit_length() == l
    c["p-prime"] = is_prime(p)
    c["q-bits"] = q.bit_length() == r
    c["q-prime"] = is_prime(q)
    c["q|p-1"] = q != 0 and (p - 1) % q == 0
    c["d<p"] = d < p
    c["d!=0"] = d != 0
    if q == 0 or p < 3 or p % 2 == 0:
        return c
    x = mont_pow(p, l, d % p, (p - 1) // q)
    c["x!=e"] = x != (1 << (l + 2)) % p
    c["a=x"] = a == x
    return c


def _prime_with_factor(rng, bits, q):
    """prime p of exactly `bits` bits with q | p − 1"""
    while True:
        k = rng.getrandbits(bits - q.bit_length()) | (1 << (bits - q.bit_length() - 1))
        p = q * (k & ~1) + 1
        if p.bit_length() == bits and is_prime(p):
            return p


def stb99_cw_ops(rng, tier, LR):
    ops = []
    l, r = LR[0]
    R = 1 << (l + 2)

    def emit(p, q, a, d, conj, note=""):
        f = [str(l), str(r), hx(p, 308), hx(q, 33), hx(a, 308), hx(d, 308)]
        fl = failing(stb99_conjuncts(f, LR))
        if fl != [conj]:
            raise RuntimeError("stb99 witness for %s fails %r" % (conj, fl))
        ops.append(Op("stb99val " + " ".join(f), "502", "cw:stb99:" + conj, note=note))
    q = rand_prime(rng, r)
    p = _prime_with_factor(rng, l, q)
    d = rng.randrange(2, p)
    a = mont_pow(p, l, d, (p - 1) // q)
    while a == R % p:
        d = rng.randrange(2, p)
        a = mont_pow(p, l, d, (p - 1) // q)
    f = [str(l), str(r), hx(p, 308), hx(q, 33), hx(a, 308), hx(d, 308)]
    if failing(stb99_conjuncts(f, LR)):
        raise RuntimeError("fresh stb99 parameters are not valid")
    ops.append(Op("stb99val " + " ".join(f), "0", "cw:stb99:fresh-valid"))
    # p composite (q | p − 1, a = d^((p−1)/q) computed in Z/p all the same)
    while True:
        k = (rng.getrandbits(l - r) | (1 << (l - r - 1))) & ~1
        pc = q * k + 1
        if pc.bit_length() == l and not is_prime(pc) and math.gcd(pc, 6) == 1:
            dc = rng.randrange(2, pc)
            if math.gcd(dc, pc) == 1:
                ac = mont_pow(pc, l, dc, (pc - 1) // q)
                if ac != R % pc:
                    break
    emit(pc, q, ac, dc, "p-prime")
    # q composite of r bits
    while True:
        qc = rand_prime(rng, r // 2) * rand_prime(rng, r - r // 2)
        if qc.bit_length() == r and qc % 2:
            break
    p2 = _prime_with_factor(rng, l, qc)
    d2 = rng.randrange(2, p2)
    a2 = mont_pow(p2, l, d2, (p2 - 1) // qc)
    if a2 != R % p2:
        emit(p2, qc, a2, d2, "q-prime")
    # q prime of r − 1 bits
    qs = rand_prime(rng, r - 1)
    p3 = _prime_with_factor(rng, l, qs)
    d3 = rng.randrange(2, p3)
    a3 = mont_pow(p3, l, d3, (p3 - 1) // qs)
    if a3 != R % p3:
        emit(p3, qs, a3, d3, "q-bits")
    # p of l − 1 bits
    p4 = _prime_with_factor(rng, l - 1, q)
    d4 = rng.randrange(2, p4)
    a4 = mont_pow(p4, l, d4, (p4 - 1) // q)
    if a4 != R % p4:
        emit(p4, q, a4, d4, "p-bits")
    # q does not divide p − 1 (a consistent with the truncated quotient)
    q5 = rand_prime(rng, r)
    while (p - 1) % q5 == 0:
        q5 = rand_prime(rng, r)
    emit(p, q5, mont_pow(p, l, d, (p - 1) // q5), d, "q|p-1")
    # d >= p (same residue), d = 0 (a = 0 follows), d a q-th power (a = e), a altered
    if d + p < (1 << (8 * ((l + 7) // 8))):
        emit(p, q, a, d + p, "d<p")
    emit(p, q, 0, 0, "d!=0", note="a = d = 0 (docs/C12.fix-3.diff)")
    h = rng.randrange(2, p)
    dq = mont_pow(p, l, h, q)
    emit(p, q, R % p, dq, "x!=e", note="d is a q-th power in B_p: d^((p-1)/q) = e")
    emit(p, q, (a + 1) % p or 1, d, "a=x")
    # unused octets
    f2 = list(f)
    b = bytearray.fromhex(f2[2])
    b[(l + 7) // 8] ^= 1
    f2[2] = b.hex()
    if failing(stb99_conjuncts(f2, LR)) == ["tails"]:
        ops.append(Op("stb99val " + " ".join(f2), "502", "cw:stb99:tails"))
    return ops


def pfok_conjuncts(f, LR):
    l, r, n = int(f[0]), int(f[1]), int(f[2])
    c = {"(l,r)": (l, r) in LR}
    if not c["(l,r)"]:
        return c
    no = (l + 7) // 8
    p, g = lev(f[3][: 2 * no]), lev(f[4][: 2 * no])
    c["n<l"] = n < l
    c["tails"] = not (int(f[3][2 * no:] or "0", 16) or int(f[4][2 * no:] or "0", 16))
    c["p-shape"] = p % 4 == 3 and p.bit_length() == l
    c["g!=0"] = g != 0
    c["g<p"] = g < p
    if p < 7 or p % 2 == 0:
        return c
    c["p-prime"] = is_prime(p)
    c["q-prime"] = is_prime((p - 1) // 2)
    x = mont_pow(p, l, g % p, (p - 1) // 2)
    c["g^q!=e"] = x != (1 << (l + 2)) % p
    c["g^q!=g"] = x != g
    return c


def pfok_cw_ops(rng, tier, LR, std_f):
    """std_f = the standard "test" parameters [l, r, n, p, g] (a safe prime is needed: taken from the standard set)"""
    ops = []
    l, r, n = int(std_f[0]), int(std_f[1]), int(std_f[2])
    no = (l + 7) // 8
    p, g = lev(std_f[3][: 2 * no]), lev(std_f[4][: 2 * no])
    R = (1 << (l + 2)) % p

    def emit(pp, gg, conj, nn=n, note=""):
        f = [str(l), str(r), str(nn), hx(pp, 368), hx(gg, 368)]
        fl = failing(pfok_conjuncts(f, LR))
        if fl != [conj]:
            raise RuntimeError("pfok witness for %s fails %r" % (conj, fl))
        ops.append(Op("pfokval " + " ".join(f), "502", "cw:pfok:" + conj, note=note))
    emit(p, g, "n<l", nn=l)
    if g + p < (1 << (8 * no)):
        emit(p, g + p, "g<p")
    h = rng.randrange(2, p)
    emit(p, h * h * pow(1 << (l + 2), -1, p) % p, "g^q!=e", note="g = h∘h is a square in B_p")
    emit(p, p - R, "g^q!=g", note="g = −e (seeded C12-m6)")
    # p = 2q + 1 composite with q prime; p prime with (p − 1)/2 composite
    lo = 1 << (l - 2)
    for conj in ("p-prime", "q-prime"):
        while True:
            q = (rng.getrandbits(l - 1) % lo + lo) | 1
            pp = 2 * q + 1
            if pp.bit_length() != l or pp % 4 != 3:
                continue
            if conj == "p-prime" and is_prime(q) and not is_prime(pp) and math.gcd(pp, 6) == 1:
                break
            if conj == "q-prime" and is_prime(pp) and not is_prime(q):
                break
        Rp = (1 << (l + 2)) % pp
        while True:
            gg = rng.randrange(2, pp)
            if math.gcd(gg, pp) != 1:
                continue
            x = mont_pow(pp, l, gg, (pp - 1) // 2)
            if x != Rp and x != gg:
                break
        emit(pp, gg, conj)
    f2 = [str(l), str(r), str(n), std_f[3], std_f[4]]
    b = bytearray.fromhex(f2[3])
    b[no + 1] ^= 4
    f2[3] = b.hex()
    if failing(pfok_conjuncts(f2, LR)) == ["tails"]:
        ops.append(Op("pfokval " + " ".join(f2), "502", "cw:pfok:tails"))
    return ops


# --------------------------------------------------------------------------------------------------- the table
# validator -> [(conjunct, class of the witness in the stream or None, remark)]
CONJUNCTS = {
    "g12sParamsVal": [
        ("l in {256, 512}", "g12s-*:l", "l altered (the other conditions are not defined without l)"),
        ("p odd, > 3 / p prime", None, "a composite modulus carrying a point of prime order q with Hasse and MOV satisfied is not constructible cheaply"),
        ("bit length of p", None, "implied by the bit length of q and the Hasse bound: no exact witness exists"),
        ("a, b < p", "g12s-*:ab:a>=p", "a + p where it fits the octets (same residue)"),
        ("xP, yP < p", "g12s-*:base:x>=p", "x + p / y + p where they fit"),
        ("q != 0, n != 0", None, "implied by the Hasse bound (n·q = 0 violates it)"),
        ("bit length of q / q odd", None, "q odd is implied by q prime; a group with a short prime order needs a cofactor-4 curve with known order (not available)"),
        ("4a^3 + 27b^2 != 0", None, "on a singular curve the group order is p or p ± 1: q != p resp. MOV fail as well — no exact witness exists"),
        ("P on the curve", None, "an off-curve point annihilated by q under the curve's formulas is not constructible cheaply"),
        ("Hasse bound", "g12s-*:cofactor:1->2", "cofactor altered, q and P unchanged"),
        ("q prime", None, "n·q is pinned by Hasse; a composite odd order needs a curve with #E = 3·q0 and known order"),
        ("q != p", None, "needs an anomalous curve"),
        ("MOV", None, "needs a pairing-friendly ordinary curve (supersingular ones have j in {0, 1728} and fail that conjunct too)"),
        ("q P = O", None, "on the standard curves (cofactor 1) every point has order q"),
        ("a != 0 (j != 0)", "cw:g12s:a!=0", "CM curve y^2 = x^3 + b over 4p = L^2 + 27M^2"),
        ("b != 0 (j != 1728)", "cw:g12s:b!=0", "CM curve y^2 = x^3 + ax over p = A^2 + B^2"),
    ],
    "bignParamsVal / bign96ParamsVal": [
        ("l", "bign-*:l", ""),
        ("p = 3 (mod 4), sizes of p and q, q odd", None, "p, q are pinned by the seed relation and the group order"),
        ("unused octets zero", "bign-*:tail-q", "one bit in the unused tail (bign96 ignores the tails)"),
        ("a, b, yG < p", None, "p is within 2^-100 of 2^(2l): x + p does not fit the octets"),
        ("b = hash(p, a, seed) mod p", "bign-*:flip-seed", "a bit of seed: only the hash relation changes"),
        ("p prime / non-singular / q prime / q != p / MOV / b a square", None, "needs another curve with known order for the same seed relation"),
        ("yG = b^((p+1)/4)", "bign-*:yG:neg", "p − yG: still a square root, still of order q (seeded C12-m7)"),
        ("q G = O", None, "prime group order: every point has order q"),
    ],
    "dstuParamsVal": [
        ("field description admissible", "dstu-*:field:k3=0", ""),
        ("order longer than 160 bits", None, "standard orders have at least 163 bits"),
        ("modulus irreducible", None, "a reducible modulus with a point satisfying all the rest is not constructible cheaply"),
        ("B != 0", "dstu-*:B=0", "also takes the base point off the curve: not exact"),
        ("P on the curve", "dstu-*:base:y^1", "not exact: n·P = O fails as well"),
        ("Hasse bound", "dstu-*:cofactor:+1", "cofactor altered only"),
        ("n prime / n != 2^m / MOV", None, "n·c is pinned by Hasse"),
        ("n P = O", "cw:dstu:nP=O", "a point of the curve outside the subgroup as base point (cofactor 2 or 4)"),
    ],
    "stb99ParamsVal": [(c, "cw:stb99:" + c, "") for c in
                       ("tails", "p-bits", "p-prime", "q-bits", "q-prime", "q|p-1", "d<p", "d!=0", "x!=e", "a=x")] +
                      [("(l, r) in the table", "stb99-*:lr:r+1", "not exact: the length of q fails too")],
    "pfokParamsVal": [(c, "cw:pfok:" + c, "") for c in ("n<l", "tails", "g<p", "p-prime", "q-prime", "g^q!=e", "g^q!=g")] +
                     [("p = 3 (mod 4), top bits 001", None, "p = 2q + 1 with q odd forces p = 3 (mod 4); another length needs a fresh safe prime (minutes)"),
                      ("g != 0", None, "g = 0 also gives g^q = g")],
}


def report(ops):
    """per validator and conjunct: is a witness class present in the stream?"""
    import fnmatch
    classes = set(o.klass for o in ops)
    out = {}
    for v, lst in CONJUNCTS.items():
        rows = []
        for conj, pat, remark in lst:
            present = bool(pat) and any(fnmatch.fnmatch(k, pat) for k in classes)
            rows.append({"conjunct": conj, "witness": (pat if present else None), "remark": remark})
        out[v] = rows
    return out


def dstu_order_witness(rng, f, W=64):
    """a standard DSTU curve with a base point ON the curve but outside the subgroup of order n"""
    from C12_val import dstu_field, Ec2, Gf2
    p0, p1, p2, p3, A = [int(x) for x in f[:5]]
    md = dstu_field(W, p0, p1, p2, p3)
    no = (p0 + 7) // 8
    B, n = lev(f[5][: 2 * no]), lev(f[6][: 2 * no])
    E = Ec2(Gf2(md), A, B)
    for _ in range(60):
        P = E.lift_x(rng.getrandbits(p0))
        if P is not None and E.mul(n, P) is not None:
            g = list(f)
            g[8] = hx(P[0], no) + hx(P[1], no) + "00" * (128 - 2 * no)
            return [Op("dstuval " + " ".join(g), "502", "cw:dstu:nP=O", note="base point on the curve, outside the subgroup")]
    return []


def generate(ctx, std, lr_stb, lr_pfok):
    rng, tier = ctx.rng, ctx.tier
    ops = g12s_cm_ops(rng, tier)
    ops += stb99_cw_ops(rng, tier, lr_stb)
    ops += pfok_cw_ops(rng, tier, lr_pfok, std[("pfok", "test")][:5])
    ops += dstu_order_witness(rng, std[("dstu", "1.2.804.2.1.1.1.1.3.1.1.1.2.0")])
    return ops

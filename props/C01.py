"""C01 -- belt: every mechanism computes what STB 34.101.31 defines; decrypt inverts encrypt;
authenticated unwrap accepts only genuine triples.

Proof : lean/Bee2V/C01/Props.lean (+ PropsModes/PropsAead/...), theorems over ALL keys, IVs, lengths.
Tie (a): tables H, H5, H13, H21, H29 and the constants of beltFMTCalcB are regenerated from
         belt_block.c / belt_fmt.c on every run (xlate/x_c01_tables.py) -> Bee2V/Gen/C01Tables.lean.
Tie (b): correspondence: the same op lines (docs/C01.protocol.md) go to harness/c01.c (real library,
         static functions reached by #include, ASan, exact-size buffers; configs asan = 64-bit words
         and w32 = 32-bit words) and to the compiled Lean model drv_c01; outputs are diffed.
Search : property tests on the implementation alone (Decr(Encr x) == x, Unwrap(Wrap) == ok,
         forged token rejected, CTR keystream block i == E_K(E_K(iv) + i), FMT block count ==
         min{b | mod^count <= 2^(64b)} by Python big integers, appendix vectors of the standard).
"""
import os, sys, re, importlib
import vcommon
from vcommon import VERIF

PROPS = ["Bee2V/C01/Props.lean"]
for _f in ("PropsModes", "PropsStream", "PropsAead", "PropsWbl", "PropsFmt", "PropsLcl", "PropsSpec", "PropsChunk", "PropsFmt2", "PropsPoly", "PropsSpecHash", "PropsTag", "PropsFmt3", "PropsWblR", "PropsLen"):
    if os.path.exists(os.path.join(VERIF, "lean", "Bee2V", "C01", _f + ".lean")) and _f not in os.environ.get("C01_SKIP_PROPS", "").split(","):
        PROPS.append("Bee2V/C01/%s.lean" % _f)

H = bytes.fromhex(
    "B194BAC80A08F53B366D008E584A5DE48504FA9D1BB6C7AC252E72C202FDCE0D"
    "5BE3D61217B96181FE6786AD716B890B5CB0C0FF33C356B835C405AED8E07F99"
    "E12BDC1AE28257EC703FCCF095EE8DF1C1AB76389FE678CAF7C6F860D5BB9C4F"
    "F33C657B637C306ADD4EA7799EB23D313E98B56E27D3BCCF591E181F4C5AB793"
    "E9DEE72C8F0C0FA62DDB49F46F73964706075316ED247A3739CBA38303A98BF6"
    "92BD9B1CE5D1410154 45FBC95E4D0EF2682080AA227D642F2687F93490405511"
    "BE32971343FC9A48A02A885F194B09A17ECDA4D01544AF8CA58450BF66D2E88A"
    "A2D7465242A8DFB3 6974C551EB2329 21D4EFD9B43A6228759114 10EA776CDA1D".replace(" ", ""))
assert len(H) == 256


def regen(ctx):
    import x_c01_tables as xt
    importlib.reload(xt)
    ctx.regen("Bee2V/Gen/C01Tables.lean", xt.generate())
    ctx.regen("Bee2V/Gen/C01Fmt.lean", xt.generate_fmt())


# ------------------------------------------------------------------ generator helpers

def hx(b):
    return b.hex() if len(b) else "-"


class Gen:
    def __init__(self, ctx, exe, w):
        self.ctx, self.rng, self.exe, self.w = ctx, ctx.rng, exe, w
        self.cov = {}

    def note(self, k, n=1):
        self.cov[k] = self.cov.get(k, 0) + n

    def rb(self, n):
        r = self.rng.random()
        if n and r < 0.04:
            return bytes(n)
        if n and r < 0.08:
            return b"\xff" * n
        return bytes(self.rng.getrandbits(8) for _ in range(n))

    def key(self, klen=None):
        return self.rb(klen or self.rng.choice((16, 24, 32)))

    def split(self, data, minfirst=0, block=1, maxparts=6):
        """random partition of data into <= maxparts chunks (each a multiple of `block` except the last)"""
        n = len(data)
        k = self.rng.randint(1, maxparts)
        cuts = sorted(set(self.rng.randrange(0, n // block + 1) * block for _ in range(k - 1)))
        cuts = [c for c in cuts if minfirst <= c <= n]
        parts, prev = [], 0
        for c in cuts + [n]:
            parts.append(data[prev:c])
            prev = c
        return parts

    def cimpl(self, lines):
        """ask the implementation (used to place counters by inverting E_K)"""
        out, err, rc = self.ctx.run_lines(self.exe, lines)
        if rc != 0 or len(out) != len(lines):
            raise RuntimeError("harness failed while preparing inputs: " + err[-300:])
        return out


def counters_near_wrap(rng):
    """128-bit counter values c (= E_K(iv)) such that c+1, c+2, ... carry across limbs / wrap"""
    M = 1 << 128
    out = []
    for j in range(0, 4):
        out.append((M - 1 - j) % M)                                   # full 128-bit wrap inside the message
    for limb in (1, 2, 3):
        hi = rng.getrandbits(128 - 32 * limb) << (32 * limb)
        for j in (0, 1, 2):
            out.append(hi | ((1 << (32 * limb)) - 1 - j))             # carry out of `limb` low limbs
    out.append(((1 << 96) - 1) << 32 | 0xFFFFFFFE)                    # ...then all
    out.append((0xFFFFFFFF << 96) | rng.getrandbits(96))
    return out


def cut_sets(big, bs=16):
    """Systematic fragmentations of short messages around the block boundary: tuples of fragment lengths.
    Every 2-way cut (a | L-a, a = 0..L, so empty fragments included) of every length L up to 2*bs+9 (3*bs+2 in the
    thorough tier); every 3-way cut with both cut points taken from the boundary set {0,1,2, bs-2..bs+2, 2bs-1..2bs+2,
    3bs-1,3bs, L-1, L} for lengths around each block boundary (thorough: every 3-way cut of every length up to 2*bs+2).
    The class aimed at: a fragment ending inside a block (a reserve / a partly filled block is kept in the state) followed
    by a fragment shorter than, equal to, or LONGER than the leftover, or ending exactly on a block boundary."""
    out = []
    for L in range(0, (3 * bs + 2 if big else 2 * bs + 9) + 1):
        for a in range(0, L + 1):
            out.append((a, L - a))
    lens3 = list(range(0, 2 * bs + 3)) if big else [1, 2, bs - 1, bs, bs + 1, bs + 2, 2 * bs - 1, 2 * bs, 2 * bs + 1, 2 * bs + 2, 3 * bs, 3 * bs + 1]
    for L in lens3:
        if big:
            pts = list(range(0, L + 1))
        else:
            pts = sorted({q for q in (0, 1, 2, bs - 2, bs - 1, bs, bs + 1, bs + 2, 2 * bs - 1, 2 * bs, 2 * bs + 1, 2 * bs + 2,
                                        3 * bs - 1, 3 * bs, L - 1, L) if 0 <= q <= L})
        for i, a in enumerate(pts):
            for b in pts[i:]:
                out.append((a, b - a, L - b))
    return out


def frag(data, cut):
    parts, pos = [], 0
    for n in cut:
        parts.append(data[pos:pos + n])
        pos += n
    return parts


def sweep_pairs(g, big, thin=1):
    """(fragmented Step-level op, one-shot high-level op, kind) for the unauthenticated streaming bundles"""
    pairs = []
    cuts16 = cut_sets(big, 16)[::thin]
    k, iv = g.key(), g.rb(16)
    for i, c in enumerate(cuts16):
        if i % 50 == 0:
            k, iv = g.key(), g.rb(16)
        m = g.rb(sum(c))
        ps = " ".join(hx(x) for x in frag(m, c))
        pairs.append(("ctrS %s %s %s" % (hx(k), hx(iv), ps), "ctr %s %s %s" % (hx(k), hx(iv), hx(m)), "stream2"))
        pairs.append(("cfbS E %s %s %s" % (hx(k), hx(iv), ps), "cfb E %s %s %s" % (hx(k), hx(iv), hx(m)), "stream"))
        pairs.append(("cfbS D %s %s %s" % (hx(k), hx(iv), ps), "cfb D %s %s %s" % (hx(k), hx(iv), hx(m)), "stream"))
        pairs.append(("macS %s %s G" % (hx(k), ps), "mac %s %s" % (hx(k), hx(m)), "tag"))
    for i, c in enumerate(cut_sets(big, 32)[::2 * thin]):
        m = g.rb(sum(c))
        ps = " ".join(hx(x) for x in frag(m, c))
        kk = g.rb((0, 7, 32, 33)[i % 4])
        pairs.append(("hashS %s G" % ps, "hash %s" % hx(m), "tag"))
        pairs.append(("hmacS %s %s G" % (hx(kk), ps), "hmac %s %s" % (hx(kk), hx(m)), "tag"))
    # block-wise bundles: every cut at a block boundary, ragged tail only in the last fragment
    for nb in range(2, 6):
        for tail in (0, 1, 15):
            for a in range(1, nb + 1):
                for b in range(a, nb + 1):
                    cut = [16 * a, 16 * (b - a), 16 * (nb - b) + tail]
                    if cut[-1] == 0:
                        cut = cut[:-1]
                    cut = [x for j, x in enumerate(cut) if x or j == len(cut) - 1]
                    if any(x < 16 for x in cut):
                        continue
                    k, iv = g.key(), g.rb(16)
                    m = g.rb(sum(cut))
                    ps = " ".join(hx(x) for x in frag(m, cut))
                    for mode in "ED":
                        # ECB: fragments are independent; CBC: chained through st->block
                        pairs.append(("ecbS %s %s %s" % (mode, hx(k), ps), "ecb %s %s %s" % (mode, hx(k), hx(m)), "stream0"))
                        pairs.append(("cbcS %s %s %s %s" % (mode, hx(k), hx(iv), ps), "cbc %s %s %s %s" % (mode, hx(k), hx(iv), hx(m)), "stream0"))
                        if tail == 0:
                            pairs.append(("bdeS %s %s %s %s" % (mode, hx(k), hx(iv), ps), "bde %s %s %s %s" % (mode, hx(k), hx(iv), hx(m)), "stream0"))
    return pairs


def stream_payload(kind, out):
    """the octets a fragmented op produced (state tokens stripped) / the tag"""
    t = out.split()
    if kind == "stream":
        return "".join(c for c in t[:-1] if c != "-")
    if kind == "stream2":
        return "".join(c for c in t[:-2] if c != "-")
    if kind == "stream0":
        return "".join(c for c in t if c != "-")
    return t[-1] if t else ""


def sweep_aead(g, big, run, thin=1):
    """DWP / CHE: (Step-level op, expected output) -- the expectation comes from the one-shot Wrap of the implementation.
    E: encrypt in fragments == ciphertext of Wrap;  AD: absorb + decrypt the ciphertext in fragments (I split too) ==
    plaintext and tag of Wrap;  I: associated data in fragments == tag of Wrap."""
    cuts = cut_sets(big, 16)[::thin]
    res = []
    for name in ("dwp", "che"):
        ws, meta = [], []
        k, iv = g.key(), g.rb(16)
        for i, c in enumerate(cuts):
            if i % 50 == 0:
                k, iv = g.key(), g.rb(16)
            pt = g.rb(sum(c))
            c2 = cuts[(7 * i + 3) % len(cuts)]
            ad = g.rb(sum(c2))
            pt3 = g.rb((0, 5, 16, 21)[i % 4])
            ws.append("%s W %s %s %s -" % (name, hx(k), hx(iv), hx(pt)))
            ws.append("%s W %s %s %s %s" % (name, hx(k), hx(iv), hx(pt), hx(ad)))
            ws.append("%s W %s %s %s %s" % (name, hx(k), hx(iv), hx(pt3), hx(pt)))
            meta.append((k, iv, c, pt, c2, ad, pt3))
        outs = run(ws)
        for j, (k, iv, c, pt, c2, ad, pt3) in enumerate(meta):
            o1, o2, o3 = outs[3 * j].split(), outs[3 * j + 1].split(), outs[3 * j + 2].split()
            if len(o1) != 3 or len(o2) != 3 or len(o3) != 3 or o1[0] != "ok" or o2[0] != "ok" or o3[0] != "ok":
                res.append((ws[3 * j], "ok"))          # a valid Wrap call was not accepted
                continue
            head = "%sS %s %s " % (name, hx(k), hx(iv))
            pf = frag(pt, c)
            res.append((head + " ".join("E" + hx(x) for x in pf), " ".join(hx(x) for x in frag(bytes.fromhex(o1[1]) if o1[1] != "-" else b"", c))))
            ct = bytes.fromhex(o2[1]) if o2[1] != "-" else b""
            toks = ["I" + hx(x) for x in frag(ad, c2)]
            for x in frag(ct, c):
                toks += ["A" + hx(x), "D" + hx(x)]
            res.append((head + " ".join(toks + ["G"]), " ".join([hx(x) for x in pf] + [o2[2]])))
            ct3 = o3[1]
            res.append((head + " ".join(["I" + hx(x) for x in pf] + ["A" + ct3, "G"]), o3[2]))
    return res


def gen_ops(ctx, exe, w, tier):
    g = Gen(ctx, exe, w)
    rng = ctx.rng
    ops = []
    big = tier == "thorough"

    # -- tables, key schedule, G, block
    for t in ("H", "H5", "H13", "H21", "H29"):
        ops.append("tab " + t)
    for kl in (16, 24, 32):
        for _ in range(3):
            k = g.key(kl)
            ops.append("kexp " + hx(k))
            b = g.rb(16)
            ops.append("blk E %s %s" % (hx(k), hx(b)))
            ops.append("blk D %s %s" % (hx(k), hx(b)))
    for r in (5, 13, 21):
        for x in [0, 1, 255, 256, 0xFFFFFFFF, 0x80000000, 0x00FF00FF] + [rng.getrandbits(32) for _ in range(12)]:
            ops.append("g %d %d" % (r, x))
        for byte in range(4):       # every table index in every byte lane
            for v in range(0, 256, 1 if big else 5):
                ops.append("g %d %d" % (r, v << (8 * byte)))
    for _ in range(200 if big else 40):
        ops.append("blk %s %s %s" % (rng.choice("ED"), hx(g.key()), hx(g.rb(16))))

    # -- low-level helpers: increment, MulC, AddBitSize, PolyMul
    M = 1 << 128
    incs = [0, 1, M - 1, M - 2, (1 << 32) - 1, (1 << 64) - 1, (1 << 96) - 1, (1 << 96) - (1 << 32) - 1 + (1 << 32),
            ((1 << 64) - 1) << 32, 0xFFFFFFFF00000000FFFFFFFF] + [rng.getrandbits(128) for _ in range(8)]
    for v in incs:
        ops.append("inc " + (v % M).to_bytes(16, "little").hex())
    for v in [0, 1, 1 << 127, (1 << 127) | 1, M - 1, 1 << 31, 1 << 63, 1 << 95] + [rng.getrandbits(128) for _ in range(10)]:
        ops.append("mulc " + v.to_bytes(16, "little").hex())
    counts = [0, 1, 15, 16, 31, 32, (1 << 29) - 1, 1 << 29, (1 << 29) + 1, (1 << 32) - 1, 1 << 32, (1 << 61) - 1, 1 << 61,
              (1 << 61) + 5, (1 << 64) - 1, (1 << 63), 0x1FFFFFFFFFFFFFFF, 0x2000000000000000 - 1] + \
             [rng.getrandbits(rng.choice((8, 29, 30, 33, 61, 62, 64))) for _ in range(20)]
    blocks = [0, M - 1, (1 << 32) - 1, (1 << 32) - 8, (1 << 64) - 1, (1 << 64) - 8, (1 << 96) - 1, (1 << 96) - 8,
              M - 8, ((1 << 32) - 1) << 32, ((1 << 64) - 1) << 32] + [rng.getrandbits(128) for _ in range(6)]
    for c in counts:
        for b in rng.sample(blocks, 5) + [blocks[1], blocks[8]]:
            ops.append("abU %s %d" % (b.to_bytes(16, "little").hex(), c))
            hb = b % (1 << 64)
            ops.append("abW %d %s %d" % (w, hb.to_bytes(8, "little").hex(), c))
        g.note("addbitsize_counts")
    for _ in range(60 if big else 25):
        a, b = g.rb(16), g.rb(16)
        if rng.random() < 0.3:
            a = (1 << rng.randrange(128)).to_bytes(16, "little")
        if rng.random() < 0.3:
            b = (1 << rng.randrange(128)).to_bytes(16, "little")
        ops.append("pmul %s %s" % (hx(a), hx(b)))
    for _ in range(12):
        ops.append("compr %s %s" % (hx(g.rb(32)), hx(g.rb(32))))
        ops.append("compr2 %s %s %s" % (hx(g.rb(16)), hx(g.rb(32)), hx(g.rb(32))))

    # -- ECB / CBC: every length 16..80 (CTS 17..47 every value), 3 key lengths
    for kl in (16, 24, 32):
        lens = list(range(16, 81)) + [96, 100, 111, 112, 113, 128, 160, 161]
        for n in lens:
            k, iv, m = g.key(kl), g.rb(16), g.rb(n)
            for mode in "ED":
                ops.append("ecb %s %s %s" % (mode, hx(k), hx(m)))
                ops.append("cbc %s %s %s %s" % (mode, hx(k), hx(iv), hx(m)))
            g.note("cts_tail_%d" % (n % 16))
    for n in (0, 1, 15):                    # rejected lengths
        for mode in "ED":
            ops.append("ecb %s %s %s" % (mode, hx(g.key()), hx(g.rb(n))))
            ops.append("cbc %s %s %s %s" % (mode, hx(g.key()), hx(g.rb(16)), hx(g.rb(n))))
    for kl in (0, 15, 17, 23, 25, 31, 33, 64):  # rejected key lengths
        ops.append("ecb E %s %s" % (hx(g.rb(kl)), hx(g.rb(32))))
        ops.append("cbc D %s %s %s" % (hx(g.rb(kl)), hx(g.rb(16)), hx(g.rb(32))))
        ops.append("cfb E %s %s %s" % (hx(g.rb(kl)), hx(g.rb(16)), hx(g.rb(20))))
        ops.append("ctr %s %s %s" % (hx(g.rb(kl)), hx(g.rb(16)), hx(g.rb(20))))
        ops.append("mac %s %s" % (hx(g.rb(kl)), hx(g.rb(20))))
        ops.append("bde E %s %s %s" % (hx(g.rb(kl)), hx(g.rb(16)), hx(g.rb(32))))
        ops.append("sde D %s %s %s" % (hx(g.rb(kl)), hx(g.rb(16)), hx(g.rb(32))))
        ops.append("kwp W %s N %s" % (hx(g.rb(kl)), hx(g.rb(32))))
        ops.append("kwp U %s N %s" % (hx(g.rb(kl)), hx(g.rb(48))))
        ops.append("dwp W %s %s %s %s" % (hx(g.rb(kl)), hx(g.rb(16)), hx(g.rb(5)), hx(g.rb(5))))
        ops.append("che U %s %s %s %s %s" % (hx(g.rb(kl)), hx(g.rb(16)), hx(g.rb(5)), hx(g.rb(5)), hx(g.rb(8))))
        ops.append("fmt E 10 %s N %s" % (hx(g.rb(kl)), "01000200"))
    # step-level: several fragments (each >= 16, ragged tail only in the last)
    for _ in range(60 if big else 25):
        k, iv = g.key(), g.rb(16)
        nfr = rng.randint(1, 4)
        chunks = [g.rb(16 * rng.randint(1, 3)) for _ in range(nfr - 1)] + [g.rb(rng.randint(16, 47))]
        for mode in "ED":
            ops.append("ecbS %s %s %s" % (mode, hx(k), " ".join(hx(c) for c in chunks)))
            ops.append("cbcS %s %s %s %s" % (mode, hx(k), hx(iv), " ".join(hx(c) for c in chunks)))

    # -- CFB / CTR: every length 0..80; fragments at every `reserved`
    for kl in (16, 24, 32):
        for n in list(range(0, 81)) + [95, 96, 97, 127, 128, 129, 200]:
            k, iv, m = g.key(kl), g.rb(16), g.rb(n)
            ops.append("cfb E %s %s %s" % (hx(k), hx(iv), hx(m)))
            ops.append("cfb D %s %s %s" % (hx(k), hx(iv), hx(m)))
            ops.append("ctr %s %s %s" % (hx(k), hx(iv), hx(m)))
    for _ in range(80 if big else 30):
        k, iv = g.key(), g.rb(16)
        m = g.rb(rng.randint(0, 90))
        parts = g.split(m)
        ps = " ".join(hx(c) for c in parts)
        ops.append("cfbS E %s %s %s" % (hx(k), hx(iv), ps))
        ops.append("cfbS D %s %s %s" % (hx(k), hx(iv), ps))
        ops.append("ctrS %s %s %s" % (hx(k), hx(iv), ps))
        g.note("stream_fragments", len(parts))
    # systematic fragment sweep (all 2-way / boundary 3-way cuts, empty fragments included) of every streaming bundle
    thin = 1 if w == 64 else 3                 # the 32-bit-word build gets every third split
    sp = sweep_pairs(g, big, thin)
    for a, b, kind in sp:
        ops.append(a)
    sa = sweep_aead(g, big, g.cimpl, thin)
    for a, e in sa:
        ops.append(a)
    g.note("sweep_splits_stream", len(sp))
    g.note("sweep_splits_aead", len(sa))
    # CTR counters placed just below a wrap by inverting E_K on the implementation
    ctrs, qs = [], []
    for c in counters_near_wrap(rng):
        k = g.key()
        ctrs.append((k, c))
        qs.append("blk D %s %s" % (hx(k), c.to_bytes(16, "little").hex()))
    ivs = g.cimpl(qs)
    for (k, c), iv in zip(ctrs, ivs):
        for n in (15, 16, 17, 33, 48, 65, 80):
            ops.append("ctr %s %s %s" % (hx(k), iv, hx(g.rb(n))))
        ops.append("ctrS %s %s %s %s %s" % (hx(k), iv, hx(g.rb(7)), hx(g.rb(30)), hx(g.rb(16))))
        ops.append("dwp W %s %s %s %s" % (hx(k), iv, hx(g.rb(50)), hx(g.rb(3))))
        g.note("ctr_wrap_ivs")

    # -- MAC / hash / HMAC: every length 0..80, fragments, truncated tags, verification
    for kl in (16, 24, 32):
        for n in list(range(0, 81)) + [95, 96, 97, 128, 129]:
            ops.append("mac %s %s" % (hx(g.key(kl)), hx(g.rb(n))))
    for n in list(range(0, 100)) + [127, 128, 129, 160, 191, 192, 193, 256, 300]:
        ops.append("hash %s" % hx(g.rb(n)))
    for kn in list(range(0, 70)) + [95, 96, 97, 128, 200]:
        ops.append("hmac %s %s" % (hx(g.rb(kn)), hx(g.rb(rng.randint(0, 70)))))
    for n in range(0, 70):
        ops.append("hmac %s %s" % (hx(g.rb(rng.choice((0, 16, 32, 33, 64)))), hx(g.rb(n))))
    for _ in range(60 if big else 25):
        m = g.rb(rng.randint(0, 100))
        parts = [hx(c) for c in g.split(m)]
        toks = list(parts)
        for _ in range(rng.randint(0, 2)):
            toks.insert(rng.randrange(len(toks) + 1), rng.choice(["G", "G0", "G3", "G8"]))
        toks.append("G")
        ops.append("macS %s %s" % (hx(g.key()), " ".join(toks)))
        toks = list(parts)
        for _ in range(rng.randint(0, 2)):
            toks.insert(rng.randrange(len(toks) + 1), rng.choice(["G", "G0", "G17", "G32"]))
        toks.append("G")
        ops.append("hashS " + " ".join(toks))
        ops.append("hmacS %s %s" % (hx(g.rb(rng.choice((0, 5, 32, 33, 70)))), " ".join(toks)))

    # -- KRP, PBKDF2
    for n in (16, 24, 32):
        for m in (16, 24, 32, 20, 0, 40):
            ops.append("krp %s %d %s %s" % (hx(g.rb(n)), m, hx(g.rb(12)), hx(g.rb(16))))
    ops.append("krp %s 16 %s %s" % (hx(g.rb(20)), hx(g.rb(12)), hx(g.rb(16))))
    for _ in range(8):
        k = g.key()
        ms = [m for m in (16, 24, 32) if m <= len(k)]
        ops.append("krpS %s %s %s" % (hx(k), hx(g.rb(12)), " ".join("%d %s" % (rng.choice(ms), hx(g.rb(16))) for _ in range(3))))
    for it in (0, 1, 2, 3, 7):
        for pl in (0, 5, 32, 33, 80):
            ops.append("pbkdf %s %d %s" % (hx(g.rb(pl)), it, hx(g.rb(rng.choice((0, 8, 28, 29, 60))))))

    # -- WBL / KWP / SDE: 32..80 every value, 96..208, both sides of the 64/80 switch
    wl = list(range(32, 100)) + list(range(100, 209, 1 if big else 4)) + [112, 128, 144, 160, 176, 192, 208, 256, 400]
    for n in sorted(set(wl)):
        k = g.key()
        b = g.rb(n)
        ops.append("wbl E %s 0 %s" % (hx(k), hx(b)))
        ops.append("wbl D %s 0 %s" % (hx(k), hx(b)))
        ops.append("wblD2 %s %s %s" % (hx(k), hx(b[:-16]), hx(b[-16:])))
        ops.append("wbl EB %s 0 %s" % (hx(k), hx(b)))
        ops.append("wbl DB %s 0 %s" % (hx(k), hx(b)))
        if n % 16 == 0:
            ops.append("wbl EO %s 0 %s" % (hx(k), hx(b)))
            if n >= 48:
                ops.append("wbl DO %s 0 %s" % (hx(k), hx(b)))
            nn = (n + 15) // 16
            ops.append("wbl R %s %d %s" % (hx(k), 2 * nn * rng.randint(0, 5), hx(b)))
            ops.append("wbl R %s %d %s" % (hx(k), rng.randint(0, 2 * nn), hx(b)))
        g.note("wbl_opt" if (n % 16 == 0 and n >= 64) else "wbl_base")
    for kl in (16, 24, 32):
        for n in list(range(16, 100)) + [112, 128, 176, 192]:
            k, src = g.key(kl), g.rb(n)
            hdr = rng.choice(["N", "00" * 16, hx(g.rb(16))])
            ops.append("kwp W %s %s %s" % (hx(k), hdr, hx(src)))
            ops.append("kwp U %s %s %s" % (hx(k), hdr, hx(g.rb(n + 16))))            # random token: rejected
    # genuine tokens (made by the implementation), then: right header, NULL header, other header, bit flips, foreign key
    qs, meta = [], []
    for n in list(range(16, 70, 1 if big else 3)) + [80, 96, 112, 128, 130, 176, 192]:
        k, src = g.key(), g.rb(n)
        hdr = rng.choice(["N", "00" * 16, hx(g.rb(16)), hx(g.rb(16))])
        qs.append("kwp W %s %s %s" % (hx(k), hdr, hx(src)))
        meta.append((k, hdr))
    for (k, hdr), o in zip(meta, g.cimpl(qs)):
        tok = o.split()[1]
        ops.append("kwp U %s %s %s" % (hx(k), hdr, tok))
        ops.append("kwp U %s %s %s" % (hx(k), "N" if hdr != "N" else "00" * 16, tok))
        ops.append("kwp U %s %s %s" % (hx(k), hx(g.rb(16)), tok))
        t = bytearray.fromhex(tok)
        t[rng.randrange(len(t))] ^= 1 << rng.randrange(8)
        ops.append("kwp U %s %s %s" % (hx(k), hdr, t.hex()))
        ops.append("kwp U %s %s %s" % (hx(g.key(len(k))), hdr, tok))
        ops.append("kwp U %s %s %s" % (hx(k), hdr, tok[:-2]))
        g.note("kwp_genuine_tokens")
    for n in (0, 15, 31):
        ops.append("kwp W %s N %s" % (hx(g.key()), hx(g.rb(n))))
        ops.append("kwp U %s N %s" % (hx(g.key()), hx(g.rb(n))))
    for n in [32, 48, 64, 80, 96, 112, 128, 512, 16, 0, 40, 33]:
        for mode in "ED":
            ops.append("sde %s %s %s %s" % (mode, hx(g.key()), hx(g.rb(16)), hx(g.rb(n))))
    for _ in range(6):
        k = g.key()
        ops.append("sdeS %s %s %s" % (rng.choice("ED"), hx(k), " ".join("%s %s" % (hx(g.rb(16)), hx(g.rb(16 * rng.randint(2, 7)))) for _ in range(3))))
    for n in [16, 32, 48, 160, 0, 8, 17]:
        for mode in "ED":
            ops.append("bde %s %s %s %s" % (mode, hx(g.key()), hx(g.rb(16)), hx(g.rb(n))))
    for _ in range(6):
        ops.append("bdeS %s %s %s %s" % (rng.choice("ED"), hx(g.key()), hx(g.rb(16)), " ".join(hx(g.rb(16 * rng.randint(0, 3))) for _ in range(3))))

    # -- DWP / CHE: the complete grid |associated data| 0..48 x |critical data| 0..48, one-shot Wrap and fragmented
    #    Step interface (I / A / D with a cut inside each part); every third pair in the 32-bit-word build
    for name in ("dwp", "che"):
        k, iv = g.key(), g.rb(16)
        for na in range(0, 49):
            for nc in range(0, 49):
                if w != 64 and (na + nc) % 3:
                    continue
                if (na * 49 + nc) % 97 == 0:
                    k, iv = g.key(), g.rb(16)
                ad, ct = g.rb(na), g.rb(nc)
                ops.append("%s W %s %s %s %s" % (name, hx(k), hx(iv), hx(ct), hx(ad)))
                ca, cc = (na * 7 + nc) % (na + 1), (nc * 5 + na) % (nc + 1)
                toks = ["I" + hx(ad[:ca]), "I" + hx(ad[ca:])]
                for x in (ct[:cc], ct[cc:]):
                    toks += ["A" + hx(x), "D" + hx(x)]
                ops.append("%sS %s %s %s G" % (name, hx(k), hx(iv), " ".join(toks)))
                g.note("aead_grid")
    # -- DWP / CHE: data and AD lengths straddling 16, fragments with `filled` at every value
    for name in ("dwp", "che"):
        for n1 in list(range(0, 36)) + [47, 48, 49, 64, 100]:
            for n2 in (rng.sample(range(0, 36), 4) + [0, 16]):
                k, iv = g.key(), g.rb(16)
                ops.append("%s W %s %s %s %s" % (name, hx(k), hx(iv), hx(g.rb(n1)), hx(g.rb(n2))))
                ops.append("%s U %s %s %s %s %s" % (name, hx(k), hx(iv), hx(g.rb(n1)), hx(g.rb(n2)), hx(g.rb(8))))
        qs, meta = [], []
        for n1 in list(range(0, 40, 1 if big else 2)) + [64, 65]:
            k, iv, ad = g.key(), g.rb(16), g.rb(rng.choice((0, 1, 15, 16, 17, 31, 32, 33, rng.randint(0, 60))))
            qs.append("%s W %s %s %s %s" % (name, hx(k), hx(iv), hx(g.rb(n1)), hx(ad)))
            meta.append((k, iv, ad))
        for (k, iv, ad), o in zip(meta, g.cimpl(qs)):
            _, ct, tag = o.split()
            ops.append("%s U %s %s %s %s %s" % (name, hx(k), hx(iv), ct, hx(ad), tag))                    # genuine
            tg = bytearray.fromhex(tag)
            tg[rng.randrange(8)] ^= 1 << rng.randrange(8)
            ops.append("%s U %s %s %s %s %s" % (name, hx(k), hx(iv), ct, hx(ad), tg.hex()))               # tag flipped
            ops.append("%s U %s %s %s %s %s" % (name, hx(k), hx(g.rb(16)), ct, hx(ad), tag))              # other iv
            ops.append("%s U %s %s %s %s %s" % (name, hx(g.key(len(k))), hx(iv), ct, hx(ad), tag))        # other key
            ops.append("%s U %s %s %s %s %s" % (name, hx(k), hx(iv), ct, hx(ad + b"\0"), tag))            # AD extended
            if ct != "-":
                c2 = bytearray.fromhex(ct)
                c2[rng.randrange(len(c2))] ^= 1 << rng.randrange(8)
                ops.append("%s U %s %s %s %s %s" % (name, hx(k), hx(iv), c2.hex(), hx(ad), tag))          # ciphertext flipped
                ops.append("%s U %s %s %s %s %s" % (name, hx(k), hx(iv), hx(ad), ct, tag))                # roles swapped
            # step level: decrypt-and-verify in fragments
            cb = bytes.fromhex(ct) if ct != "-" else b""
            toks = ["I" + hx(c) for c in g.split(ad, maxparts=3)]
            for c in g.split(cb, maxparts=3):
                toks += ["A" + hx(c), "D" + hx(c)]
            toks += ["V" + tag, "G"]
            ops.append("%sS %s %s %s" % (name, hx(k), hx(iv), " ".join(toks)))
            g.note(name + "_genuine")
        for _ in range(60 if big else 25):
            k, iv = g.key(), g.rb(16)
            toks = []
            for c in g.split(g.rb(rng.randint(0, 50)), maxparts=4):
                toks.append("I" + hx(c))
            data = g.rb(rng.randint(0, 60))
            for c in g.split(data, maxparts=4):
                toks.append("E" + hx(c))
                toks.append("A" + hx(g.rb(len(c))))
                if rng.random() < 0.2:
                    toks.append("G")
            toks.append("G")
            toks.append("V" + hx(g.rb(8)))
            ops.append("%sS %s %s %s" % (name, hx(k), hx(iv), " ".join(toks[:60])))

    # -- FMT
    for mod, count in fmt_points(rng, big):
        ops.append("fmtB %d %d" % (mod, count))
    for _ in range(150 if big else 60):
        mod = rng.choice([2, 3, 10, 16, 58, 255, 256, 257, 1000, 9973, 32768, 49667, 65535, 65536, rng.randint(2, 65536)])
        count = rng.choice([2, 3, 4, 5, 9, 16, 17, 33, 60, rng.randint(2, 80), rng.randint(2, 600)])
        if rng.random() < 0.1:
            count = rng.choice([319, 320, 321, 599, 600])
        s = fmt_word(rng, mod, count)
        k = g.key()
        iv = rng.choice(["N", hx(g.rb(16))])
        ops.append("fmt E %d %s %s %s" % (mod, hx(k), iv, s))
        ops.append("fmt D %d %s %s %s" % (mod, hx(k), iv, s))
        g.note("fmt_words")
    for mod, count in [(1, 5), (0, 5), (65537, 5), (10, 1), (10, 0), (10, 601), (70000, 700)]:
        ops.append("fmt E %d %s N %s" % (mod, hx(g.key()), "0100" * count if count else "-"))
        ops.append("fmt D %d %s N %s" % (mod, hx(g.key()), "0100" * count if count else "-"))
    for _ in range(10):
        mod = rng.choice([2, 10, 256, 65535, 65536, rng.randint(2, 65536)])
        count = rng.randint(2, 40)
        ops.append("fmtS %s %d %d %s %s" % (rng.choice("ED"), mod, count, hx(g.key()),
                                            " ".join("%s %s" % (rng.choice(["N", hx(g.rb(16))]), fmt_word(rng, mod, count)) for _ in range(3))))
    for _ in range(40):
        mod = rng.choice([2, 10, 255, 256, 65535, 65536, rng.randint(2, 65536)])
        count = rng.randint(1, 30)
        b = max(1, calc_b_exact(mod, count))
        s = fmt_word(rng, mod, count)
        ops.append("s2b %d %d %s" % (b, mod, s))
        binv = g.rb(8 * (b + 1))
        ops.append("b2s A %d %s %s" % (mod, s, hx(binv)))
        ops.append("b2s S %d %s %s" % (mod, s, hx(binv)))
    for _ in range(6):
        ops.append("b32 %s %s" % (hx(g.key()), hx(g.rb(24))))
    return ops, g.cov


def calc_b_exact(mod, count):
    """min { b | mod^count <= 2^(64 b) } with Python integers (search oracle / generator only)"""
    p = mod ** count
    return (max(p - 1, 0).bit_length() + 63) // 64


def fmt_points(rng, big):
    pts = [(49667, 160), (49667, 159), (49667, 161), (49667, 300), (65536, 1), (65536, 300), (2, 1), (2, 300), (3, 300),
           (65535, 300), (65535, 1), (256, 8), (256, 9), (16, 16), (16, 17), (4, 32), (4, 33), (2, 64), (2, 65), (2, 128), (2, 129)]
    for _ in range(3000 if big else 700):
        mod = rng.choice([rng.randint(2, 65536), rng.randint(2, 300), 1 << rng.randint(1, 16), (1 << rng.randint(1, 16)) + rng.choice((-1, 1))])
        mod = min(max(mod, 2), 65536)
        pts.append((mod, rng.randint(1, 300)))
    return pts


def fmt_word(rng, mod, count):
    r = rng.random()
    if r < 0.1:
        v = [0] * count
    elif r < 0.25:
        v = [mod - 1] * count
    elif r < 0.35:
        v = [rng.choice((0, mod - 1)) for _ in range(count)]
    else:
        v = [rng.randrange(mod) for _ in range(count)]
    return b"".join(x.to_bytes(2, "little") for x in v).hex()


# ------------------------------------------------------------------ search oracle (implementation only)

def _h(a, n):
    return H[a:a + n].hex()


def _u16(v):
    return b"".join(int(x).to_bytes(2, "little") for x in v).hex()


K1, K2, IV1, IV2 = _h(128, 32), _h(160, 32), _h(192, 16), _h(208, 16)
def _rot_tab(r):
    out = b""
    for h in H:
        v = ((h << r) | (h >> (32 - r))) & 0xFFFFFFFF
        out += v.to_bytes(4, "little")
    return out.hex()


KAT = [  # the substitution H of the standard and its rotated word tables; then appendix vectors
    ("tab H", H.hex()), ("tab H5", _rot_tab(5)), ("tab H13", _rot_tab(13)), ("tab H21", _rot_tab(21)), ("tab H29", _rot_tab(29)),
    # appendix vectors of STB 34.101.31 as used in test/crypto/belt_test.c (op -> expected output)
    ("blk E %s %s" % (K1, _h(0, 16)), "69cca1c93557c9e3d66bc3e0fa88fa6e"),
    ("blk D %s %s" % (K2, _h(64, 16)), "0dc5300600cab840b38448e5e993f421"),
    ("wbl E %s 0 %s" % (K1, _h(0, 48)), "49a38ee108d6c742e52b774f00a6ef98b106cbd13ea4fb0680323051bc04df76e487b055c69bcf541176169f1dc9f6c8 6"),
    ("wbl E %s 0 %s" % (K1, _h(0, 47)), "f08ef22dcaa06c81fb12721974221ca7ab82c62856fcf2f9fca006e019a28f16e5821a51f573594625dbab8f6a5c94 6"),
    ("wbl D %s 0 %s" % (K2, _h(64, 48)), "92632ee0c21ad9e09a39343e5c07daa4889b03f2e6847eb152ec99f7a4d9f154b5ef68d8e4a39e567153de13d72254ee 0"),
    ("wbl D %s 0 %s" % (K2, _h(64, 36)), "df3f882230baaffc92f05660321172310e3cb2182681ef43102e67175e177bd75e93e4e8 0"),
    ("ecb E %s %s" % (K1, _h(0, 48)), "ok 69cca1c93557c9e3d66bc3e0fa88fa6e5f23102ef109710775017f73806da9dc46fb2ed2ce771f26dcb5e5d1569f9ab0"),
    ("ecb E %s %s" % (K1, _h(0, 47)), "ok 69cca1c93557c9e3d66bc3e0fa88fa6e36f00cfed6d1ca1498c12798f4beb2075f23102ef109710775017f73806da9"),
    ("ecb D %s %s" % (K2, _h(64, 48)), "ok 0dc5300600cab840b38448e5e993f421e55a239f2ab5c5d5fdb6e81b40938e2a54120ca3e6e19c7ad750fc3531daeab7"),
    ("ecb D %s %s" % (K2, _h(64, 36)), "ok 0dc5300600cab840b38448e5e993f4215780a6e2b69eafbb258726d7b6718523e55a239f"),
    ("cbc E %s %s %s" % (K1, IV1, _h(0, 48)), "ok 10116efae6ad58ee14852e11da1b8a745cf2480e8d03f1c19492e53ed3a70f60657c1ee8c0e0ae5b58388bf8a68e3309"),
    ("cbc E %s %s %s" % (K1, IV1, _h(0, 36)), "ok 10116efae6ad58ee14852e11da1b8a746a9bbadcaf73f968f875dedc0a44f6b15cf2480e"),
    ("cbc D %s %s %s" % (K2, IV2, _h(64, 48)), "ok 730894d6158e17cc1600185a8f411cab0471ff85c83792398d8924ebd57d03db95b97a9b7907e4b020960455e46176f8"),
    ("cbc D %s %s %s" % (K2, IV2, _h(64, 36)), "ok 730894d6158e17cc1600185a8f411cabb6ab7af8541cf85755b8ea27239f08d2166646e4"),
    ("cfb E %s %s %s" % (K1, IV1, _h(0, 48)), "ok c31e490a90efa374626cc99e4b7b8540a6e48685464a5a06849c9ca769a1b0ae55c2cc5939303ec832dd2fe16c8e5a1b"),
    ("cfb D %s %s %s" % (K2, IV2, _h(64, 48)), "ok fa9d107a86f375ee65cd1db881224bd016aff814938ed39b3361abb0bf0851b652244eb06842dd4c94aa4500774e40bb"),
    ("ctr %s %s %s" % (K1, IV1, _h(0, 48)), "ok 52c9af96ff50f64435fc43def56bd797d5b5b1ff79fb41257ab9cdf6e63e81f8f00341473eae409833622de05213773a"),
    ("ctr %s %s %s" % (K2, IV2, _h(64, 44)), "ok df181ed008a20f43dcbbb93650dad34b389cdee5826d40e2d4bd80f49a93f5d212f6333166456f169043cc5f"),
    ("kwp W %s %s %s" % (K1, _h(32, 16), _h(0, 32)), "ok 49a38ee108d6c742e52b774f00a6ef98b106cbd13ea4fb0680323051bc04df76e487b055c69bcf541176169f1dc9f6c8"),
    ("dwp W %s %s %s %s" % (K1, IV1, _h(0, 16), _h(16, 32)), "ok 52c9af96ff50f64435fc43def56bd797 3b2e0aeb2b91854b"),
    ("che W %s %s %s %s" % (K1, IV1, _h(0, 15), _h(16, 32)), "ok bf3daeaf5d18d2bcc30ea62d2e70a4 548622b844123ff7"),
    ("hash %s" % _h(0, 13), "ok abef9725d4c5a83597a367d14494cc2542f20f659ddfecc961a3ec550cba8c75"),
    ("hash %s" % _h(0, 32), "ok 749e4c3653aece5e48db4761227742eb6dbe13f4a80f7beff1a9cf8d10ee7786"),
    ("hash %s" % _h(0, 48), "ok 9d02ee446fb6a29fe5c982d4b13af9d3e90861bc4cef27cf306bfb0b174a154a"),
    ("mac %s %s" % (K1, _h(0, 13)), "ok 7260da60138f96c9"),
    ("mac %s %s" % (K1, _h(0, 48)), "ok 2dab59771b4b16d0"),
    ("krp %s 16 %s %s" % (K1, "01" + "00" * 11, _h(32, 16)), "ok 6bbbc2336670d31ab83daa90d52c0541"),
    ("krp %s 32 %s %s" % (K1, "01" + "00" * 11, _h(32, 16)), "ok 76e166e6ab21256b6739397b672b879614b81cf05955fc3ab09343a745c48f77"),
    ("hmac %s %s" % (_h(128, 29), _h(192, 32)), "ok d4828e6312b08bb83c9fa6535a4635549e411fd11c0d8289359a1130e930676b"),
    ("hmac %s %s" % (_h(128, 32), _h(192, 32)), "ok 41ffe8645aec0612e952d2cdf8dd508f3e4a1d9b53f6a1db293b19fe76b1879f"),
    ("hmac %s %s" % (_h(128, 42), _h(192, 32)), "ok 7d01b84d2315c332277b3653d7ec64707eba7cdff7ff70077b1decbd68f2a144"),
    ("bde E %s %s %s" % (K1, IV1, _h(0, 48)), "ok e9cab32d879cc50c10378eb07c10f26307257e2dbe2b854cbc9f38282d59d6a77f952001c5d1244f53210a27c216d4bb"),
    ("bde D %s %s %s" % (K2, IV2, _h(64, 48)), "ok 7041bc226352c706d00ea8ef23cfe46afae118577d037facdc36e4ecc1f6574609f236943fb809e1bee4a1c686c13acc"),
    ("sde E %s %s %s" % (K1, IV1, _h(0, 48)), "ok 1fcbb01852003d60b66024c508608baa2c21af1e884cf31154d3077d4643cf2249eb2f5a68e4ba019d90211a81d690d9"),
    ("sde D %s %s %s" % (K2, IV2, _h(64, 48)), "ok e9fdf3f788657332e6c46fcf5251b8a6d43543a93e3233837db1571183a6ef4d7feb5cdf999e1a3f51a5a3381beb7fa5"),
    ("fmt E 10 %s %s %s" % (K1, IV1, _u16(range(10))), "ok " + _u16([6, 9, 3, 4, 7, 7, 0, 3, 5, 2])),
    ("fmt E 58 %s %s %s" % (K1, IV1, _u16(range(21))), "ok " + _u16([7, 4, 6, 21, 49, 55, 24, 23, 22, 50, 27, 39, 24, 24, 17, 32, 57, 43, 26, 5, 29])),
    ("fmt E 65536 %s %s %s" % (K1, IV1, _u16(range(17))), "ok " + _u16([14290, 31359, 58054, 51842, 44653, 34762, 28652, 48929, 6541, 13788, 7784, 46182, 61098, 43056, 3564, 21568, 63878])),
    ("kexp %s" % _h(128, 24), "e9dee72c8f0c0fa62ddb49f46f73964706075316ed247a374b09a17e8450bf66 e9dee72c8f0c0fa62ddb49f46f73964706075316ed247a374b09a17e8450bf66"),
    ("krp %s 24 %s %s" % (K1, "01" + "00" * 11, _h(32, 16)), "ok 9a2532a18cbaf145398d5a95feea6c825b9c197156a00275"),
]


def roundtrip_ops(ctx, g, n):
    """(encrypt op, function building the decrypt op from the encrypt output, expected plaintext token)"""
    rng = ctx.rng
    cases = []
    for _ in range(n):
        k, iv = g.key(), g.rb(16)
        kind = rng.choice(["ecb", "cbc", "cfb", "ctr", "bde", "sde", "kwp", "dwp", "che", "fmt", "wbl"])
        if kind in ("ecb", "cbc"):
            m = g.rb(rng.choice([16, 17, 31, 32, 33, 47, 48, rng.randint(16, 100)]))
            if kind == "ecb":
                cases.append(("ecb E %s %s" % (hx(k), hx(m)), lambda o, k=k: "ecb D %s %s" % (hx(k), o.split()[1]), "ok " + hx(m), kind))
            else:
                cases.append(("cbc E %s %s %s" % (hx(k), hx(iv), hx(m)), lambda o, k=k, iv=iv: "cbc D %s %s %s" % (hx(k), hx(iv), o.split()[1]), "ok " + hx(m), kind))
        elif kind == "cfb":
            m = g.rb(rng.randint(0, 100))
            cases.append(("cfb E %s %s %s" % (hx(k), hx(iv), hx(m)), lambda o, k=k, iv=iv: "cfb D %s %s %s" % (hx(k), hx(iv), o.split()[1]), "ok " + hx(m), kind))
        elif kind == "ctr":
            m = g.rb(rng.randint(0, 100))
            cases.append(("ctr %s %s %s" % (hx(k), hx(iv), hx(m)), lambda o, k=k, iv=iv: "ctr %s %s %s" % (hx(k), hx(iv), o.split()[1]), "ok " + hx(m), kind))
        elif kind in ("bde", "sde"):
            m = g.rb(16 * rng.choice([2, 3, 4, 5, 6, rng.randint(2, 12)]) if kind == "sde" else 16 * rng.randint(1, 8))
            cases.append(("%s E %s %s %s" % (kind, hx(k), hx(iv), hx(m)), lambda o, k=k, iv=iv, kind=kind: "%s D %s %s %s" % (kind, hx(k), hx(iv), o.split()[1]), "ok " + hx(m), kind))
        elif kind == "kwp":
            m = g.rb(rng.choice([16, 17, 31, 32, 47, 48, 49, 63, 64, 65, 80, rng.randint(16, 150)]))
            hdr = rng.choice(["N", hx(g.rb(16)), "00" * 16])
            cases.append(("kwp W %s %s %s" % (hx(k), hdr, hx(m)), lambda o, k=k, hdr=hdr: "kwp U %s %s %s" % (hx(k), hdr, o.split()[1]), "ok " + hx(m), kind))
        elif kind in ("dwp", "che"):
            m, ad = g.rb(rng.randint(0, 70)), g.rb(rng.randint(0, 40))
            cases.append(("%s W %s %s %s %s" % (kind, hx(k), hx(iv), hx(m), hx(ad)),
                          lambda o, k=k, iv=iv, ad=ad, kind=kind: "%s U %s %s %s %s %s" % (kind, hx(k), hx(iv), o.split()[1], hx(ad), o.split()[2]), "ok " + hx(m), kind))
        elif kind == "wbl":
            m = g.rb(rng.randint(32, 200))
            cases.append(("wbl E %s 0 %s" % (hx(k), hx(m)), lambda o, k=k: "wbl D %s 0 %s" % (hx(k), o.split()[0]), hx(m) + " 0", kind))
        else:
            mod = rng.choice([2, 10, 256, 49667, 65535, 65536, rng.randint(2, 65536)])
            count = rng.choice([2, 3, 7, 20, 33, rng.randint(2, 600)])
            s = fmt_word(rng, mod, count)
            ivt = rng.choice(["N", hx(iv)])
            cases.append(("fmt E %d %s %s %s" % (mod, hx(k), ivt, s), lambda o, k=k, mod=mod, ivt=ivt: "fmt D %d %s %s %s" % (mod, hx(k), ivt, o.split()[1]), "ok " + s, kind))
    return cases


def admissible(op):
    """For a high-level op: True if the property calls the input admissible (must be accepted), False if it must be
    rejected with bad_input, None if not covered here."""
    t = op.split()
    def n(x): return 0 if x == "-" else len(x) // 2
    try:
        f = t[0]
        if f in ("ecb", "cbc", "cfb", "bde", "sde"):
            key, src = t[2], t[-1]
            kl, ln = n(key), n(src)
            ok = kl in (16, 24, 32)
            if f in ("ecb", "cbc"):
                ok = ok and ln >= 16
            if f == "bde":
                ok = ok and ln >= 16 and ln % 16 == 0
            if f == "sde":
                ok = ok and ln >= 32 and ln % 16 == 0
            return ok
        if f == "ctr":
            return n(t[1]) in (16, 24, 32)
        if f == "mac":
            return n(t[1]) in (16, 24, 32)
        if f == "kwp" and t[1] == "W":
            return n(t[2]) in (16, 24, 32) and n(t[4]) >= 16
        if f in ("dwp", "che") and t[1] == "W":
            return n(t[2]) in (16, 24, 32)
        if f == "fmt":
            mod, cnt = int(t[2]), n(t[5]) // 2
            if 2 <= mod <= 65536 and cnt >= 2 and n(t[3]) in (16, 24, 32):
                return True if cnt <= 600 else None
            return False
        if f == "krp":
            m, kn = int(t[2]), n(t[1])
            return m in (16, 24, 32) and kn in (16, 24, 32) and m <= kn
        if f in ("hash", "hmac"):
            return True
        if f == "pbkdf":
            return int(t[2]) > 0
    except Exception:
        return None
    return None


def in_domain(op):
    """Is the op inside the documented domain of the functions it calls (so that `model = standard` theorems speak about
    it)?  Everything the generator emits is, except the deliberate out-of-contract probes listed here."""
    t = op.split()
    try:
        if t[0] == "wbl":
            n = 0 if t[4] == "-" else len(t[4]) // 2
            nn = 2 * ((n + 15) // 16)
            if t[1] in ("R", "EB", "EO") and nn and int(t[3]) % nn:
                return False                       # C ASSERT: st->round % (2n) == 0
            if t[1] == "DO" and n < 48:
                return False                       # Opt decryption is dispatched only for count >= 80
        if t[0] in ("s2b", "b2s"):
            return True
    except Exception:
        return False
    return True


def search(ctx, exe, w, n=150, focus=None, differing=()):
    """Property tests on the implementation alone.  Returns list of (key, replay_text, description)."""
    g = Gen(ctx, exe, w)
    rng = ctx.rng
    found = []

    def run(lines):
        out, err, rc = ctx.run_lines(exe, lines)
        if rc != 0 or len(out) != len(lines):
            k = min(len(out), len(lines) - 1)
            summ = [l for l in err.split("\n") if "ERROR" in l or "SUMMARY" in l][:2]
            found.append(("crash:" + lines[k].split()[0], "expect\n%s\nok\n" % lines[k],
                          "sanitizer abort / crash on valid input: %s : %s" % (lines[k][:160], " | ".join(summ)[:200])))
            # continue after the crashing line
            rest = run(lines[k + 1:]) if k + 1 < len(lines) else []
            out = list(out[:k]) + ["CRASH"] + rest
        return out

    # 0. the differing ops themselves: an admissible input that is rejected (or the converse) is a failure of the property
    for op, c_out in list(differing)[:200]:
        a = admissible(op)
        if a is True and not c_out.startswith("ok"):
            found.append(("admissible:" + op.split()[0], "expect\n%s\nok\n" % op, "admissible input not accepted: %s -> %s" % (op[:160], c_out[:80])))
        elif a is False and not c_out.startswith("bad_input"):
            found.append(("inadmissible:" + op.split()[0], "expect\n%s\nbad_input\n" % op, "inadmissible input not rejected with ERR_BAD_INPUT: %s -> %s" % (op[:160], c_out[:80])))
    # 1. appendix vectors
    outs = run([k for k, _ in KAT])
    for (op, exp), o in zip(KAT, outs):
        if o != exp:
            found.append(("kat:" + op.split()[0], "kat\n%s\n%s\n" % (op, exp),
                          "standard's appendix vector not reproduced: %s -> %s, expected %s" % (op[:80], o[:80], exp)))
    # 2. round trips
    cases = roundtrip_ops(ctx, g, n)
    if focus:
        cases = [c for c in cases if c[3] == focus] * 3 + cases
    o1 = run([c[0] for c in cases])
    ops2, idx = [], []
    for i, (c, o) in enumerate(zip(cases, o1)):
        if o.startswith("ok ") or c[3] == "wbl":
            try:
                ops2.append(c[1](o))
                idx.append(i)
            except Exception:
                found.append(("roundtrip:" + c[3], "roundtrip\n%s\n" % c[0], "malformed output of %s: %s" % (c[0][:80], o[:80])))
        else:
            found.append(("roundtrip:" + c[3], "expect\n%s\nok\n" % c[0], "valid input rejected: %s -> %s" % (c[0][:100], o[:60])))
    o2 = run(ops2)
    for i, op2, o in zip(idx, ops2, o2):
        if o != cases[i][2]:
            found.append(("roundtrip:" + cases[i][3], "roundtrip\n%s\n%s\n%s\n" % (cases[i][0], op2, cases[i][2]),
                          "decrypt/unwrap does not invert encrypt/wrap: %s ; %s -> %s" % (cases[i][0][:120], op2[:60], o[:80])))
    # 3. forged tokens / tags must be rejected
    forged = []
    for i, (c, o) in enumerate(zip(cases, o1)):
        if c[3] in ("kwp", "dwp", "che") and o.startswith("ok "):
            t = o.split()
            tok = bytearray.fromhex(t[1]) if t[1] != "-" else bytearray()
            if c[3] == "kwp":
                tok[rng.randrange(len(tok))] ^= 1 << rng.randrange(8)
                parts = c[0].split()
                forged.append(("kwp U %s %s %s" % (parts[2], parts[3], tok.hex()), "bad_keytoken", c[3]))
                fk = bytearray.fromhex(parts[2])
                fk[rng.randrange(len(fk))] ^= 1 << rng.randrange(8)          # a different key of the same length
                forged.append(("kwp U %s %s %s" % (fk.hex(), parts[3], t[1]), "bad_keytoken", c[3]))
            else:
                parts = c[0].split()
                mac = bytearray.fromhex(t[2])
                which = rng.choice(["mac", "ct", "ad"]) if tok else "mac"
                ad = bytearray.fromhex(parts[5]) if parts[5] != "-" else bytearray()
                if which == "ad" and not ad:
                    which = "mac"
                if which == "mac":
                    mac[rng.randrange(8)] ^= 1 << rng.randrange(8)
                elif which == "ct":
                    tok[rng.randrange(len(tok))] ^= 1 << rng.randrange(8)
                else:
                    ad[rng.randrange(len(ad))] ^= 1 << rng.randrange(8)
                forged.append(("%s U %s %s %s %s %s" % (c[3], parts[2], parts[3], hx(bytes(tok)), hx(bytes(ad)), mac.hex()), "bad_mac", c[3]))
    # 3b. the tag of Wrap equals the tag of the Step-level interface fed with fragments of AD and ciphertext
    stag = []
    for i, (c, o) in enumerate(zip(cases, o1)):
        if c[3] in ("dwp", "che") and o.startswith("ok "):
            t, parts = o.split(), c[0].split()
            ct = bytes.fromhex(t[1]) if t[1] != "-" else b""
            ad = bytes.fromhex(parts[5]) if parts[5] != "-" else b""
            toks = ["I" + hx(x) for x in g.split(ad, maxparts=3)] + ["A" + hx(x) for x in g.split(ct, maxparts=4)] + ["G"]
            stag.append(("%sS %s %s %s" % (c[3], parts[2], parts[3], " ".join(toks)), t[2], c[0]))
    for (op, tag, wop), o in zip(stag, run([x[0] for x in stag])):
        if o != tag:
            found.append(("fragments:" + op.split()[0], "kat\n%s\n%s\n" % (op, tag),
                          "tag of the fragmented Step interface differs from the tag of Wrap (%s): %s -> %s, Wrap gave %s" % (wop[:80], op[:140], o, tag)))
    of = run([f[0] for f in forged])
    for (op, exp, kind), o in zip(forged, of):
        if not o.startswith(exp + " "):
            found.append(("forgery:" + kind, "expect\n%s\n%s\n" % (op, exp), "forged %s input accepted: %s -> %s" % (kind, op[:140], o[:60])))
    # 4. CTR keystream block i = E_K(E_K(iv) + i mod 2^128), with counters near every wrap
    qs, meta = [], []
    for c in counters_near_wrap(rng)[:10]:
        k = g.key()
        qs.append("blk D %s %s" % (hx(k), c.to_bytes(16, "little").hex()))
        meta.append((k, c))
    ivs = run(qs)
    ops3, exp3 = [], []
    for (k, c), iv in zip(meta, ivs):
        ops3.append("ctr %s %s %s" % (hx(k), iv, "00" * 64))
        exp3.append(["blk E %s %s" % (hx(k), ((c + i) % (1 << 128)).to_bytes(16, "little").hex()) for i in range(1, 5)])
    o3 = run(ops3)
    e3 = run([x for e in exp3 for x in e])
    for j, (op, o) in enumerate(zip(ops3, o3)):
        want = "ok " + "".join(e3[4 * j:4 * j + 4])
        if o != want:
            found.append(("ctr:counter", "expect\n%s\n%s\n" % (op, want), "CTR keystream is not E_K(E_K(iv)+i): %s -> %s, expected %s" % (op[:100], o[:50], want[:50])))
    # 4b. helper arithmetic against Python integers: 128-bit increment, length blocks, GF(2^128) product, MulC
    M = 1 << 128
    hops, hexp = [], []
    def le(v, n): return (v % (1 << (8 * n))).to_bytes(n, "little").hex()
    vals = [0, M - 1, (1 << 32) - 1, (1 << 64) - 1, (1 << 96) - 1] + [rng.getrandbits(128) for _ in range(6)]
    for v in vals:
        hops.append("inc " + le(v, 16)); hexp.append(le(v + 1, 16))
        hops.append("mulc " + le(v, 16)); hexp.append(le((v << 1) ^ (0x87 if v >> 127 else 0), 16))
    for c in [1, 16, (1 << 29) - 1, 1 << 29, (1 << 32) + 5, (1 << 61) - 1, 1 << 61, (1 << 64) - 1] + [rng.getrandbits(rng.choice((20, 35, 62, 64))) for _ in range(12)]:
        v = rng.choice(vals + [M - 8, (1 << 64) - 8, (1 << 32) - 8])
        hops.append("abU %s %d" % (le(v, 16), c)); hexp.append(le(v + 8 * c, 16))
        hops.append("abW %d %s %d" % (w, le(v, 8), c)); hexp.append(le((v % (1 << 64)) + 8 * c, 8))
    def gfmul(a, b):
        p = 0
        for i in range(128):
            if (b >> i) & 1:
                p ^= a << i
        for i in range(254, 127, -1):
            if (p >> i) & 1:
                p ^= (M | 0x87) << (i - 128)
        return p
    for _ in range(20):
        a, b = rng.getrandbits(128), rng.getrandbits(128)
        hops.append("pmul %s %s" % (le(a, 16), le(b, 16))); hexp.append(le(gfmul(a, b), 16))
    for _ in range(40):
        mod = rng.choice([2, 10, 255, 256, 257, 65535, rng.randint(2, 65535)])
        cnt = rng.choice([1, 2, 7, 30, 41, 45, 60, rng.randint(1, 150)])
        b = max(1, calc_b_exact(mod, cnt))
        digs = [rng.randrange(mod) for _ in range(cnt)]
        if rng.random() < 0.3:
            digs = [mod - 1] * cnt
        val = sum(d * mod ** i for i, d in enumerate(digs))
        hops.append("s2b %d %d %s" % (b, mod, _u16(digs))); hexp.append(le(val, 8 * b))
        binv = rng.getrandbits(64 * (b + 1))
        a, add, sub = binv, [], []
        for d in digs:
            add.append((a % mod + d) % mod); sub.append((d - a % mod) % mod); a //= mod
        hops.append("b2s A %d %s %s" % (mod, _u16(digs), le(binv, 8 * (b + 1)))); hexp.append(_u16(add))
        hops.append("b2s S %d %s %s" % (mod, _u16(digs), le(binv, 8 * (b + 1)))); hexp.append(_u16(sub))
    for op, e, o in zip(hops, hexp, run(hops)):
        if o != e:
            found.append(("helper:" + op.split()[0], "kat\n%s\n%s\n" % (op, e), "%s -> %s, exact arithmetic gives %s" % (op, o, e)))
    # 4b'. systematic fragment sweep: fragmented == one-shot, for every streaming bundle (implementation only)
    sp = sweep_pairs(g, False)
    oa = run([x[0] for x in sp])
    ob = run([x[1] for x in sp])
    nfr = 0
    for (a, b, kind), x, y in zip(sp, oa, ob):
        want = y.split()[1] if len(y.split()) > 1 else y
        if stream_payload(kind, x) != want.replace("-", "") and nfr < 6:
            nfr += 1
            found.append(("fragments:" + a.split()[0], "same\n%s\n%s\n%s\n" % (a, b, kind),
                          "fragmented processing differs from one-shot: %s -> %s ; %s -> %s" % (a[:160], x[:80], b[:100], y[:80])))
    sa = sweep_aead(g, False, run)
    nfr = 0
    for (a, e), x in zip(sa, run([x[0] for x in sa])):
        ok = (x == e) or (e == "ok" and x.startswith("ok "))
        if not ok and nfr < 6:
            nfr += 1
            found.append(("fragments:" + a.split()[0], "kat\n%s\n%s\n" % (a, e),
                          "fragmented Step interface differs from one-shot Wrap (octets / tag): %s -> %s, expected %s" % (a[:200], x[:100], e[:100])))
    # 4c. one-shot == fragmented (streaming bundles), HMAC key padding identity, PBKDF2 == iterated HMAC
    sops, sexp = [], []          # (op, function of its output) pairs: both sides are implementation outputs
    pairs = []
    for _ in range(30):
        k, iv = g.key(), g.rb(16)
        m = g.rb(rng.randint(1, 90))
        parts = " ".join(hx(c) for c in g.split(m, maxparts=5))
        pairs.append(("cfbS E %s %s %s" % (hx(k), hx(iv), parts), "cfb E %s %s %s" % (hx(k), hx(iv), hx(m)), "stream"))
        pairs.append(("ctrS %s %s %s" % (hx(k), hx(iv), parts), "ctr %s %s %s" % (hx(k), hx(iv), hx(m)), "stream2"))
        pairs.append(("macS %s %s G" % (hx(k), parts), "mac %s %s" % (hx(k), hx(m)), "tag"))
        pairs.append(("hashS %s G" % parts, "hash %s" % hx(m), "tag"))
        pairs.append(("hmacS %s %s G" % (hx(k), parts), "hmac %s %s" % (hx(k), hx(m)), "tag"))
        ct = None
        pairs.append(("cfbS D %s %s %s" % (hx(k), hx(iv), parts), "cfb D %s %s %s" % (hx(k), hx(iv), hx(m)), "stream"))
    oa = run([p[0] for p in pairs])
    ob = run([p[1] for p in pairs])
    for (a, b, kind), x, y in zip(pairs, oa, ob):
        t = x.split()
        if kind == "stream":
            got = "".join(c for c in t[:-1] if c != "-")
        elif kind == "stream2":
            got = "".join(c for c in t[:-2] if c != "-")
        else:
            got = t[-1] if t else ""
        want = y.split()[1] if len(y.split()) > 1 else y
        if got != want.replace("-", ""):
            found.append(("fragments:" + a.split()[0], "same\n%s\n%s\n%s\n" % (a, b, kind),
                          "fragmented processing differs from one-shot: %s -> %s ; %s -> %s" % (a[:120], x[:60], b[:80], y[:60])))
    # continued WBL encryption entered with round 0 is plain WBL encryption (Base and Opt paths)
    rp = []
    for n in (32, 47, 48, 64, 80, 96, 100):
        k, b = g.key(), g.rb(n)
        rp.append(("wbl R %s 0 %s" % (hx(k), hx(b)), "wbl E %s 0 %s" % (hx(k), hx(b))))
    for (a, b), x, y in zip(rp, run([a for a, _ in rp]), run([b for _, b in rp])):
        if x != y:
            found.append(("wbl:stepR", "same\n%s\n%s\nexact\n" % (a, b), "beltWBLStepR from round 0 differs from beltWBLStepE: %s -> %s / %s" % (a[:100], x[:50], y[:50])))
    hp = []
    for n in (0, 5, 16, 31):
        kk = g.rb(n) if n else b""
        m = g.rb(rng.randint(0, 40))
        hp.append(("hmac %s %s" % (hx(kk), hx(m)), "hmac %s %s" % (hx(kk + bytes(32 - n)), hx(m))))
    o1h, o2h = run([a for a, _ in hp]), run([b for _, b in hp])
    for (a, b), x, y in zip(hp, o1h, o2h):
        if x != y:
            found.append(("hmac:keypad", "same\n%s\n%s\nexact\n" % (a, b), "HMAC(K) != HMAC(K || 0..0) for |K| <= 32: %s -> %s ; %s -> %s" % (a[:80], x[:40], b[:80], y[:40])))
    for it in (1, 2, 5):
        pwd, salt = g.rb(rng.choice((3, 32, 40))), g.rb(rng.choice((0, 8, 33)))
        u = run(["hmac %s %s" % (hx(pwd), hx(salt + b"\0\0\0\1"))])[0].split()[1]
        acc = int(u, 16)
        for _ in range(it - 1):
            u = run(["hmac %s %s" % (hx(pwd), u)])[0].split()[1]
            acc ^= int(u, 16)
        want = "ok %064x" % acc
        op = "pbkdf %s %d %s" % (hx(pwd), it, hx(salt))
        o = run([op])[0]
        if o != want:
            found.append(("pbkdf:iter", "expect\n%s\n%s\n" % (op, want), "PBKDF2 is not the xor of %d iterated HMACs: %s -> %s, expected %s" % (it, op[:100], o[:50], want[:50])))
    # 5. FMT block count against exact integers
    pts = fmt_points(rng, False)[:400]
    ob = run(["fmtB %d %d" % p for p in pts])
    for p, o in zip(pts, ob):
        if o != str(calc_b_exact(*p)):
            found.append(("fmt:blockcount", "expect\nfmtB %d %d\n%d\n" % (p[0], p[1], calc_b_exact(*p)),
                          "beltFMTCalcB(%d,%d) = %s, exact block count %d" % (p[0], p[1], o, calc_b_exact(*p))))
    return found


def fmt_table_sweep(ctx, exe, with_model):
    """thorough tier: the COMPLETE table of beltFMTCalcB (65535 x 300 points through `fmtB`): implementation
    against exact integers (search oracle) and against the model (correspondence)"""
    bad, mism_all = [], []
    total = 0
    for lo in range(2, 65537, 2048):
        hi = min(lo + 2048, 65537)
        ops = ["fmtB %d %d" % (m, c) for m in range(lo, hi) for c in range(1, 301)]
        if with_model:
            mism, out, _ = ctx.diff_run(exe, ops, "fmt_table")
            mism_all += mism[:3]
        else:
            out, err, rc = ctx.run_lines(exe, ops)
        total += len(ops)
        i = 0
        for m in range(lo, hi):
            p = 1
            for c in range(1, 301):
                p *= m
                e = ((p - 1).bit_length() + 63) // 64
                if i < len(out) and out[i] != str(e):
                    bad.append((m, c, out[i], e))
                i += 1
    return total, bad, mism_all


# ------------------------------------------------------------------ check

def run(ctx):
    translator_error = None
    try:
        regen(ctx)
    except Exception as e:
        translator_error = "%s: %s" % (type(e).__name__, e)
    if translator_error:
        proof_ok, log = False, "translator: " + translator_error
    else:
        # stage 1 (seconds): a few rows of the FMT block-count table; if they fail the constants of beltFMTCalcB changed for
        # the worse and the 21 table modules (~1 CPU-hour) are not rebuilt -- the proofs are reported as broken right away
        ok_c, log_c = ctx.lake_build(["Bee2V.C01.Lemmas.FmtCanary"])
        if not ok_c:
            proof_ok, log = ctx.prove(["Bee2V.C01.Lemmas.FmtCanary"], PROPS)
        else:
            proof_ok, log = ctx.prove(["Bee2V.C01." + os.path.basename(p)[:-5] for p in PROPS], PROPS)
    have_driver = os.path.exists(ctx.driver())
    mism_all = []
    cov = {}
    exes = {}
    for cfg, w in (("asan", 64), ("w32", 32)):
        exe = ctx.cc("harness/c01.c", cfg)
        exes[cfg] = (exe, w)
        ops = [k for k, _ in KAT] + corpus_lines(w) + gen_ops(ctx, exe, w, ctx.tier)[0]
        if not have_driver:
            break
        try:
            mism, c_out, l_out = ctx.diff_run(exe, ops, cfg)
        except RuntimeError as e:
            ctx.notes.append(str(e))
            mism, c_out, l_out = [(-1, "driver", "", str(e))], [], []
        for m in mism:
            mism_all.append((cfg, w) + tuple(m))
        # the standard's appendix vectors on the MODEL (tests of the model/spec, labelled as tests)
        if cfg == "asan" and mism != [(-1, "driver", "", "")] and len(l_out) >= len(KAT):
            badk = [(op, exp, l_out[i]) for i, (op, exp) in enumerate(KAT) if l_out[i] != exp]
            cov["spec_vectors_checked"] = len(KAT)
            cov["spec_vectors_failed"] = len(badk)
            for op, exp, got in badk[:3]:
                ctx.notes.append("model does not reproduce appendix vector: %s -> %s (expected %s)" % (op[:80], got[:60], exp[:60]))
        fam = {}
        for o in ops:
            f = o.split()[0]
            fam[f] = fam.get(f, 0) + 1
        cov["ops_by_family_" + cfg] = fam
        cov["distinct_outputs_" + cfg] = len(set(c_out))
        cov["rejected_" + cfg] = sum(1 for o in c_out if o.startswith("bad_") or o.startswith("not_impl"))
        if cfg == "asan":
            ctx.samples += [{"op": ops[i][:200], "impl": c_out[i][:120]} for i in range(min(len(ops), len(c_out))) if ops[i].split()[0] in ("cbc", "kwp", "fmt", "ctrS")][:6]
    ctx.cov.update(cov)
    ctx.cov["correspondence_disagreements"] = len(mism_all)
    # search oracle: always a small run; focused when something is off
    exe, w = exes["asan"]
    focus = None
    if mism_all:
        focus = mism_all[0][3].split()[0].rstrip("S").lower() if mism_all[0][2] >= 0 else None
    found = search(ctx, exe, w, n=400 if (mism_all or not proof_ok) else 120, focus=focus,
                   differing=[(m[3], m[4]) for m in mism_all if m[2] >= 0])
    if ctx.tier == "thorough":
        total, bad, mm = fmt_table_sweep(ctx, exe, have_driver)
        ctx.cov["fmt_table_points"] = total
        ctx.cov["exhaustive_fmt_table"] = True
        for m in mm:
            mism_all.append(("asan", 64) + tuple(m))
        for m, c, got, e in bad[:5]:
            found.append(("fmt:blockcount", "expect\nfmtB %d %d\n%d\n" % (m, c, e), "beltFMTCalcB(%d,%d) = %s, exact %d" % (m, c, got, e)))
    ctx.samples.append({"theorem": "Bee2V.C01.blockDecr_blockEncr", "statement": "∀ key blk, blk.length = 16 → blockDecr key (blockEncr key blk) = blk"})
    seen = set()
    for key, text, what in found:
        if key in seen:
            continue
        seen.add(key)
        ctx.violation(key, "# property C01\n" + text, True, what)
    if not found and proof_ok:
        # The theorems (model = the standard's definitions) still check and the implementation disagrees with the model on
        # concrete ops inside the documented domain: for "returns the value the standard defines" each such op IS a failing
        # input.  Replay re-runs the op on the implementation and compares with the model's value.
        seenf = set()
        for cfg, w_, i, op, c, l in mism_all:
            if i < 0 or not in_domain(op):
                continue
            fam = op.split()[0]
            if fam in seenf or len(seenf) >= 4:
                continue
            seenf.add(fam)
            found.append(("model:" + fam, None, None))
            ctx.violation("model:" + fam, "# property C01: the implementation differs from the Lean model on an in-domain op (config %s) while the\n"
                          "# theorems model = standard still check: the value returned is not the one the standard defines\ndiff\n%s\n%s\n" % (cfg, op, l), True,
                          "%d ops differ from the proved model, e.g. (%s): %s\n impl =%s\n model=%s" % (len(mism_all), cfg, op[:300], c[:200], l[:200]))
    if not found:
        if not proof_ok:
            errs = "\n".join("# " + l for l in log.split("\n") if "error" in l)[:3000]
            ctx.violation("proof", "# property C01: the theorems no longer check against the model/tables regenerated from the belt sources;\n"
                          "# the search oracle found no failing input on the implementation.\n# first errors:\n" + errs, False,
                          "theorems no longer check: " + (translator_error or "; ".join(ctx.cov.get("lake_errors", [])) or log[-300:])[:400])
        elif mism_all:
            cfg, w, i, op, c, l = mism_all[0]
            ctx.violation("correspondence:" + op.split()[0], "# property C01: model and implementation disagree (config %s); the search oracle found no\n"
                          "# property failure on the implementation alone\ndiff\n%s\n%s\n" % (cfg, op, l), False,
                          "%d ops differ, first (%s): %s\n impl=%s\n model=%s" % (len(mism_all), cfg, op[:300], c[:200], l[:200]))
    return ctx.finish(
        level="proof",
        assumptions=[
            "little-endian platform (the BIG_ENDIAN arms of the sources are not modelled)",
            "hand-written executable model tied to the sources by the correspondence run (generator below) in configs asan (64-bit words) and w32 (32-bit words); tables and FMT constants regenerated from the sources",
            "ppMul/ppRedBelt, zzMulW/zzDiv/zzModW (lower layers) modelled by their mathematical meaning (carry-less product mod x^128+x^7+x^2+x+1; integer arithmetic mod 2^(64b))",
            "memMove/memCopy/memXor2/memSwap as list operations; buffers of one call do not overlap",
        ],
        rule="3 key lengths x every message length 0..80 (ECB/CBC 16..80 incl. every CTS tail, WBL/KWP 32..208 across the 64/80 Opt switch, "
             "DWP/CHE data x AD lengths straddling 16), fragmentations with every buffered/reserved fill, CTR IVs obtained by inverting E_K so that "
             "each 32-bit limb and the whole 128-bit counter wrap inside the message, AddBitSize with carries into every limb, FMT stratified (mod,count) "
             "incl. (49667,159..161), words at alphabet boundaries, invalid key lengths / lengths / forged tags; distinct = number of distinct implementation outputs",
        distinct=sum(v for k, v in cov.items() if k.startswith("distinct_outputs")),
        exhaustive=False)


def corpus_lines(w):
    p = os.path.join(VERIF, "gen", "c01_corpus.txt")
    out = []
    if os.path.exists(p):
        for l in open(p):
            l = l.strip()
            if l and not l.startswith("#"):
                out.append(l.replace("abW W ", "abW %d " % w))
    return out


def replay(ctx, path):
    """Replay file formats (after `#` comment lines):
       expect / <op> / <expected prefix>          -- implementation output must start with the expectation
       kat / <op> / <expected>                    -- same, exact
       roundtrip / <enc op> / <dec op> / <expected output of dec op>
       diff / <op> / <model output>               -- correspondence: compares with the recorded model output"""
    lines = [l.rstrip("\n") for l in open(path) if not l.startswith("#") and l.strip()]
    if not lines:
        print("replay file names a theorem, not an input: nothing to execute")
        return 0
    exe = ctx.cc("harness/c01.c", "asan")
    kind = lines[0]

    def run1(op):
        out, err, rc = ctx.run_lines(exe, [op])
        return out[0] if out else "CRASH " + err[-200:]
    if kind in ("expect", "kat"):
        o = run1(lines[1])
        ok = (o == lines[2]) if kind == "kat" else (o == lines[2] or o.startswith(lines[2] + " "))
        print("%s\n -> %s\n expected %s : %s" % (lines[1][:200], o[:200], lines[2][:200], "holds" if ok else "VIOLATED"))
        return 0 if ok else 1
    if kind == "roundtrip":
        o1 = run1(lines[1])
        o2 = run1(lines[2])
        print("%s\n -> %s\n%s\n -> %s\n expected %s : %s" % (lines[1][:200], o1[:200], lines[2][:200], o2[:200], lines[3][:200], "holds" if o2 == lines[3] else "VIOLATED"))
        return 0 if o2 == lines[3] else 1
    if kind == "same":
        x, y = run1(lines[1]), run1(lines[2])
        t = x.split()
        if lines[3] == "stream":
            got, want = "".join(c for c in t[:-1] if c != "-"), (y.split() + ["", ""])[1].replace("-", "")
        elif lines[3] == "stream2":
            got, want = "".join(c for c in t[:-2] if c != "-"), (y.split() + ["", ""])[1].replace("-", "")
        elif lines[3] == "stream0":
            got, want = "".join(c for c in t if c != "-"), (y.split() + ["", ""])[1].replace("-", "")
        elif lines[3] == "tag":
            got, want = (t[-1] if t else ""), (y.split() + ["", ""])[1]
        else:
            got, want = x, y
        print("%s\n -> %s\n%s\n -> %s\n same result: %s" % (lines[1][:200], x[:200], lines[2][:200], y[:200], "holds" if got == want else "VIOLATED"))
        return 0 if got == want else 1
    if kind == "diff":
        o = run1(lines[1])
        print("%s\n impl  %s\n model %s : %s" % (lines[1][:200], o[:200], lines[2][:200], "agree" if o == lines[2] else "DIFFER"))
        return 0 if o == lines[2] else 1
    print("unknown replay kind")
    return 2

"""C19 — all build configurations compute the same function.

Lean side (Bee2V/C19/Props.lean): parametricity corollaries — every model that depends on the word
size, the edition (SAFE/FAST) or the representation has a theorem that its octet-level result does
not; they are re-exported here from the areas that prove them.
Tie: the IDENTICAL op streams of the other areas (their own generators and harnesses) are replayed
against differently built copies of the library; each configuration's output must equal the output
of the single Lean driver of that area (which does not know the configuration) and, line by line,
the output of the reference configuration of the same word size; octet-level ops are also compared
ACROSS word sizes.  A configuration whose CPU feature is missing is reported as skipped, never as
passed.  -O levels, NDEBUG and the SIMD bash-f variants are covered by this differential only.
"""
import time
import os, random, importlib
import vcommon
from vcommon import VERIF

PROPS = ["Bee2V/C19/Props.lean", "Bee2V/C19/Props2.lean"]

CPU = open("/proc/cpuinfo").read() if os.path.exists("/proc/cpuinfo") else ""

# op families that legitimately print word-size specific internals (established on the unchanged tree);
# plugins may add theirs through `C19_WORD_SPECIFIC`, or opt out of the cross-word replay with `C19_NO_CROSS`
WORD_SPECIFIC = {"C01": {"abW"}}


def cfg_plan(tier):
    """(64-bit-word configs, 32-bit-word configs, bash-f platform configs, skipped)"""
    c64 = ["asan", "fast", "O0"]
    c32 = ["w32"]
    bash = ["bash32", "sse2"]
    skipped = []
    if tier == "thorough":
        c64 += ["asan-dbg", "O2ndebug", "rel"]
        c32 += ["w32-fast", "w32-dbg"]
    for feat, cfg in ((" avx2 ", "avx2"), (" avx512f ", "avx512")):
        if feat in CPU:
            bash.append(cfg)
        else:
            skipped.append("%s (CPU lacks %s)" % (cfg, feat.strip()))
    skipped.append("BASH_NEON (not an ARM host)")
    skipped.append("B_PER_S=32 / -m32 (no 32-bit libgcc in this image: 32-bit WORDS are built with -U__SIZEOF_INT128__, size_t stays 64-bit)")
    return c64, c32, bash, skipped


QUICK_CAP = 6000        # ops per area and word size in the quick tier (stratified thinning)
THOROUGH_CAP = 60000

# ---------------------------------------------------------------------------------------------
# area adapters: (area id, harness source, Lean driver, fn(ctx, exe, w) -> op lines,
#                 uses bash-f?, op families that are word-size specific by design)

def ops_C01(ctx, exe, w):
    import C01
    return [k for k, _ in C01.KAT] + C01.corpus_lines(w) + C01.gen_ops(ctx, exe, w, "quick")[0]


def ops_C03(ctx, exe, w):
    import C03
    return (C03.corpus_lines() + C03.gen_bashf(ctx) + C03.gen_hash(ctx) + C03.gen_prg(ctx) + C03.gen_ctr(ctx)
            + C03.gen_hmacgen(ctx) + C03.gen_botp(ctx) + C03.gen_histories(ctx) + C03.gen_belt(ctx))


def ops_C05(ctx, exe, w):
    import C05
    return C05.complete(ctx, exe, C05.corpus(w) + C05.generate(ctx, w).lines)


AREAS = [
    ("C01", "harness/c01.c", "drv_c01", ops_C01, False),
    ("C03", "harness/c03.c", "drv_c03", ops_C03, True),
    ("C05", "harness/c05.c", "drv_c05", ops_C05, False),
]
# areas whose op lines carry the word size explicitly: no replay of the 64-bit stream on 32-bit words
NO_CROSS = {"C05"}


def optional_areas():
    """areas whose plugin offers `c19_stream()` -> (harness, driver, fn(ctx, exe, w) -> ops, uses_bash)"""
    out = []
    for f in sorted(os.listdir(os.path.join(VERIF, "props"))):
        if not (f.startswith("C") and f.endswith(".py")) or f[:-3] in ("C19", "C01", "C03", "C05"):
            continue
        try:
            mod = importlib.import_module(f[:-3])
        except Exception:
            continue
        if hasattr(mod, "c19_stream"):
            h, d, fn, b = mod.c19_stream()
            out.append((f[:-3], h, d, fn, b))
            if hasattr(mod, "C19_WORD_SPECIFIC"):
                WORD_SPECIFIC[f[:-3]] = set(mod.C19_WORD_SPECIFIC)
            if getattr(mod, "C19_NO_CROSS", False):
                NO_CROSS.add(f[:-3])
    return out


_cc_memo = {}


def cc_once(ctx, harness, cfg, name):
    k = (harness, cfg, name)
    if k not in _cc_memo:
        _cc_memo[k] = ctx.cc(harness, cfg, name=name)
    return _cc_memo[k]


def gen_fixed(ctx, fn, exe, w, salt):
    """generate an op stream with a private PRNG so that every configuration sees the same ops"""
    saved = ctx.rng
    ctx.rng = random.Random(ctx.seed * 7919 + salt)
    try:
        return fn(ctx, exe, w)
    finally:
        ctx.rng = saved


def run_guarded(ctx, exe, ops, timeout):
    """ctx.run_lines with a wall-clock guard: an op on which the process does not return within `timeout`
    seconds is answered `HANG` (a configuration that loops for ever on an input is a disagreement like any
    other) and the stream continues behind it in a fresh process; after 2 hangs the run stops."""
    import subprocess
    out, pos, hangs = [], 0, 0
    while pos < len(ops):
        try:
            o, err, rc = ctx.run_lines(exe, ops[pos:], timeout=timeout)
        except subprocess.TimeoutExpired as te:
            so = te.stdout or ""
            if isinstance(so, bytes):
                so = so.decode("utf-8", "replace")
            done = so.split("\n")[:-1]
            k = min(len(done), len(ops) - pos - 1)
            out += done[:k] + ["HANG"]
            hangs += 1
            pos += k + 1
            if hangs >= 2:
                return out, "HANG (no answer within %d s) x%d, last at op: %s" % (timeout, hangs, ops[pos - 1][:200]), 1
            continue
        return out + o, err, rc
    return out, "", 0


def run_tolerant(ctx, exe, ops, limit=400, timeout=3600):
    """run an op stream on an assertion-enabled build: an op that trips a library ASSERT (the generators also
    emit calls outside the documented preconditions, which a release build answers with garbage-in/garbage-out
    or an error code) is marked `ASSERT` and the stream continues in a fresh process.  Any other crash stops."""
    out, pos, asserts = [], 0, 0
    while pos < len(ops):
        o, err, rc = run_guarded(ctx, exe, ops[pos:], timeout)
        if rc == 0 and len(o) == len(ops) - pos:
            return out + o, asserts, None
        k = min(len(o), len(ops) - pos - 1)
        out += o[:k]
        if "Assertion in" in err and asserts < limit:
            out.append("ASSERT")
            asserts += 1
            pos += k + 1
            continue
        return out, asserts, "CRASH rc=%d %s" % (rc, err[-300:])
    return out, asserts, None


def compare(ref, out):
    return [i for i in range(min(len(ref), len(out))) if ref[i] != out[i]] + ([min(len(ref), len(out))] if len(ref) != len(out) else [])


def _gen_digest():
    import hashlib
    h = hashlib.sha256()
    g = os.path.join(VERIF, "lean", "Bee2V", "Gen")
    for f in sorted(os.listdir(g)):
        if f.endswith(".lean"):
            h.update(f.encode()); h.update(open(os.path.join(g, f), "rb").read())
    return h.hexdigest()


def confirm_vs_model(ctx, disagreements, areas, streams):
    """Failure path only.  An area's Lean driver is built from generated files (lean/Bee2V/Gen) that the area's own
    check regenerates from the source; if that check last ran on a DIFFERENT tree (e.g. a patched scratch copy) the
    driver is stale and a "vs-model" difference says nothing about the current code.  Before reporting such a
    difference, regenerate the area's model from the current source; if that changes the generated files, rebuild the
    driver and keep only the differences that persist.  Anything that goes wrong here keeps the disagreement."""
    bad_areas = sorted(set(d[0] for d in disagreements if d[2] == "vs-model"))
    if not bad_areas:
        return disagreements
    drv = {a[0]: a[2] for a in areas}
    out = [d for d in disagreements if d[2] != "vs-model"]
    for area in bad_areas:
        mine = [d for d in disagreements if d[2] == "vs-model" and d[0] == area]
        try:
            mod = importlib.import_module(area)
            if not hasattr(mod, "regen"):
                out += mine; continue
            before = _gen_digest()
            mod.regen(ctx)
            if _gen_digest() == before:
                out += mine; continue          # the model was current: the difference stands
            ok, log = ctx.lake_build([drv[area]])
            if not ok:
                out += mine; continue
            kept = 0
            for d in mine:
                w = 32 if d[1] == "w32" else 64
                ops = streams[(area, w)]
                idx = ops.index(d[3])
                l_out, lerr, lrc = ctx.run_lines(ctx.driver(drv[area]), ops)
                if idx < len(l_out) and l_out[idx] == d[4]:
                    continue                    # agrees with the regenerated model
                out.append((d[0], d[1], d[2], d[3], d[4], l_out[idx] if idx < len(l_out) else ""))
                kept += 1
            ctx.notes.append("area %s: generated model was stale (left by a run on another tree); regenerated from the current source, "
                             "%d of %d vs-model differences persist" % (area, kept, len(mine)))
        except Exception as e:  # fail closed
            ctx.notes.append("area %s: stale-model confirmation failed (%s: %s); differences kept" % (area, type(e).__name__, e))
            out += mine
    return out


def run(ctx):
    T0 = time.time()
    proof_ok, log = ctx.prove(["Bee2V.C19.Props", "Bee2V.C19.Props2"], PROPS, drivers=[])
    c64, c32, cbash, skipped = cfg_plan(ctx.tier)
    ctx.cov["configs_64"] = c64
    ctx.cov["configs_32"] = c32
    ctx.cov["configs_bash"] = cbash
    ctx.cov["configs_skipped_not_passed"] = skipped
    disagreements = []       # (area, cfg, kind, op, got, expected)
    total = 0
    per = {}
    areas = AREAS + optional_areas()
    # build every library configuration, then compile every (area, configuration) harness in parallel
    from concurrent.futures import ThreadPoolExecutor
    for cfg in c64 + c32 + cbash:
        ctx.build_lib(cfg)
    jobs = []
    for area, harness, driver, fn, uses_bash in areas:
        for cfg in c64 + c32 + (cbash if uses_bash else []):
            jobs.append((harness, cfg, "%s-%s" % (area, cfg)))
    with ThreadPoolExecutor(max_workers=8) as ex:
        list(ex.map(lambda j: cc_once(ctx, j[0], j[1], j[2]), jobs))
    ctx.cov["t_build_compile_s"] = round(time.time() - T0, 1)
    # phase A (sequential: generators draw from ctx.rng): one fixed op stream per (area, word size)
    streams = {}
    for salt, (area, harness, driver, fn, uses_bash) in enumerate(areas):
        for w, refcfg in ((64, "asan"), (32, "w32")):
            refexe = cc_once(ctx, harness, refcfg, "%s-%s" % (area, refcfg))
            ops = gen_fixed(ctx, fn, refexe, w, salt * 10 + (w == 32))
            cap = QUICK_CAP if ctx.tier == "quick" else THOROUGH_CAP
            if len(ops) > cap:
                # stratified thinning keeps every op family and the corpus head
                head = ops[:200]
                rest = ops[200:]
                step = -(-len(rest) // (cap - 200))
                ops = head + rest[::step]
            streams[(area, w)] = ops
    ctx.cov["t_generate_s"] = round(time.time() - T0, 1)
    # phase B (areas in parallel): replay
    import threading
    lock = threading.Lock()
    tot = [0]

    def do_area(item):
        salt, (area, harness, driver, fn, uses_bash) = item
        total = 0
        have_driver = os.path.exists(ctx.driver(driver))
        refs = {}
        for w, cfgs, refcfg in ((64, c64 + (cbash if uses_bash else []), "asan"), (32, c32, "w32")):
            refexe = cc_once(ctx, harness, refcfg, "%s-%s" % (area, refcfg))
            ops = streams[(area, w)]
            t0 = time.time()
            ref_out, err, rc = run_guarded(ctx, refexe, ops, 900 if ctx.tier == "quick" else 3600)
            guard = int(max(300, 20 * (time.time() - t0)))
            if rc != 0 or len(ref_out) != len(ops):
                disagreements.append((area, refcfg, "crash", ops[min(len(ref_out), len(ops) - 1)], "CRASH rc=%d %s" % (rc, err[-200:]), ""))
                continue
            refs[w] = (ops, ref_out)
            if have_driver:
                l_out, lerr, lrc = ctx.run_lines(ctx.driver(driver), ops)
                for i in compare(ref_out, l_out)[:3]:
                    disagreements.append((area, refcfg, "vs-model", ops[i], ref_out[i] if i < len(ref_out) else "", l_out[i] if i < len(l_out) else ""))
            def one_cfg(cfg):
                exe = cc_once(ctx, harness, cfg, "%s-%s" % (area, cfg))
                use = ops
                if cfg in cbash:
                    use = [o for o in ops if o.split()[0] in ("bashf", "hash", "prg")] if ctx.tier == "quick" else ops
                    ref_use = [r for o, r in zip(ops, ref_out) if o.split()[0] in ("bashf", "hash", "prg")] if ctx.tier == "quick" else ref_out
                else:
                    ref_use = ref_out
                out, nass, crash = run_tolerant(ctx, exe, use, timeout=guard)
                return cfg, use, ref_use, out, nass, crash
            with ThreadPoolExecutor(max_workers=6) as ex:
                results = list(ex.map(one_cfg, [c for c in cfgs if c != refcfg]))
            for cfg, use, ref_use, out, nass, crash in results:
                total += len(use)
                per["%s/%s" % (area, cfg)] = len(use)
                if nass:
                    ctx.cov["ops_outside_preconditions_%s_%s" % (area, cfg)] = nass
                if crash:
                    disagreements.append((area, cfg, "crash", use[min(len(out), len(use) - 1)], crash, ""))
                for i in [j for j in compare(ref_use, out) if not (j < len(out) and out[j] == "ASSERT")][:3]:
                    disagreements.append((area, cfg, "vs-" + refcfg, use[i], out[i] if i < len(out) else "", ref_use[i]))
            total += len(ops)
            per["%s/%s" % (area, refcfg)] = len(ops)
        # across word sizes: the 64-bit stream replayed on the 32-bit-word library
        if 64 in refs and 32 in refs and area not in NO_CROSS:
            ops64, ref64 = refs[64]
            exe32 = cc_once(ctx, harness, "w32", "%s-w32" % area)
            out32, err, rc = run_guarded(ctx, exe32, ops64, guard)
            total += len(ops64)
            wordspec = {}
            for i in compare(ref64, out32):
                fam = ops64[i].split()[0] if i < len(ops64) else "?"
                wordspec.setdefault(fam, []).append(i)
            allowed = WORD_SPECIFIC.get(area, set())
            for fam, idx in wordspec.items():
                if fam in allowed:
                    continue
                i = idx[0]
                disagreements.append((area, "w32", "vs-asan(64-bit stream)", ops64[i], out32[i] if i < len(out32) else "", ref64[i]))
            ctx.cov["cross_word_size_word_specific_families_" + area] = sorted(f for f in wordspec if f in allowed)
        with lock:
            tot[0] += total
    with ThreadPoolExecutor(max_workers=4) as ex:
        list(ex.map(do_area, list(enumerate(areas))))
    total = tot[0]
    ctx.cov["t_replay_s"] = round(time.time() - T0, 1)
    disagreements = confirm_vs_model(ctx, disagreements, areas, streams)
    disagreements.sort(key=lambda d: (d[0], d[1], d[2], d[3]))
    ctx.cov["ops_total"] = total
    ctx.cov["ops_per_area_config"] = per
    ctx.cov["distinct_nontrivial"] = len(per)
    ctx.cov["disagreements"] = len(disagreements)
    ctx.samples += [{"area_config": k, "ops": v} for k, v in list(per.items())[:6]]
    ctx.samples.append({"theorem": "Bee2V.C19.addBitSize_word_size_independent", "statement": "the DWP/CHE length block is the same for 16-, 32- and 64-bit machine words"})
    seen = set()
    for area, cfg, kind, op, got, exp in disagreements:
        key = "%s:%s:%s" % (area, cfg, op.split()[0] if op else "?")
        if key in seen:
            continue
        seen.add(key)
        ctx.violation("config:" + key,
                      "# property C19: configuration %s of area %s computes something else than %s\nconfig %s\narea %s\nop %s\n# got      %s\n# expected %s\n"
                      % (cfg, area, kind, cfg, area, op, got[:400], exp[:400]), True,
                      "[%s/%s %s] %s\n got      %s\n expected %s" % (area, cfg, kind, op[:200], got[:200], exp[:200]))
    if not proof_ok and not disagreements:
        ctx.violation("proof", "# property C19: Bee2V/C19/Props.lean (parametricity corollaries) no longer checks; all configurations agree on the replayed streams\n"
                      + "\n".join("# " + l for l in log.split("\n") if "error" in l)[:3000], False,
                      "theorems no longer check: " + "; ".join(ctx.cov.get("lake_errors", []))[:400])
    return ctx.finish(
        level="proof",
        assumptions=["the Lean statement is parametricity of the MODELS (word size, edition, representation); that the compiled configurations agree "
                     "with the models is checked by replaying the areas' op streams (sampling of inputs, exhaustive over the listed configurations)",
                     "optimisation levels, NDEBUG and SIMD bash-f variants are covered by the differential only",
                     "configurations listed under configs_skipped_not_passed were NOT run"],
        rule="for every area with a harness: one fixed op stream per word size replayed on every configuration; outputs compared with the area's Lean driver, "
             "with the reference configuration, and across word sizes; distinct_nontrivial = number of (area, configuration) pairs run")




def replay(ctx, path):
    info = {}
    for line in open(path):
        w = line.strip().split(" ", 1)
        if len(w) == 2 and w[0] in ("config", "area", "op"):
            info[w[0]] = w[1]
    if "op" not in info:
        print("replay file names a theorem, nothing to execute")
        return 0
    area = info["area"]
    harness = [a for a in AREAS + optional_areas() if a[0] == area][0][1]
    w32 = info["config"].startswith("w32")
    ref = ctx.cc(harness, "w32" if w32 else "asan", name="ref")
    exe = ctx.cc(harness, info["config"], name="cfg")
    a, _, _ = ctx.run_lines(ref, [info["op"]])
    b, _, _ = ctx.run_lines(exe, [info["op"]])
    print("reference:", a[0][:300] if a else "")
    print(info["config"] + ":", b[0][:300] if b else "")
    return 1 if a != b else 0

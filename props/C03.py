"""C03 — bash-f, bash hash, bash programmable automaton, brng CTR/HMAC, botp HOTP/TOTP/OCRA.

Proof : lean/Bee2V/C03/Props.lean (bash-f = standard for all states; sponge chunk independence;
        decr . encr = id under every command history; CTR counter = +1 mod 2^256 and r untouched;
        botp counter / truncation).
Tie   : (a) Bee2V/Gen/C03.lean is regenerated from bash_f64.c / bash_prg.c / botp.c, Gen/C03Belt.lean
        from belt_block.c, on every run; (b) correspondence: the same op lines go to harness/c03.c
        (real library, also the w32 / bash32 / SIMD builds) and to the Lean driver drv_c03.
Search: properties tested on the implementation alone (decr(encr x) = x, chunked = one-shot,
        counter algebra of brngCTR computed in Python, botp arithmetic in Python).
"""
import os, sys, importlib
import vcommon

PROPS = ["Bee2V/C03/Props.lean"]
H = lambda b: bytes(b).hex() if len(b) else "-"


def regen(ctx):
    import x_c03, x_c03belt
    importlib.reload(x_c03)
    importlib.reload(x_c03belt)
    ctx.regen("Bee2V/Gen/C03.lean", x_c03.generate())
    ctx.regen("Bee2V/Gen/C03Belt.lean", x_c03belt.generate())


# ----------------------------------------------------------------------------- generators
def rb(rng, n):
    return bytes(rng.getrandbits(8) for _ in range(n))


def gen_bashf(ctx):
    rng, ops = ctx.rng, []
    n = 40 if ctx.tier == "quick" else 400
    ops += ["bashf " + "00" * 192, "bashf " + "ff" * 192]
    for i in range(24):                               # one word set, one bit set, one word clear
        b = bytearray(192); b[8 * i:8 * i + 8] = b"\xff" * 8; ops.append("bashf " + H(b))
        b = bytearray(192); b[8 * i + rng.randrange(8)] = 1 << rng.randrange(8); ops.append("bashf " + H(b))
        b = bytearray(b"\xff" * 192); b[8 * i:8 * i + 8] = bytes(8); ops.append("bashf " + H(b))
    for _ in range(n):
        ops.append("bashf " + H(rb(rng, 192)))
    return ops


def corpus_lines():
    p = os.path.join(vcommon.VERIF, "gen", "c03.corpus")
    if not os.path.exists(p):
        return []
    return [l.rstrip("\n") for l in open(p) if l.strip() and not l.startswith("#")]


# ----------------------------------------------------------------------------- search oracles
def search(ctx, exe, op, c_out):
    """Test the PROPERTY on the implementation alone around a differing op.
    Returns (found, key, what)."""
    return False, "correspondence:" + op.split()[0], "no independent oracle for this op kind"


def fmt_replay(key, cfg, op, impl, model, what):
    return "\n".join(["# property C03 key=%s : %s" % (key, what),
                      "# replay with ./check C03 --replay <this file>",
                      "cfg %s" % cfg, "op %s" % op, "impl %s" % impl, "model %s" % model]) + "\n"


def run(ctx):
    translator_error = None
    try:
        regen(ctx)
    except Exception as e:
        translator_error = "%s: %s" % (type(e).__name__, e)
    if translator_error:
        proof_ok, log = False, "translator: " + translator_error
        ctx.obligations += [(n, None) for rel in PROPS for n in ctx.theorems_of(rel)]
    else:
        proof_ok, log = ctx.prove(["Bee2V.C03.Props"], PROPS)
    cfgs = ["asan", "w32"]
    if ctx.tier == "thorough":
        cfgs += ["bash32", "sse2"]
        flags = open("/proc/cpuinfo").read()
        if " avx2 " in flags:
            cfgs.append("avx2")
        else:
            ctx.notes.append("cfg avx2 skipped: CPU has no avx2")
        if " avx512f " in flags:
            cfgs.append("avx512")
        else:
            ctx.notes.append("cfg avx512 skipped: CPU has no avx512f")
    ops = corpus_lines() + gen_bashf(ctx)
    kinds = {}
    for o in ops:
        kinds[o.split()[0]] = kinds.get(o.split()[0], 0) + 1
    ctx.cov["ops_by_kind"] = kinds
    ctx.cov["configs"] = cfgs
    all_mism, distinct = [], set()
    have_driver = (not translator_error) and os.path.exists(ctx.driver())
    for cfg in cfgs:
        exe = ctx.cc("harness/c03.c", cfg)
        if have_driver:
            try:
                mism, c_out, l_out = ctx.diff_run(exe, ops, cfg)
            except RuntimeError as e:
                ctx.notes.append(str(e)[:300])
                mism, c_out = [(-1, "driver", "", str(e)[:300])], []
        else:
            c_out, _, _ = ctx.run_lines(exe, ops)
            mism = []
        distinct.update(c_out)
        all_mism += [(cfg, exe) + m for m in mism]
    ctx.cov["correspondence_disagreements"] = len(all_mism)
    ctx.samples += [{"op": o[:100]} for o in ops[:3]]
    ctx.samples.append({"theorem": "Bee2V.C03.bashF0_eq_spec",
                        "statement": "∀ s x, (bashF0 s)[x].toBitVec = Spec.bashF (fun y => s[y].toBitVec) x"})
    reported = set()
    for cfg, exe, i, op, c, l in all_mism[:50]:
        found, key, what = search(ctx, exe, op, c)
        if key in reported:
            continue
        reported.add(key)
        ctx.violation(key, fmt_replay(key, cfg, op, c, l, what), found,
                      "[%s] %s\n impl : %s\n model: %s\n %s" % (cfg, op[:300], c[:300], l[:300], what))
    if not proof_ok and not all_mism:
        errs = "\n".join("# " + l for l in log.split("\n") if "error" in l)[:3000]
        ctx.violation("proof", "# property C03: the theorems of Bee2V/C03/Props.lean no longer check against the model "
                      "regenerated from the source; the correspondence run found no differing output.\n" + errs,
                      False, "theorems no longer check: " + (translator_error or "; ".join(ctx.cov.get("lake_errors", [])))[:400])
    return ctx.finish(
        level="proof",
        assumptions=[
            "xlate/x_c03.py reads bashF0 from the preprocessed source faithfully (validated on every run by the "
            "correspondence of bashF with the compiled library)",
            "little-endian octet order (the BIG_ENDIAN branches are not modelled)"],
        rule="boundary-heavy generated ops; an op is non-trivial when its output is not constant; "
             "distinct = number of distinct implementation outputs",
        distinct=len(distinct))


def replay(ctx, path):
    cfg, op, model = "asan", None, None
    for line in open(path):
        w = line.rstrip("\n").split(" ", 1)
        if w[0] == "cfg":
            cfg = w[1]
        elif w[0] == "op":
            op = w[1]
        elif w[0] == "model":
            model = w[1]
    if op is None:
        print("replay file names a theorem, not an input: nothing to execute")
        return 0
    exe = ctx.cc("harness/c03.c", cfg)
    out, err, rc = ctx.run_lines(exe, [op])
    got = out[0] if out else "CRASH rc=%d %s" % (rc, err[-300:])
    print("op    %s\nimpl  %s\nmodel %s" % (op[:400], got[:400], (model or "")[:400]))
    found, key, what = search(ctx, exe, op, got)
    bad = found or (model is not None and got != model)
    print("property C03 %s on the current tree (%s)" % ("VIOLATED" if bad else "holds", what))
    return 1 if bad else 0

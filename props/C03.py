"""C03 — bash-f, bash hash, bash programmable automaton, brng CTR/HMAC, botp HOTP/TOTP/OCRA.

Proof : lean/Bee2V/C03/Props.lean (bash-f = standard for all states; sponge chunk independence;
        decr . encr = id under every command history; CTR counter = +1 mod 2^256 and r untouched;
        botp counter / truncation).
Tie   : (a) Bee2V/Gen/C03.lean is regenerated from bash_f64.c / bash_prg.c / botp.c, Gen/C03Belt.lean
        from belt_block.c, on every run; (b) correspondence: the same op lines go to harness/c03.c
        (real library, also the w32 / bash32 / SIMD builds) and to the Lean driver drv_c03.
Search: properties tested on the implementation alone (decr(encr x) = x, chunked = one-shot,
        counter algebra of brngCTR computed in Python, botp arithmetic in Python).
"""
import os, sys, importlib
import vcommon

PROPS = ["Bee2V/C03/Props.lean"]
H = lambda b: bytes(b).hex() if len(b) else "-"


def regen(ctx):
    import x_c03, x_c03belt, x_c03f32
    importlib.reload(x_c03)
    importlib.reload(x_c03belt)
    importlib.reload(x_c03f32)
    ctx.regen("Bee2V/Gen/C03.lean", x_c03.generate())
    ctx.regen("Bee2V/Gen/C03Belt.lean", x_c03belt.generate())
    ctx.regen("Bee2V/Gen/C03F32.lean", x_c03f32.generate())


# ----------------------------------------------------------------------------- Python references (search oracle)
M64 = (1 << 64) - 1


def _rot(w, d):
    return ((w << d) | (w >> (64 - d))) & M64


def py_bashS(w0, w1, w2, m1, n1, m2, n2):
    t0 = _rot(w0, m1)
    w0 ^= w1 ^ w2
    t1 = w1 ^ _rot(w0, n1)
    w1 = t0 ^ t1
    w2 ^= _rot(w2, m2) ^ _rot(t1, n2)
    t0 = ~w2 & M64
    t1 = w0 | w2
    t2 = w0 & w1
    t0 |= w1
    return w0 ^ t0, w1 ^ t1, w2 ^ t2


PERM = [15, 10, 9, 12, 11, 14, 13, 8, 17, 16, 19, 18, 21, 20, 23, 22, 6, 3, 0, 5, 2, 7, 4, 1]


def py_bashF(block):
    """bash-f written from the text of STB 34.101.77 (independent of the Lean model)"""
    S = [int.from_bytes(block[8 * i:8 * i + 8], "little") for i in range(24)]
    C = 0x3BF5080AC8BA94B1
    for _ in range(24):
        m1, n1, m2, n2 = 8, 53, 14, 1
        for j in range(8):
            S[j], S[8 + j], S[16 + j] = py_bashS(S[j], S[8 + j], S[16 + j], m1, n1, m2, n2)
            m1, n1, m2, n2 = 7 * m1 % 64, 7 * n1 % 64, 7 * m2 % 64, 7 * n2 % 64
        S = [S[PERM[x]] for x in range(24)]
        S[23] ^= C
        C = (C >> 1) ^ (0xDC2BE1997FE0D8AE if C & 1 else 0)
    return b"".join(w.to_bytes(8, "little") for w in S)


def py_bash_hash(l, data):
    r = 192 - l // 2
    S = bytearray(192)
    S[184] = l // 4
    x = bytes(data) + b"\x40"
    x += bytes(-len(x) % r)
    for i in range(0, len(x), r):
        S[:r] = x[i:i + r]
        S = bytearray(py_bashF(bytes(S)))
    return bytes(S[:l // 4])


def py_dt(digit, mac):
    off = mac[-1] & 15
    return "%0*d" % (digit, (int.from_bytes(mac[off:off + 4], "big") & 0x7FFFFFFF) % 10 ** digit)


# ----------------------------------------------------------------------------- generators
def rb(rng, n):
    return bytes(rng.getrandbits(8) for _ in range(n))


def gen_bashf(ctx):
    rng, ops = ctx.rng, []
    n = 40 if ctx.tier == "quick" else 400
    ops += ["bashf " + "00" * 192, "bashf " + "ff" * 192]
    for i in range(24):                               # one word set, one bit set, one word clear
        b = bytearray(192); b[8 * i:8 * i + 8] = b"\xff" * 8; ops.append("bashf " + H(b))
        b = bytearray(192); b[8 * i + rng.randrange(8)] = 1 << rng.randrange(8); ops.append("bashf " + H(b))
        b = bytearray(b"\xff" * 192); b[8 * i:8 * i + 8] = bytes(8); ops.append("bashf " + H(b))
    for _ in range(n):
        ops.append("bashf " + H(rb(rng, 192)))
    # the same blocks through the bash_f32.c MODEL (op bashf32; the library side is bashF of the configuration)
    ops += ["bashf32 " + o.split()[1] for o in ops[:2] + ops[2:74:3] + ops[-12:]]
    return ops


def chunkings(rng, data, rate, k):
    """k ways of cutting data, cuts biased to the block boundaries"""
    out = []
    n = len(data)
    for _ in range(k):
        cuts = set()
        for _ in range(rng.randrange(1, 5)):
            c = rng.choice([rate - 1, rate, rate + 1, 1, 0, n, n - 1, rng.randrange(n + 1), 2 * rate, rate // 2])
            if 0 <= c <= n:
                cuts.add(c)
        cs = [0] + sorted(cuts) + [n]
        out.append([data[a:b] for a, b in zip(cs, cs[1:])])   # may contain empty chunks (count = 0 calls)
    return out


def gen_hash(ctx):
    rng, ops = ctx.rng, []
    for l in range(16, 257, 16):
        rate = 192 - l // 2
        lens = [0, 1, rate - 1, rate, rate + 1, 2 * rate + 3]
        if ctx.tier == "thorough":
            lens += [2 * rate, 3 * rate - 1, rng.randrange(4 * rate)]
        for n in lens:
            d = rb(rng, n)
            ops.append("hash %d %s" % (l, H(d)))
            for ch in chunkings(rng, d, rate, 1 if ctx.tier == "quick" else 3):
                ops.append("hash %d %s" % (l, " ".join(H(c) for c in ch)))
    ops.append("hash 256")
    return ops


def prg_buflen(l, d, keyed):
    return 192 - l * (2 + d) // 16 if keyed else 192 - d * l // 4


def gen_prg_one(rng, l, d, keyed, ncmd):
    """random command sequence; the generator tracks pos/buf_len so that Step calls END EXACTLY on a buffer
    boundary k*buf_len (k = 1, 2, 3; also reached by two consecutive Steps) and are followed by more commands"""
    ann = rb(rng, 4 * rng.randrange(0, 16))
    key = rb(rng, 4 * rng.randrange(l // 32, 16)) if keyed else b""
    bl = prg_buflen(l, d, keyed)
    pos = 1 + len(ann) + len(key)
    toks, last = [], None
    for _ in range(ncmd):
        kinds = ["A", "S", "T", "R", "A", "S"] + (["E", "D", "E", "D"] if keyed else [])
        if last in ("A", "S", "E", "D") and rng.random() < 0.4:
            k = last.lower()                               # continue the same command with another Step
        else:
            k = rng.choice(kinds)
        if k in "ASED":
            pos = 0                                        # commit
        def dlen():
            to_b = bl - pos                                # octets up to the next boundary
            return rng.choice([0, 1, bl - 1, bl, bl + 1, 2 * bl + 3, rng.randrange(3 * bl), rng.randrange(8),
                               to_b, to_b + bl, to_b + 2 * bl, to_b + bl - 1, to_b + bl + 1, to_b - 1 if to_b else 0,
                               to_b, to_b + bl])
        if k == "T":
            toks.append("T"); last = None; pos = 0
        elif k == "R":
            a2 = rb(rng, 4 * rng.randrange(0, 16))
            k2 = rb(rng, 4 * rng.randrange(l // 32, 16)) if rng.random() < 0.5 else b""
            toks.append("R:%s:%s" % (H(a2), H(k2)))
            if k2:
                keyed = True
                bl = prg_buflen(l, d, True)
            pos = 1 + len(a2) + len(k2)
            last = None
        else:
            n = dlen()
            pos = (pos + n) % bl
            if k in ("S", "s"):
                toks.append("%s:%d" % (k, n)); last = "S"
            else:
                toks.append("%s:%s" % (k, H(rb(rng, n)))); last = k.upper()
    toks.append("S:7")                                     # a further command whose output is compared
    return "prg %d %d %s %s %s" % (l, d, H(ann), H(key), " ".join(toks))


def gen_prg_boundaries(rng, l, d, keyed):
    """systematic: every Step function ends exactly at k*buf_len (k = 1, 2, 3), by one call and by two calls,
    from pos = 0 and from pos > 0, always followed by further commands"""
    ops = []
    bl = prg_buflen(l, d, keyed)
    ann = rb(rng, 8)
    key = rb(rng, 32) if keyed else b""
    head = "prg %d %d %s %s " % (l, d, H(ann), H(key))

    def tok(c, n):
        return "%s:%d" % (c, n) if c in "Ss" else "%s:%s" % (c, H(rb(rng, n)))
    for c in ("A", "S") + (("E", "D") if keyed else ()):
        for k in (1, 2, 3):
            ops.append(head + "%s S:9 T S:3" % tok(c, k * bl))                              # one call, from pos 0
            a = rng.randrange(1, bl)
            ops.append(head + "%s %s S:9" % (tok(c, a), tok(c.lower(), k * bl - a)))         # two calls
            ops.append(head + "%s %s %s A:0102 S:9" % (tok(c, a), tok(c.lower(), k * bl - a), tok(c.lower(), 2 * bl)))
        ops.append(head + "%s %s S:9" % (tok(c, bl - 1), tok(c.lower(), bl + 1)))
        ops.append(head + "%s %s %s S:9" % (tok(c, 2 * bl), tok(c.lower(), bl), tok(c.lower(), 1)))
    return ops


def gen_prg(ctx):
    rng, ops = ctx.rng, []
    per = 5 if ctx.tier == "quick" else 30
    for l in (128, 192, 256):
        for d in (1, 2):
            for keyed in (False, True):
                for _ in range(per):
                    ops.append(gen_prg_one(rng, l, d, keyed, rng.randrange(1, 14)))
                ops += gen_prg_boundaries(rng, l, d, keyed)
                # boundary: announcement + key fill the start block as far as the header allows
                ops.append("prg %d %d %s %s S:1 T A:00 S:%d" % (l, d, "aa" * 60, ("bb" * 60) if keyed else "-",
                                                                  prg_buflen(l, d, keyed)))
    ops += ["prg 128 3 - -", "prg 100 1 - -", "prg 128 1 0011 -", "prg 128 1 - 00112233", "prg 128 1 - - E:00", "prg 128 1 - - X:00"]
    return ops


def ctr_ivs(rng):
    ivs = [b"\xff" * 32, b"\xff" * 31 + b"\xfe", b"\xfe" + b"\xff" * 31, bytes(32)]
    for k in range(1, 8):                       # carry out of word k-1 (32-bit granularity covers 64-bit too)
        ivs.append(b"\xff" * (4 * k) + bytes([rng.randrange(255)]) + rb(rng, 31 - 4 * k))
        ivs.append(b"\xff" * (4 * k) + bytes(32 - 4 * k))
    ivs.append(b"\xfd" + b"\xff" * 31)
    ivs += [rb(rng, 32) for _ in range(3)]
    return ivs


def gen_ctr(ctx):
    rng, ops = ctx.rng, []
    for iv in ctr_ivs(rng):
        ops.append("ctrinc " + H(iv + rb(rng, 32)))
        ops.append("ctrinc " + H(iv + bytes(32)))
        ops.append("ctrinc " + H(iv + b"\xff" * 32))
    for iv in ctr_ivs(rng):
        key = rb(rng, 32)
        pat = rng.choice([[32, 32, 32], [96], [64, 1], [5, 40, 27, 32], [31, 1, 33], [0, 32, 0, 7, 7, 7, 43], [100, 3, 29]])
        if rng.random() < 0.7:
            bufs = [bytes(n) for n in pat]         # zero-filled buffers, as the header asks for plain generation
        else:
            bufs = [rb(rng, n) for n in pat]       # additional input X
        ops.append("ctr %s %s %s" % (H(key), H(iv), " ".join(H(b) for b in bufs)))
    ops += ["ctr 00 00", "ctrinc 00"]
    return ops


def gen_hmacgen(ctx):
    rng, ops = ctx.rng, []
    kls = [0, 1, 31, 32, 33, 64, 65]
    ils = [0, 1, 32, 63, 64, 65, 100]
    for kl in kls:
        for il in (ils if ctx.tier == "thorough" else [rng.choice(ils), rng.choice([64, 65])]):
            pat = rng.choice([[32, 32], [64], [5, 40, 27, 32], [31, 1, 33], [0, 7, 7, 50], [100]])
            ops.append("hmacgen %s %s %s" % (H(rb(rng, kl)), H(rb(rng, il)), " ".join(map(str, pat))))
    return ops


SUITES_OK = ["OCRA-1:HOTP-HBELT-6:QN08", "OCRA-1:HOTP-HBELT-8:C-QN08-PHBELT", "OCRA-1:HOTP-HBELT-4:QA04-S000",
             "OCRA-1:HOTP-HBELT-9:C-QH64-PSHA512-S512-T48H", "OCRA-1:HOTP-HBELT-7:QA10-T1M", "OCRA-1:HOTP-HBELT-5:QN08-T59S",
             "OCRA-1:HOTP-HBELT-6:C-QN08-PSHA1-S064-T30S", "OCRA-1:HOTP-HBELT-6:QN12-PSHA256-T9M"]
SUITES_BAD = ["OCRA-1:HOTP-SHA1-6:QN08", "OCRA-1:HOTP-HBELT-3:QN08", "OCRA-1:HOTP-HBELT-6:QN03", "OCRA-1:HOTP-HBELT-6:QN65",
              "OCRA-1:HOTP-HBELT-6:QX08", "OCRA-1:HOTP-HBELT-6:C_QN08", "OCRA-1:HOTP-HBELT-6:QN08-S513", "OCRA-1:HOTP-HBELT-6:QN08-T60S",
              "OCRA-1:HOTP-HBELT-6:QN08-T60M", "OCRA-1:HOTP-HBELT-6:QN08-T49H", "OCRA-1:HOTP-HBELT-6:QN08-T0M", "OCRA-1:HOTP-HBELT-6:QN08-T5X",
              "OCRA-1:HOTP-HBELT-6:QN08-PMD5", "OCRA-1:HOTP-HBELT-6:QN08x", "OCRA-1:HOTP-HBELT-6:QN8", "OCRA-1:HOTP-HBELT-6:QN08-S06",
              "OCRA-2:HOTP-HBELT-6:QN08", "OCRA-1:HOTP-HBELT-6", "OCRA-1:HOTP-HBELT-:QN08", "", "OCRA-1:HOTP-HBELT-6:QN08-T", "OCRA-1:HOTP-HBELT-6:Q"]


def rand_suite(rng):
    s = "OCRA-1:HOTP-HBELT-%d:" % rng.randrange(4, 10)
    if rng.random() < 0.5:
        s += "C-"
    s += "Q" + rng.choice("ANH") + "%02d" % rng.choice([4, 5, 8, 10, 32, 63, 64])
    if rng.random() < 0.5:
        s += "-P" + rng.choice(["HBELT", "SHA1", "SHA256", "SHA512"])
    if rng.random() < 0.5:
        s += "-S%03d" % rng.choice([0, 1, 64, 100, 511, 512])
    if rng.random() < 0.5:
        s += "-T" + rng.choice(["1S", "59S", "1M", "59M", "1H", "48H", "30S", "5M"])
    return s


def ocra_op(rng, suite, qlen=None, n=2):
    import re as _re
    m = _re.search(r":(C-)?Q[ANH](\d\d)", suite)
    qmax = int(m.group(2)) if m else 8
    pm = _re.search(r"-P(HBELT|SHA1|SHA256|SHA512)", suite)
    pl = {"HBELT": 32, "SHA1": 20, "SHA256": 32, "SHA512": 64}[pm.group(1)] if pm else 0
    sm = _re.search(r"-S(\d\d\d)", suite)
    sl = int(sm.group(1)) if sm else 0
    if qlen is None:
        qlen = rng.choice([4, 2 * qmax, rng.randrange(4, 2 * qmax + 1)])
    ctr = rng.choice([b"\xff" * 8, bytes(7) + b"\xff", rb(rng, 8), b"\x00\xff" * 4])
    t = rng.choice([0, 1, 2 ** 31, 2 ** 32 + 5, 2 ** 63, 2 ** 64 - 1, rng.getrandbits(40)])
    return "ocra %s %s %s %s %s %s %d %d" % (H(suite.encode()), H(rb(rng, rng.choice([0, 16, 32, 33]))), H(rb(rng, qlen)),
                                             H(ctr), H(rb(rng, pl)), H(rb(rng, sl if sl <= 512 else 0)), t, n)


def gen_botp(ctx):
    rng, ops = ctx.rng, []
    for k in range(9):                                   # trailing run of k octets FF -> carry through k octets
        ops.append("ctrnext " + H(rb(rng, 8 - k)[:-1] + bytes([rng.randrange(255)]) + b"\xff" * k if k < 8 else b"\xff" * 8))
    ops += ["ctrnext " + H(rb(rng, 8)) for _ in range(4)]
    for dg in range(4, 10):
        for nib in ([rng.randrange(16) for _ in range(3)] if ctx.tier == "quick" else range(16)):
            ln = rng.choice([20, 32, 64])
            mac = bytearray(rb(rng, ln)); mac[-1] = (mac[-1] & 0xF0) | nib
            if rng.random() < 0.3:
                mac[nib:nib + 4] = rng.choice([b"\xff\xff\xff\xff", b"\x80\x00\x00\x00", b"\x7f\xff\xff\xff", bytes(4)])
            ops.append("dt %d %s" % (dg, H(mac)))
        for ctr in (b"\xff" * 8, bytes(6) + b"\xff\xff", rb(rng, 8)):
            ops.append("hotp %d %s %s 3" % (dg, H(rb(rng, rng.choice([0, 16, 32, 33, 64, 65]))), H(ctr)))
        for t in (0, 2 ** 64 - 1, 2 ** 32, rng.getrandbits(35)):
            ops.append("totp %d %s %d" % (dg, H(rb(rng, rng.choice([16, 32, 40]))), t))
    ops.append("hotpv 6 0011 0000000000000000 303030303030")
    for su in SUITES_OK:
        ops.append(ocra_op(rng, su))
    for su in SUITES_BAD:
        ops.append(ocra_op(rng, su, qlen=8))
    for _ in range(10 if ctx.tier == "quick" else 60):
        ops.append(ocra_op(rng, rand_suite(rng)))
    ops.append(ocra_op(rng, SUITES_OK[0], qlen=3))
    ops.append(ocra_op(rng, SUITES_OK[0], qlen=17))
    for _ in range(6):                                    # one-character damage of a valid suite
        su = list(rng.choice(SUITES_OK)); su[rng.randrange(len(su))] = rng.choice("0159ACHMNQST-:x")
        ops.append(ocra_op(rng, "".join(su), qlen=8))
    ops += ["hotp 3 00 0000000000000000 1", "hotp 10 00 0000000000000000 1", "dt 6 00", "totp 6 00 99999999999999999999"]
    return ops


def suite_params(suite):
    """the OCRA suite grammar of the standard (independent of the Lean model): None = not a valid suite"""
    import re as _re
    m = _re.fullmatch(r"OCRA-1:HOTP-HBELT-([4-9]):(C-)?Q([ANH])(\d\d)(?:-P(HBELT|SHA1|SHA256|SHA512))?(?:-S(\d\d\d))?(?:-T([1-9]\d?)([SMH]))?", suite)
    if not m:
        return None
    if not 4 <= int(m.group(4)) <= 64 or (m.group(6) and int(m.group(6)) > 512):
        return None
    if m.group(7) and int(m.group(7)) > {"S": 59, "M": 59, "H": 48}[m.group(8)]:
        return None
    return {"digit": int(m.group(1)), "ctr": bool(m.group(2)), "qmax": int(m.group(4)),
            "pl": {"HBELT": 32, "SHA1": 20, "SHA256": 32, "SHA512": 64}.get(m.group(5), 0),
            "sl": int(m.group(6)) if m.group(6) else 0, "ts": bool(m.group(7))}


def gen_histories(ctx):
    """several requests on ONE state: longer challenge first, then shorter ones; right / wrong / next passwords;
    verification failure followed by further requests (the counter must not move on failure)"""
    rng, ops = ctx.rng, []
    n = 6 if ctx.tier == "quick" else 40
    for _ in range(n):
        dg = rng.randrange(4, 10)
        toks = ["S:" + H(rng.choice([b"\xff" * 8, bytes(7) + b"\xff", rb(rng, 8), bytes(6) + b"\xff\xfe"]))]
        for _ in range(rng.randrange(3, 12)):
            toks.append(rng.choice(["R", "W", "N", "V:" + ("30" * dg), "V:3132", "G", "W", "N", "R",
                                    "S:" + H(rb(rng, 8))]))
        ops.append("hotps %d %s %s" % (dg, H(rb(rng, rng.choice([0, 16, 32, 40]))), " ".join(toks)))
    ops.append("hotps 6 00112233 S:ffffffffffffffff N G R N W G V:303030303030 G R")
    for _ in range(n // 2 + 1):
        dg = rng.randrange(4, 10)
        toks = []
        for _ in range(rng.randrange(2, 8)):
            t = rng.choice([0, 1, 2 ** 32, 2 ** 64 - 1, rng.getrandbits(36)])
            toks.append(rng.choice(["R:%d" % t, "W:%d" % t, "V:%d:%s" % (t, "39" * dg), "V:%d:31" % t]))
        ops.append("totps %d %s %s" % (dg, H(rb(rng, 32)), " ".join(toks)))
    suites = SUITES_OK + [rand_suite(rng) for _ in range(n)]
    for su in suites:
        sp = suite_params(su)
        if not sp:
            continue
        qm = sp["qmax"]
        lens = [2 * qm, qm + 1, qm, qm - 1 if qm > 4 else 4, 4, 2 * qm, 5 if qm > 4 else 4, rng.randrange(4, 2 * qm + 1)]
        toks = ["S:%s:%s:%s" % (H(rng.choice([b"\xff" * 8, rb(rng, 8)])), H(rb(rng, sp["pl"])), H(rb(rng, sp["sl"])))]
        for ql in lens:                                   # LONGER challenge first, then shorter ones on the same state
            t = rng.choice([0, 7, 2 ** 33, 2 ** 64 - 1])
            q = rng.choice([rb(rng, ql), b"\xff" * ql])
            toks.append(rng.choice(["R:%s:%d", "R:%s:%d", "W:%s:%d", "N:%s:%d", "V:%s:%d:" + "30" * sp["digit"]]) % (H(q), t))
            if rng.random() < 0.2:
                toks.append("G")
        ops.append("ocras %s %s %s" % (H(su.encode()), H(rb(rng, 32)), " ".join(toks)))
    ops.append("ocras %s %s R:00:0" % (H(SUITES_OK[0].encode()), "11" * 32))        # q too short
    ops.append("ocras %s %s R:31323334:0" % (H(SUITES_BAD[0].encode()), "11" * 32))  # bad suite
    return ops


def gen_belt(ctx):
    rng, ops = ctx.rng, []
    for _ in range(6):
        ops.append("belt.encr %s %s" % (H(rb(rng, 16)), H(rb(rng, 32))))
        ops.append("belt.compr %s %s" % (H(rb(rng, 32)), H(rb(rng, 32))))
    for pat in ([0], [1], [31, 1], [32], [33, 31, 64], [100, 0, 28], [65, 65], [32, 32, 32, 32]):
        ops.append("belt.hash " + " ".join(H(rb(rng, n)) for n in pat))
    for kl in (0, 1, 31, 32, 33, 64, 65):
        pat = rng.choice([[8], [32, 32], [5, 40, 27], [0, 64]])
        ops.append("belt.hmac %s %s" % (H(rb(rng, kl)), " ".join(H(rb(rng, n)) for n in pat)))
    for c in (0, 1, 2 ** 29 - 1, 2 ** 29, 2 ** 32, 2 ** 61, 2 ** 64 - 1):
        ops.append("belt.addbits %s %d" % (H(rng.choice([bytes(16), b"\xff" * 16, rb(rng, 16), b"\xf8" + b"\xff" * 15])), c))
    return ops


def corpus_lines():
    p = os.path.join(vcommon.VERIF, "gen", "c03.corpus")
    if not os.path.exists(p):
        return []
    return [l.rstrip("\n") for l in open(p) if l.strip() and not l.startswith("#")]


# ----------------------------------------------------------------------------- search oracles
def belt_hash(ctx, exe, data):
    out, _, _ = ctx.run_lines(exe, ["belt.hash " + H(data)])
    return bytes.fromhex(out[0])


def belt_hmac(ctx, exe, key, data):
    out, _, _ = ctx.run_lines(exe, ["belt.hmac %s %s" % (H(key), H(data))])
    return bytes.fromhex(out[0])


def unh(t):
    return b"" if t == "-" else bytes.fromhex(t)


def search(ctx, exe, op, c_out):
    """Test the PROPERTY on the implementation alone (no Lean model involved) for the differing op.
    Returns (found, key, what)."""
    w = op.split()
    kind = w[0]
    try:
        if c_out.startswith("CRASH"):
            return True, kind + ":sanitizer", "the implementation aborts on this input: " + c_out[:200]
        if kind in ("bashf", "bashf32"):
            ref = py_bashF(unh(w[1])).hex()
            if ref != c_out:
                return True, "bashf:value", "bashF differs from bash-f of STB 34.101.77 (Python reference): expected " + ref[:64] + "…"
        elif kind == "hash":
            l = int(w[1])
            data, outs = b"", c_out.split()
            for i, t in enumerate(w[2:]):
                data += unh(t)
                ref = py_bash_hash(l, data).hex()
                if i < len(outs) and outs[i] != ref:
                    return True, "hash:value", "bash hash l=%d of %d octets (fed in %d chunks) differs from the standard: expected %s" % (
                        l, len(data), i + 1, ref)
        elif kind == "prg":
            return search_prg(ctx, exe, w, c_out)
        elif kind == "ctrinc":
            m = unh(w[1])
            ref = ((int.from_bytes(m[:32], "little") + 1) % 2 ** 256).to_bytes(32, "little") + m[32:]
            if ref.hex() != c_out:
                what = "r (the octets after the block) changed" if c_out[64:] != ref.hex()[64:] else "s is not s+1 mod 2^256"
                return True, "brngBlockInc:" + ("r-touched" if c_out[64:] != ref.hex()[64:] else "value"), \
                    "brngBlockInc: %s; expected %s" % (what, ref.hex())
        elif kind == "ctr":
            key, iv = unh(w[1]), unh(w[2])
            s, r = int.from_bytes(iv, "little"), bytes(b ^ 0xFF for b in iv)
            outs, res, block = c_out.split(), 0, b""
            for bi, t in enumerate(w[3:]):
                buf, got, exp = unh(t), unh(outs[bi]), b""
                if res:
                    k = min(res, len(buf))
                    exp += block[32 - res:32 - res + k]; res -= k; buf = buf[k:]
                while buf:
                    x = buf[:32]
                    y = belt_hash(ctx, exe, key + s.to_bytes(32, "little") + x + bytes(32 - len(x)) + r)
                    s = (s + 1) % 2 ** 256
                    r = bytes(a ^ b for a, b in zip(r, y))
                    exp += y[:len(x)]
                    if len(x) < 32:
                        block, res = y, 32 - len(x)
                    buf = buf[32:]
                if exp != got:
                    return True, "brngCTR:output", "brngCTR request %d: output differs from Y_t = belt-hash(key || s || X_t || r) with s <- s+1 mod 2^256, r <- r xor Y_t (hash taken from the library itself): expected %s" % (bi, exp.hex())
            if outs[-1] != s.to_bytes(32, "little").hex():
                return True, "brngCTR:counter", "brngCTRStepG returns %s, expected iv + blocks mod 2^256 = %s" % (outs[-1], s.to_bytes(32, "little").hex())
        elif kind == "hmacgen":
            key, iv = unh(w[1]), unh(w[2])
            r = belt_hmac(ctx, exe, key, iv)
            outs, res, block = c_out.split(), 0, b""
            for bi, t in enumerate(w[3:]):
                n, exp = int(t), b""
                if res:
                    k = min(res, n)
                    exp += block[32 - res:32 - res + k]; res -= k; n -= k
                while n:
                    y = belt_hmac(ctx, exe, key, r + iv)
                    r = belt_hmac(ctx, exe, key, r)
                    k = min(32, n)
                    exp += y[:k]
                    if k < 32:
                        block, res = y, 32 - k
                    n -= k
                if exp != unh(outs[bi]):
                    return True, "brngHMAC:output", "brngHMAC request %d differs from Y_t = hmac(key, r || iv), r <- hmac(key, r): expected %s" % (bi, exp.hex())
        elif kind == "ctrnext":
            ref = ((int.from_bytes(unh(w[1]), "big") + 1) % 2 ** 64).to_bytes(8, "big").hex()
            if ref != c_out:
                return True, "botpCtrNext:value", "botpCtrNext is not +1 mod 2^64 (big-endian): expected " + ref
        elif kind == "dt":
            ref = py_dt(int(w[1]), unh(w[2]))
            if ref != c_out:
                return True, "botpDT:value", "botpDT differs from dynamic truncation mod 10^digit: expected " + ref
        elif kind == "hotp":
            dg, key, ctr = int(w[1]), unh(w[2]), int.from_bytes(unh(w[3]), "big")
            outs = c_out.split()
            for i in range(int(w[4])):
                ref = py_dt(dg, belt_hmac(ctx, exe, key, ctr.to_bytes(8, "big")))
                if outs[i] != ref:
                    return True, "botpHOTP:value", "HOTP password %d: expected %s" % (i, ref)
                ctr = (ctr + 1) % 2 ** 64
            if outs[-1] != ctr.to_bytes(8, "big").hex():
                return True, "botpHOTP:counter", "HOTP counter after %s passwords: expected %s" % (w[4], ctr.to_bytes(8, "big").hex())
        elif kind == "hotpv":
            dg, key, ctr = int(w[1]), unh(w[2]), int.from_bytes(unh(w[3]), "big")
            ok = py_dt(dg, belt_hmac(ctx, exe, key, ctr.to_bytes(8, "big"))) == unh(w[4]).decode("latin1")
            exp = "%d %s" % (1 if ok else 0, ((ctr + (1 if ok else 0)) % 2 ** 64).to_bytes(8, "big").hex())
            if c_out != exp:
                return True, "botpHOTP:verify", "botpHOTPStepV: result/counter %s, expected %s (the counter advances on success only)" % (c_out, exp)
        elif kind == "hotps":
            return search_hotps(ctx, exe, w, c_out)
        elif kind == "totps":
            dg, key, outs = int(w[1]), unh(w[2]), c_out.split()
            for i, t in enumerate(w[3:]):
                f = t.split(":")
                ref = py_dt(dg, belt_hmac(ctx, exe, key, int(f[1]).to_bytes(8, "big")))
                exp = ref if f[0] == "R" else ("1" if f[0] == "W" or unh(f[2]).decode("latin1") == ref else "0")
                if outs[i] != exp:
                    return True, "botpTOTP:history", "TOTP request %d (%s): expected %s" % (i, t[:40], exp)
        elif kind == "ocras":
            return search_ocras(ctx, exe, w, c_out)
        elif kind == "ocra":
            # ocra <suite> <key> <q> <ctr> <p> <s> <t> <n>  ==  history S, n x R, G
            sp = suite_params(unh(w[1]).decode("latin1"))
            if (sp is None) != (c_out == "bad-format"):
                return True, "botpOCRA:suite-grammar", "botpOCRAStart %s the suite %r, the grammar of the standard says %s" % (
                    "rejects" if c_out == "bad-format" else "accepts", unh(w[1]).decode("latin1"), "valid" if sp else "invalid")
            if sp is not None and c_out not in ("bad-params", "bad-op"):
                hist = ["ocras", w[1], w[2], "S:%s:%s:%s" % (w[4], w[5], w[6])] + ["R:%s:%s" % (w[3], w[7])] * int(w[8])
                return search_ocras(ctx, exe, hist, c_out)
        elif kind == "totp":
            ref = py_dt(int(w[1]), belt_hmac(ctx, exe, unh(w[2]), int(w[3]).to_bytes(8, "big")))
            if ref != c_out:
                return True, "botpTOTP:value", "TOTP password: expected " + ref
    except Exception as e:  # malformed outputs etc.: the oracle could not decide
        return False, "correspondence:" + kind, "search oracle failed on this op: %s" % e
    return False, "correspondence:" + kind, "implementation and model differ; the implementation-only test of the property passes on this input"


def search_hotps(ctx, exe, w, c_out):
    dg, key, outs, ctr, oi = int(w[1]), unh(w[2]), c_out.split(), 0, 0
    pw = lambda c: py_dt(dg, belt_hmac(ctx, exe, key, (c % 2 ** 64).to_bytes(8, "big")))
    for i, t in enumerate(w[3:]):
        f = t.split(":")
        exp = None
        if f[0] == "S":
            ctr = int.from_bytes(unh(f[1]), "big"); continue
        if f[0] == "R":
            exp = pw(ctr); ctr += 1
        elif f[0] == "G":
            exp = (ctr % 2 ** 64).to_bytes(8, "big").hex()
        else:
            otp = {"W": lambda: pw(ctr), "N": lambda: pw(ctr + 1), "V": lambda: unh(f[1]).decode("latin1")}[f[0]]()
            ok = otp == pw(ctr)
            exp = "1" if ok else "0"
            if ok:
                ctr += 1
        if outs[oi] != exp:
            return True, "botpHOTP:history", "HOTP history, command %d (%s): got %s, expected %s (counter must advance on success only)" % (i, t[:30], outs[oi], exp)
        oi += 1
    if outs[-1] != (ctr % 2 ** 64).to_bytes(8, "big").hex():
        return True, "botpHOTP:history-counter", "HOTP counter after the history: expected %016x" % (ctr % 2 ** 64)
    return False, "correspondence:hotps", "implementation-only HOTP history test passes"


def search_ocras(ctx, exe, w, c_out):
    suite = unh(w[1]).decode("latin1")
    sp = suite_params(suite)
    if (sp is None) != (c_out == "bad-format") and c_out != "bad-op":
        return True, "botpOCRA:suite-grammar", "botpOCRAStart %s the suite %r, the grammar of the standard says %s" % (
            "rejects" if c_out == "bad-format" else "accepts", suite, "valid" if sp else "invalid")
    if sp is None or c_out in ("bad-format", "bad-op"):
        return False, "correspondence:ocras", "rejected suite, as the grammar says"
    key, outs, ctr, p, s_, oi = unh(w[2]), c_out.split(), 0, b"", b"", 0

    def pw(c, q, t):
        d = suite.encode("latin1") + b"\x00"
        if sp["ctr"]:
            d += (c % 2 ** 64).to_bytes(8, "big")
        d += q + bytes(128 - len(q)) + p + s_
        if sp["ts"]:
            d += t.to_bytes(8, "big")
        return py_dt(sp["digit"], belt_hmac(ctx, exe, key, d))
    for i, t in enumerate(w[3:]):
        f = t.split(":")
        if f[0] == "S":
            if sp["ctr"]:
                ctr = int.from_bytes(unh(f[1]), "big")
            if sp["pl"]:
                p = unh(f[2])
            if sp["sl"]:
                s_ = unh(f[3])
            continue
        if f[0] == "G":
            exp = (ctr % 2 ** 64).to_bytes(8, "big").hex()
        else:
            q, tt = unh(f[1]), int(f[2])
            right = pw(ctr, q, tt)
            if f[0] == "R":
                exp = right; ctr += 1 if sp["ctr"] else 0
            else:
                otp = right if f[0] == "W" else (pw(ctr + (1 if sp["ctr"] else 0), q, tt) if f[0] == "N" else unh(f[3]).decode("latin1"))
                ok = otp == right
                exp = "1" if ok else "0"
                if ok and sp["ctr"]:
                    ctr += 1
        if outs[oi] != exp:
            return True, "botpOCRA:history", "OCRA request %d of the history (|Q| = %s): got %s, expected %s = DT(hmac(key, suite||00||[C]||Q padded with zeros to 128||[P]||[S]||[T]))" % (
                i, len(unh(f[1])) if len(f) > 1 and f[0] != "S" else "-", outs[oi], exp)
        oi += 1
    return False, "correspondence:ocras", "implementation-only OCRA history test passes"


def search_prg(ctx, exe, w, c_out):
    """(1) decryption inverts encryption under the same history; (2) chunked Step calls = one-shot;
    (3) squeeze output / state agree with a Python automaton written from the standard."""
    head, cmds = w[:5], w[5:]
    # (1) for every prefix ending right before an E: command
    for i, t in enumerate(cmds):
        if t.startswith("E:"):
            pre = cmds[:i]
            o1, _, _ = ctx.run_lines(exe, [" ".join(head + pre + [t])])
            if o1[0] == "bad-op":
                continue
            n_out = sum(1 for c in pre if c[0] in "SsEeDd")
            y = o1[0].split()[n_out]
            o2, _, _ = ctx.run_lines(exe, [" ".join(head + pre + ["D:" + y])])
            f1, f2 = o1[0].split(), o2[0].split()
            if f2[n_out] != t[2:] :
                return True, "prg:decr-encr", "after the history `%s` decrypt(encrypt(x)) != x for |x| = %d" % (
                    " ".join(head + pre)[:200], len(unh(t[2:])))
            if f1[-3:] != f2[-3:]:
                return True, "prg:decr-encr-state", "encrypting and decrypting parties end in different states after `%s`" % " ".join(head + pre)[:200]
    # (2) merge continuation steps into their start command
    merged = []
    for t in cmds:
        if t[0] in "ased" and merged and merged[-1][0] == t[0].upper():
            if t[0] == "s":
                merged[-1] = "S:%d" % (int(merged[-1][2:]) + int(t[2:]))
            else:
                merged[-1] = merged[-1][0] + ":" + H(unh(merged[-1][2:]) + unh(t[2:]))
        else:
            merged.append(t)
    if merged != cmds:
        o, _, _ = ctx.run_lines(exe, [" ".join(head + merged)])
        a, b = c_out.split(), o[0].split()
        if "".join(x for x in a[:-3] if x != "-") != "".join(x for x in b[:-3] if x != "-") or a[-3:] != b[-3:]:
            return True, "prg:chunking", "the same data fed by several Step calls gives another result than one call"
    # (3) Python automaton
    try:
        ref = py_prg(w)
    except Exception as e:
        return False, "correspondence:prg", "python automaton failed: %s" % e
    if ref != c_out:
        return True, "prg:value", "automaton output/state differs from STB 34.101.77 (Python reference): expected %s…" % ref[:120]
    return False, "correspondence:prg", "implementation-only tests pass (decr.encr, chunking, Python reference)"


def py_prg(w):
    l, d, ann, key = int(w[1]), int(w[2]), unh(w[3]), unh(w[4])
    S = bytearray(192)
    S[0] = (len(ann) * 4 + len(key) // 4) & 255
    S[1:1 + len(ann)] = ann
    S[1 + len(ann):1 + len(ann) + len(key)] = key
    S[184] = l // 4 + d
    pos = 1 + len(ann) + len(key)
    r = prg_buflen(l, d, bool(key))
    outs = []
    st = {"S": S, "pos": pos, "r": r}

    def commit(code):
        st["S"][st["pos"]] ^= code
        st["S"][st["r"]] ^= 0x80
        st["S"] = bytearray(py_bashF(bytes(st["S"])))
        st["pos"] = 0

    def run(data, mode):
        out = bytearray()
        for b in data:
            p = st["pos"]
            if mode == "A":
                st["S"][p] ^= b
            elif mode == "S":
                out.append(st["S"][p])
            elif mode == "E":
                st["S"][p] ^= b; out.append(st["S"][p])
            else:
                out.append(b ^ st["S"][p]); st["S"][p] = b
            st["pos"] += 1
            if st["pos"] == st["r"]:
                st["S"] = bytearray(py_bashF(bytes(st["S"])))
                st["pos"] = 0
        return bytes(out)
    for t in w[5:]:
        c = t[0]
        if c == "T":
            T = bytes(st["S"]); commit(0x01)
            st["S"] = bytearray(a ^ b for a, b in zip(st["S"], T))
            continue
        if c == "R":
            _, a2, k2 = t.split(":")
            a2, k2 = unh(a2), unh(k2)
            if k2:
                commit(0x05); st["r"] = prg_buflen(l, d, True)
            else:
                commit(0x01)
            st["pos"] = 1 + len(a2) + len(k2)
            st["S"][0] ^= (len(a2) * 4 + len(k2) // 4) & 255
            for i, b in enumerate(a2 + k2):
                st["S"][1 + i] ^= b
            continue
        if c in "ASED":
            commit({"A": 0x09, "S": 0x11, "E": 0x0D, "D": 0x0D}[c])
        m = c.upper()
        data = bytes(int(t[2:])) if m == "S" else unh(t[2:])
        o = run(data, m)
        if m != "A":
            outs.append(H(o))
    return " ".join(outs + [str(st["pos"]), str(st["r"]), bytes(st["S"]).hex()])


def fmt_replay(key, cfg, op, impl, model, what):
    return "\n".join(["# property C03 key=%s : %s" % (key, what),
                      "# replay with ./check C03 --replay <this file>",
                      "cfg %s" % cfg, "op %s" % op, "impl %s" % impl, "model %s" % model]) + "\n"


def run(ctx):
    translator_error = None
    try:
        regen(ctx)
    except Exception as e:
        translator_error = "%s: %s" % (type(e).__name__, e)
    if translator_error:
        proof_ok, log = False, "translator: " + translator_error
        ctx.obligations += [(n, None) for rel in PROPS for n in ctx.theorems_of(rel)]
    else:
        proof_ok, log = ctx.prove(["Bee2V.C03.Props"], PROPS)
    cfgs = ["asan", "w32"]
    # alternative bash-f implementations (bash_f32.c, SSE2, AVX2, AVX-512): not modelled, compared with the
    # same Lean driver; quick tier: bash-f / hash / automaton ops only
    fcfgs = ["bash32", "sse2"]
    flags = open("/proc/cpuinfo").read()
    if " avx2 " in flags:
        fcfgs.append("avx2")
    else:
        ctx.notes.append("cfg avx2 skipped (not passed): CPU has no avx2")
    if " avx512f " in flags:
        fcfgs.append("avx512")
    else:
        ctx.notes.append("cfg avx512 skipped (not passed): CPU has no avx512f")
    ctx.notes.append("cfg neon skipped (not passed): not an ARM host")
    cfgs += fcfgs
    ops = corpus_lines() + gen_bashf(ctx) + gen_hash(ctx) + gen_prg(ctx) + gen_ctr(ctx) + gen_hmacgen(ctx) + gen_botp(ctx) + gen_histories(ctx) + gen_belt(ctx)
    kinds = {}
    for o in ops:
        kinds[o.split()[0]] = kinds.get(o.split()[0], 0) + 1
    ctx.cov["ops_by_kind"] = kinds
    ctx.cov["configs"] = cfgs
    all_mism, distinct = [], set()
    have_driver = (not translator_error) and os.path.exists(ctx.driver())
    f_ops = [o for o in ops if o.split()[0] in ("bashf", "bashf32", "hash", "prg")]
    for cfg in cfgs:
        exe = ctx.cc("harness/c03.c", cfg)
        cfg_ops = f_ops if (cfg in fcfgs and ctx.tier == "quick") else ops
        if have_driver:
            try:
                mism, c_out, l_out = ctx.diff_run(exe, cfg_ops, cfg)
            except RuntimeError as e:
                ctx.notes.append(str(e)[:300])
                mism, c_out = [(-1, "driver", "", str(e)[:300])], []
        else:
            c_out, _, _ = ctx.run_lines(exe, cfg_ops)
            mism = []
        distinct.update(c_out)
        all_mism += [(cfg, exe) + m for m in mism]
        if have_driver and cfg == "asan" and len(c_out) == len(ops):
            # second phase: verification with the CORRECT password (taken from the implementation's own hotp output)
            v = []
            for o, r in zip(ops, c_out):
                w = o.split()
                if w[0] == "hotp" and r != "bad-op" and len(r.split()) > 1:
                    v.append("hotpv %s %s %s %s" % (w[1], w[2], w[3], r.split()[0].encode().hex()))
                    v.append("hotpv %s %s %s %s" % (w[1], w[2], w[3], r.split()[1].encode().hex()))   # the NEXT password: must fail
            if v:
                m2, c2, _ = ctx.diff_run(exe, v, "asan-hotpv")
                all_mism += [(cfg, exe) + m for m in m2]
                bad = [(i, v[i], c2[i]) for i in range(0, len(v), 2) if not c2[i].startswith("1 ")]
                for i, op, got in bad[:1]:
                    ctx.violation("botpHOTP:verify", fmt_replay("botpHOTP:verify", cfg, op, got, "1 <ctr+1>", "StepV rejects the password StepR produced"),
                                  True, "botpHOTPStepV rejects the password that botpHOTPStepR generated: " + op)
    ctx.cov["correspondence_disagreements"] = len(all_mism)
    ctx.samples += [{"op": o[:100]} for o in ops[:3]]
    ctx.samples.append({"theorem": "Bee2V.C03.bashF0_eq_spec",
                        "statement": "∀ s x, (bashF0 s)[x].toBitVec = Spec.bashF (fun y => s[y].toBitVec) x"})
    reported = set()
    # at most 3 differing ops per (configuration, op kind), so that every configuration gets its oracle run
    seen_grp, picked = {}, []
    for m in all_mism:
        g = (m[0], m[3].split()[0] if m[3] else "")
        seen_grp[g] = seen_grp.get(g, 0) + 1
        if seen_grp[g] <= 3:
            picked.append(m)
    picked.sort(key=lambda m: 0 if m[0] in fcfgs else 1)     # alternative bash-f builds first: the C differs there
    for cfg, exe, i, op, c, l in picked[:60]:
        found, key, what = search(ctx, exe, op, c)
        if key in reported:
            continue
        reported.add(key)
        ctx.violation(key, fmt_replay(key, cfg, op, c, l, what), found,
                      "[%s] %s\n impl : %s\n model: %s\n %s" % (cfg, op[:300], c[:300], l[:300], what))
    if not proof_ok and not all_mism:
        # the theorems broke but model (regenerated) and implementation still agree: look for a concrete
        # failing input with the implementation-only oracle over the generated ops
        exe = ctx.cc("harness/c03.c", "asan")
        c_out, _, _ = ctx.run_lines(exe, ops)
        per_kind, hit = {}, None
        for o, r in zip(ops, c_out):
            k = o.split()[0]
            if r == "bad-op" or per_kind.get(k, 0) >= (25 if k in ("prg", "ctr", "hmacgen", "hotp", "hotps", "totps", "ocras") else 80):
                continue
            per_kind[k] = per_kind.get(k, 0) + 1
            found, key, what = search(ctx, exe, o, r)
            if found:
                hit = (o, r, key, what)
                break
        ctx.cov["oracle_ops_after_proof_failure"] = sum(per_kind.values())
        if hit:
            o, r, key, what = hit
            errs = "; ".join(ctx.cov.get("lake_errors", []))[:200]
            ctx.violation(key, fmt_replay(key, "asan", o, r, "", what), True,
                          "theorems no longer check (%s) and the implementation violates the property:\n %s\n impl: %s\n %s" % (
                              errs, o[:300], r[:300], what))
            return finish(ctx, distinct)
        errs = "\n".join("# " + l for l in log.split("\n") if "error" in l)[:3000]
        ctx.violation("proof", "# property C03: the theorems of Bee2V/C03/Props.lean no longer check against the model "
                      "regenerated from the source; the correspondence run found no differing output.\n" + errs,
                      False, "theorems no longer check: " + (translator_error or "; ".join(ctx.cov.get("lake_errors", []))
                                                              or log.strip().split("\n")[0] + " " + " | ".join(log.strip().split("\n")[1:4]))[:600])
    return finish(ctx, distinct)


def finish(ctx, distinct):
    return ctx.finish(
        level="proof",
        assumptions=[
            "xlate/x_c03.py reads bashF0 from the preprocessed source faithfully (validated on every run by the "
            "correspondence of bashF with the compiled library); xlate/x_c03belt.py likewise for the belt tables",
            "hand-written executable models of bash_hash.c, bash_prg.c, brng.c, botp.c and belt hash/HMAC agree with the code "
            "(checked by the correspondence run on asan + w32, thorough: bash32/sse2/avx2/avx512 where available)",
            "bash_f32.c and SIMD bash-f variants are not modelled (differential only); hash/automaton block-form spec, brng "
            "request loop, brng HMAC, HOTP/TOTP/OCRA composition are tied by correspondence, not by theorems (see docs/C03.md)",
            "little-endian octet order (the BIG_ENDIAN branches are not modelled)"],
        rule="boundary-heavy generated ops; an op is non-trivial when its output is not constant; "
             "distinct = number of distinct implementation outputs",
        distinct=len(distinct))


def replay(ctx, path):
    cfg, op, model = "asan", None, None
    for line in open(path):
        w = line.rstrip("\n").split(" ", 1)
        if len(w) < 2 and w[0] != "model":
            continue
        if w[0] == "cfg":
            cfg = w[1]
        elif w[0] == "op":
            op = w[1]
        elif w[0] == "model":
            model = w[1] if len(w) > 1 and w[1].strip() else None
    if op is None:
        print("replay file names a theorem, not an input: nothing to execute")
        return 0
    exe = ctx.cc("harness/c03.c", cfg)
    out, err, rc = ctx.run_lines(exe, [op])
    got = out[0] if out else "CRASH rc=%d %s" % (rc, err[-300:])
    print("op    %s\nimpl  %s\nmodel %s" % (op[:400], got[:400], (model or "")[:400]))
    found, key, what = search(ctx, exe, op, got)
    bad = found or (model is not None and got != model)
    if not bad:
        what = "implementation-only test of the property passes" + ("; output equals the recorded model output" if model else "")
    print("property C03 %s on the current tree (%s)" % ("VIOLATED" if bad else "holds", what))
    return 1 if bad else 0

"""C02 — bign (STB 34.101.45): signatures, key pairs, DH, key transport, identity-based signatures.

Proof : lean/Bee2V/C02/Props.lean over an abstract context (group of order q with generator, point
        encoding, belt-hash / WBL / KWP as uninterpreted functions): sign_complete, verify_exact,
        keygen_valid, dh_symm, keywrap_roundtrip, keyunwrap_exact, IBS chain.
Tie   : (a) Bee2V/Gen/C02Params.lean regenerated from bign_params.c (xlate/x_c02.py);
        (b) correspondence: the same op lines go to harness/c02.c (real library) and to drv_c02
        (the model instantiated with affine chord-and-tangent arithmetic over Nat mod p, the C01 belt
        model, the C08 OID decoder).  Staged: later stages are built from the implementation's own
        outputs (signatures, tokens, extracted identity keys) and from their alterations.
Search: on the implementation alone — Verify(Sign) == OK, signature == the standard's value recomputed
        in Python (own affine arithmetic; belt-hash values from the library), acceptance == the
        standard's equation for every verifier call, KeypairVal(KeypairGen) == OK, Unwrap(Wrap) == key,
        DH symmetric.
"""
import os, sys, importlib
import vcommon

PROPS = ["Bee2V/C02/Props.lean", "Bee2V/C02/PropsKeyt.lean", "Bee2V/C02/PropsIbs.lean", "Bee2V/C02/PropsBelt.lean", "Bee2V/C02/PropsNonce.lean",
         "Bee2V/C02/PropsC06.lean", "Bee2V/C02/PropsSkel.lean", "Bee2V/C02/Toy.lean"]
TARGETS = [p[:-5].replace("/", ".") for p in PROPS]
CORPUS = os.path.join(vcommon.VERIF, "gen", "c02_corpus.txt")
OK, BAD_INPUT, BAD_OID, BAD_RNG, BAD_PARAMS, BAD_PRIVKEY, BAD_PUBKEY, BAD_SHAREDKEY, BAD_SIG, BAD_KEYTOKEN = \
    0, 109, 301, 304, 502, 504, 505, 507, 510, 513


def hx(b):
    return bytes(b).hex() if len(b) else "-"


def unh(s):
    return b"" if s == "-" else bytes.fromhex(s)


def regen_params(ctx):
    import x_c02
    importlib.reload(x_c02)
    ctx.regen("Bee2V/Gen/C02Params.lean", x_c02.generate(vcommon.REPO))


def regen_skel(ctx):
    import x_c02_skel
    importlib.reload(x_c02_skel)
    ctx.regen("Bee2V/Gen/C02Skel.lean", x_c02_skel.generate(vcommon.REPO))


def regen(ctx):
    regen_params(ctx)
    regen_skel(ctx)


# ------------------------------------------------------------------ Python reference: curve arithmetic
class Cv:
    """affine arithmetic on y^2 = x^3 + ax + b over F_p written from the textbook (independent of the
    Lean model and of ecp.c)"""

    def __init__(self, ci, rec):
        le = lambda v: int.from_bytes(bytes(v), "little")
        self.ci, self.l, self.no = ci, rec["l"], rec["l"] // 4
        self.p, self.a, self.b, self.q = le(rec["p"]), le(rec["a"]), le(rec["b"]), le(rec["q"])
        self.G = (0, le(rec["yG"]))
        self.W = 1 << (2 * self.l)

    def on(self, x, y):
        return x < self.p and y < self.p and (y * y - (x * x * x + self.a * x + self.b)) % self.p == 0

    def add(self, P, Q):
        if P is None:
            return Q
        if Q is None:
            return P
        p = self.p
        (x1, y1), (x2, y2) = P, Q
        if x1 == x2:
            if (y1 + y2) % p == 0:
                return None
            lam = (3 * x1 * x1 + self.a) * pow(2 * y1, -1, p) % p
        else:
            lam = (y2 - y1) * pow(x2 - x1, -1, p) % p
        x3 = (lam * lam - x1 - x2) % p
        return (x3, (lam * (x1 - x3) - y1) % p)

    def mul(self, k, P):
        R = None
        for bit in bin(k)[2:] if k else "":
            R = self.add(R, R)
            if bit == "1":
                R = self.add(R, P)
        return R

    def neg(self, P):
        return None if P is None else (P[0], (-P[1]) % self.p)

    def lift(self, x):
        t = (x * x * x + self.a * x + self.b) % self.p
        y = pow(t, (self.p + 1) // 4, self.p)
        return (x, y) if y * y % self.p == t else None

    def n2b(self, v, n=None):
        return (v % (1 << (8 * (n or self.no)))).to_bytes(n or self.no, "little")

    def pt(self, P):
        return self.n2b(P[0]) + self.n2b(P[1])

    def pub(self, d):
        return self.pt(self.mul(d, self.G))


def curves():
    import x_c02
    return [Cv(i, r) for i, r in enumerate(x_c02.parse(vcommon.REPO))]


# ------------------------------------------------------------------ DER OIDs
def der_oid(arcs):
    body = bytearray()
    vals = [arcs[0] * 40 + arcs[1]] + list(arcs[2:])
    for v in vals:
        chunk = [v & 127]
        v >>= 7
        while v:
            chunk.append(128 | (v & 127))
            v >>= 7
        body += bytes(reversed(chunk))
    assert len(body) < 128
    return bytes([6, len(body)]) + bytes(body)


OID_HBELT = der_oid([1, 2, 112, 0, 2, 0, 34, 101, 31, 81])
OID_GOOD = [OID_HBELT, der_oid([1, 2, 3]), der_oid([0, 0]), der_oid([2, 999, 4294967295]), der_oid([1, 39, 128, 16384]),
            der_oid([1, 2, 112, 0, 2, 0, 34, 101, 77, 11])]
OID_BAD = [b"", bytes([6, 0]), bytes([5, 3, 42, 3, 4]), bytes([6, 3, 42, 3]), bytes([6, 3, 42, 3, 4, 0]),
           bytes([6, 3, 42, 128, 4]), bytes([6, 3, 42, 3, 132]), bytes([6, 129, 3, 42, 3, 4]),
           bytes([6, 7, 42, 144, 128, 128, 128, 128, 0]), bytes([6, 6, 42, 144, 128, 128, 128, 0])]


def flip(b, i):
    b = bytearray(b)
    b[i // 8] ^= 1 << (i % 8)
    return bytes(b)


# ------------------------------------------------------------------ generator
class Gen:
    def __init__(self, ctx, cvs, run_c):
        self.ctx, self.rng, self.cvs, self.run_c = ctx, ctx.rng, cvs, run_c
        self.tt = ctx.tier == "thorough"
        self.thorough = self.tt
        self.cov = {}

    def mode(self, cv):
        """the thorough tier runs its full budgets on l = 128 and four times the quick sample on l = 192, 256
        (the code is generic in l; the model costs 0.15-0.3 s per verification there)"""
        self.thorough = self.tt and cv.ci == 0

    def w(self, cv, full, mid=None, small=None):
        """budget: thorough -> full; quick -> full on l=128, less on l=192/256 (the code is generic in l)"""
        if self.thorough:
            return full
        return full if cv.ci == 0 else (mid if mid is not None else max(1, full // 2)) if cv.ci == 1 else (small if small is not None else max(1, full // 3))

    def count(self, k, n=1):
        self.cov[k] = self.cov.get(k, 0) + n

    def rb(self, n):
        return bytes(self.rng.getrandbits(8) for _ in range(n))

    def rscalar(self, cv):
        return self.rng.randrange(1, cv.q)

    def bits(self, cv, nbits, quick_n, sweep=False):
        """positions of single-bit alterations: all in the thorough tier on l = 128 (a dense sample on l = 192, 256:
        the code is generic in l and the model costs 0.1-0.3 s per verification there), a sample (always incl. the
        first and the last bit) in the quick tier"""
        if self.thorough or (self.tt and sweep) or nbits <= quick_n:
            return list(range(nbits))
        if self.tt:
            quick_n = min(nbits, 4 * quick_n)
        s = {0, nbits - 1}
        while len(s) < quick_n:
            s.add(self.rng.randrange(nbits))
        return sorted(s)

    def hashes(self, cv):
        q, W = cv.q, cv.W
        hs = [0, q - 1, q, q + 1, W - 1, self.rng.randrange(q, W), self.rng.randrange(0, q)]
        return [cv.n2b(h) for h in hs]

    def tapes(self, cv, full):
        """tapes for zzRandNZMod: (label, tape); the first chunk decides the first round"""
        q, p, W, no = cv.q, cv.p, cv.W, cv.no
        good = lambda: cv.n2b(self.rscalar(cv))
        t = [("accept", good()), ("one", cv.n2b(1) + self.rb(3)), ("q-1", cv.n2b(q - 1)),
             ("zero-then", cv.n2b(0) + good()), ("q-then", cv.n2b(q) + good()), ("q+1-then", cv.n2b(q + 1) + good()),
             ("[q,p)", cv.n2b(self.rng.randrange(q, p)) + good()), ("p-1-then", cv.n2b(p - 1) + good()),
             ("max-then", cv.n2b(W - 1) + cv.n2b(p) + good())]
        if full:
            t += [("empty", b""), ("short", good()[: no - 1]),        # short: zero padded -> a value < 2^(8(no-1)) accepted
                  ("64bad+good", b"\xff" * (64 * no) + good()), ("65bad", b"\xff" * (65 * no) + good()),
                  ("63zero+q+good", bytes(63 * no) + cv.n2b(q) + good())]
        return t

    # ---- stage 1
    def stage1(self):
        ops, meta = [], []

        def add(op, **m):
            ops.append(op)
            meta.append(m)

        for cv in self.cvs:
            self.mode(cv)
            ci, no, q = cv.ci, cv.no, cv.q
            add("params %d" % ci, kind="params")
            ds = [1, q - 1, self.rscalar(cv)] + ([self.rscalar(cv) for _ in range(3)] if self.thorough else [])
            cv.keys = [(d, cv.pub(d)) for d in ds]
            # key generation
            for lab, t in self.tapes(cv, True):
                add("kgen %d %s" % (ci, hx(t)), kind="kgen", cv=cv, tape=lab)
                self.count("kgen:" + lab)
            # pubkey calc / val, keypair val
            for d in ds + [0, q, q + 1, cv.W - 1]:
                add("pcalc %d %s" % (ci, hx(cv.n2b(d))), kind="pcalc", cv=cv, d=d)
            for d, Q in cv.keys:
                add("kval %d %s %s" % (ci, hx(cv.n2b(d)), hx(Q)), kind="kval", cv=cv, d=d, Q=Q, expect=OK)
                add("kval %d %s %s" % (ci, hx(cv.n2b(d)), hx(flip(Q, self.rng.randrange(16 * no)))), kind="kval", cv=cv, expect=BAD_PUBKEY)
                add("kval %d %s %s" % (ci, hx(cv.n2b((d % (q - 1)) + 1)), hx(Q)), kind="kval", cv=cv, expect=BAD_PUBKEY)
            d0, Q0 = cv.keys[2]
            for dd in (0, q, cv.W - 1):
                add("kval %d %s %s" % (ci, hx(cv.n2b(dd)), hx(Q0)), kind="kval", cv=cv, expect=BAD_PRIVKEY)
            for lab, Qb in self.pubs(cv, Q0):
                add("pval %d %s" % (ci, hx(Qb)), kind="pval", cv=cv, pub=Qb, lab=lab)
                self.count("pub:" + lab)
            # DH: both directions, key lengths
            for (da, Qa), (db, Qb) in [(cv.keys[0], cv.keys[2]), (cv.keys[1], cv.keys[2]), (cv.keys[2], cv.keys[2])]:
                for kl in ([0, 1, no - 1, no, no + 1, 2 * no] if ((da == cv.keys[0][0] and ci == 0) or self.thorough) else [no, 2 * no] if ci == 0 else [self.rng.choice([no, no + 1, 2 * no])]):
                    add("dh %d %s %s %d" % (ci, hx(cv.n2b(da)), hx(Qb), kl), kind="dh", cv=cv, pair=(da, db, kl), side=0)
                    add("dh %d %s %s %d" % (ci, hx(cv.n2b(db)), hx(Qa), kl), kind="dh", cv=cv, pair=(da, db, kl), side=1)
            add("dh %d %s %s %d" % (ci, hx(cv.n2b(d0)), hx(Q0), 2 * no + 1), kind="dhbad", cv=cv, expect=BAD_SHAREDKEY)
            add("dh %d %s %s %d" % (ci, hx(cv.n2b(0)), hx(Q0), 2 * no + 1), kind="dhbad", cv=cv, expect=BAD_SHAREDKEY)
            add("dh %d %s %s %d" % (ci, hx(cv.n2b(q)), hx(flip(Q0, 3)), no), kind="dhbad", cv=cv, expect=BAD_PRIVKEY)
            for lab, Qb in self.pubs(cv, Q0)[1:]:
                add("dh %d %s %s %d" % (ci, hx(cv.n2b(d0)), hx(Qb), no), kind="dhbad", cv=cv, expect=BAD_PUBKEY)
            # signatures
            hs = self.hashes(cv)
            tapes = self.tapes(cv, False)
            combos, must = [], []
            for i, (d, Q) in enumerate(cv.keys):
                for j, H in enumerate(hs):
                    (must if (i, j) in ((2, 4), (1, 2), (0, 0), (2, 5)) else combos).append((d, Q, H, tapes[(i * 7 + j) % len(tapes)]))
            self.rng.shuffle(combos)
            combos = must + (combos if self.thorough else combos[: self.w(cv, 5, 2, 1)])
            for nc, (d, Q, H, (lab, t)) in enumerate(combos):
                oid = OID_GOOD[self.rng.randrange(len(OID_GOOD))] if self.rng.random() < 0.4 else OID_HBELT
                add("sign %d %s %s %s %s" % (ci, hx(oid), hx(H), hx(cv.n2b(d)), hx(t)), kind="sign", cv=cv, d=d, Q=Q, H=H, oid=oid, tape=t)
                self.count("sign:tape=" + lab)
                if self.thorough or nc % 2 == 0:
                    tt = self.rng.choice(["N", "-", hx(self.rb(self.rng.choice([1, 16, 32, 33, 70])))])
                    add("sign2 %d %s %s %s %s" % (ci, hx(oid), hx(H), hx(cv.n2b(d)), tt), kind="sign2", cv=cv, d=d, Q=Q, H=H, oid=oid)
            # constructed: H >= q, k fixed, d chosen so that k - (s0 + 2^l) d mod q = c is below H - q (F10 class),
            # and d chosen so that s1 = 0
            self.constructed(cv, add)
            self.nonce_family(cv, add)
            self.priv_sweep(cv, add, hs, tapes)
            self.inplace(cv, add, tapes)
            self.one_check_fails(cv, add)
            # error order of sign
            H = hs[5]
            add("sign %d %s %s %s %s" % (ci, hx(OID_BAD[3]), hx(H), hx(cv.n2b(0)), "-"), kind="signbad", cv=cv, expect=BAD_OID)
            add("sign %d %s %s %s %s" % (ci, hx(OID_HBELT), hx(H), hx(cv.n2b(0)), "-"), kind="signbad", cv=cv, expect=BAD_PRIVKEY)
            add("sign %d %s %s %s %s" % (ci, hx(OID_HBELT), hx(H), hx(cv.n2b(q)), "-"), kind="signbad", cv=cv, expect=BAD_PRIVKEY)
            add("sign %d %s %s %s %s" % (ci, hx(OID_HBELT), hx(H), hx(cv.n2b(1)), "-"), kind="signbad", cv=cv, expect=BAD_RNG)
            add("sign2 %d %s %s %s N" % (ci, hx(OID_BAD[5]), hx(H), hx(cv.n2b(q))), kind="signbad", cv=cv, expect=BAD_OID)
            add("sign2 %d %s %s %s -" % (ci, hx(OID_HBELT), hx(H), hx(cv.n2b(q))), kind="signbad", cv=cv, expect=BAD_PRIVKEY)
            for o in OID_BAD + OID_GOOD:
                add("vfy %d %s %s %s %s" % (ci, hx(o), hx(H), hx(self.rb(no + no // 2)), hx(flip(Q0, 1))), kind="oid", cv=cv,
                    expect=BAD_OID if o in OID_BAD else BAD_PUBKEY)
            # key transport
            klens = [16, 17, 31, 32, 33, 47, 48] if self.thorough else [16, 17, 32, 48] if ci == 0 else [16, 33]
            for i, kl in enumerate(klens):
                d, Q = cv.keys[i % len(cv.keys)]
                for hdr in (["N", hx(bytes(16)), hx(self.rb(16))] if (self.thorough or (i < 2 and ci == 0)) else [["N", hx(bytes(16)), hx(self.rb(16))][i % 3]]):
                    lab, t = tapes[(i + len(hdr)) % len(tapes)]
                    key = self.rb(kl)
                    add("wrap %d %s %s %s %s" % (ci, hx(key), hdr, hx(Q), hx(t)), kind="wrap", cv=cv, d=d, Q=Q, key=key, hdr=hdr)
                    self.count("wrap:hdr=" + ("null" if hdr == "N" else "zero" if hdr == hx(bytes(16)) else "nonzero"))
            sparse = [flip(bytes(16), self.rng.randrange(8)), flip(bytes(16), 120 + self.rng.randrange(8)), flip(bytes(16), self.rng.randrange(128)),
                      bytes(8) + self.rb(8), self.rb(8) + bytes(8)]
            for i, h in enumerate(sparse if (self.thorough or ci == 0) else [sparse[self.rng.randrange(5)]]):
                d, Q = cv.keys[i % len(cv.keys)]
                key = self.rb(16 + i)
                add("wrap %d %s %s %s %s" % (ci, hx(key), hx(h), hx(Q), hx(tapes[i % len(tapes)][1])), kind="wrap", cv=cv, d=d, Q=Q, key=key, hdr=hx(h), sparse=True)
                self.count("wrap:hdr=sparse")
            for lab, Qb in self.pubs(cv, Q0)[1:]:
                add("wrap %d %s N %s %s" % (ci, hx(self.rb(16)), hx(Qb), hx(tapes[0][1])), kind="wrapbad", cv=cv, expect=BAD_PUBKEY)
            add("wrap %d %s N %s %s" % (ci, hx(self.rb(15)), hx(flip(Q0, 9)), "-"), kind="wrapbad", cv=cv, expect=BAD_INPUT)
            add("wrap %d %s N %s %s" % (ci, hx(self.rb(16)), hx(flip(Q0, 9)), "-"), kind="wrapbad", cv=cv, expect=BAD_RNG)
            add("wrap %d - N %s %s" % (ci, hx(Q0), hx(tapes[0][1])), kind="wrapbad", cv=cv, expect=BAD_INPUT)
        return ops, meta

    def pubs(self, cv, Q):
        """(label, octets): the valid key first, then keys that must be rejected"""
        p, no = cv.p, cv.no
        x, y = int.from_bytes(Q[:no], "little"), int.from_bytes(Q[no:], "little")
        out = [("valid", Q)]
        # on the quadratic twist: x with x^3+ax+b a non-residue, y arbitrary
        xt = self.rng.randrange(p)
        while cv.lift(xt) is not None:
            xt = (xt + 1) % p
        out.append(("twist-x", cv.n2b(xt) + cv.n2b(self.rng.randrange(p))))
        out.append(("off-curve", cv.n2b(x) + cv.n2b((y + 1) % p)))
        out.append(("zero", bytes(2 * no)))
        out.append(("y=0", cv.n2b(self.rng.randrange(1, p)) + bytes(no)))      # "order 2" under the curve-oblivious formulas
        out.append(("x=p", cv.n2b(p) + cv.n2b(y)))
        out.append(("y=p", cv.n2b(x) + cv.n2b(p)))
        out.append(("x+p", cv.n2b(x + p) + cv.n2b(y)) if x + p < cv.W else ("x=max", b"\xff" * no + cv.n2b(y)))
        out.append(("y+p", cv.n2b(x) + cv.n2b(y + p)) if y + p < cv.W else ("y=max", cv.n2b(x) + b"\xff" * no))
        out.append(("bitflip", flip(Q, self.rng.randrange(16 * no))))
        return out

    # ---- directed inputs for the rejection loop of alg. 6.3.3 (bignSign2, bignIdSign2)
    def nonce_family(self, cv, add):
        """The harness knows d, hence theta = belt-hash(oid || d || t), hence it can choose the FIRST wide-block output
        k1 = E_theta(H) by taking H = D_theta(k1) (library's beltWBLStepD through the helper op `wbld`).
        Targets around every boundary of the exit test `0 < k < q`: accepted (1, q-1, random) and rejected
        (0, q, q+1, in [q,p), p-1, p, p+1, 2^2l-1: the loop must go on to E_theta(k1)).  A second iterate that is ALSO
        out of range cannot be constructed (k2 = E(k1) is determined by k1; out of range with probability ~2^-l)."""
        ci, no, q, p, W = cv.ci, cv.no, cv.q, cv.p, cv.W
        targets = [("0", 0), ("1", 1), ("q-1", q - 1), ("q", q), ("q+1", q + 1), ("[q,p)", self.rng.randrange(q, p)), ("p-1", p - 1),
                   ("p", p), ("p+1", p + 1), ("max", W - 1), ("in-range", self.rscalar(cv))]
        tvals = [("N", b""), ("-", b""), (None, self.rb(self.rng.choice([1, 16, 33])))]
        plan = []
        for i, (lab, k1) in enumerate(targets):
            for j, (ttok, tb) in enumerate(tvals):
                if self.thorough or ci == 0 or (i + j) % 3 == 0:
                    plan.append((lab, k1, hx(tb) if ttok is None else ttok, tb))
        oid = OID_HBELT
        d = self.rscalar(cv)
        e = self.rscalar(cv)
        Q = cv.pub(d)
        idH = self.rb(no)
        for who, key in (("sign2", d), ("idsign2", e)):
            th = self.run_c(["hash " + hx(oid + cv.n2b(key) + tb) for _, _, _, tb in plan])
            Hs = self.run_c(["wbld %s %s" % (t_, hx(cv.n2b(k1))) for (_, k1, _, _), t_ in zip(plan, th)])
            for (lab, k1, ttok, tb), theta, H in zip(plan, th, Hs):
                H = unh(H)
                if who == "sign2":
                    add("sign2 %d %s %s %s %s" % (ci, hx(oid), hx(H), hx(cv.n2b(d)), ttok), kind="sign2", cv=cv, d=d, Q=Q, H=H, oid=oid,
                        directed=True, k1=k1, theta=theta, lab="nonce:" + lab)
                else:
                    add("idsign2 %d %s %s %s %s %s" % (ci, hx(oid), hx(idH), hx(H), hx(cv.n2b(e)), ttok), kind="idsign2-directed", cv=cv,
                        d=e, idH=idH, H=H, oid=oid, k1=k1, theta=theta, lab="nonce:" + lab)
                self.count("%s:first-iterate=%s" % (who, lab))

    # ---- every function that takes a private key x the boundary values of the range check
    def priv_sweep(self, cv, add, hs, tapes):
        ci, no, q, W = cv.ci, cv.no, cv.q, cv.W
        d0, Q0 = cv.keys[2]
        H = hs[5]
        tape = tapes[0][1]
        idH = hs[6]
        for lab, d in [("0", 0), ("1", 1), ("q-1", q - 1), ("q", q), ("q+1", q + 1), ("max", W - 1)]:
            ok = 0 < d < q
            exp = OK if ok else BAD_PRIVKEY
            db = hx(cv.n2b(d))
            add("pcalc %d %s" % (ci, db), kind="pcalc", cv=cv, d=d)
            add("kval %d %s %s" % (ci, db, hx(cv.pub(d) if ok else Q0)), kind="privsweep", cv=cv, expect=exp)
            add("dh %d %s %s %d" % (ci, db, hx(Q0), no), kind="privsweep", cv=cv, expect=exp)
            add("sign %d %s %s %s %s" % (ci, hx(OID_HBELT), hx(H), db, hx(tape)), kind="privsweep", cv=cv, expect=exp)
            add("sign2 %d %s %s %s N" % (ci, hx(OID_HBELT), hx(H), db), kind="privsweep", cv=cv, expect=exp)
            add("sign2 %d %s %s %s %s" % (ci, hx(OID_HBELT), hx(H), db, hx(self.rb(8))), kind="privsweep", cv=cv, expect=exp)
            # identity private key e = (s1 + H) mod q: 0 is a legal value, only e >= q is rejected
            expi = OK if d < q else BAD_PRIVKEY
            add("idsign %d %s %s %s %s %s" % (ci, hx(OID_HBELT), hx(idH), hx(H), db, hx(tape)), kind="privsweep", cv=cv, expect=expi)
            add("idsign2 %d %s %s %s %s N" % (ci, hx(OID_HBELT), hx(idH), hx(H), db), kind="privsweep", cv=cv, expect=expi)
            self.count("privkey-sweep:" + lab, 8)

    # ---- key transport with key and header placed inside the token buffer
    def inplace(self, cv, add, tapes):
        ci, no = cv.ci, cv.no
        for mode in range(5):
            for hk in (("hdr",) if (ci and not self.thorough) else ("hdr", "N")):
                d, Q = cv.keys[mode % len(cv.keys)]
                key = self.rb(self.rng.choice([16, 17, 32, 40]))
                hdr = "N" if hk == "N" else hx(self.rb(16))
                tape = hx(tapes[mode % len(tapes)][1])
                add("wrap %d %s %s %s %s" % (ci, hx(key), hdr, hx(Q), tape), kind="wrap-ref", cv=cv)
                add("wrapip %d %s %s %s %s %d" % (ci, hx(key), hdr, hx(Q), tape, mode), kind="wrapip", cv=cv, d=d, Q=Q, key=key, hdr=hdr)
                self.count("wrap:in-place mode %d" % mode)

    # ---- inputs that fail EXACTLY ONE check and are consistent with everything the rest of the computation would do
    def one_check_fails(self, cv, add):
        """If a rejecting branch were skipped, these inputs would sail through the remaining computation:
        * bignKeyUnwrap: x with x^3+ax+b a NON-residue, y' = the candidate root the code computes, theta = <x(d (x, y'))>_256
          under the curve-oblivious addition formulas (the same group law on the curve through (x, y'): the formulas never
          use b), body = belt-KWP(key || header) under theta: only the test y'^2 = x^3+ax+b stands between it and ERR_OK;
        * bignVerify / bignIdExtract: public key (x0, 0) (its double is O under the formulas, so an even multiple vanishes) with
          the signature (s0, (1 - H) mod q), s0 = <belt-hash(oid || <G> || H)>_l even: only the curve test rejects it
          (this is the forgery of fix-1 for arbitrary x0);
        * bignVerify / bignIdExtract: (s0, s1) with (s1 + H) G + (s0 + 2^l) Q = O for the genuine key: only the test R != O
          rejects it."""
        ci, no, q, p, l = cv.ci, cv.no, cv.q, cv.p, cv.l
        d, Q = cv.keys[2]
        oid = OID_HBELT
        # (1) key transport: consistent off-curve tokens
        xs = []
        x = 1
        while len(xs) < 2:
            if cv.lift(x) is None:
                xs.append(x)
            x += 1
        while len(xs) < (4 if (self.thorough or ci == 0) else 3):
            x = self.rng.randrange(p)
            if cv.lift(x) is None:
                xs.append(x)
        cases = []
        for i, x in enumerate(xs):
            t = (x * x * x + cv.a * x + cv.b) % p
            y = pow(t, (p + 1) // 4, p)
            T = cv.mul(d, (x, y))
            if T is None:
                continue
            key = self.rb(16 + 8 * i)
            hdr = ["N", hx(bytes(16)), hx(self.rb(16))][i % 3]
            cases.append((x, cv.n2b(T[0])[:32], key, hdr))
        bodies = self.run_c(["wble %s %s" % (hx(th), hx(key + (bytes(16) if hdr == "N" else unh(hdr)))) for _, th, key, hdr in cases])
        for (x, th, key, hdr), body in zip(cases, bodies):
            tok = cv.n2b(x) + unh(body)
            for opn in ("unwrap", "unwrapip"):
                add("%s %d %s %s %s" % (opn, ci, hx(tok), hdr, hx(cv.n2b(d))), kind="unwrap", cv=cv, lab="token:off-curve-consistent", key=key,
                    tok=tok, orig=tok, hdr=hdr, hdr0=hdr, d=d, d0=d)
            self.count("one-check:unwrap off-curve consistent")
        # (2) verification under (x0, 0)
        for x0 in [0, 1, self.rng.randrange(p)] if (self.thorough or ci == 0) else [self.rng.randrange(p)]:
            Hs = [self.rb(no) for _ in range(10)]
            hv = self.run_c(["hash " + hx(oid + bytes(no) + H) for H in Hs])
            for H, h in zip(Hs, hv):
                s0b = unh(h)[: no // 2]
                if s0b[0] % 2 == 0:
                    sig = s0b + cv.n2b((1 - int.from_bytes(H, "little")) % q)
                    pub = cv.n2b(x0) + bytes(no)
                    add("vfy %d %s %s %s %s" % (ci, hx(oid), hx(H), hx(sig), hx(pub)), kind="vfy", cv=cv, oid=oid, H=H, sig=sig, pub=pub,
                        lab="one-check:pub=(x0,0)")
                    add("idext %d %s %s %s %s" % (ci, hx(oid), hx(H), hx(sig), hx(pub)), kind="idext-alt", cv=cv, vargs=(oid, H, sig, pub))
                    self.count("one-check:verify under (x0,0)")
                    break
        # (3) R = O
        for H in [cv.n2b(cv.W - 1), self.rb(no)]:
            s0 = self.rng.getrandbits(l)
            s1 = (-(s0 + (1 << l)) * d - int.from_bytes(H, "little")) % q
            sig = cv.n2b(s0, no // 2) + cv.n2b(s1)
            add("vfy %d %s %s %s %s" % (ci, hx(oid), hx(H), hx(sig), hx(Q)), kind="vfy", cv=cv, oid=oid, H=H, sig=sig, pub=Q, lab="one-check:R=O")
            add("idext %d %s %s %s %s" % (ci, hx(oid), hx(H), hx(sig), hx(Q)), kind="idext-alt", cv=cv, vargs=(oid, H, sig, Q))
            self.count("one-check:R=O")

    def constructed(self, cv, add):
        ci, no, q, l = cv.ci, cv.no, cv.q, cv.l
        cases = []
        for rep in range(3 if self.thorough else 1):
            k = self.rscalar(cv)
            H = cv.n2b(self.rng.randrange(q + (1 << 20), cv.W) if (rep or (ci and not self.thorough)) else cv.W - 1)
            cases.append((k, H))
        # learn s0 (depends on k, H, oid only) from the implementation with d = 1
        pre = ["sign %d %s %s %s %s" % (ci, hx(OID_HBELT), hx(H), hx(cv.n2b(1)), hx(cv.n2b(k))) for k, H in cases]
        outs = self.run_c(pre)
        for (k, H), o in zip(cases, outs):
            w = o.split()
            if w[0] != "0":
                continue
            s0 = int.from_bytes(unh(w[1])[: no // 2], "little")
            u = (s0 + (1 << l)) % q
            Hn = int.from_bytes(H, "little")
            inv = pow(u, -1, q)
            targets = [("borrow:c=%d" % c, c) for c in (0, 1, 3, Hn - q - 1)] + [("s1=0", (Hn - q) % q), ("s1=q-1", (Hn - q - 1) % q)]
            if not self.thorough and ci:
                targets = [targets[1], targets[3], targets[4]]
            for lab, c in targets:
                d = (k - c) * inv % q
                if d == 0:
                    continue
                add("sign %d %s %s %s %s" % (ci, hx(OID_HBELT), hx(H), hx(cv.n2b(d)), hx(cv.n2b(k))), kind="sign", cv=cv, d=d,
                    Q=cv.pub(d), H=H, oid=OID_HBELT, tape=cv.n2b(k), lab=lab)
                self.count("constructed:" + lab.split("=")[0])

    # ---- stage 2: from the implementation's stage-1 outputs
    def stage2(self, ops1, meta1, out1):
        ops, meta = [], []

        def add(op, **m):
            ops.append(op)
            meta.append(m)

        nsig, ntok = {}, {}
        for op, m, o in zip(ops1, meta1, out1):
            w = o.split()
            k = m.get("kind")
            cv = m.get("cv")
            if cv is not None:
                self.mode(cv)
            if k == "kgen" and w[0] == "0":
                kp = unh(w[1])
                add("kval %d %s %s" % (cv.ci, hx(kp[:cv.no]), hx(kp[cv.no:])), kind="kval-gen", cv=cv, expect=OK)
            elif k == "sign2" and m.get("directed") and w[0] == "0":
                add("vfy %d %s %s %s %s" % (cv.ci, hx(m["oid"]), hx(m["H"]), w[1], hx(m["Q"])), kind="vfy", cv=cv, oid=m["oid"], H=m["H"],
                    sig=unh(w[1]), pub=m["Q"], lab="genuine")
            elif k == "wrapip" and w[0] == "0":
                tok = unh(w[1])
                for opn in ("unwrap", "unwrapip"):
                    add("%s %d %s %s %s" % (opn, cv.ci, w[1], m["hdr"], hx(cv.n2b(m["d"]))), kind="unwrap", cv=cv, lab="genuine", key=m["key"],
                        tok=tok, orig=tok, hdr=m["hdr"], hdr0=m["hdr"], d=m["d"], d0=m["d"])
            elif k in ("sign", "sign2") and w[0] == "0":
                sig = unh(w[1])
                n = nsig[cv.ci] = nsig.get(cv.ci, 0) + 1
                self.sig_cases(cv, m, sig, add, n)
            elif k == "wrap" and w[0] == "0":
                n = ntok[cv.ci] = ntok.get(cv.ci, 0) + 1
                self.token_cases(cv, dict(m, first=(n == 1)), unh(w[1]), add)
        return ops, meta

    def sig_cases(self, cv, m, sig, add, n):
        full = n == 1 or (self.thorough and n % 4 == 1)
        ci, no, q = cv.ci, cv.no, cv.q
        oid, H, Q, d = m["oid"], m["H"], m["Q"], m["d"]
        h2 = no // 2

        def v(oid_, H_, sig_, Q_, lab):
            add("vfy %d %s %s %s %s" % (ci, hx(oid_), hx(H_), hx(sig_), hx(Q_)), kind="vfy", cv=cv, oid=oid_, H=H_, sig=sig_, pub=Q_, lab=lab)
            self.count("vfy:" + lab)

        v(oid, H, sig, Q, "genuine")
        if n <= (6 if self.thorough else 3):
            add("idext %d %s %s %s %s" % (ci, hx(oid), hx(H), hx(sig), hx(Q)), kind="idext", cv=cv, oid=oid, idH=H, sig=sig, Q=Q, d=d)
        s1 = int.from_bytes(sig[h2:], "little")
        alts = [("s1=q", q), ("s1+q", s1 + q), ("s1=max", cv.W - 1), ("s1=0", 0), ("s1+1", (s1 + 1) % q)]
        for lab, s1x in alts if (full or self.thorough or "lab" in m) else alts[n % 2: n % 2 + 2]:
            if s1x < cv.W and s1x != s1:
                v(oid, H, sig[:h2] + cv.n2b(s1x), Q, lab)
        if m.get("lab", "").startswith("s1=0") and s1 == 0:
            # s1 = q is then the consistent range violation s1 + q: only the test s1 < q rejects it (also in bignIdExtract)
            sq = sig[:h2] + cv.n2b(q)
            add("idext %d %s %s %s %s" % (ci, hx(oid), hx(H), hx(sq), hx(Q)), kind="idext-alt", cv=cv, vargs=(oid, H, sq, Q))
            self.count("one-check:s1+q consistent (idext)")
        Hn = int.from_bytes(H, "little")
        for lab, Hx in [("H+q", Hn + q), ("H-q", Hn - q)]:       # same residue modulo q, different octets: must be rejected (hash input differs)
            if 0 <= Hx < cv.W:
                v(oid, cv.n2b(Hx), sig, Q, lab)
        if not full:
            v(oid, H, flip(sig, self.rng.randrange(12 * no)), Q, "bit:sig")
            v(oid, flip(H, self.rng.randrange(8 * no)), sig, Q, "bit:hash")
            return
        if self.thorough and n != 1:
            self.thorough, self.tt, tt = False, False, self.tt       # every bit only for the first signature
            try:
                return self.sig_cases(cv, m, sig, add, 1)
            finally:
                self.thorough, self.tt = True, tt
        for i in self.bits(cv, 12 * no, self.w(cv, 24, 10, 8), True):
            v(oid, H, flip(sig, i), Q, "bit:sig")
        for i in self.bits(cv, 8 * no, self.w(cv, 12, 5, 4), True):
            v(oid, flip(H, i), sig, Q, "bit:hash")
        for i in self.bits(cv, 16 * no, self.w(cv, 12, 6, 6), True):
            v(oid, H, sig, flip(Q, i), "bit:pub")
        for i in self.bits(cv, 8 * len(oid), self.w(cv, 8, 4, 3), True):
            v(flip(oid, i), H, sig, Q, "bit:oid")
        for lab, Qb in self.pubs(cv, Q)[1:]:
            v(oid, H, sig, Qb, "pub:" + lab)
        v(oid, H, sig, cv.pt(cv.neg((int.from_bytes(Q[:no], "little"), int.from_bytes(Q[no:], "little")))), "pub:-Q")
        v(oid, H, sig, cv.pub((d % (q - 1)) + 1), "pub:other")
        for o in OID_GOOD[:3]:
            if o != oid:
                v(o, H, sig, Q, "oid:other")
        v(OID_BAD[self.rng.randrange(len(OID_BAD))], H, sig, Q, "oid:invalid")

    def token_cases(self, cv, m, tok, add):
        ci, no, q = cv.ci, cv.no, cv.q
        d, hdr, key = m["d"], m["hdr"], m["key"]

        def u(tok_, hdr_, d_, lab):
            add("unwrap %d %s %s %s" % (ci, hx(tok_), hdr_, hx(cv.n2b(d_))), kind="unwrap", cv=cv, lab=lab, key=key, tok=tok_,
                orig=tok, hdr=hdr_, hdr0=hdr, d=d_, d0=d)
            self.count("unwrap:" + lab)

        u(tok, hdr, d, "genuine")
        z = hx(bytes(16))
        if m.get("sparse"):
            u(tok, "N", d, "hdr:null-for-nonzero")
            u(tok, z, d, "hdr:zero-for-nonzero")
            return
        if hdr == "N":
            u(tok, z, d, "null-vs-zero")                      # NULL header == zero header: must be accepted
        elif hdr == z:
            u(tok, "N", d, "zero-vs-null")
        else:
            u(tok, "N", d, "hdr:null-for-nonzero")
            u(tok, z, d, "hdr:zero-for-nonzero")
        u(tok, hx(flip(unh(hdr) if hdr != "N" else bytes(16), self.rng.randrange(128))), d, "hdr:bitflip")
        u(tok, hdr, (d % (q - 1)) + 1, "wrong-privkey")
        u(tok, hdr, 0, "privkey=0")
        u(tok, hdr, q, "privkey=q")
        u(tok, hdr, q + 1, "privkey=q+1")
        u(tok, hdr, cv.W - 1, "privkey=max")
        if d != 1:
            u(tok, hdr, 1, "privkey=1")
        if d != q - 1:
            u(tok, hdr, q - 1, "privkey=q-1")
        for cut in (1, 16, len(tok) - 31 - no, len(tok) - no + 1):
            if 0 < cut <= len(tok):
                u(tok[:-cut], hdr, d, "truncated")
        u(tok + b"\x00", hdr, d, "extended")
        for i in self.bits(cv, 8 * len(tok), self.w(cv, 10, 4, 3), m.get("first", False)) if not self.thorough else self.bits(cv, 8 * len(tok), 0) if m.get("first") else sorted(self.rng.sample(range(8 * len(tok)), 24)):
            u(flip(tok, i), hdr, d, "bit:token")
        x = int.from_bytes(tok[:no], "little")
        for lab, xx in [("x=p", cv.p), ("x+p", x + cv.p), ("x=max", cv.W - 1), ("x=0", 0)]:
            if xx < cv.W:
                u(cv.n2b(xx) + tok[no:], hdr, d, "token:" + lab)
        xt = self.rng.randrange(cv.p)
        while cv.lift(xt) is not None:
            xt = (xt + 1) % cv.p
        u(cv.n2b(xt) + tok[no:], hdr, d, "token:x-on-twist")

    # ---- stage 3: identity-based signatures from the extracted keys
    def stage3(self, ops2, meta2, out2):
        ops, meta = [], []

        def add(op, **m):
            ops.append(op)
            meta.append(m)

        cnt = {}
        for op, m, o in zip(ops2, meta2, out2):
            w = o.split()
            if m.get("kind") != "idext" or w[0] != "0":
                continue
            cv = m["cv"]
            self.mode(cv)
            n = cnt[cv.ci] = cnt.get(cv.ci, 0) + 1
            no = cv.no
            kp = unh(w[1])
            e, R = kp[:no], kp[no:]
            m = dict(m, e=e, R=R)
            del m["kind"]
            hs = self.hashes(cv)
            for H in (hs[2:6] if self.thorough else [hs[2], hs[4]]) if (n == 1 and (cv.ci == 0 or self.thorough)) else [hs[self.rng.choice([2, 4, 5])]]:
                lab, t = self.rng.choice(self.tapes(cv, False))
                add("idsign %d %s %s %s %s %s" % (cv.ci, hx(m["oid"]), hx(m["idH"]), hx(H), hx(e), hx(t)), kind="idsign", H=H, **m)
                tt = self.rng.choice(["N", "-", hx(self.rb(self.rng.choice([1, 32, 45])))])
                add("idsign2 %d %s %s %s %s %s" % (cv.ci, hx(m["oid"]), hx(m["idH"]), hx(H), hx(e), tt), kind="idsign", H=H, **m)
            add("idsign %d %s %s %s %s %s" % (cv.ci, hx(m["oid"]), hx(m["idH"]), hx(H), hx(cv.n2b(cv.q)), hx(t)), kind="idsignbad", cv=cv, expect=BAD_PRIVKEY)
            add("idsign %d %s %s %s %s %s" % (cv.ci, hx(m["oid"]), hx(m["idH"]), hx(H), hx(cv.n2b(0)), hx(t)), kind="idsign0", cv=cv)
            add("idsign2 %d %s %s %s %s N" % (cv.ci, hx(OID_BAD[2]), hx(m["idH"]), hx(H), hx(cv.n2b(cv.q))), kind="idsignbad", cv=cv, expect=BAD_OID)
            add("idsign %d %s %s %s %s -" % (cv.ci, hx(m["oid"]), hx(m["idH"]), hx(H), hx(e)), kind="idsignbad", cv=cv, expect=BAD_RNG)
        return ops, meta

    def stage4(self, ops3, meta3, out3):
        ops, meta = [], []

        def add(op, **m):
            ops.append(op)
            meta.append(m)

        cnt = {}
        for op, m, o in zip(ops3, meta3, out3):
            w = o.split()
            if m.get("kind") != "idsign" or w[0] != "0":
                continue
            cv = m["cv"]
            self.mode(cv)
            n = cnt[cv.ci] = cnt.get(cv.ci, 0) + 1
            ci, no, q = cv.ci, cv.no, cv.q
            oid, idH, H, R, Q = m["oid"], m["idH"], m["H"], m["R"], m["Q"]
            isig = unh(w[1])
            h2 = no // 2

            def v(oid_, idH_, H_, sig_, R_, Q_, lab):
                add("idvfy %d %s %s %s %s %s %s" % (ci, hx(oid_), hx(idH_), hx(H_), hx(sig_), hx(R_), hx(Q_)), kind="idvfy", cv=cv, lab=lab,
                    args=(oid_, idH_, H_, sig_, R_, Q_))
                self.count("idvfy:" + lab)

            v(oid, idH, H, isig, R, Q, "genuine")
            s1 = int.from_bytes(isig[h2:], "little")
            for lab, s1x in [("s1=q", q), ("s1+q", s1 + q), ("s1=max", cv.W - 1)]:
                if s1x < cv.W:
                    v(oid, idH, H, isig[:h2] + cv.n2b(s1x), R, Q, lab)
            full = n == 1
            if self.thorough and not full:
                pass
            for i in self.bits(cv, 12 * no, self.w(cv, 10, 4, 3) if full else 1, full) if not (self.thorough and not full) else [self.rng.randrange(12 * no) for _ in range(6)]:
                v(oid, idH, H, flip(isig, i), R, Q, "bit:idsig")
            nb = lambda tot, sw=False: (self.bits(cv, tot, self.w(cv, 5, 2, 2) if full else 1, sw and full) if not (self.thorough and not full)
                              else [self.rng.randrange(tot) for _ in range(4)])
            for i in nb(8 * no, True):
                v(oid, idH, flip(H, i), isig, R, Q, "bit:hash")
            for i in nb(8 * no):
                v(oid, flip(idH, i), H, isig, R, Q, "bit:idhash")
            for i in nb(16 * no):
                v(oid, idH, H, isig, flip(R, i), Q, "bit:idpub")
            for i in nb(16 * no):
                v(oid, idH, H, isig, R, flip(Q, i), "bit:pub")
            if full:
                for lab, Qb in self.pubs(cv, Q)[1:]:
                    v(oid, idH, H, isig, R, Qb, "pub:" + lab)
                for lab, Rb in self.pubs(cv, R)[1:]:
                    v(oid, idH, H, isig, Rb, Q, "idpub:" + lab)
                v(oid, idH, H, isig, Q, R, "swapped-keys")
                v([o for o in OID_GOOD if o != oid][0], idH, H, isig, R, Q, "oid:other")
                v(OID_BAD[4], idH, H, isig, R, Q, "oid:invalid")
            # the extraction itself under alterations
            sig = m["sig"]
            for i in [self.rng.randrange(12 * no) for _ in range(4 if full else 1)]:
                add("idext %d %s %s %s %s" % (ci, hx(oid), hx(idH), hx(flip(sig, i)), hx(Q)), kind="idext-alt", cv=cv,
                    vargs=(oid, idH, flip(sig, i), Q))      # decided by the equations (nonce +-1: s1 -/+ 2 also verifies)
            add("idext %d %s %s %s %s" % (ci, hx(oid), hx(flip(idH, self.rng.randrange(8 * no))), hx(sig), hx(Q)), kind="idext-alt", cv=cv, expect=BAD_SIG)
            add("idext %d %s %s %s %s" % (ci, hx(oid), hx(idH), hx(sig), hx(flip(Q, self.rng.randrange(16 * no)))), kind="idext-alt", cv=cv, expect=BAD_PUBKEY)
            add("idext %d %s %s %s %s" % (ci, hx(oid), hx(idH), hx(sig), hx(bytes(2 * no))), kind="idext-alt", cv=cv, expect=BAD_PUBKEY)
        return ops, meta


def operable_ops(ctx, cvs):
    """bignIsOperable on raw parameter fields: the standard sets and single-field alterations"""
    import x_c02
    ops = []
    for r in x_c02.parse(vcommon.REPO):
        base = {f: bytearray(r[f]) for f in ("p", "a", "b", "q", "yG")}
        no = r["l"] // 4

        def line(l, d):
            return "oper %d %s" % (l, " ".join(hx(d[f]) for f in ("p", "a", "b", "q", "yG")))
        ops.append(line(r["l"], base))
        for l in (0, 64, 127, 129, 192, 256, 128, 512):
            ops.append(line(l, base))
        for f in base:
            for pos, val in [(0, 0), (0, 1), (0, 2), (0, 0x41), (no - 1, 0x7f), (no - 1, 0x80), (no, 1), (63, 1)]:
                if pos < 64:
                    d = {g: bytearray(v) for g, v in base.items()}
                    d[f][pos] = val
                    ops.append(line(r["l"], d))
            d = {g: bytearray(v) for g, v in base.items()}
            d[f] = bytearray(64)
            ops.append(line(r["l"], d))
    return ops


# ------------------------------------------------------------------ search oracle: the property on the implementation
def py_verify(cv, hashf, oid, H, sig, pub):
    """the standard's verification (7.1.4) + public key validation (6.2.3), recomputed independently;
    `hashf` = belt-hash of the library"""
    if not oid_ok(oid):
        return BAD_OID
    no, q, l = cv.no, cv.q, cv.l
    x, y = int.from_bytes(pub[:no], "little"), int.from_bytes(pub[no:], "little")
    if not cv.on(x, y):
        return BAD_PUBKEY
    s0, s1 = int.from_bytes(sig[: no // 2], "little"), int.from_bytes(sig[no // 2:], "little")
    if s1 >= q:
        return BAD_SIG
    Hn = int.from_bytes(H, "little")
    R = cv.add(cv.mul((s1 + Hn) % q, cv.G), cv.mul(s0 + (1 << l), (x, y)))
    if R is None:
        return BAD_SIG
    t = hashf(oid + cv.n2b(R[0]) + H)[: no // 2]
    return OK if t == sig[: no // 2] else BAD_SIG


def py_idverify(cv, hashf, oid, idH, H, isig, idpub, pub):
    """alg. B.2.5 + validation of both public keys, recomputed independently"""
    if not oid_ok(oid):
        return BAD_OID
    no, q, l = cv.no, cv.q, cv.l
    pts = []
    for k in (idpub, pub):
        x, y = int.from_bytes(k[:no], "little"), int.from_bytes(k[no:], "little")
        if not cv.on(x, y):
            return BAD_PUBKEY
        pts.append((x, y))
    R, Q = pts
    s0, s1 = int.from_bytes(isig[: no // 2], "little"), int.from_bytes(isig[no // 2:], "little")
    if s1 >= q:
        return BAD_SIG
    u = s0 + (1 << l)
    t = int.from_bytes(hashf(oid + idpub[:no] + idH)[: no // 2], "little") + (1 << l)
    V = cv.add(cv.add(cv.mul((s1 + int.from_bytes(H, "little")) % q, cv.G), cv.mul(u, R)), cv.mul((-t * u) % q, Q))
    if V is None:
        return BAD_SIG
    return OK if hashf(oid + cv.n2b(V[0]) + idH + H)[: no // 2] == isig[: no // 2] else BAD_SIG


def oid_ok(der):
    """DER OBJECT IDENTIFIER with sub-identifiers within 32 bits (what oidFromDER accepts), written from X.690"""
    if len(der) < 3 or der[0] != 6 or der[1] >= 128 or der[1] != len(der) - 2:
        return False
    body = der[2:]
    if body[-1] & 128:
        return False
    v = 0
    for b in body:
        if v >> 25:
            return False
        if v == 0 and b == 128:
            return False
        v = (v << 7) | (b & 127)
        if not (b & 128):
            v = 0
    return True


class Search:
    """checks of the property on the implementation's outputs alone (no model involved)"""

    def __init__(self, ctx, run_c):
        self.ctx, self.run_c, self.fail = ctx, run_c, []
        self._h = {}

    def hashf(self, data):
        if data not in self._h:
            self._h[data] = unh(self.run_c(["hash " + hx(data)])[0])
        return self._h[data]

    def prefetch(self, datas):
        datas = [d for d in set(datas) if d not in self._h]
        if datas:
            for d, o in zip(datas, self.run_c(["hash " + hx(d) for d in datas])):
                self._h[d] = unh(o)

    def report(self, key, op, got, want, what):
        self.fail.append((key, op, got, want, what))

    def expect_sig(self, cv, m, k):
        """the standard's signature for nonce k"""
        no, q, l = cv.no, cv.q, cv.l
        R = cv.mul(k, cv.G)
        s0b = self.hashf(m["oid"] + cv.n2b(R[0]) + m["H"])[: no // 2]
        s0 = int.from_bytes(s0b, "little")
        s1 = (k - int.from_bytes(m["H"], "little") - (s0 + (1 << l)) * m["d"]) % q
        return s0b + cv.n2b(s1)

    def nonce_633(self, cv, m):
        """alg. 6.3.3: k <- H; repeat k <- E_theta(k) until k in {1..q-1}; the first iterate is known by construction
        (H = D_theta(k1)), further iterates come from the library's belt-WBL (helper op `wble`)"""
        k = m["k1"]
        for _ in range(64):
            if 0 < k < cv.q:
                return k
            k = int.from_bytes(unh(self.run_c(["wble %s %s" % (m["theta"], hx(cv.n2b(k)))])[0]), "little")
        raise RuntimeError("nonce loop: 64 iterates out of range")

    def first_nonce(self, cv, tape):
        no = cv.no
        for i in range(65):
            c = tape[i * no:(i + 1) * no]
            c = c + bytes(no - len(c))
            v = int.from_bytes(c, "little")
            if 0 < v < cv.q:
                return v, (i + 1) * no
        return None, 65 * no

    def unwrap_expect(self, cv, m):
        """acceptance according to alg. 7.2.4: same protected part, same header (NULL = zero header), a private key in
        range and the same key-protection key theta = <x(d R)>_256 (R recovered from the x-coordinate in the token)"""
        no = cv.no
        t, t0 = m["tok"], m["orig"]
        norm = lambda h: bytes(16) if h == "N" else unh(h)
        if len(t) != len(t0) or t[no:] != t0[no:] or norm(m["hdr"]) != norm(m["hdr0"]) or not (0 < m["d"] < cv.q):
            return False
        R, R0 = cv.lift(int.from_bytes(t[:no], "little")), cv.lift(int.from_bytes(t0[:no], "little"))
        if int.from_bytes(t[:no], "little") >= cv.p or R is None:
            return False
        return cv.n2b(cv.mul(m["d"], R)[0])[:32] == cv.n2b(cv.mul(m["d0"], R0)[0])[:32]

    def stage(self, ops, meta, out, limit_vfy):
        nv = 0
        dh = {}
        inplace = {}
        for op, m, o in zip(ops, meta, out):
            w = o.split()
            k, cv = m.get("kind"), m.get("cv")
            if o.startswith("CRASH"):
                self.report("crash:" + op.split()[0], op, o, "no sanitizer report", "the library crashed")
                continue
            if "expect" in m and int(w[0]) != m["expect"]:
                self.report("%s:err" % op.split()[0], op, o, str(m["expect"]), "unexpected result code")
            if k == "kgen":
                d, used = self.first_nonce(cv, unh(op.split()[2]))
                want = ("304 - %d" % used) if d is None else "0 %s %d" % (hx(cv.n2b(d) + cv.pub(d)), used)
                if o != want:
                    self.report("kgen:" + m["tape"], op, o, want, "key generation differs from alg. 6.2.2 on this tape")
            elif k == "pcalc":
                want = "0 " + hx(cv.pub(m["d"])) if 0 < m["d"] < cv.q else "504 -"
                if o != want:
                    self.report("pcalc", op, o, want, "public key != dG / private key range")
            elif k == "pval":
                want = OK if m["lab"] == "valid" else BAD_PUBKEY
                if int(w[0]) != want:
                    self.report("pval:" + m["lab"], op, o, str(want), "public key validation")
            elif k == "dh":
                da, db, kl = m["pair"]
                want = "0 " + hx(cv.pt(cv.mul(da * db % cv.q, cv.G))[:kl])
                if o != want:
                    self.report("dh:value", op, o, want, "bignDH != <da db G> truncated to key_len")
                dh.setdefault((cv.ci,) + m["pair"], {})[m["side"]] = o
            elif k == "sign" and w[0] == "0":
                kk, used = self.first_nonce(cv, m["tape"])
                want = "0 %s %d" % (hx(self.expect_sig(cv, m, kk)), used)
                if o != want:
                    self.report("sign:" + m.get("lab", "value"), op, o, want, "signature differs from the value defined by alg. 7.1.3")
            elif k == "sign2" and m.get("directed"):
                kk = self.nonce_633(cv, m)
                want = "0 " + hx(self.expect_sig(cv, m, kk))
                if o != want:
                    self.report("sign2:" + m["lab"], op, o, want, "bignSign2: the nonce is not the first wide-block iterate in {1..q-1} (alg. 6.3.3)")
            elif k == "idsign2-directed":
                kk = self.nonce_633(cv, m)
                no, q, l = cv.no, cv.q, cv.l
                V = cv.mul(kk, cv.G)
                s0b = self.hashf(m["oid"] + cv.n2b(V[0]) + m["idH"] + m["H"])[: no // 2]
                s1 = (kk - int.from_bytes(m["H"], "little") - (int.from_bytes(s0b, "little") + (1 << l)) * m["d"]) % q
                want = "0 " + hx(s0b + cv.n2b(s1))
                if o != want:
                    self.report("idsign2:" + m["lab"], op, o, want, "bignIdSign2: the nonce is not the first wide-block iterate in {1..q-1} (alg. 6.3.3)")
            elif k in ("wrap-ref", "wrapip"):
                key = tuple(op.split()[1:6])
                if key in inplace and inplace[key] != o:
                    self.report("wrap:in-place", op, o, inplace[key], "bignKeyWrap with key / header inside the token buffer differs from the call on disjoint buffers")
                inplace.setdefault(key, o)
            elif k in ("vfy",) and (nv < limit_vfy or (w[0] == "0") != (m["lab"] == "genuine")):
                # full recomputation for the first `limit_vfy` calls; beyond that only where the result needs a
                # justification (an altered input accepted, a genuine signature rejected)
                nv += 1
                want = py_verify(cv, self.hashf, m["oid"], m["H"], m["sig"], m["pub"])
                if int(w[0]) != want:
                    self.report("vfy:" + m["lab"], op, o, str(want),
                                "bignVerify disagrees with the standard's equations (genuine signature rejected or altered input accepted)")
            elif k == "unwrap":
                acc = self.unwrap_expect(cv, m)
                if not (0 < m["d"] < cv.q) and len(m["tok"]) >= 32 + cv.no and int(w[0]) != BAD_PRIVKEY:
                    self.report("unwrap:privkey-range", op, o, str(BAD_PRIVKEY), "bignKeyUnwrap: a private key outside {1..q-1} must give ERR_BAD_PRIVKEY")
                if acc and o != "0 " + hx(m["key"]):
                    self.report("unwrap:" + m["lab"], op, o, "0 " + hx(m["key"]), "Unwrap(Wrap(key)) != key")
                elif not acc and w[0] == "0":
                    self.report("unwrap:" + m["lab"], op, o, "an error code", "altered token / header / private key accepted")
            elif k == "idext-alt" and "vargs" in m:
                want = py_verify(cv, self.hashf, *m["vargs"])
                if int(w[0]) != want:
                    self.report("idext:bit:sig", op, o, str(want), "bignIdExtract disagrees with the standard's verification")
            elif k == "idvfy":
                want_ok = m["lab"] == "genuine"
                # an alteration may legitimately verify (e.g. nonce k = q-1 or 1: s1 -/+ 2 is the signature for the
                # nonce -k, which has the same x-coordinate): the equations of alg. B.2.5 decide
                if (w[0] == "0") != want_ok and int(w[0]) != py_idverify(cv, self.hashf, *m["args"]):
                    self.report("idvfy:" + m["lab"], op, o, "0" if want_ok else "an error code",
                                "identity signature: genuine rejected or altered input accepted")
        for key, sides in dh.items():
            if len(sides) == 2 and sides[0] != sides[1]:
                self.report("dh:symmetry", "dh ci=%d da=%d db=%d len=%d" % key, sides[0], sides[1], "bignDH(da, Qb) != bignDH(db, Qa)")


def diff_par(ctx, exe, lines, label, nproc=6):
    """ctx.diff_run with the Lean side split over several driver processes (the model's affine arithmetic is slow)"""
    import concurrent.futures as cf
    c_out, c_err, rc = ctx.run_lines(exe, lines)
    if rc != 0 or len(c_out) != len(lines):
        k = min(len(c_out), len(lines) - 1)
        msg = c_err.strip().split("\n") or ["?"]
        summ = [l for l in msg if "ERROR" in l or "SUMMARY" in l or "Assertion" in l or "runtime error" in l][:3]
        c_out = c_out[:k] + ["CRASH(rc=%d): %s" % (rc, " | ".join(summ) or msg[-1][:200])]
        lines = lines[:k + 1]
    if ctx.tier == "thorough":
        nproc = max(nproc, min(12, vcommon.NPROC - 2))
    n = max(1, min(nproc, len(lines) // 8))
    chunks = [lines[i::n] for i in range(n)]
    with cf.ThreadPoolExecutor(n) as ex:
        res = list(ex.map(lambda ch: ctx.run_lines(ctx.driver(), ch), chunks))
    l_out = [None] * len(lines)
    for i, (out, err, lrc) in enumerate(res):
        if lrc != 0 or len(out) != len(chunks[i]):
            raise RuntimeError("Lean driver failed (rc=%d) on %s: %s" % (lrc, label, err[-500:]))
        l_out[i::n] = out
    mism = [(i, lines[i], c_out[i], l_out[i]) for i in range(len(lines)) if c_out[i] != l_out[i]]
    ctx.cov["ops_" + label] = len(lines)
    ctx.cov["ops_total"] = ctx.cov.get("ops_total", 0) + len(lines)
    return mism, c_out, l_out


def fmt_replay(key, op, got, want, what):
    return "\n".join(["# property C02 key=%s : %s" % (key, what), "# replay with ./check C02 --replay <this file>",
                      "op %s" % op, "impl %s" % got, "expected %s" % want]) + "\n"


def corpus_lines():
    if not os.path.exists(CORPUS):
        return []
    return [l.strip() for l in open(CORPUS) if l.strip() and not l.startswith("#")]


def run(ctx):
    params_error = skel_error = None
    try:
        regen_params(ctx)
    except Exception as e:
        params_error = "x_c02: %s: %s" % (type(e).__name__, e)
    try:
        regen_skel(ctx)
    except Exception as e:       # the structure of a bign function changed: the obligations of PropsSkel cannot be regenerated
        skel_error = "x_c02_skel: %s: %s" % (type(e).__name__, e)
    translator_error = params_error or skel_error
    if translator_error:
        proof_ok, log = False, "translator: " + translator_error
        ctx.obligations += [(n, None) for rel in PROPS for n in ctx.theorems_of(rel)]
        if not params_error:
            ctx.lake_build(["drv_c02"])          # the model itself is intact: keep the correspondence and the directed inputs running
    else:
        proof_ok, log = ctx.prove(TARGETS, PROPS)
    exe = ctx.cc("harness/c02.c", "asan")

    def run_c(lines):
        out, err, rc = ctx.run_lines(exe, lines)
        if rc != 0 or len(out) != len(lines):
            raise RuntimeError("c02 harness failed on a helper query: " + err[-400:])
        return out

    have_driver = (not params_error) and os.path.exists(ctx.driver())
    cvs = curves() if not params_error else []
    g = Gen(ctx, cvs, run_c)
    srch = Search(ctx, run_c)
    all_mism, distinct, nops = [], set(), 0
    stages = []

    def do_stage(label, ops, meta):
        nonlocal nops
        if have_driver:
            mism, c_out, _ = diff_par(ctx, exe, ops, label)
        else:
            c_out, _, _ = ctx.run_lines(exe, ops)
            mism = []
        if len(c_out) < len(ops):       # crash: keep the lists aligned
            ops, meta = ops[:len(c_out)], meta[:len(c_out)]
        all_mism.extend(mism)
        distinct.update(c_out)
        nops += len(ops)
        stages.append((ops, meta, c_out))
        return ops, meta, c_out

    cl = corpus_lines()
    if cl:
        do_stage("corpus", cl, [{"kind": "corpus"} for _ in cl])
    oo = operable_ops(ctx, cvs)
    do_stage("operable", oo, [{"kind": "oper"} for _ in oo])
    o1, m1 = g.stage1()
    o1, m1, c1 = do_stage("stage1", o1, m1)
    o2, m2 = g.stage2(o1, m1, c1)
    o2, m2, c2 = do_stage("stage2", o2, m2)
    o3, m3 = g.stage3(o2, m2, c2)
    o3, m3, c3 = do_stage("stage3", o3, m3)
    o4, m4 = g.stage4(o3, m3, c3)
    o4, m4, c4 = do_stage("stage4", o4, m4)
    # other build configurations of the library must give the same outputs (32-bit words, FAST editions)
    if ctx.tier == "thorough":
        for cfg in ("w32", "fast"):
            exe2 = ctx.cc("harness/c02.c", cfg)
            for (ops, _, out), lab in zip(stages, ["corpus", "operable", "stage1", "stage2", "stage3", "stage4"][-len(stages):]):
                out2, err2, rc2 = ctx.run_lines(exe2, ops)
                if rc2 != 0 or len(out2) != len(ops):
                    out2 = out2[:max(0, min(len(out2), len(ops) - 1))] + ["CRASH(rc=%d)" % rc2]
                for i, (x, y) in enumerate(zip(out, out2)):
                    if x != y:
                        all_mism.append((i, ops[i], y, "cfg asan: " + x))
                        srch.report("cfg-%s:%s" % (cfg, ops[i].split()[0]), ops[i], y, x, "build configuration %s disagrees with the default build" % cfg)
                        break
                ctx.cov["ops_" + cfg] = ctx.cov.get("ops_" + cfg, 0) + len(ops)
    # the property on the implementation alone (always evaluated: it is cheap and does not involve the model)
    limit = 10 ** 9 if (all_mism or not proof_ok) else 2500 if ctx.tier == "thorough" else 400
    for ops, meta, out in stages:
        srch.stage(ops, meta, out, limit)
    kinds = {}
    for ops, _, _ in stages:
        for o in ops:
            kinds[o.split()[0]] = kinds.get(o.split()[0], 0) + 1
    ctx.cov.update({"ops_by_kind": kinds, "cases": g.cov, "correspondence_disagreements": len(all_mism),
                    "implementation_property_failures": len(srch.fail), "distinct_nontrivial": len(distinct)})
    for st in stages[2:4]:
        if st[0]:
            ctx.samples.append({"op": st[0][len(st[0]) // 2][:300], "impl": st[2][len(st[0]) // 2][:200]})
    ctx.samples.append({"theorem": "Bee2V.C02.verify_exact", "statement": "verify C oid H sig pub = ok ↔ oidOk ∧ pub on curve (coordinates < p) ∧ s1 < q ∧ R ≠ O ∧ ⟨hash(oid ‖ ⟨R⟩ ‖ H)⟩_l = s0, R = ((s1+H) mod q)·G + (s0+2^l)·Q"})
    seen = set()
    for key, op, got, want, what in srch.fail:
        if key in seen:
            continue
        seen.add(key)
        ctx.violation(key, fmt_replay(key, op, got, want, what), True, "%s\n  op: %s\n  impl: %s\n  expected: %s" % (what, op[:400], got[:200], want[:200]))
    if not srch.fail:
        if not proof_ok:
            errs = "\n".join("# " + l for l in log.split("\n") if "error" in l)[:3000]
            ctx.violation("proof", "# property C02: the theorems of Bee2V/C02/Props.lean no longer check; the implementation-only "
                          "property tests found no failing input.\n# first errors:\n" + errs, False,
                          "theorems no longer check: " + (translator_error or "; ".join(ctx.cov.get("lake_errors", [])) or log[-300:])[:400])
        elif all_mism:
            i, op, c, l = all_mism[0]
            key = "correspondence:" + (op.split()[0] if op else "driver")
            ctx.violation(key, fmt_replay(key, op, c, l, "model and implementation disagree; no property failure found on the implementation"),
                          False, "%d ops differ, first: %s\n  impl=%s\n  model=%s" % (len(all_mism), op[:400], c[:200], l[:200]))
    return ctx.finish(
        level="proof",
        assumptions=[
            "theorems are about the code-shaped model over an abstract context; the group laws (commutative group, generator of prime "
            "order q, point encoding injective, decompression law), belt-hash/WBL/KWP (uninterpreted; KWP round trip as a hypothesis, "
            "proved for the belt model in C01) are hypotheses of the theorems, not proved for ecp.c/gfp (C05/C06 scope)",
            "model = code is checked by the correspondence run on the three standard curves, not proved",
            "the nonce loop of alg. 6.3.3 (while(1)) is modelled with fuel: theorems hold whenever it terminates",
            "memIsValid / blobCreate failure / rng == 0 branches are not reachable through the harness and not modelled"],
        rule="staged generator: stage 1 = keys {1, q-1, random}, tapes whose first draw is 0, q, q+1, in [q,p), p-1, 2^2l-1 (rejection rounds), "
             "64/65 rejected draws, hashes {0, q-1, q, q+1, 2^2l-1, random}, constructed (k, H>=q, d) with k-(s0+2^l)d mod q below H-q and s1 in {0, q-1}; "
             "stage 2 = verification of the implementation's signatures and tokens and of their alterations (s1=q, s1+q, max, every/sampled single bit of "
             "signature, hash, public key, oid, token, header; off-curve / twist / >=p public keys; NULL vs zero header); stages 3-4 = identity-based chain. "
             "distinct_nontrivial = number of distinct implementation outputs",
        distinct=len(distinct))


def replay(ctx, path):
    op = want = None
    for line in open(path):
        if line.startswith("op "):
            op = line[3:].strip()
        elif line.startswith("expected "):
            want = line[9:].strip()
    if not op or op.split()[0] not in ("params", "oper", "kgen", "kval", "pval", "pcalc", "dh", "sign", "sign2", "vfy", "wrap", "unwrap",
                                       "idext", "idsign", "idsign2", "idvfy"):
        print("replay file names a theorem/correspondence, not an executable input")
        return 0
    exe = ctx.cc("harness/c02.c", "asan")
    out, err, rc = ctx.run_lines(exe, [op])
    got = out[0] if out else "CRASH " + err[-300:]
    print("op       %s\nimpl     %s\nexpected %s" % (op, got, want))
    bad = (got != want) if want not in ("an error code", "no sanitizer report") else got.startswith("0") or got.startswith("CRASH")
    print("property %s on the current tree" % ("VIOLATED" if bad else "holds"))
    return 1 if bad else 0


# ------------------------------------------------------------------ C19: a quick-sized stream for the configuration replay
def c19_stream():
    """(harness, driver, fn, uses_bash) for props/C19.py: fn(ctx, exe, w) -> op lines.  The stream is the staged
    quick generator thinned to about 450 ops (the Lean affine arithmetic is slow); later stages are built from the
    outputs of `exe` (the reference build).  All ops are octet-level: nothing depends on the machine-word size `w`."""

    class _Shim:
        def __init__(self, ctx):
            self.rng, self.tier = ctx.rng, "quick"

    def fn(ctx, exe, w):
        def run_c(lines):
            out, err, rc = ctx.run_lines(exe, lines)
            if rc != 0 or len(out) != len(lines):
                raise RuntimeError("c02 harness failed while building the C19 stream: " + err[-300:])
            return out

        g = Gen(_Shim(ctx), curves(), run_c)
        rng = ctx.rng

        def thin(ops, meta, fr):
            seen, ko, km = set(), [], []
            for o, m in zip(ops, meta):
                t = o.split()
                ci = int(t[1]) if len(t) > 1 and t[1] in ("0", "1", "2") else 0
                lab = str(m.get("lab", m.get("kind")))
                key = (t[0], ci, "nonce" if lab.startswith("nonce:") else lab)
                if key not in seen or rng.random() < fr[ci]:
                    ko.append(o)
                    km.append(m)
                seen.add(key)
            return ko, km

        stream = corpus_lines()
        oo = operable_ops(ctx, g.cvs)
        stream += [oo[i] for i in sorted(rng.sample(range(len(oo)), min(30, len(oo))))]
        o1, m1 = thin(*g.stage1(), fr=(0.18, 0.06, 0.05))
        c1 = run_c(o1)
        o2, m2 = thin(*g.stage2(o1, m1, c1), fr=(0.25, 0.10, 0.08))
        c2 = run_c(o2)
        o3, m3 = thin(*g.stage3(o2, m2, c2), fr=(0.5, 0.3, 0.3))
        c3 = run_c(o3)
        o4, m4 = thin(*g.stage4(o3, m3, c3), fr=(0.25, 0.10, 0.08))
        return stream + o1 + o2 + o3 + o4

    return ("harness/c02.c", "drv_c02", fn, False)

"""C12 generator for the structural predicates (qrIsOperable, zmIsValid, gfpIsOperable, gfpIsValid, gf2IsOperable,
gf2IsValid, ecIsOperable2, ecIsOperable, ecIsOperableGroup), the on-curve predicates on raw (possibly non-canonical)
coordinates, priExtendPrime2 / priBasePrime and mtMtxIsValid.

`obj …` ops: the harness creates a VALID object from the parameters on the line, damages single fields in place
(tokens name=value) and prints every predicate; the expected line is computed here from the headers' condition lists."""
import os, re
from C12_arith import *
from C12_val import Op, hx, lev, find_gf2_poly

HDR, PTR, SZQR, SZEC = 24, 8, 144, 176
M64 = 1 << 64


def w_of_o(no, W):
    return max(1, (8 * no + W - 1) // W)


def words(v, n, W):
    return [(v >> (W * i)) & ((1 << W) - 1) for i in range(n)]


class Qr:
    def __init__(self, W, n, no, mod, params=None):
        self.W = W
        self.ptr, self.keep, self.pc, self.oc = True, 100000, 3, 0
        self.mod_ok = self.unity_ok = self.params_ok = True
        self.n, self.no, self.fns, self.deep = n, no, [True] * 9, 1000
        self.mod, self.params = list(mod), list(params or [])

    QFN = ["from", "to", "add", "sub", "neg", "mul", "sqr", "inv", "div"]

    def corrupt(self, tok):
        k, v = tok.split("=")
        v = int(v) % M64 if v.isdigit() else 0
        if k == "keep":
            self.keep = v
        elif k == "pcount":
            self.pc = v
        elif k == "ocount":
            self.oc = v
        elif k in ("n", "no", "deep"):
            setattr(self, k, v)
        elif k == "mod":
            self.mod_ok = False
        elif k == "unity":
            self.unity_ok = False
        elif k == "params":
            self.params_ok = False
        elif k == "modtop":
            i = self.n - 1 + (v >> 32)
            if i < len(self.mod):
                self.mod[i] = (v & 0xFFFFFFFF) % (1 << self.W)
        elif k == "modlow":
            self.mod[0] = v % (1 << self.W)
        elif k in ("p0", "p1", "p2", "p3"):
            self.params[int(k[1])] = v
        else:
            self.fns[self.QFN.index(k)] = False

    # ---- the predicates, as documented in obj.h / qr.h / zm.h / gfp.h / gf2.h
    def valid_mem(self, ok, count):
        return count % M64 == 0 or ok

    def ww_valid(self, ok, n):
        return self.valid_mem(ok, n * (self.W // 8))

    def obj2(self):
        return self.ptr and self.valid_mem(self.ptr, self.keep) and self.oc <= self.pc and (HDR + PTR * self.pc) % M64 <= self.keep

    def qr_operable(self):
        return (self.obj2() and self.keep >= SZQR and self.pc == 3 and self.oc == 0 and self.n > 0 and self.no > 0 and
                self.ww_valid(self.unity_ok, self.n) and all(self.fns))

    def word(self, i):
        return self.mod[i] if 0 <= i < len(self.mod) else 0

    def value(self, n):
        return sum(self.word(i) << (self.W * i) for i in range(n))

    def zm_valid(self):
        return self.qr_operable() and self.ww_valid(self.mod_ok, self.n) and self.word(self.n - 1) != 0

    def gfp_operable(self):
        return self.zm_valid() and self.word(0) % 2 == 1 and (self.n > 1 or self.word(0) > 1)

    def gfp_valid(self):
        return self.gfp_operable() and is_prime(self.value(self.n))

    def gf2_operable(self):
        if not (self.qr_operable() and self.params_ok):
            return False
        p = self.params
        W = self.W
        if not (p[0] > p[1] >= p[2] >= p[3]):
            return False
        if p[2] > 0 and not (p[1] > p[2] > p[3] > 0):
            return False
        if self.n != (p[0] + W - 1) // W or self.no != (p[0] + 7) // 8:
            return False
        n1 = self.n + (1 if p[0] % W == 0 else 0)
        return self.ww_valid(self.mod_ok, n1) and self.word(n1 - 1) != 0

    def gf2_valid(self):
        if not self.gf2_operable():
            return False
        p = self.params
        if p[1] == 0:
            return True
        n1 = self.n + (1 if p[0] % self.W == 0 else 0)
        md = (1 << p[0]) | (1 << p[1]) | (1 << p[2]) | (1 << p[3]) | 1
        return self.value(n1) == md and p_irreducible(md)


class Ec:
    EFN = ["froma", "toa", "neg", "add", "adda", "sub", "suba", "dbl", "dbla"]

    def __init__(self, W, f, order, cof):
        self.W, self.f = W, f
        self.ptr, self.keep, self.pc, self.oc = True, 100000, 6, 1
        self.a_ok = self.b_ok = self.base_ok = self.order_ok = True
        self.d, self.cof, self.fns, self.deep, self.order = 3, cof, [True] * 9, 2000, order

    def corrupt(self, tok):
        if tok.startswith("f."):
            return self.f.corrupt(tok[2:])
        k, vs = tok.split("=")
        v = int(vs) % M64 if vs.isdigit() else 0
        if k == "keep":
            self.keep = v
        elif k == "pcount":
            self.pc = v
        elif k == "ocount":
            self.oc = v
        elif k == "d":
            self.d = v
        elif k == "cofactor":
            self.cof = v % (1 << self.W)
        elif k == "deep":
            self.deep = self.f.deep if vs == "f" else self.f.deep - 1 if vs == "f-1" else v
        elif k in ("A", "B", "base", "order"):
            setattr(self, {"A": "a_ok", "B": "b_ok", "base": "base_ok", "order": "order_ok"}[k], False)
        elif k == "ordval":
            self.order = 0
        elif k == "tpl":
            pass
        else:
            self.fns[self.EFN.index(k)] = False

    def operable2(self):
        f = self.f
        obj2 = self.ptr and f.valid_mem(self.ptr, self.keep) and self.oc <= self.pc and (HDR + PTR * self.pc) % M64 <= self.keep
        return (obj2 and self.keep >= SZEC and self.pc == 6 and self.oc == 1 and f.ww_valid(self.a_ok, f.n) and
                f.ww_valid(self.b_ok, f.n) and self.d >= 3 and all(self.fns))

    def operable(self):
        return self.operable2() and self.f.qr_operable() and self.deep >= self.f.deep

    def operable_group(self):
        f = self.f
        return f.ww_valid(self.base_ok, 2 * f.n) and f.ww_valid(self.order_ok, f.n + 1) and self.order != 0 and self.cof != 0


def bits(*xs):
    return " ".join("1" if x else "0" for x in xs)


def source_has_fix7(repo):
    """qrIsOperable uses the non-recursive object test (docs/C12.fix-7.diff): damaged o_count values are then safe to ask"""
    try:
        t = open(os.path.join(repo, "src", "math", "qr.c"), encoding="utf-8", errors="replace").read()
    except OSError:
        return False
    m = re.search(r"bool_t qrIsOperable\(const qr_o\* r\)\s*\{\s*return (\w+)\(r\)", t)
    return bool(m) and m.group(1) == "objIsOperable2"


QR_TOKENS = ["keep=0", "keep=1", "keep=47", "keep=48", "keep=143", "keep=144", "keep=145", "keep=18446744073709551615",
             "pcount=0", "pcount=2", "pcount=4", "pcount=2305843009213693952", "pcount=18446744073709551615",
             "ocount=4", "n=0", "no=0", "unity=0", "mod=0", "deep=0"] + [x + "=0" for x in Qr.QFN]
QR_OCOUNT = ["ocount=1", "ocount=3"]


def gfp_ops(rng, tier, W, std, fix7):
    ops = []
    pre = "W32 " if W == 32 else ""
    mods = [3, 5, 9, 15, 23, 255, 65537, (1 << W) - 59 if W == 64 else (1 << 32) - 5, (1 << W) + 13, (1 << W) + 15, (1 << (2 * W)) - 1,
            rand_prime(rng, 2 * W - 2), rand_prime(rng, 3 * W - 1), rand_prime(rng, 190) * rand_prime(rng, 60), 1, 2, 4, 1 << W]
    for (sch, name), f in std.items():
        if sch in ("bign", "bign96"):
            mods.append(lev(f[1][:2 * (24 if sch == "bign96" else int(f[0]) // 4)]))
        elif sch == "g12s" and name in ("1.2.643.2.2.35.0", "1.2.643.7.1.2.1.2.0"):
            mods.append(lev(f[1]))
    for p in mods:
        no = max(1, (p.bit_length() + 7) // 8)
        ph = hx(p, no)
        n = w_of_o(no, W)

        def add(toks, k):
            if p % 2 == 0 or p == 1:
                exp = "0"
            else:
                r = Qr(W, n, no, words(p, n, W))
                for t in toks:
                    r.corrupt(t)
                exp = "1 " + bits(r.qr_operable(), r.zm_valid(), r.gfp_operable(), r.gfp_valid())
            ops.append(Op(pre + " ".join(["obj", "gfp", ph] + toks), exp, "obj-gfp:" + k, W))
        add([], "valid" if p % 2 and p > 1 else "not-created")
        if p % 2 == 0 or p == 1:
            continue
        full = tier != "quick" or p in (23, mods[7], mods[8]) or p.bit_length() == 256
        toks = QR_TOKENS + (QR_OCOUNT if fix7 else [])
        for t in (toks if full else ["keep=143", "pcount=2", "mul=0", "n=0"]):
            add([t], t.split("=")[0] if not t.startswith("keep") and not t.startswith("pcount") else t)
        # the modulus words
        add(["modtop=0"], "top-word-zero")
        add(["modlow=%d" % ((p - 1) % (1 << W))], "even")
        add(["modlow=%d" % ((p + 2) % (1 << W))], "low-word+2")
        if n == 1:
            add(["modlow=1"], "mod=1")
            add(["modlow=0"], "mod=0")
        if n > 1:
            add(["n=%d" % (n - 1)], "n-1")
            add(["n=%d" % (n - 1), "modtop=0"], "n-1,top-word-zero")
            add(["modlow=1"], "low-word=1")
        add(["keep=143", "mul=0"], "two-fields")
    return ops


def gf2_ops(rng, tier, W, fix7):
    ops = []
    pre = "W32 " if W == 32 else ""
    descr = [(163, 7, 6, 3), (167, 6, 0, 0), (233, 9, 4, 1), (3 * W + 3,) + (None,) * 3, (3 * W,) + (None,) * 3, (W + 3,) + (None,) * 3]
    if W == 32:
        descr[0:3] = [(163, 7, 6, 3), (131, 8, 3, 2), (89, 38, 0, 0)]
    out = []
    for d in descr:
        if d[1] is None:
            pd, md = find_gf2_poly(d[0], W)
            if pd is None:
                continue
            out.append(pd)
        else:
            out.append(d)
    # a reducible description that gf2Create accepts (it does not test irreducibility)
    out.append((W + 5, 2, 0, 0) if (W + 5) % 8 else (W + 7, 2, 0, 0))
    for (m, k1, k2, k3) in out:
        md = (1 << m) | (1 << k1) | (1 << k2) | (1 << k3) | 1
        n = (m + W - 1) // W
        n1 = n + (1 if m % W == 0 else 0)
        ok = dstu_like_create(W, m, k1, k2, k3)

        def add(toks, k):
            if not ok:
                exp = "0"
            else:
                r = Qr(W, n, (m + 7) // 8, words(md, n1, W), [m, k1, k2, k3])
                for t in toks:
                    r.corrupt(t)
                exp = "1 " + bits(r.qr_operable(), r.gf2_operable(), r.gf2_valid())
            ops.append(Op(pre + " ".join(["obj", "gf2", str(m), str(k1), str(k2), str(k3)] + toks), exp, "obj-gf2:" + k, W))
        add([], "valid" if ok else "not-created")
        if not ok:
            continue
        toks = ["keep=143", "pcount=2", "ocount=4", "n=0", "no=0", "params=0", "mod=0", "unity=0", "sqr=0", "inv=0"] + (QR_OCOUNT if fix7 else [])
        for t in toks:
            add([t], t.split("=")[0])
        for t, k in (("p0=%d" % (m + 1), "p0+1"), ("p0=%d" % (m - 1), "p0-1"), ("p0=%d" % k1, "p0=p1"), ("p1=%d" % (k1 + 1), "p1+1"),
                     ("p1=0", "p1=0"), ("p1=%d" % k2, "p1=p2"), ("p2=%d" % k3, "p2=p3"), ("p3=0", "p3=0"), ("p3=%d" % (k3 + 1), "p3+1"),
                     ("p2=%d" % (k1 + 1), "p2>p1"), ("p3=%d" % (k2 + 1), "p3>p2"), ("p2=0", "p2=0"),
                     ("n=%d" % (n + 1), "n+1"), ("n=%d" % (n - 1), "n-1"), ("no=%d" % ((m + 7) // 8 + 1), "no+1"), ("no=%d" % ((m + 7) // 8 - 1), "no-1"),
                     ("modtop=%d" % (((n1 - n) << 32) | 0), "last-word-zero"), ("modlow=%d" % ((md ^ 1) % (1 << W)), "mod-bit0"),
                     ("modlow=%d" % ((md ^ 2) % (1 << W)), "mod-bit1")):
            if t.startswith("n=") and int(t[2:]) > n:
                continue      # the predicate would read behind the words of the modulus
            add([t], k)
        if k2 == 0:
            add(["p1=0"], "trinomial->normal-basis")
    return ops


def dstu_like_create(W, p0, p1, p2, p3):
    if p1 == 0:
        return False
    if p2 == 0:
        return not (p3 != 0 or p0 % 8 == 0 or p1 >= p0 or p0 - p1 < W)
    return not (p3 == 0 or p1 >= p0 or p2 >= p1 or p3 >= p2 or p0 - p1 < W or p1 >= W)


EC_TOKENS = ["keep=0", "keep=71", "keep=72", "keep=175", "keep=176", "pcount=5", "pcount=7", "ocount=0", "ocount=2", "ocount=7",
             "d=0", "d=2", "d=3", "d=4", "cofactor=0", "A=0", "B=0", "base=0", "order=0", "ordval=0", "tpl=0",
             "deep=f", "deep=f-1", "deep=0", "f.keep=143", "f.pcount=2", "f.mul=0", "f.n=0", "f.unity=0"] + [x + "=0" for x in Ec.EFN]


def ec_ops(rng, tier, W, std, fix7):
    ops = []
    pre = "W32 " if W == 32 else ""
    curves = []
    f = std[("bign", "1.2.112.0.2.0.34.101.45.3.1")]
    curves.append(("ecp", [f[1][:64], f[2][:64], f[3][:64], "00" * 32, f[6][:64], f[5][:64], "1"], lev(f[1]), 32))
    # a one-word curve: y^2 = x^3 + x + 4 over GF(23), G = (0, 2), 29 points
    curves.append(("ecp", ["17", "01", "04", "00", "02", "1d", "1"], 23, 1))
    d = std[("dstu", "1.2.804.2.1.1.1.1.3.1.1.1.2.0")]
    no = 21
    curves.append(("ec2", [d[0], d[1], d[2], d[3], hx(int(d[4]), no), d[5][:2 * no], d[8][:2 * no], d[8][2 * no:4 * no], d[6][:2 * no], d[7]], None, no))
    for kind, par, p, no in curves:
        if kind == "ecp":
            n = w_of_o(no, W)
            fq = lambda: Qr(W, n, no, words(p, n, W))
            order, cof = lev(par[5]), int(par[6])
        else:
            m, k1, k2, k3 = [int(x) for x in par[:4]]
            if not dstu_like_create(W, m, k1, k2, k3):
                continue
            md = (1 << m) | (1 << k1) | (1 << k2) | (1 << k3) | 1
            n = (m + W - 1) // W
            n1 = n + (1 if m % W == 0 else 0)
            fq = lambda: Qr(W, n, (m + 7) // 8, words(md, n1, W), [m, k1, k2, k3])
            order, cof = lev(par[8]), int(par[9])

        def add(toks, k):
            e = Ec(W, fq(), order, cof)
            for t in toks:
                e.corrupt(t)
            exp = "1 " + bits(e.operable2(), e.operable(), e.operable_group(), e.f.qr_operable())
            ops.append(Op(pre + " ".join(["obj", kind] + par + toks), exp, "obj-%s:%s" % (kind, k), W))
        add([], "valid")
        for t in EC_TOKENS + (["f.ocount=1"] if fix7 else []):
            add([t], t if t[0] in "kpod" else t.split("=")[0])
        add(["cofactor=0", "ordval=0"], "two-fields")
        # creation refused: order longer than n + 1 words, cofactor 0
        g = list(par)
        qi = 5 if kind == "ecp" else 8
        g[qi] = hx((1 << (W * (n + 1))) + 1, (W * (n + 1)) // 8 + 1)
        ops.append(Op(pre + " ".join(["obj", kind] + g), "0", "obj-%s:order-n+2-words" % kind, W))
        g = list(par)
        g[qi] = hx((1 << (W * (n + 1))) - 1, (W * (n + 1)) // 8)
        e = Ec(W, fq(), (1 << (W * (n + 1))) - 1, cof)
        ops.append(Op(pre + " ".join(["obj", kind] + g), "1 " + bits(e.operable2(), e.operable(), e.operable_group(), True),
                      "obj-%s:order-n+1-words" % kind, W))
        g = list(par)
        g[qi + 1] = "0"
        ops.append(Op(pre + " ".join(["obj", kind] + g), "0", "obj-%s:create-cofactor-0" % kind, W))
    return ops


def ring_repr(W, p, x):
    """value stored for the residue x by gfpCreate's ring (zmCreate): plain for short / Crandall-shaped moduli,
    Montgomery (x·B^n mod p) for other odd moduli"""
    no = (p.bit_length() + 7) // 8
    ow = W // 8
    n = w_of_o(no, W)
    if no <= 2 * ow:
        return x
    if no % ow == 0 and (p % (1 << W)) != 0 and (p >> W) == (1 << (8 * no - W)) - 1:
        return x
    return x * (1 << (W * n)) % p


def on_curve_ops(rng, tier, W, std):
    """ecpIsOnA / ec2IsOnA on raw coordinates: canonical, and non-canonical representatives x + k·p / y + k·p (resp. bits
    at positions ≥ m) that still fit the n words — they satisfy the congruence but must be rejected"""
    ops = []
    pre = "W32 " if W == 32 else ""
    sizes = [W - 2, W - 1, 2 * W - 2, 2 * W - 3, 3 * W - 2, 4 * W - 3, 6 * W - 2] if tier != "quick" else [W - 2, 2 * W - 2, 3 * W - 2, 4 * W - 3]
    for bl in sizes:
        p = rand_prime(rng, bl)
        no = (bl + 7) // 8
        n = w_of_o(no, W)
        while True:
            a, x, y = rng.randrange(p), rng.randrange(p), rng.randrange(1, p)
            b = (y * y - x * x * x - a * x) % p
            if b and (4 * a ** 3 + 27 * b * b) % p:
                break
        X, Y = ring_repr(W, p, x), ring_repr(W, p, y)
        lim = 1 << (W * n)
        for kx, ky in ((0, 0), (1, 0), (0, 1), (1, 1), (2, 0), (0, 2), (3, 3), (0, 3)):
            if X + kx * p >= lim or Y + ky * p >= lim:
                continue
            ops.append(Op(pre + "ecpon %s %s %s %s %s %d %d" % (hx(p, no), hx(a, no), hx(b, no), hx(x, no), hx(y, no), kx, ky),
                          "1 1" if kx == 0 and ky == 0 else "1 0", "ecpon:%s" % ("canonical" if kx == ky == 0 else "x+%dp,y+%dp" % (kx, ky)), W))
        ops.append(Op(pre + "ecpon %s %s %s %s %s 0 0" % (hx(p, no), hx(a, no), hx(b, no), hx(x, no), hx((y + 1) % p, no)),
                      "1 0", "ecpon:off-curve", W))
        ops.append(Op(pre + "ecpon %s %s %s %s %s 0 0" % (hx(p, no), hx(a, no), hx(b, no), hx(x, no), hx(p - y, no)),
                      "1 1", "ecpon:negated", W))
        ops.append(Op(pre + "ecpon %s %s %s %s %s 0 0" % (hx(p, no), hx(a, no), hx(b, no), hx(p, no), hx(y, no)),
                      "0", "ecpon:x=p-refused-by-qrFrom", W))
    d = std[("dstu", "1.2.804.2.1.1.1.1.3.1.1.1.2.0")]
    m, k1, k2, k3 = [int(x) for x in d[:4]]
    if dstu_like_create(W, m, k1, k2, k3):
        no = (m + 7) // 8
        n = (m + W - 1) // W
        room = n * W - m
        par = "%d %d %d %d %s %s" % (m, k1, k2, k3, hx(int(d[4]), no), d[5][:2 * no])
        x, y = d[8][:2 * no], d[8][2 * no:4 * no]
        # hx, hy: multiples hx(t)·f(t), hy(t)·f(t) of the modulus are added — same residues, not reduced
        for hxv, hyv in ((0, 0), (1, 0), (0, 1), (1, 1), (2, 0), (1 << (room - 1), 0), (0, 1 << (room - 1)), ((1 << room) - 1, (1 << room) - 1)):
            ops.append(Op(pre + "ec2on %s %s %s %d %d" % (par, x, y, hxv, hyv), "1 1" if hxv == hyv == 0 else "1 0",
                          "ec2on:%s" % ("canonical" if hxv == hyv == 0 else "plus-multiple-of-modulus"), W))
        ops.append(Op(pre + "ec2on %s %s %s 0 0" % (par, x, hx(lev(y) ^ 1, no)), "1 0", "ec2on:off-curve", W))
        ops.append(Op(pre + "ec2on %s %s %s 0 0" % (par, x, hx(lev(x) ^ lev(y), no)), "1 1", "ec2on:negated", W))
    return ops


def extend_check(l, q, a):
    def chk(out):
        w = out.split()
        if w[0] == "0":
            return True
        if w[0] != "1" or len(w) != 3:
            return False
        p = lev(w[1])
        return p.bit_length() == l and (p - 1) % (2 * q * a) == 0 and is_prime(p)
    return chk


def extend_ops(rng, tier, W):
    """priExtendPrime2: whatever it returns must be a prime of l bits ≡ 1 (mod 2qa); the exact value is the model's"""
    ops = []
    cnt = 12 if tier == "quick" else 120
    for i in range(cnt):
        kq = rng.choice([5, 10, 17, 31, 32, 33, 64, 65, 100, 128, 200])
        q = rand_prime(rng, kq)
        if q < 3:
            continue
        a = rng.choice([1, 1, 2, 3, 6, rand_prime(rng, max(2, kq // 3)), rng.randrange(1, 1 << max(1, kq // 2))])
        lo = q.bit_length() + a.bit_length() + 1
        hi = 2 * q.bit_length()
        if lo > hi:
            a, lo = 1, q.bit_length() + 2
            if lo > hi:
                continue
        l = rng.choice([lo, hi, rng.randint(lo, hi)])
        trials = rng.choice([1, 5, 40, 4 * l])
        bc = rng.choice([0, 1, 10, min(1024, (l + 3) // 4), 1024])
        npo = (l + 7) // 8
        tape = bytes(rng.randrange(256) for _ in range(npo * rng.choice([1, 3, trials + 1])))
        noq, noa = max(1, (q.bit_length() + 7) // 8), max(1, (a.bit_length() + 7) // 8)
        ops.append(Op("extend %d %d %s %s %d %d %s" % (W, l, hx(q, noq), hx(a, noa), trials, bc, tape.hex() or "-"),
                      extend_check(l, q, a), "extend:%s" % ("a=1" if a == 1 else "a>1"), W))
    # directed: the first candidate is a COMPOSITE p = 2qr + 1 with 4^r = 1 (mod p) — only the test (4^r)^a != 1 of Demytko's
    # theorem rejects it (no sieving: base_count = 0); one trial, so the correct answer is "not found"
    found = 0
    for q in [x for x in SP if 5 <= x <= 400]:
        for r in range(1, 4 * q):
            p = 2 * q * r + 1
            l = p.bit_length()
            if is_prime(p) or pow(4, r, p) != 1 or l > 2 * q.bit_length() or q.bit_length() + 1 > l or 2 * r >= 4 * q + 1:
                continue
            lo = 1 << (l - 2)
            t = q * r            # r = ceil(t / q)
            if not (lo <= t < 2 * lo):
                continue
            npo = (l + 7) // 8
            ops.append(Op("extend %d %d %s %s 1 0 %s" % (W, l, hx(q, 2), "01", hx(t - lo, npo)),
                          "0 0", "extend:composite-with-4^r=1", W, note="p = %d = 2*%d*%d + 1 is composite and 2^(2r) = 1 (mod p)" % (p, q, r)))
            found += 1
        if found >= (6 if tier == "quick" else 40):
            break
    # preconditions: refused by harness and driver alike
    for q, a, l in ((9, 1, 8), (4, 1, 5), (1, 1, 4), (1009, 1, 21), (1009, 1024, 15), (1009, 0, 12)):
        ops.append(Op("extend %d %d %s %s 5 4 %s" % (W, l, hx(q, 2), hx(a, 2), "11" * 16),
                      None if q == 9 else "refused", "extend:precondition", W))
    return ops


def misc_ops(W):
    ops = []
    if W == 64:
        ops.append(Op("layout", "%d %d %d %d" % (HDR, PTR, SZQR, SZEC), "layout"))
        ops.append(Op("basesize", "1024", "pribase:size"))
        B = SP[1:1025]
        for i in (0, 1, 2, 100, 511, 512, 1022, 1023):
            ops.append(Op("baseprime %d" % i, str(B[i]), "pribase:prime"))
        ops.append(Op("baseprime 1024", "refused", "pribase:out-of-range"))
        ops.append(Op("mtx ok", "1", "mtx"))
        ops.append(Op("mtx null", "0", "mtx"))
    return ops


def generate(ctx, std, repo, only_w=None):
    rng, tier = ctx.rng, ctx.tier
    fix7 = source_has_fix7(repo)
    ops = []
    for W in ((64, 32) if only_w is None else (only_w,)):
        ops += misc_ops(W)
        ops += gfp_ops(rng, tier, W, std, fix7)
        ops += gf2_ops(rng, tier, W, fix7)
        ops += ec_ops(rng, tier, W, std, fix7)
        ops += on_curve_ops(rng, tier, W, std)
        ops += extend_ops(rng, tier, W)
    return ops, fix7

"""C18 — shared RNG, once / atomic primitives under every interleaving.

Proof: lean/Bee2V/C18/Props.lean — for every number of threads, every assignment of operation
sequences and every SC schedule: mutual exclusion, lock discipline, once-exactly + visibility,
no data race, balanced reference count, no use after release, distinct output blocks.
Tie (a): shared-access table regenerated from rng.c / mt.c (xlate/x_c18_access.py) must equal the
model's table (theorem table_matches, `decide`).
Tie (a2): every mutable static-storage object of the compiled library (nm) is classified (modelled / unreachable from the
grammar / never written / reached only with _mtx held or inside rngInit) — xlate/x_c18_statics.py + Bee2V/C18/Statics.lean
(statics_classified by `decide`, protected_exclusive from the invariant).
Tie (b): sequential refinement — single-thread operation sequences on the real functions vs the
model (harness/c18.c vs drv_c18), observing return values, _ctr, _state, _once, _inited.
Supporting evidence / search oracle: real threads under ThreadSanitizer (harness/c18_threads.c).
"""
import os, re, subprocess
import vcommon
from vcommon import VERIF, REPO

PROPS = ["Bee2V/C18/Props.lean", "Bee2V/C18/Statics.lean"]


def regen(ctx):
    import importlib
    import x_c18_access as x
    importlib.reload(x)
    ctx.regen("Bee2V/Gen/C18.lean", x.generate())
    # second tie: inventory of every mutable static-storage object of the compiled library (nm) with the
    # grammar's call sites that reach it; classified and checked in Bee2V/C18/Statics.lean
    import x_c18_statics as xs
    importlib.reload(xs)
    ctx.regen("Bee2V/Gen/C18Statics.lean", xs.generate(ctx.build_lib("rel")))


def gen_seq(rng, maxlen):
    """operation sequence inside the grammar of the property (use/close only while holding a reference)"""
    refs, ops = 0, []
    n = rng.randint(1, maxlen)
    for _ in range(n):
        choices = ["c0", "c1", "v"]
        if refs > 0:
            choices += ["x", "x", "r%d" % rng.choice([0, 1, 2, 3, 7]), "R", "k", "c0"]
        op = rng.choice(choices)
        if op in ("c0", "c1"):
            refs += 1
        elif op == "x":
            refs -= 1
        ops.append(op)
    ops += ["x"] * refs + ["v"]
    return "seq " + " ".join(ops[:60])


CORPUS = ["seq v", "seq v c0 v x v", "seq c0 c1 c0 x x v x v", "seq c1 r2 k R r0 x v", "seq c0 x c0 x c1 x v",
          "seq v v c0 c0 c0 c0 x x x r3 x v"]


def thread_runs(ctx, tier):
    """real threads under TSan + natively; returns list of (cmdline, stdout, n_tsan_reports, summaries)"""
    res = []
    lib = ctx.build_lib("tsan")
    exe = os.path.join(ctx.scratch, "c18_threads_tsan")
    r = vcommon.sh(["gcc", "-g", "-O1", "-fsanitize=thread", "-I" + os.path.join(REPO, "include"),
                    os.path.join(VERIF, "harness/c18_threads.c"), lib, "-o", exe, "-lpthread"])
    if r.returncode != 0:
        raise RuntimeError("c18_threads (tsan) does not compile: " + r.stderr[-800:])
    plan = [("once", 8, 1), ("once", 16, 1), ("ctr", 8, 2000), ("rng", 8, 6), ("rng", 16, 4), ("rng", 3, 10)]
    reps = 2 if tier == "quick" else 12
    for rep in range(reps):
        for mode, th, rounds in plan:
            args = [mode, str(th), str(rounds), str(ctx.seed * 100 + rep)]
            try:
                p = subprocess.run([exe] + args, capture_output=True, text=True, timeout=120,
                                   env=dict(os.environ, TSAN_OPTIONS="halt_on_error=0 report_signal_unsafe=0 exitcode=0"))
                out, err, rc = p.stdout.strip(), p.stderr, p.returncode
            except subprocess.TimeoutExpired as e:
                # a caller that never returns (e.g. a waiter spinning for ever in mtCallOnce) is a failure
                err = e.stderr.decode(errors="replace") if isinstance(e.stderr, bytes) else (e.stderr or "")
                out, rc = "FAIL timeout: the run did not finish within 120 s (a thread never returns)", 124
            summ = sorted(set(re.findall(r"SUMMARY: ThreadSanitizer: ([^\n]*)", err)))
            res.append(("c18_threads " + " ".join(args), out, len(summ), summ, rc))
            if rc == 124:
                return res
    return res


def run(ctx):
    terr = None
    try:
        regen(ctx)
    except Exception as e:
        terr = "%s: %s" % (type(e).__name__, e)
    proof_ok, log = (False, "translator: " + terr) if terr else ctx.prove(["Bee2V.C18.Props", "Bee2V.C18.Statics"], PROPS)
    # tie (b): sequential refinement
    exe = ctx.cc("harness/c18.c", "asan")
    n = 150 if ctx.tier == "quick" else 1500
    ops = CORPUS + [gen_seq(ctx.rng, 6 if i % 3 else 40) for i in range(n)]
    mism = []
    if os.path.exists(ctx.driver()):
        mism, c_out, l_out = ctx.diff_run(exe, ops, "sequential-refinement")
    kinds = {}
    for o in ops:
        for w in o.split()[1:]:
            kinds[w[0]] = kinds.get(w[0], 0) + 1
    ctx.cov["op_histogram"] = kinds
    ctx.cov["distinct_nontrivial"] = len(set(ops))
    ctx.samples += ops[6:9]
    # real threads
    tr = thread_runs(ctx, ctx.tier)
    bad = [t for t in tr if t[2] > 0 or not t[1].startswith("OK")]
    ctx.cov["thread_runs"] = len(tr)
    ctx.cov["thread_runs_with_tsan_report_or_failure"] = len(bad)
    ctx.samples += [{"thread_run": t[0], "result": t[1]} for t in tr[:3]]
    ctx.samples.append({"theorem": "Bee2V.C18.no_data_race", "statement": "∀ n progs c, Reach n progs c → ¬ Race c"})
    if bad:
        t = bad[0]
        ctx.violation("threads:" + t[0].split()[1],
                      "# property C18: real-thread run reports a data race / failed check\nthreads %s\n# output: %s\n# tsan: %s\n"
                      % (t[0].split(" ", 1)[1], t[1], "; ".join(t[3])), True,
                      "%s -> %s ; ThreadSanitizer: %s" % (t[0], t[1], "; ".join(t[3])[:600]))
    elif mism:
        i, op, c, l = mism[0]
        # search oracle on the implementation alone: sequential sanity of the observables
        ctx.violation("sequential:" + op.split()[1], "# property C18: model and implementation disagree on a single-thread history\n%s\n# impl  %s\n# model %s\n"
                      % (op, c, l), False, "sequential refinement broken: %s impl=%s model=%s" % (op, c, l))
    elif not proof_ok:
        errs = "\n".join(l for l in log.split("\n") if "error" in l or "translator" in l)[:3000]
        ctx.violation("proof", "# property C18: theorems of Bee2V/C18/Props.lean (in particular table_matches: the shared-access table "
                      "regenerated from rng.c / mt.c vs the model) no longer check; %d real-thread runs under ThreadSanitizer showed no failure.\n%s\n"
                      % (len(tr), "\n".join("# " + x for x in errs.split("\n"))), False,
                      "theorems no longer check: " + (terr or "; ".join(ctx.cov.get("lake_errors", [])))[:400])
    return ctx.finish(
        level="proof",
        assumptions=["sequentially consistent interleaving semantics (weak-memory reorderings of plain accesses are not exhibited by the model; "
                     "the access table records which accesses are atomic, and the race theorem requires conflicting accesses to be ordered by the mutex or both atomic)",
                     "pthread mutex = mutual exclusion; __sync builtins = atomic read-modify-write (modelled, not verified)",
                     "brngCTRStepR is modelled as 'consume the next positions of the current key's CTR stream'; a new key (fresh entropy, rekey) starts a new stream "
                     "(distinctness of keys is a cryptographic assumption)",
                     "reference-counter overflow at 2^64 references and the exit-time destructor rngDestroy are not modelled",
                     "xlate/x_c18_access.py extracts the access table faithfully (fail-closed; any change of an access shows as table_matches failing)",
                     "xlate/x_c18_statics.py: the inventory of mutable static objects is read from the compiled library with nm (exact); which functions mention an object and the "
                     "call graph used for reachability are textual (direct calls by name; indirect calls are listed and must be the known entropy callback)"],
        rule="single-thread operation sequences inside the property's grammar (random, two length classes) compared op by op between rng.c and the Lean model; "
             "real-thread runs (8/16/3 threads) under ThreadSanitizer; distinct_nontrivial = distinct sequences")


def replay(ctx, path):
    for line in open(path):
        w = line.split()
        if not w or w[0].startswith("#"):
            continue
        if w[0] == "threads":
            lib = ctx.build_lib("tsan")
            exe = os.path.join(ctx.scratch, "c18_threads_tsan")
            vcommon.sh(["gcc", "-g", "-O1", "-fsanitize=thread", "-I" + os.path.join(REPO, "include"),
                        os.path.join(VERIF, "harness/c18_threads.c"), lib, "-o", exe, "-lpthread"])
            fails = 0
            for k in range(10):
                p = subprocess.run([exe] + w[1:], capture_output=True, text=True,
                                   env=dict(os.environ, TSAN_OPTIONS="halt_on_error=0 exitcode=0"))
                s = re.findall(r"SUMMARY: ThreadSanitizer: ([^\n]*)", p.stderr)
                print(p.stdout.strip(), "| tsan:", "; ".join(sorted(set(s))) or "none")
                fails += bool(s) or not p.stdout.startswith("OK")
            return 1 if fails else 0
        if w[0] == "seq":
            exe = ctx.cc("harness/c18.c", "asan")
            out, _, _ = ctx.run_lines(exe, [line.strip()])
            print("impl:", out[0])
            return 0
    print("replay file names a theorem, nothing to execute")
    return 0

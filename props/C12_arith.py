"""Independent arithmetic for the C12 search oracle (Python big integers, nothing from bee2):
primality (trial division + Miller–Rabin), affine curves over GF(p) and GF(2^m), binary polynomials,
belt-hash is NOT re-implemented here (the bign seed condition is recomputed by the Lean model only)."""


# ------------------------------------------------------------------------------------ primes
def small_primes(n):
    s = bytearray([1]) * (n + 1)
    s[0:2] = b"\0\0"
    for i in range(2, int(n ** 0.5) + 1):
        if s[i]:
            s[i * i::i] = bytearray(len(s[i * i::i]))
    return [i for i in range(n + 1) if s[i]]


SP = small_primes(70000)
MR_BASES = [2, 3, 5, 7, 11, 13, 17, 19, 23, 29, 31, 37, 41, 43, 47, 53]


def mr_pass(n, b):
    """strong probable prime test of odd n > 2 to base b"""
    b %= n
    if b == 0:
        return True
    r, s = n - 1, 0
    while r % 2 == 0:
        r //= 2
        s += 1
    x = pow(b, r, n)
    if x == 1 or x == n - 1:
        return True
    for _ in range(s - 1):
        x = x * x % n
        if x == n - 1:
            return True
        if x == 1:
            return False
    return False


_PRIME_MEMO = {}


def is_prime(n):
    """memoised front of is_prime_raw (the generators ask about the same large numbers again and again)"""
    if n < (1 << 64):
        return is_prime_raw(n)
    r = _PRIME_MEMO.get(n)
    if r is None:
        r = _PRIME_MEMO[n] = is_prime_raw(n)
    return r


def is_prime_raw(n):
    """trial division by all primes < 70000 (complete for n < 4.9e9), then Miller–Rabin to the first 16 primes
    (deterministic below 3.3e24 [Sorenson–Webster 2015], probabilistic above)"""
    if n < 2:
        return False
    for p in SP:
        if p * p > n:
            return True
        if n % p == 0:
            return n == p
    return all(mr_pass(n, b) for b in MR_BASES)


def rand_prime(rng, bits):
    while True:
        p = rng.getrandbits(bits) | (1 << (bits - 1)) | 1
        if is_prime(p):
            return p


def isqrt(n):
    import math
    return math.isqrt(n)


def jacobi(a, n):
    a %= n
    r = 1
    while a:
        while a % 2 == 0:
            a //= 2
            if n % 8 in (3, 5):
                r = -r
        a, n = n, a
        if a % 4 == 3 and n % 4 == 3:
            r = -r
        a %= n
    return r if n == 1 else 0


# ------------------------------------------------------------------------------------ curves over GF(p)
class Ecp:
    """y^2 = x^3 + a x + b over GF(p), affine, None = O"""

    def __init__(self, p, a, b):
        self.p, self.a, self.b = p, a % p, b % p

    def on(self, P):
        if P is None:
            return True
        x, y = P
        return (y * y - (x * x * x + self.a * x + self.b)) % self.p == 0

    def neg(self, P):
        return None if P is None else (P[0], (-P[1]) % self.p)

    def add(self, P, Q):
        p = self.p
        if P is None:
            return Q
        if Q is None:
            return P
        if P[0] == Q[0]:
            if (P[1] + Q[1]) % p == 0:
                return None
            lam = (3 * P[0] * P[0] + self.a) * pow(2 * P[1], -1, p) % p
        else:
            lam = (Q[1] - P[1]) * pow(Q[0] - P[0], -1, p) % p
        x = (lam * lam - P[0] - Q[0]) % p
        return (x, (lam * (P[0] - x) - P[1]) % p)

    def mul(self, k, P):
        R = None
        while k:
            if k & 1:
                R = self.add(R, P)
            P = self.add(P, P)
            k >>= 1
        return R

    def singular(self):
        return (4 * self.a ** 3 + 27 * self.b ** 2) % self.p == 0


def sqrt_mod(a, p):
    """square root mod an odd prime (Tonelli–Shanks) or None"""
    a %= p
    if a == 0:
        return 0
    if pow(a, (p - 1) // 2, p) != 1:
        return None
    if p % 4 == 3:
        return pow(a, (p + 1) // 4, p)
    q, s = p - 1, 0
    while q % 2 == 0:
        q //= 2
        s += 1
    z = 2
    while pow(z, (p - 1) // 2, p) != p - 1:
        z += 1
    m, c, t, r = s, pow(z, q, p), pow(a, q, p), pow(a, (q + 1) // 2, p)
    while t != 1:
        i, t2 = 0, t
        while t2 != 1:
            t2 = t2 * t2 % p
            i += 1
        b = pow(c, 1 << (m - i - 1), p)
        m, c = i, b * b % p
        t, r = t * c % p, r * b % p
    return r


def ecp_count(p, a, b):
    """number of points (small p only): p + 1 + sum of Legendre symbols"""
    n = p + 1
    for x in range(p):
        n += jacobi(x * x * x + a * x + b, p) if (x * x * x + a * x + b) % p else 0
    return n


# ------------------------------------------------------------------------------------ GF(2)[x], GF(2^m)
def pdeg(a):
    return a.bit_length() - 1


def pmul(a, b):
    r = 0
    while b:
        if b & 1:
            r ^= a
        a <<= 1
        b >>= 1
    return r


def pmod(a, m):
    dm = pdeg(m)
    while a and pdeg(a) >= dm:
        a ^= m << (pdeg(a) - dm)
    return a


def pdivmod(a, m):
    q, dm = 0, pdeg(m)
    while a and pdeg(a) >= dm:
        s = pdeg(a) - dm
        q |= 1 << s
        a ^= m << s
    return q, a


def pgcd(a, b):
    while b:
        a, b = b, pmod(a, b)
    return a


def psqr(a):
    r, i = 0, 0
    while a:
        if a & 1:
            r |= 1 << (2 * i)
        a >>= 1
        i += 1
    return r


def pmulmod(a, b, m):
    return pmod(pmul(a, b), m)


_IRR_MEMO = {}


def p_irreducible(f):
    r = _IRR_MEMO.get(f)
    if r is None:
        r = _IRR_MEMO[f] = p_irreducible_raw(f)
    return r


def p_irreducible_raw(f):
    """independent of Ben-Or: Rabin's test (x^(2^m) = x mod f and gcd(x^(2^(m/q)) - x, f) = 1 for prime q | m);
    for deg <= 1: x and x + 1 are irreducible, constants are not"""
    m = pdeg(f)
    if m <= 0:
        return False
    if m == 1:
        return True
    qs = [q for q in range(2, m + 1) if m % q == 0 and all(q % d for d in range(2, q))]
    h = 2
    pw = {}
    for i in range(1, m + 1):
        h = pmod(psqr(h), f)
        pw[i] = h
    if pw[m] != pmod(2, f):
        return False
    return all(pgcd(pw[m // q] ^ 2, f) == 1 for q in qs)


def p_irreducible_td(f):
    """trial division by all polynomials of degree <= deg/2 (small degrees only)"""
    m = pdeg(f)
    if m <= 0:
        return False
    for d in range(2, 1 << (m // 2 + 1)):
        if pmod(f, d) == 0:
            return False
    return True


class Gf2:
    def __init__(self, mod):
        self.mod, self.m = mod, pdeg(mod)

    def mul(self, a, b):
        return pmod(pmul(a, b), self.mod)

    def sqr(self, a):
        return pmod(psqr(a), self.mod)

    def inv(self, a):
        # extended Euclid
        r0, r1, s0, s1 = self.mod, a, 0, 1
        while r1:
            q, r = pdivmod(r0, r1)
            r0, r1, s0, s1 = r1, r, s1, s0 ^ pmul(q, s1)
        return pmod(s0, self.mod)

    def trace(self, a):
        t = a
        for _ in range(self.m - 1):
            t = self.sqr(t) ^ a
        return t

    def half_trace(self, a):
        assert self.m % 2 == 1
        t = a
        for _ in range((self.m - 1) // 2):
            t = self.sqr(self.sqr(t)) ^ a
        return t

    def qsolve(self, c):
        """z with z^2 + z = c or None (odd m: half-trace; even m: linear algebra-free search is not needed here)"""
        if self.trace(c) != 0:
            return None
        if self.m % 2 == 1:
            z = self.half_trace(c)
            return z
        # even m: z = sum over i of ... use the generic method with an element of trace 1
        tau = 1
        while self.trace(tau) != 1:
            tau += 1
        z, w = 0, c
        for _ in range(1, self.m):
            z = self.sqr(z) ^ self.mul(self.sqr(w), tau)
            w = self.sqr(w) ^ c
        return z


class Ec2:
    """y^2 + xy = x^3 + A x^2 + B over GF(2^m)"""

    def __init__(self, f, A, B):
        self.f, self.A, self.B = f, A, B

    def on(self, P):
        if P is None:
            return True
        x, y = P
        f = self.f
        return f.sqr(y) ^ f.mul(x, y) ^ f.mul(f.sqr(x), x) ^ f.mul(self.A, f.sqr(x)) ^ self.B == 0

    def neg(self, P):
        return None if P is None else (P[0], P[0] ^ P[1])

    def add(self, P, Q):
        f = self.f
        if P is None:
            return Q
        if Q is None:
            return P
        if P[0] == Q[0]:
            if P[1] ^ Q[1] == P[0]:
                return None
            if P[0] == 0:
                return None
            lam = P[0] ^ f.mul(P[1], f.inv(P[0]))
            x = f.sqr(lam) ^ lam ^ self.A
            y = f.sqr(P[0]) ^ f.mul(lam ^ 1, x)
            return (x, y)
        lam = f.mul(P[1] ^ Q[1], f.inv(P[0] ^ Q[0]))
        x = f.sqr(lam) ^ lam ^ P[0] ^ Q[0] ^ self.A
        y = f.mul(lam, P[0] ^ x) ^ x ^ P[1]
        return (x, y)

    def mul(self, k, P):
        R = None
        while k:
            if k & 1:
                R = self.add(R, P)
            P = self.add(P, P)
            k >>= 1
        return R

    def lift_x(self, x):
        """a point with this x-coordinate or None"""
        f = self.f
        if x == 0:
            return None
        ix = f.inv(x)
        c = x ^ self.A ^ f.mul(self.B, f.sqr(ix))
        z = f.qsolve(c)
        if z is None:
            return None
        return (x, f.mul(z, x))


def koblitz_order(a, m):
    """#E(GF(2^m)) for y^2 + xy = x^3 + a x^2 + 1, a in {0,1} (Lucas sequence of the Frobenius trace)"""
    t = -1 if a == 0 else 1
    v0, v1 = 2, t
    for _ in range(m - 1):
        v0, v1 = v1, t * v1 - 2 * v0
    return (1 << m) + 1 - v1

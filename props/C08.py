"""C08 — decoders are total, bounded, canonical; encode/decode mutually inverse.

Proof:  lean/Bee2V/C08/Props*.lean over the hand-written, code-shaped, executable model
        (Model.lean: der.c; Model2.lean: OID/oid.c, apdu.c, hex.c, b64.c, dec.c).
Tie (b): the same op lines go to harness/c08.c (real library, ASan, every input flush against the
        end of an exact-size allocation) and to the compiled model drv_c08; outputs are diffed.
Search oracle (implementation alone): consumed <= input, re-encode(decode x) == x[:consumed],
        decode(encode v) == v, no sanitizer report.  It runs on every op of every run (second pass
        through the C harness only) and decides found / not found when something disagrees.
Containers (bign_params.c, btok_cvc.c, bpki.c, btok_sm.c) are NOT modelled and NOT exercised yet;
        they are compositions of the primitives checked here (hook: harness/c08b.c + props/C08_containers.py).
"""
import os, sys, itertools
import vcommon
from vcommon import VERIF

PROPS = ["Bee2V/C08/Props.lean", "Bee2V/C08/Props2.lean", "Bee2V/C08/Props3.lean", "Bee2V/C08/Props4.lean", "Bee2V/C08/Props5.lean", "Bee2V/C08/Props6.lean", "Bee2V/C08/Props7.lean", "Bee2V/C08/Props8.lean", "Bee2V/C08/Props9.lean"]
PROPS = [p for p in PROPS if os.path.exists(os.path.join(vcommon.LEAN, p))]
MODS = [p[:-5].replace("/", ".") for p in PROPS]
SIZE_MAX = 2 ** 64 - 1


def hx(b):
    b = bytes(b)
    return b.hex() if b else "-"


def unhx(s):
    return b"" if s == "-" else bytes.fromhex(s)


def S(s):  # C string token
    return hx(s.encode() if isinstance(s, str) else s)


# ------------------------------------------------------------------ reference encoders (generator only)
def tag_octets(tag):
    n = max(1, (tag.bit_length() + 7) // 8)
    return tag.to_bytes(n, "big")


def len_octets(l):
    if l < 128:
        return bytes([l])
    n = (l.bit_length() + 7) // 8
    return bytes([128 + n]) + l.to_bytes(n, "big")


def tlv(tag, val):
    return tag_octets(tag) + len_octets(len(val)) + bytes(val)


def long_tag(first, num, pad=0):
    """first octet (low 5 bits set) + base-128 digits of num (pad extra leading 0x80 octets)"""
    ds = []
    while True:
        ds.append(num & 127)
        num >>= 7
        if not num:
            break
    ds = ds[::-1]
    out = [first | 31] + [0x80] * pad + [d | 0x80 for d in ds[:-1]] + [ds[-1]]
    return bytes(out)


def sid(v):
    ds = [v & 127]
    v >>= 7
    while v:
        ds.append((v & 127) | 128)
        v >>= 7
    return bytes(ds[::-1])


def oid_der(arcs):
    body = sid(40 * arcs[0] + arcs[1]) + b"".join(sid(a) for a in arcs[2:])
    return tlv(6, body)


TAG_FORMS = [  # (octets, comment) every tag form of the quantifier
    bytes([0x00]), bytes([0x02]), bytes([0x04]), bytes([0x30]), bytes([0x1E]), bytes([0x42]), bytes([0x7E]), bytes([0xDE]),
    bytes([0x1F, 0x1F]), bytes([0x1F, 0x1E]), bytes([0x1F, 0x7F]), bytes([0x5F, 0x29]), bytes([0x7F, 0x21]), bytes([0x7F, 0x4E]),
    bytes([0x1F, 0x00]), bytes([0x1F, 0x80]), bytes([0x1F, 0x80, 0x01]), bytes([0x1F, 0x80, 0x7F]),
    bytes([0x1F, 0x81, 0x00]), bytes([0x1F, 0x9E, 0x00]), bytes([0x1F, 0x9F, 0x00]), bytes([0x1F, 0xFF, 0x7F]), bytes([0x1F, 0x81, 0x80]),
    bytes([0x1F, 0x81, 0x80, 0x00]), bytes([0x1F, 0x81, 0x81, 0x01]), bytes([0xFF, 0xFF, 0xFF, 0x7F]), bytes([0x1F, 0xFF, 0xFF, 0xFF]),
    bytes([0x1F, 0x81, 0x81, 0x81, 0x01]), bytes([0x1F, 0x80, 0x81, 0x01]), bytes([0x3F, 0x81, 0x00, 0x01]), bytes([0x9F, 0x1F]),
    bytes([0xBF, 0x8F, 0x7F]), bytes([0x1F]), bytes([0x1F, 0x81]), bytes([0x1F, 0x81, 0x81]),
]


def length_forms(l_real):
    """every length form for a value of l_real octets (and lying ones)"""
    out = [len_octets(l_real)]
    for n in range(1, 10):
        out.append(bytes([128 + n]) + l_real.to_bytes(n, "big") if l_real < 256 ** n else bytes([128 + n]) + b"\xff" * n)
    out += [bytes([0x80]), bytes([0xFF]), bytes([0x81, 0x7F]), bytes([0x81, 0x80]), bytes([0x82, 0x00, 0x80]),
            bytes([0x88]) + b"\xff" * 8, bytes([0x88]) + b"\xff" * 7 + b"\xfe", bytes([0x88]) + b"\xff" * 7 + b"\xf0",
            bytes([0x88, 0x80]) + b"\x00" * 7, bytes([0x88]) + b"\x00" * 7 + b"\x01", bytes([0x89]) + b"\x01" + b"\x00" * 8,
            bytes([0x84, 0xFF, 0xFF, 0xFF, 0xFF]), bytes([0x87]) + b"\xff" * 7, bytes([0xFE]) + b"\x01" * 126,
            bytes([l_real + 1]) if l_real < 127 else bytes([0x7F]), bytes([max(l_real - 1, 0)]),
            bytes([0x88]) + (SIZE_MAX - 12).to_bytes(8, "big"), bytes([0x88]) + (SIZE_MAX - 2).to_bytes(8, "big"),
            bytes([0x88]) + (2 ** 63).to_bytes(8, "big"), bytes([0x81]), bytes([0x82, 0x01]), bytes([0x88, 0xFF, 0xFF])]
    return out


def tag_value(t):
    return int.from_bytes(t, "big")


class Gen:
    def __init__(self, ctx):
        self.ctx, self.rng, self.ops, self.seen = ctx, ctx.rng, [], set()
        self.classes = {}

    def add(self, cls, *toks):
        line = " ".join(str(t) for t in toks)
        if line in self.seen:
            return
        self.seen.add(line)
        self.ops.append(line)
        self.classes[cls] = self.classes.get(cls, 0) + 1

    def rb(self, n):
        return bytes(self.rng.randrange(256) for _ in range(n))

    # -------------------------------------------------- decoders applied to one octet string
    def decoders(self, cls, x, tags=(), deep=True):
        h = hx(x)
        self.add(cls, "tl", h)
        self.add(cls, "dec", h)
        self.add(cls, "isv", h)
        for t in tags:
            self.add(cls, "dec2", h, t)
            self.add(cls, "isv2", h, t)
            self.add(cls, "sw", h, t)
            if deep:
                for op in ("sizedec", "uintdec", "bitdec", "octdec", "pstrdec"):
                    self.add(cls, op, h, t)
                self.add(cls, "seqdec", h, t, len(x))

    def truncations(self, cls, x, tags=(), deep=True, ext=True):
        for k in range(len(x) + 1):
            self.decoders(cls, x[:k], tags, deep)
        if ext:
            self.decoders(cls, x + b"\x00", tags, deep)
            self.decoders(cls, x + self.rb(3), tags, deep)

    # -------------------------------------------------- TL layer
    def tl_layer(self, thorough):
        # exhaustive: all strings of length <= 2 (quick) / <= 3 (thorough) by block ops
        self.add("tl-exh", "tl", "-")
        self.add("tl-exh", "dec", "-")
        self.add("tl-exh", "isv", "-")
        self.add("tl-exh", "tlblk", "-")
        self.add("tl-exh", "decblk", "-")
        for a in range(256):
            self.add("tl-exh", "tlblk", "%02x" % a)
            self.add("tl-exh", "decblk", "%02x" % a)
        # all 3-octet strings (both tiers: 2 x 65536 block ops, ~20 s)
        for a in range(256):
            for b in range(256):
                self.add("tl-exh3", "tlblk", "%02x%02x" % (a, b))
                self.add("tl-exh3", "decblk", "%02x%02x" % (a, b))
        if thorough:  # 4-octet strings behind the long-tag first octets and two short tags
            for a in (0x1F, 0x7F, 0x04):
                for b in range(256):
                    for c in range(256):
                        self.add("tl-exh4", "tlblk", "%02x%02x%02x" % (a, b, c))
                        self.add("tl-exh4", "decblk", "%02x%02x%02x" % (a, b, c))
        # every tag form x every length form, with and without the value present
        for t in TAG_FORMS:
            for l_real in (0, 1, 3, 127, 128, 130, 256):
                val = self.rb(l_real)
                for lf in length_forms(l_real):
                    x = t + lf + val
                    tv = tag_value(t) if len(t) <= 4 else 0
                    self.decoders("tagform*lenform", x, [tv], deep=(l_real <= 3))
                    if l_real in (1, 128):
                        self.decoders("tagform*lenform", t + lf + val[:-1], [tv], deep=False)
                        self.decoders("tagform*lenform", t + lf, [tv], deep=False)
        # encoders: every 1/2-octet tag value, samples of 3/4-octet ones, boundary lengths
        lens = [0, 1, 127, 128, 255, 256, 65535, 65536, 2 ** 24 - 1, 2 ** 24, 2 ** 32 - 1, 2 ** 32, 2 ** 56 - 1, 2 ** 56,
                2 ** 63, SIZE_MAX - 1, SIZE_MAX]
        for tag in range(256):
            self.add("tlenc", "tlenc", tag, self.rng.choice(lens))
        for tag in range(0x1F00, 0x2000):
            self.add("tlenc", "tlenc", tag, self.rng.choice(lens))
        for hi in (0x1F, 0x3F, 0x5F, 0x7F, 0xFF, 0x1E, 0x00, 0x20):
            for _ in range(40):
                b1, b2, b3 = self.rng.choice([0x80, 0x81, 0x9E, 0x9F, 0xFF, 0x00, 0x01, 0x7F]), \
                    self.rng.choice([0x80, 0x81, 0xFF, 0x00, 0x01, 0x1E, 0x1F, 0x7F]), self.rng.choice([0x00, 0x01, 0x1E, 0x1F, 0x7F, 0x80, 0xFF])
                self.add("tlenc", "tlenc", (hi << 16) | (b1 << 8) | b3, self.rng.choice(lens))
                self.add("tlenc", "tlenc", (hi << 24) | (b1 << 16) | (b2 << 8) | b3, self.rng.choice(lens))
                self.add("tlenc", "tlenc", self.rng.randrange(2 ** 32), self.rng.choice(lens))
        for t in TAG_FORMS:
            if len(t) <= 4:
                for l in lens:
                    self.add("tlenc", "tlenc", tag_value(t), l)
                self.add("enc", "enc", tag_value(t), hx(self.rb(self.rng.choice([0, 1, 127, 128, 300]))))

    # -------------------------------------------------- typed values
    def typed(self, thorough):
        rng = self.rng
        tags = [2, 4, 0x30, 0x5F29, 0x1F8100, 0x7F218101 & 0xFFFFFFFF]
        # SIZE
        vals = sorted(set([0, 1, 2, 126, 127, 128, 129, 255, 256, 257, 32767, 32768, 65535, 65536] +
                          [2 ** k + d for k in range(8, 64, 8) for d in (-1, 0, 1)] +
                          [2 ** (8 * k + 7) + d for k in range(8) for d in (-1, 0)] + [SIZE_MAX - 1, SIZE_MAX] +
                          [rng.randrange(2 ** rng.randrange(1, 65)) for _ in range(60)]))
        for v in vals:
            t = rng.choice(tags)
            self.add("size", "sizeenc", t, v)
            n = max(1, (v.bit_length() + 8) // 8)
            x = tag_octets(t) + len_octets(n) + v.to_bytes(n, "big")
            self.add("size", "sizedec", hx(x), t)
            self.add("size", "sizedec2", hx(x), t, v)
            self.add("size", "sizedec2", hx(x), t, (v + 1) % 2 ** 64)
        for body in [b"", b"\x00", b"\x7f", b"\x80", b"\xff", b"\x00\x00", b"\x00\x7f", b"\x00\x80", b"\x00\xff", b"\x01\x00",
                     b"\x00" + b"\xff" * 8, b"\x01" + b"\xff" * 8, b"\x00\x7f" + b"\xff" * 7, b"\x7f" + b"\xff" * 7, b"\x80" + b"\x00" * 7,
                     b"\x00\x80" + b"\x00" * 7, b"\x00" * 9, b"\x00" * 10, b"\x00\x80" + b"\x00" * 8, b"\x01" * 9, b"\x01" * 10]:
            for t in (2, 0x5F29):
                x = tag_octets(t) + len_octets(len(body)) + body
                self.truncations("size-mut", x, [t])
                for lf in (bytes([len(body) + 1]), bytes([0x81, len(body)]), bytes([0x09]), bytes([0x0A]), bytes([0x88]) + b"\xff" * 7 + b"\xfe"):
                    self.decoders("size-mut", tag_octets(t) + lf + body, [t])
        # UINT
        for _ in range(150 if not thorough else 1500):
            n = rng.choice([1, 1, 2, 3, 8, 16, 32, 33, 127, 128, 129])
            v = bytearray(self.rb(n))
            k = rng.randrange(4)
            if k == 0:
                v[-1] |= 0x80
            elif k == 1:
                v[-1] = 0
            elif k == 2 and n > 2:
                v[-1] = 0
                v[-2] = rng.choice([0, 0x7F, 0x80])
            t = rng.choice(tags)
            self.add("uint", "uintenc", t, hx(v))
            be = bytes(v[::-1])
            for body in (be, b"\x00" + be, be.lstrip(b"\x00") or b"\x00"):
                x = tag_octets(t) + len_octets(len(body)) + body
                self.add("uint", "uintdec", hx(x), t)
                self.add("uint", "uintdec2", hx(x), t, len(body))
                self.add("uint", "uintdec2", hx(x), t, max(len(body) - 1, 0))
                self.add("uint", "uintdec2", hx(x), t, len(body) + 1)
        for body in [b"", b"\x00", b"\x80", b"\x00\x00", b"\x00\x80", b"\x00\x7f", b"\xff\xff", b"\x00\x00\x80", b"\x7f", b"\x01\x00"]:
            x = tlv(2, body)
            self.truncations("uint-mut", x, [2])
        # BIT
        for bl in list(range(0, 26)) + [63, 64, 65, 1023, 1024, 1025]:
            for _ in range(3):
                v = self.rb((bl + 7) // 8)
                t = rng.choice([3, 0x5F29])
                self.add("bit", "bitenc", t, hx(v), bl)
        for l in range(0, 5):
            for v0 in (0, 1, 4, 7, 8, 0xFF):
                for last in (0x00, 0x80, 0xFF, 0x01, 0xF0, 0x10):
                    body = (bytes([v0]) + self.rb(max(l - 2, 0)) + (bytes([last]) if l >= 2 else b""))[:l]
                    x = tlv(3, body)
                    self.add("bit-mut", "bitdec", hx(x), 3)
                    for bl in (max(0, (l - 1) * 8 - v0), (l - 1) * 8 if l else 0, 0, 1, 8 * l):
                        self.add("bit-mut", "bitdec2", hx(x), 3, bl)
                    if l <= 3:
                        self.truncations("bit-mut", x, [3])
        # OCT / PSTR
        for n in (0, 1, 2, 127, 128, 129, 255, 256, 300):
            v = self.rb(n)
            x = tlv(4, v)
            self.add("oct", "octdec", hx(x), 4)
            for l in (n, n + 1, max(n - 1, 0), 0):
                self.add("oct", "octdec2", hx(x), 4, l)
            self.add("oct", "octdec", hx(x[:-1]), 4)
            self.add("oct", "dec4", hx(x), 4, hx(v))
            self.add("oct", "dec4", hx(x), 4, hx(v[:-1] + b"\x55") if n else "00")
            self.add("oct", "dec3", hx(x), 4, n)
            self.add("oct", "dec3", hx(x), 4, n + 1)
        # TLV whose length announces delta octets more (or one less) than present, through every decoder (rejected
        # decodes are repeated by the harness with non-null outputs)
        for n in (0, 1, 2, 5, 126, 127, 128, 254, 255, 256, 300):
            for t, first in ((2, b"\x01"), (3, b"\x00"), (4, b"\x41"), (6, b"\x2a"), (0x13, b"\x41"), (0x30, b"\x05"), (0x5F29, b"\x01")):
                v = (first + bytes([0x41]) * n)[:n]
                for delta in (1, 2, 3, -1):
                    if n + delta < 0:
                        continue
                    x = tag_octets(t) + len_octets(n + delta) + v
                    self.decoders("tlv-announce", x, [t])
                    if t == 6:
                        self.add("tlv-announce", "oiddec", hx(x))
                        self.add("tlv-announce", "oidfromder", hx(x))
                        self.add("tlv-announce", "oiddec2", hx(x), hx(b"1.2.65.65"))
                    for cap in (n, n + delta):
                        self.add("tlv-announce", "octdec2", hx(x), t, cap)
                        self.add("tlv-announce", "uintdec2", hx(x), t, cap)
                        self.add("tlv-announce", "bitdec2", hx(x), t, 8 * max(cap - 1, 0))
        # fixed-length decoders with a caller buffer of capacity cap: values well beyond the capacity (the harness
        # calls the failed decode with an exact-size canary block of that capacity)
        for cap in (0, 1, 2, 5, 6, 13, 48, 96, 128):
            for n in sorted({cap + 1, 2 * cap, 2 * cap + 1, 127, 128, 300, 600} | ({70000} if cap == 13 else set())):
                if n == cap:
                    continue
                v = bytes([0x41]) * n
                self.add("oct-cap", "octdec2", hx(tlv(4, v)), 4, cap)
                self.add("oct-cap", "uintdec2", hx(tlv(2, v)), 2, cap)
                self.add("oct-cap", "uintdec2", hx(tlv(2, b"\x00\x80" + v[2:])), 2, cap)
                self.add("oct-cap", "bitdec2", hx(tlv(3, b"\x00" + v)), 3, 8 * cap)
                self.add("oct-cap", "bitdec2", hx(tlv(3, b"\x07" + v[1:] + b"\x80")), 3, max(8 * cap - 7, 0))
        alphabet = b"0123456789ABCXYZabcxyz '()+,-./:=?"
        for c in range(1, 256):
            self.add("pstr", "pstrenc", 0x13, hx(bytes([0x41, c])))
        for c in range(256):
            self.add("pstr", "pstrdec", hx(tlv(0x13, bytes([0x41, c, 0x42]))), 0x13)
        for n in (0, 1, 5, 12, 127, 128, 200):
            s = bytes(rng.choice(alphabet) for _ in range(n))
            self.add("pstr", "pstrenc", 0x42, hx(s))
            self.truncations("pstr", tlv(0x42, s), [0x42], deep=(n <= 12)) if n <= 12 else self.add("pstr", "pstrdec", hx(tlv(0x42, s)), 0x42)

    # -------------------------------------------------- OID
    def oids(self, thorough):
        rng = self.rng
        arcv = [0, 1, 9, 10, 39, 40, 79, 80, 127, 128, 16383, 16384, 2097151, 2097152, 268435455, 268435456,
                2 ** 32 - 81, 2 ** 32 - 80, 2 ** 32 - 41, 2 ** 32 - 40, 2 ** 32 - 1, 2 ** 32, 2 ** 32 + 5, 4294967290, 42949672950, 112]
        strs = ["1.2.112.0.2.0.34.101.45.3.1", "1.2", "0.0", "2.999", "0.39", "0.40", "1.39.5", "1.40", "3.1", "2.4294967215", "2.4294967216",
                "1", "1.", ".1", "1..2", "1.2.", "1.02", "1.2.03", "1.2.0", "01.2", "1.2.a", "1.2.-1", "", "2", "12.3", "2.40.4294967295",
                "2.40.4294967296", "1.2.3.4.5.6.7.8.9.10.11.12.13.14.15.16", "0.0.0.0", "2.0", "1.2 ", "1,2"]
        for _ in range(120 if not thorough else 1200):
            k = rng.randrange(2, 7)
            d1 = rng.randrange(3)
            arcs = [d1, rng.choice(arcv) if d1 == 2 and rng.random() < .5 else rng.randrange(40)] + [rng.choice(arcv) for _ in range(k - 2)]
            strs.append(".".join(str(a) for a in arcs))
        ders = []
        for s in strs:
            self.add("oid-str", "oidvalid", S(s))
            self.add("oid-str", "oidenc", S(s))
            try:
                arcs = [int(a) for a in s.split(".")]
                if len(arcs) >= 2 and arcs[0] <= 2 and all(0 <= a < 2 ** 32 for a in arcs) and (arcs[0] == 2 or arcs[1] < 40) and 40 * arcs[0] + arcs[1] < 2 ** 32:
                    ders.append((oid_der(arcs), s))
            except ValueError:
                pass
        for x, s in ders:
            self.add("oid", "oiddec", hx(x))
            self.add("oid", "oidfromder", hx(x))
            self.add("oid", "oidfromder", hx(x + b"\x00"))
            for s2 in (s, s[:-1], s + "0", s + ".1", s[: max(s.rfind("."), 1)], s[: s.rfind(".") + 1], "1.2", s.replace("1", "7", 1), "", s[:-1] + "x"):
                self.add("oid-dec2", "oiddec2", hx(x), S(s2))
            # shorter / longer last arcs against the same prefix (fix-5 region)
            p = s[: s.rfind(".") + 1]
            for tail in ("1", "12", "123456789", "4294967295", "0"):
                self.add("oid-dec2", "oiddec2", hx(x), S(p + tail))
            if len(x) <= 14:
                for k in range(len(x) + 1):
                    self.add("oid-trunc", "oiddec", hx(x[:k]))
                    self.add("oid-trunc", "oiddec2", hx(x[:k]), S(s))
                    self.add("oid-trunc", "oidfromder", hx(x[:k]))
            body = x[2:]
            for mb in (body[:-1] + bytes([body[-1] | 0x80]), b"\x80" + body, body + b"\x80\x01", body + b"\x80", body[:1] + b"\x80\x01" + body[1:],
                       body + b"\x8f\xff\xff\xff\x7f", body + b"\x90\x80\x80\x80\x00", body + b"\x8f\xff\xff\xff\xff\x7f", body + b"\xff\xff\xff\xff\x7f",
                       b"", body[:1], b"\x8f\xff\xff\xff\x7f", b"\x90\x80\x80\x80\x00" + body, b"\x81\x80\x80\x80\x00", b"\x27", b"\x28", b"\x4f", b"\x50", b"\x7f", b"\x81\x00"):
                if len(mb) < 128:
                    y = tlv(6, mb)
                    self.add("oid-mut", "oiddec", hx(y))
                    self.add("oid-mut", "oiddec2", hx(y), S(s))
                    self.add("oid-mut", "oidfromder", hx(y))
            self.add("oid-mut", "oiddec", hx(b"\x05" + x[1:]))
        for _ in range(200 if not thorough else 3000):
            body = bytes(rng.choice([0, 1, 0x27, 0x28, 0x4F, 0x50, 0x7F, 0x80, 0x81, 0x8F, 0x90, 0xFF, rng.randrange(256)]) for _ in range(rng.randrange(0, 9)))
            y = tlv(6, body)
            self.add("oid-rand", "oiddec", hx(y))
            self.add("oid-rand", "oidfromder", hx(y))
            self.add("oid-rand", "oiddec2", hx(y), S(rng.choice(strs)))

    # -------------------------------------------------- SEQ anchors
    def seqs(self, thorough):
        rng = self.rng
        for tag in (0x30, 0x31, 0x7F21, 0x7F4E, 0x04, 0x5F29, 0x3F8100, 0x1F8100, 0x3F, 0xA0):
            for n in (0, 1, 2, 125, 126, 127, 128, 129, 253, 254, 255, 256, 257, 300, 65535, 65536, 70000):
                if n > 300 and tag != 0x30:
                    continue
                content = self.rb(n) if n <= 300 else bytes(n)
                self.add("seqenc", "seqenc", hx(self.rb(rng.randrange(3))), tag, hx(content))
            for n in (0, 1, 5, 127, 128, 129):
                content = self.rb(n)
                x = tag_octets(tag) + len_octets(n) + content
                for pos in sorted(set([0, 1, 2, 3, len(x) - 1, len(x), max(len(x) - 2, 0)])):
                    if pos <= len(x):
                        self.add("seqdec", "seqdec", hx(x), tag, pos)
                self.add("seqdec", "seqdec", hx(x + b"\x00"), tag, len(x) + 1)
                self.add("seqdec", "seqdec", hx(x), 0x30, len(x))
                self.add("seqdec", "seqdec", hx(x[:-1]) if n else hx(x), tag, len(x) - 1 if n else len(x))
        for lf in length_forms(2):
            x = b"\x30" + lf + b"\x05\x00"
            for pos in range(len(x) + 1):
                self.add("seqdec-len", "seqdec", hx(x), 0x30, pos)

    # -------------------------------------------------- APDU
    def apdu(self, thorough):
        rng = self.rng
        hdr = bytes([0x00, 0xA4, 0x04, 0x0C])
        cl = [0, 1, 2, 255, 256, 257, 65535]
        rl = [0, 1, 2, 255, 256, 257, 65535, 65536]
        for c in cl + [65536]:
            for r in rl + [65537]:
                cdf = self.rb(c) if c <= 257 else bytes(c)
                self.add("apdu-enc", "cmdenc", rng.randrange(256), rng.randrange(256), rng.randrange(256), rng.randrange(256), hx(cdf), r)
        # every Lc form x every Le form as raw octets, data present / short / long by one
        lcs = [b""] + [bytes([n]) for n in (1, 2, 255)] + [b"\x00" + n.to_bytes(2, "big") for n in (0, 1, 2, 255, 256, 257, 65535)]
        les = [b""] + [bytes([n]) for n in (0, 1, 255)] + [n.to_bytes(2, "big") for n in (0, 1, 255, 256, 257, 65535)] + \
              [b"\x00" + n.to_bytes(2, "big") for n in (0, 1, 255, 256, 257, 65535)] + [b"\x01\x00\x00", b"\x00\x00\x00\x00"]
        for lc in lcs:
            n = lc[0] if len(lc) == 1 else (int.from_bytes(lc[1:], "big") if lc else 0)
            for le in les:
                for d in (0, -1, 1):
                    if n + d < 0:
                        continue
                    data = self.rb(n + d) if n + d <= 300 else bytes(n + d)
                    self.add("apdu-forms", "cmddec", hx(hdr + lc + data + le))
        # internal length announces delta octets more (or one less) than present; every prefix of valid commands
        # (the harness repeats every REJECTED decode with a non-null command structure: a copy from the input that
        # happens only then, past the end of the exact-size input block, is a sanitizer report)
        for n in (1, 2, 3, 4, 5, 8, 127, 254, 255, 256, 257, 300):
            data = self.rb(n)
            for form in ("short", "ext"):
                for delta in (1, 2, 3, 4, -1):
                    a = n + delta
                    if a <= 0 or (form == "short" and a > 255):
                        continue
                    lc = bytes([a]) if form == "short" else b"\x00" + a.to_bytes(2, "big")
                    for le in (b"", b"\x00", b"\x00\x00", b"\x00\x01\x00"):
                        self.add("apdu-announce", "cmddec", hx(hdr + lc + data + le))
                if form == "short" and n > 255:
                    continue
                lc = bytes([n]) if form == "short" else b"\x00" + n.to_bytes(2, "big")
                for le in (b"", b"\x07") if form == "short" else (b"", b"\x01\x00"):
                    x = hdr + lc + data + le
                    cuts = range(len(x) + 1) if len(x) <= 24 else list(range(0, 12)) + list(range(len(x) - 8, len(x) + 1))
                    for k in cuts:
                        self.add("apdu-prefix", "cmddec", hx(x[:k]))
                        self.add("apdu-prefix", "respdec", hx(x[:k]))
        for k in range(0, 4):
            self.add("apdu-short", "cmddec", hx(hdr[:k]))
        # exhaustive bodies of length <= 2 after the header, and 3..5-octet bodies over a small alphabet
        for a in range(256):
            self.add("apdu-exh", "cmddec", hx(hdr + bytes([a])))
            for b in (range(256) if thorough else (0, 1, 2, 0x7F, 0x80, 0xFF, a)):
                self.add("apdu-exh", "cmddec", hx(hdr + bytes([a, b])))
        alpha = [0, 1, 2, 3, 0xFF]
        for n in (3, 4, 5):
            for body in itertools.product(alpha, repeat=n):
                self.add("apdu-exh", "cmddec", hx(hdr + bytes(body)))
        for _ in range(300 if not thorough else 5000):
            self.add("apdu-rand", "cmddec", hx(self.rb(rng.randrange(0, 14))))
        for n in (0, 1, 2, 3, 255, 256, 65536, 65537, 65538):
            x = self.rb(n) if n <= 256 else bytes(n)
            self.add("apdu-resp", "respdec", hx(x))
            if n >= 2:
                self.add("apdu-resp", "respenc", x[-2], x[-1], hx(x[:-2]))
        self.add("apdu-resp", "respenc", 0x90, 0, hx(bytes(65537)))

    # -------------------------------------------------- hex / b64 / dec
    def text(self, thorough):
        rng = self.rng
        for c in range(1, 256):
            self.add("hex-table", "hexvalid", hx(bytes([c, 0x30])))
            self.add("hex-table", "hexvalid", hx(bytes([0x30, c])))
            self.add("hex-table", "hexto", hx(bytes([c, 0x30, 0x46, c])))
            self.add("b64-table", "b64valid", hx(bytes([c, 0x41, 0x41, 0x41])))
            self.add("b64-table", "b64valid", hx(bytes([0x41, 0x41, 0x41, c])))
            self.add("b64-table", "b64valid", hx(bytes([0x41, 0x41, c, 0x3D])))
            self.add("b64-table", "b64valid", hx(bytes([0x41, c, 0x3D, 0x3D])))
            self.add("b64-table", "b64to", hx(bytes([0x42, c, 0x3D, 0x3D])))
            self.add("b64-table", "b64to", hx(bytes([0x42, 0x43, c, 0x3D])))
            self.add("b64-table", "b64to", hx(bytes([c, 0x2F, 0x2B, c])))
            self.add("dec-table", "decvalid", hx(bytes([0x31, c])))
        for a in range(256):
            self.add("hex", "hexfrom", "%02x" % a)
            self.add("b64", "b64from", "%02x" % a)
        hexd = b"0123456789abcdefABCDEF"
        for n in list(range(0, 9)) + [31, 32, 33, 64]:
            for _ in range(4):
                s = bytes(rng.choice(hexd) for _ in range(n))
                self.add("hex", "hexvalid", hx(s))
                self.add("hex", "hexto", hx(s))
                if n % 2 == 0:
                    v = bytes.fromhex(s.decode())
                    self.add("hex", "hexeq", hx(v), hx(s))
                    self.add("hex", "hexeq", hx(v[::-1]), hx(s))
                    if n:
                        w = bytearray(v)
                        w[rng.randrange(len(w))] ^= 1 << rng.randrange(8)
                        self.add("hex", "hexeq", hx(w), hx(s))
                v = self.rb(n)
                self.add("hex", "hexfrom", hx(v))
                self.add("b64", "b64from", hx(v))
        b64a = b"ABCDEFGHIJKLMNOPQRSTUVWXYZabcdefghijklmnopqrstuvwxyz0123456789+/"
        for n in (0, 4, 8, 12, 16, 40, 3, 5, 6, 7):
            for _ in range(12):
                s = bytearray(rng.choice(b64a) for _ in range(n))
                k = rng.randrange(6)
                if n >= 4 and k == 0:
                    s[-1] = 0x3D
                elif n >= 4 and k == 1:
                    s[-1] = s[-2] = 0x3D
                elif n >= 4 and k == 2:
                    s[-1] = 0x3D
                    s[-2] = rng.choice(b"AEIMQUYcgkosw048")
                elif n >= 4 and k == 3:
                    s[-1] = s[-2] = 0x3D
                    s[-3] = rng.choice(b"AQgw")
                elif n >= 8 and k == 4:
                    s[rng.randrange(n - 1)] = 0x3D
                self.add("b64", "b64valid", hx(s))
                self.add("b64", "b64to", hx(s))
        for s in ("====", "A===", "AA==", "AAA=", "AAAA", "=AAA", "AA=A", "QQ==", "QR==", "QUI=", "QUJ=", "AA==AAAA", "AAAAAA==", "AAAAAAA=", "AAAAA==="):
            self.add("b64", "b64valid", S(s))
            self.add("b64", "b64to", S(s))
        for v in [0, 1, 9, 10, 99, 2 ** 31, 2 ** 32 - 1, 2 ** 32, 2 ** 32 + 1, 10 ** 10, 2 ** 63, 2 ** 64 - 1, 2 ** 64, 10 ** 20 - 1, 10 ** 25 + 7] + \
                 [rng.randrange(10 ** rng.randrange(1, 24)) for _ in range(60)]:
            s = str(v)
            for t in (s, "0" * rng.randrange(4) + s):
                self.add("dec", "decvalid", S(t))
                self.add("dec", "decto", S(t))
                self.add("dec", "deccd", S(t))
            if v < 2 ** 64:
                for c in (0, 1, len(s) - 1, len(s), len(s) + 3, 20, 21, 64):
                    self.add("dec", "decfrom", max(c, 0), v)
        for s in ("", "0", "00", "12a", "-1", "+1", " 1", "1 ", "7992739871", "79927398713", "572", "5724", "/", ":"):
            self.add("dec", "decvalid", S(s))
            self.add("dec", "decto", S(s))
            self.add("dec", "deccd", S(s))
        for n in range(1, 8):
            for _ in range(10):
                s = "".join(rng.choice("0123456789") for _ in range(n))
                self.add("dec", "deccd", S(s))

    # -------------------------------------------------- unstructured
    def random_strings(self, thorough):
        rng = self.rng
        bias = [0, 1, 2, 3, 4, 6, 0x13, 0x30, 0x1F, 0x5F, 0x7F, 0x80, 0x81, 0x82, 0x88, 0xFF, 0x7E]
        for _ in range(400 if not thorough else 20000):
            n = rng.randrange(0, 12)
            x = bytes(rng.choice(bias) if rng.random() < .6 else rng.randrange(256) for _ in range(n))
            tv = [x[0]] if x else [4]
            self.decoders("random", x, tv)
            self.add("random", "oiddec", hx(x))
            self.add("random", "cmddec", hx(x))

    def all(self):
        th = self.ctx.tier == "thorough"
        self.tl_layer(th)
        self.typed(th)
        self.oids(th)
        self.seqs(th)
        self.apdu(th)
        self.text(th)
        self.random_strings(th)
        return self.ops


# ------------------------------------------------------------------ corpus: witnesses of the findings (regressions)
CORPUS = [
    "tl 1f810000", "tlenc 2064640 0", "dec 1f810000", "tl 1f81800000", "tlenc 529629184 5",     # fix-1
    "bitdec 030207ff 3", "bitdec2 030207ff 3 1", "bitdec 03020180 3", "bitdec 030201ff 3",      # fix-2
    "cmddec 000102030000000101", "cmddec 000102030000020909", "cmddec 0001020300000100",       # fix-3
    "pstrdec 13024100 19", "pstrdec 130100 19",                                                   # fix-4
    "oiddec2 06032a9229 312e322e33", "oiddec2 06032a9229 312e322e", "oiddec2 06022a03 312e322e33303030",  # fix-5
    # fixed earlier (F13..F17)
    "tl 1f0000", "tl 1f818101", "tl 1f81810100", "tlenc 528580865 0", "sizedec 020501 2", "sizedec 0200 2",
    "oiddec 06032a7081", "oidfromder 06032a7081", "oiddec 0600", "dec 0488fffffffffffffffa", "dec 0488fffffffffffffffe00",
    "isv 0488fffffffffffffffa", "tl 1f8101", "tl 1f81", "tl 1f01",
]


# ------------------------------------------------------------------ search oracle (implementation alone)
def oracle_ops(op, out):
    """For one first-pass op and the implementation's result: list of
    (second-pass op, expected output, what) + list of immediate failures."""
    w = op.split(" ")
    o = out.split(" ")
    second, fails = [], []
    if out.startswith("CRASH"):
        return [], ["sanitizer/abort: " + out[:300]]
    if out in ("err", "invalid", "bad-op", "0", "1") or "mismatch" in out or out == "no-nul":
        if "mismatch" in out or out == "no-nul":
            fails.append("inconsistent results between the probe call and the real call: " + out)
        return second, fails
    k = w[0]
    try:
        if k == "tl":
            x = unhx(w[1]); tag, ln, c = int(o[0]), int(o[1]), int(o[2])
            if c > len(x): fails.append("consumed %d > input %d" % (c, len(x)))
            else: second.append(("tlenc %d %d" % (tag, ln), hx(x[:c]), "re-encode of the accepted TL"))
        elif k == "dec":
            x = unhx(w[1]); tag, off, ln, c = map(int, o)
            if c > len(x) or off + ln != c: fails.append("consumed %d (off %d len %d) vs input %d" % (c, off, ln, len(x)))
            else: second.append(("enc %d %s" % (tag, hx(x[off:off + ln])), hx(x[:c]), "re-encode of the accepted TLV"))
        elif k in ("dec2", "dec3", "dec4"):
            x = unhx(w[1]); c = int(o[-1])
            if c > len(x): fails.append("consumed %d > input %d" % (c, len(x)))
        elif k == "sizedec":
            x = unhx(w[1]); v, c = int(o[0]), int(o[1])
            if c > len(x): fails.append("consumed %d > input %d" % (c, len(x)))
            else: second.append(("sizeenc %s %d" % (w[2], v), hx(x[:c]), "re-encode of the accepted SIZE"))
        elif k in ("uintdec", "uintdec2"):
            x = unhx(w[1]); c = int(o[1])
            if c > len(x): fails.append("consumed %d > input %d" % (c, len(x)))
            else: second.append(("uintenc %s %s" % (w[2], o[0]), hx(x[:c]), "re-encode of the accepted UINT")) if o[0] != "-" else fails.append("empty UINT accepted")
        elif k in ("bitdec", "bitdec2"):
            x = unhx(w[1]); c = int(o[-1]); bl = int(o[1]) if k == "bitdec" else int(w[3])
            if c > len(x): fails.append("consumed %d > input %d" % (c, len(x)))
            else: second.append(("bitenc %s %s %d" % (w[2], o[0], bl), hx(x[:c]), "re-encode of the accepted BIT"))
        elif k in ("octdec", "octdec2"):
            x = unhx(w[1]); c = int(o[1])
            if c > len(x): fails.append("consumed %d > input %d" % (c, len(x)))
            else: second.append(("enc %s %s" % (w[2], o[0]), hx(x[:c]), "re-encode of the accepted OCT"))
        elif k == "pstrdec":
            x = unhx(w[1]); c = int(o[1])
            if c > len(x): fails.append("consumed %d > input %d" % (c, len(x)))
            elif b"\x00" in unhx(o[0]): fails.append("zero octet inside an accepted PrintableString")
            else: second.append(("pstrenc %s %s" % (w[2], o[0]), hx(x[:c]), "re-encode of the accepted PSTR"))
        elif k == "oiddec":
            x = unhx(w[1]); c = int(o[1])
            if c > len(x): fails.append("consumed %d > input %d" % (c, len(x)))
            else:
                second.append(("oidenc %s" % o[0], hx(x[:c]), "re-encode of the accepted OID"))
                second.append(("oiddec2 %s %s" % (w[1], o[0]), str(c), "derOIDDec2 against the decoded OID"))
        elif k == "oidfromder":
            second.append(("oidenc %s" % o[0], w[1], "oidToDER of oidFromDER"))
        elif k == "oiddec2":
            x = unhx(w[1]); c = int(o[0])
            if c > len(x): fails.append("consumed %d > input %d" % (c, len(x)))
            else: second.append(("oidenc %s" % w[2], hx(x[:c]), "derOIDDec2 accepted, so the OID must encode to the accepted octets"))
        elif k == "seqdec":
            x = unhx(w[1]); c = int(o[2])
            if c > len(x): fails.append("consumed %d > input %d" % (c, len(x)))
            if o[3] == "1" and int(w[3]) != c + int(o[1]): fails.append("DecStop accepted at a position that is not start+len")
        elif k == "cmddec":
            second.append(("cmdenc %s %s %s %s %s %s" % tuple(o), w[1], "re-encode of the accepted command APDU"))
        elif k == "respdec":
            second.append(("respenc %s %s %s" % (o[0], o[1], o[2]), w[1], "re-encode of the accepted response APDU"))
        elif k == "hexto":
            up = unhx(w[1]).decode("latin1").upper().encode("latin1")
            second.append(("hexfrom %s" % o[0], "%s %s" % (hx(up), hx(b"".join(up[i:i + 2] for i in range(len(up) - 2, -1, -2)))), "hexFrom(hexTo(s)) == upper(s)"))
        elif k == "b64to":
            second.append(("b64from %s" % o[0], w[1], "b64From(b64To(s)) == s"))
        # encoders -> decode back
        elif k == "tlenc" and int(w[2]) == SIZE_MAX:
            pass  # SIZE_MAX is the error value of the API, not a length (derLDec rejects it by design)
        elif k == "tlenc":
            second.append(("tl %s" % o[0], "%s %s %d" % (w[1], w[2], len(unhx(o[0]))), "decode of the produced TL"))
        elif k == "enc":
            v = unhx(w[2]); e = unhx(o[0])
            second.append(("dec %s" % o[0], "%s %d %d %d" % (w[1], len(e) - len(v), len(v), len(e)), "decode of the produced TLV"))
            second.append(("dec %s" % hx(e + b"\x7f"), "%s %d %d %d" % (w[1], len(e) - len(v), len(v), len(e)), "decode of the produced TLV + rest"))
            second.append(("isv %s" % o[0], "1", "derIsValid of the produced TLV"))
            if not e.endswith(v): fails.append("value not at the end of the produced code")
        elif k == "sizeenc":
            second.append(("sizedec %s %s" % (o[0], w[1]), "%s %d" % (w[2], len(unhx(o[0]))), "decode of the produced SIZE"))
        elif k == "uintenc":
            v = unhx(w[2]).rstrip(b"\x00") or b"\x00"
            second.append(("uintdec %s %s" % (o[0], w[1]), "%s %d" % (hx(v), len(unhx(o[0]))), "decode of the produced UINT"))
        elif k == "bitenc":
            bl = int(w[3]); v = bytearray(unhx(w[2]))
            if bl % 8: v[-1] &= (0xFF << (8 - bl % 8)) & 0xFF
            second.append(("bitdec %s %s" % (o[0], w[1]), "%s %d %d" % (hx(v), bl, len(unhx(o[0]))), "decode of the produced BIT"))
        elif k == "pstrenc":
            second.append(("pstrdec %s %s" % (o[0], w[1]), "%s %d" % (w[2], len(unhx(o[0]))), "decode of the produced PSTR"))
        elif k == "oidenc":
            second.append(("oiddec %s" % o[0], "%s %d" % (w[1], len(unhx(o[0]))), "decode of the produced OID"))
            second.append(("oidfromder %s" % o[0], w[1], "oidFromDER of the produced OID"))
        elif k == "seqenc":
            p, v, e = unhx(w[1]), unhx(w[3]), unhx(o[1])
            second.append(("dec %s" % hx(e[len(p):]), "%s %d %d %d" % (w[2], len(e) - len(p) - len(v), len(v), len(e) - len(p)), "decode of the produced SEQ"))
            if not (e.startswith(p) and e.endswith(v)): fails.append("SEQ content moved incorrectly")
        elif k == "cmdenc":
            second.append(("cmddec %s" % o[0], " ".join(w[1:]), "decode of the produced command APDU"))
        elif k == "respenc":
            second.append(("respdec %s" % o[0], " ".join(w[1:]), "decode of the produced response APDU"))
        elif k == "hexfrom":
            v = unhx(w[1])
            second.append(("hexto %s" % o[0], "%s %s" % (hx(v), hx(v[::-1])), "hexTo(hexFrom(v)) == v"))
            second.append(("hexvalid %s" % o[0], "1", "hexFrom output is valid"))
        elif k == "b64from":
            second.append(("b64to %s" % o[0], w[1], "b64To(b64From(v)) == v"))
            second.append(("b64valid %s" % o[0], "1", "b64From output is valid"))
        elif k == "deccd":
            d = unhx(w[1])
            second.append(("deccd %s" % hx(d + bytes([int(o[0])])), None, ("luhn", 1)))
            second.append(("deccd %s" % hx(d + bytes([int(o[2])])), None, ("damm", 3)))
        elif k == "decfrom":
            c, n = int(w[1]), int(w[2])
            if c > 0:
                second.append(("decto %s" % o[0], None, ("decto32", (n % 2 ** 32) % 10 ** c)))
                second.append(("decto %s" % o[1], None, ("decto64", n % 10 ** c)))
    except (ValueError, IndexError) as e:
        fails.append("unparsable implementation output %r (%s)" % (out, e))
    return second, fails


def run_oracle(ctx, exe, ops, outs, limit=None):
    """Second pass on the implementation alone.  Returns list of (op, what)."""
    bad, second = [], []
    for op, out in zip(ops, outs):
        s, f = oracle_ops(op, out)
        for what in f:
            bad.append((op, what + " [impl: %s]" % out[:200]))
        for s_op, exp, what in s:
            second.append((op, out, s_op, exp, what))
    if limit:
        second = second[:limit]
    if second:
        lines = [s[2] for s in second]
        res, err, rc = ctx.run_lines(exe, lines)
        if rc != 0 or len(res) != len(lines):
            k = min(len(res), len(lines) - 1)
            bad.append((second[k][0], "sanitizer/abort in the second pass on `%s`: %s" % (lines[k], " | ".join(
                l for l in err.split("\n") if "ERROR" in l or "SUMMARY" in l)[:300])))
            second, res = second[:k], res[:k]
        for (op, out, s_op, exp, what), got in zip(second, res):
            if exp is None:
                kind, val = what
                g = got.split(" ")
                if kind in ("luhn", "damm"):
                    if len(g) != 4 or g[val] != "1":
                        bad.append((op, "%s check digit produced by Calc is not accepted by Verify: `%s` -> %s" % (kind, s_op, got)))
                    continue
                ok = len(g) == 3 and int(g[0 if kind == "decto32" else 1]) == (val % 2 ** 32 if kind == "decto32" else val)
                if kind == "decto32" and len(g) == 3:
                    ok = int(g[0]) == val % 2 ** 32 if val < 2 ** 32 else True
                if not ok:
                    bad.append((op, "decTo(decFrom(n)) != n: `%s` -> %s, expected %d" % (s_op, got, val)))
            elif got != exp:
                bad.append((op, "%s fails: `%s` -> `%s`, expected `%s` [first pass: %s -> %s]" % (what, s_op, got[:200], exp[:200], op[:200], out[:200])))
    ctx.cov["oracle_second_pass_ops"] = ctx.cov.get("oracle_second_pass_ops", 0) + len(second)
    return bad


def op_class(op):
    w = op.split(" ")
    return w[0]


def replay_text(op, what, impl=None, model=None):
    t = "# property C08: %s\n# replay: ./check C08 --replay <this file>\nop %s\n" % (what.replace("\n", " ")[:1500], op)
    if impl is not None:
        t += "impl %s\nmodel %s\n" % (impl[:2000], (model or "")[:2000])
    return t


def run(ctx):
    proof_ok, log = ctx.prove(MODS, PROPS)
    exe = ctx.cc("harness/c08.c", "asan")
    g = Gen(ctx)
    ops = [o for o in CORPUS] + [o for o in g.all() if o not in set(CORPUS)]
    mism, c_out, l_out = ctx.diff_run(exe, ops, "primitives")
    ops = ops[:len(c_out)]
    # input distribution
    kinds, errs = {}, 0
    for o, r in zip(ops, c_out):
        kinds[op_class(o)] = kinds.get(op_class(o), 0) + 1
        errs += r in ("err", "0", "invalid")
    ctx.cov.update({"ops_by_kind": kinds, "generator_classes": g.classes, "impl_rejects": errs, "impl_accepts": len(ops) - errs,
                    "distinct_nontrivial": len(set(c_out)), "correspondence_disagreements": len(mism),
                    "tl_exhaustive_upto_octets": 3})
    ctx.samples += [{"op": ops[i], "impl": c_out[i][:160]} for i in range(0, len(ops), max(1, len(ops) // 8))][:8]
    # the oracle runs always (cheap): the property itself on the implementation
    bad = run_oracle(ctx, exe, ops, c_out)
    ctx.cov["oracle_failures"] = len(bad)
    seen = set()
    for op, what in bad[:6]:
        key = "oracle:" + op_class(op)
        if key in seen:
            continue
        seen.add(key)
        ctx.violation(key, replay_text(op, what), True, "%s: op `%s`: %s" % (key, op[:300], what[:600]))
    if not bad:
        if mism:
            for i, op, c, l in mism[:3]:
                ctx.violation("correspondence:" + op_class(op), replay_text(op, "model and implementation disagree; the search oracle "
                              "(bounds, re-encode, decode-of-encode, sanitizer) found no property failure on the implementation", c, l), False,
                              "%d ops differ, e.g. `%s` impl=`%s` model=`%s`" % (len(mism), op[:200], c[:200], l[:200]))
        elif not proof_ok:
            ctx.violation("proof", "# property C08: the theorems of %s no longer check; the oracle found no failing input.\n# first errors:\n%s\n" % (
                ", ".join(PROPS), "\n".join("# " + l for l in log.split("\n") if "error" in l)[:3000]), False,
                "theorems no longer check: " + "; ".join(ctx.cov.get("lake_errors", []))[:400] + log[-300:])
    containers(ctx)
    return ctx.finish(
        level="proof",
        assumptions=[
            "the hand-written model (Model.lean, Model2.lean) agrees with the compiled code: checked by the correspondence run of this check "
            "(generator below), not proved",
            "an input buffer is shorter than 2^64 octets (hypothesis `xs.length < 2^64` of the theorems); size_t is 64-bit (the only "
            "configuration that can be built here)",
            "optional output pointers are modelled as always present; the harness additionally calls each decoder with null outputs and "
            "compares the returned length",
            "memMove/memCopy/memRev/strLen behave as specified (modelled as list operations)",
            "NOT covered: the containers (bignParamsEnc/Dec, btokCVC*, bpki*, btokSM*) - only the primitives they are composed of; "
            "apduCmdDec/Enc, derTEnc/derLEnc canonical+roundtrip, base64, decimal, Luhn/Damm: correspondence + oracle only (no theorem yet)"],
        rule="corpus of the 5+5 fixed defects' witnesses; ALL octet strings of length <= 3 (thorough: plus all 4-octet strings starting 1F/7F/04) through derTLDec, derDec, "
             "derIsValid (block ops, run-length digests compared); every tag form x every length form x value present/short/absent; every "
             "truncation point and one/three-octet extension of every typed sample (SIZE/UINT/BIT/OCT/PSTR/OID/SEQ); boundary values for "
             "SIZE; OID arcs at 7-bit-group and u32 boundaries with string mismatches; all Lc x Le form combinations with data short/exact/"
             "long by one, exhaustive 1-2 octet APDU bodies; every single character through the hex/base64/decimal validators; random "
             "biased strings. A case is distinct if its op line is distinct; distinct_nontrivial = number of distinct implementation outputs.",
        exhaustive=False)


def containers(ctx):
    """bign params / CVC / bpki / SM containers: implementation-side oracle (no Lean model)."""
    src = os.path.join(VERIF, "harness", "c08b.c")
    if not os.path.exists(src):
        return
    import C08_containers
    C08_containers.run(ctx)


# ------------------------------------------------------------------------------------------ C19 adapter
def c19_stream():
    """(harness, driver, fn(ctx, exe, w) -> op lines, uses_bash) for property C19 (all build configurations compute the
    same function): the corpus, all 1-octet-prefix TL/TLV blocks, 2000 of the 2-octet-prefix blocks and a sample of the
    structured decoder/encoder ops - at most 20 000 lines, drawn with ctx.rng.  Ops are octet-level and size_t is 64-bit
    on every configuration built here (the w32 build changes the machine word of the arithmetic layer only), so the
    64-bit stream is replayed unchanged on the 32-bit-word build."""
    def fn(ctx, exe, w):
        saved = ctx.tier
        ctx.tier = "quick"
        try:
            ops = Gen(ctx).all()
        finally:
            ctx.tier = saved
        big = [o for o in ops if o.split(" ")[0] in ("tlblk", "decblk") and len(o.split(" ")[1]) == 4]
        small = [o for o in ops if not (o.split(" ")[0] in ("tlblk", "decblk") and len(o.split(" ")[1]) == 4)]
        keep_big = set(ctx.rng.sample(range(len(big)), min(2000, len(big))))
        budget = 20000 - len(CORPUS) - len(keep_big)
        keep_small = set(ctx.rng.sample(range(len(small)), min(budget, len(small))))
        out = list(CORPUS)
        seen = set(out)
        for i, o in enumerate(small):
            if i in keep_small and o not in seen:
                out.append(o)
        out += [o for i, o in enumerate(big) if i in keep_big]
        return out[:20000]
    return ("harness/c08.c", "drv_c08", fn, False)


def replay(ctx, path):
    op, impl = None, None
    for line in open(path):
        if line.startswith("op "):
            op = line[3:].rstrip("\n")
    if op is None:
        print("replay file names a theorem, not an input: nothing to execute")
        return 0
    if op.startswith("c08b "):
        import C08_containers
        return C08_containers.replay(ctx, op)
    exe = ctx.cc("harness/c08.c", "asan")
    out, err, rc = ctx.run_lines(exe, [op])
    res = out[0] if out and rc == 0 else "CRASH(rc=%d): %s" % (rc, " | ".join(l for l in err.split("\n") if "ERROR" in l or "SUMMARY" in l)[:300])
    print("op    %s\nimpl  %s" % (op, res))
    bad = run_oracle(ctx, exe, [op], [res])
    drv = ctx.driver()
    if os.path.exists(drv):
        m, _, _ = ctx.run_lines(drv, [op])
        print("model %s" % m[0])
        if m[0] != res:
            print("model and implementation DISAGREE")
            bad = bad or [(op, "disagreement")]
    for _, what in bad:
        print("FAIL  " + what)
    print("property %s on the current tree" % ("VIOLATED" if bad else "holds for this input"))
    return 1 if bad else 0

"""C04 — bake (BMQV, BSTS, BPACE) and the token protocol BAUTH: honest runs agree, tampered runs never do.

Proof : lean/Bee2V/C04/Props*.lean over an abstract prime-order group + uninterpreted hash / KRP / MAC /
        CFB / ECB / KWP / SWU / certificate callback: honest_agree_{bmqv,bsts,bpace,bauth}, driver = steps,
        reject_exact (ERR_BAD_POINT <=> coordinates >= p or off the curve), tamper theorems with explicit
        collision / discrete-log witnesses as outputs.
Tie   : (a) err_t values and the 512-octet block of the drivers regenerated from the source
        (xlate/x_c04.py -> Bee2V/Gen/C04Err.lean);
        (b) correspondence: the same scenario lines go to harness/c04.c (real library, exact-size states
        and messages under ASan) and to drv_c04 (the model instantiated with C02's affine arithmetic and
        C01's complete belt model).  Stage 1 = honest scenarios step by step and through RunA/RunB,
        stage 2 = scripted tampering built from the implementation's own messages.
Search: on the implementation alone — honest => every code 0 and keyA == keyB, steps == drivers,
        tampered => an error or different keys, invalid points => ERR_BAD_POINT at the receiving step.
"""
import os, sys, importlib
import vcommon

PROPS = ["Bee2V/C04/Props.lean", "Bee2V/C04/PropsReject.lean", "Bee2V/C04/PropsBmqv.lean", "Bee2V/C04/PropsBsts.lean", "Bee2V/C04/PropsBpace.lean",
         "Bee2V/C04/PropsBauth.lean", "Bee2V/C04/PropsTamperBmqv.lean", "Bee2V/C04/PropsTamperBsts.lean", "Bee2V/C04/PropsTamperBpace.lean",
         "Bee2V/C04/PropsTamperBauth.lean", "Bee2V/C04/PropsDrv.lean", "Bee2V/C04/PropsDrv2.lean", "Bee2V/C04/PropsBelt.lean", "Bee2V/C04/Toy.lean"]
TARGETS = ["Bee2V.C04.Props"] + [p[:-5].replace("/", ".") for p in PROPS[1:]]
CORPUS = os.path.join(vcommon.VERIF, "gen", "c04_corpus.txt")
OK, BAD_INPUT, FILE_NOT_FOUND, BAD_RNG, BAD_POINT, BAD_PARAMS, BAD_SIG, BAD_CERT, BAD_LOGIC, AUTH = 0, 109, 202, 304, 401, 502, 510, 514, 517, 521
MAXT = 44            # tampers per line (harness tokenizer: 64 tokens)
HELLO_LENS = [0, 1, 5, 16, 17, 32, 33]


def hx(b):
    return bytes(b).hex() if len(b) else "-"


def unh(s):
    return b"" if s == "-" else bytes.fromhex(s)


def regen(ctx):
    import x_c04
    importlib.reload(x_c04)
    ctx.regen("Bee2V/Gen/C04Err.lean", x_c04.generate(vcommon.REPO))
    import x_c02
    importlib.reload(x_c02)
    ctx.regen("Bee2V/Gen/C02Params.lean", x_c02.generate(vcommon.REPO))


# ------------------------------------------------------------------ Python reference: curve arithmetic
class Cv:
    """affine arithmetic on y^2 = x^3 + ax + b over F_p written from the textbook"""

    def __init__(self, ci, rec):
        le = lambda v: int.from_bytes(bytes(v), "little")
        self.ci, self.l, self.no = ci, rec["l"], rec["l"] // 4
        self.p, self.a, self.b, self.q = le(rec["p"]), le(rec["a"]), le(rec["b"]), le(rec["q"])
        self.G = (0, le(rec["yG"]))
        self.W = 1 << (2 * self.l)

    def on(self, x, y):
        return x < self.p and y < self.p and (y * y - (x * x * x + self.a * x + self.b)) % self.p == 0

    def add(self, P, Q):
        if P is None:
            return Q
        if Q is None:
            return P
        p = self.p
        (x1, y1), (x2, y2) = P, Q
        if x1 == x2:
            if (y1 + y2) % p == 0:
                return None
            lam = (3 * x1 * x1 + self.a) * pow(2 * y1, -1, p) % p
        else:
            lam = (y2 - y1) * pow(x2 - x1, -1, p) % p
        x3 = (lam * lam - x1 - x2) % p
        return (x3, (lam * (x1 - x3) - y1) % p)

    def mul(self, k, P):
        R = None
        for bit in bin(k)[2:] if k else "":
            R = self.add(R, R)
            if bit == "1":
                R = self.add(R, P)
        return R

    def n2b(self, v, n=None):
        return (v % (1 << (8 * (n or self.no)))).to_bytes(n or self.no, "little")

    def pt(self, P):
        return self.n2b(P[0]) + self.n2b(P[1])

    def pub(self, d):
        return self.pt(self.mul(d, self.G))

    def unpt(self, b):
        return int.from_bytes(b[:self.no], "little"), int.from_bytes(b[self.no:2 * self.no], "little")


def curves():
    import x_c02
    return [Cv(i, r) for i, r in enumerate(x_c02.parse(vcommon.REPO))]


# ------------------------------------------------------------------ scenarios
class Scn:
    """one scenario = the arguments of a `run` line (without tampers)"""

    def __init__(self, P, cv, kca, kcb, ha, hb, ka, kb, ca, cb, ta, tb, mode="s", x=None, tag="", honest=True, expect=None):
        self.P, self.cv, self.kca, self.kcb, self.ha, self.hb = P, cv, kca, kcb, ha, hb
        self.ka, self.kb, self.ca, self.cb, self.ta, self.tb, self.mode, self.x = ka, kb, ca, cb, ta, tb, mode, x
        self.tag, self.honest, self.expect = tag, honest, expect

    def head(self, mode=None):
        m = mode or self.mode
        h = lambda v: "N" if v is None else hx(v)
        s = "run %s %d %d %d %s %s %s %s %s %s %s %s %s" % (self.P, self.cv.ci, self.kca, self.kcb, h(self.ha), h(self.hb), hx(self.ka), hx(self.kb),
                                                          hx(self.ca), hx(self.cb), hx(self.ta), hx(self.tb), m + ("x" if self.x else ""))
        if self.x:
            s += " %s %s" % (hx(self.x[0]), hx(self.x[1]))
        return s

    def with_mode(self, mode):
        c = Scn.__new__(Scn)
        c.__dict__.update(self.__dict__)
        c.mode = mode
        return c

    def flags_ok(self):
        if self.P == "bsts":
            return self.kca == 1 and self.kcb == 1
        if self.P == "bauth":
            return self.kca == 1
        return True

    def nsteps(self):
        return {"bmqv": 3 + (self.kcb != 0), "bsts": 4, "bpace": 4 + (self.kca != 0), "bauth": 3 + (self.kcb != 0)}[self.P]


def parse_steps(res):
    """step-mode result text -> dict(start=(eb, ea) or None, steps=[(name, err, out)], keys=(ka, kb), L=code or None)"""
    d = {"start": None, "steps": [], "keys": None, "L": None, "skip": False}
    for tok in res.split():
        if tok == "skip":
            d["skip"] = True
        elif tok.startswith("S="):
            d["start"] = tuple(int(v) for v in tok[2:].split(","))
        elif tok.startswith("K="):
            d["keys"] = tuple(tok[2:].split(","))
        elif tok.startswith("L="):
            d["L"] = int(tok[2:])
        elif "=" in tok:
            name, rest = tok.split("=", 1)
            e, out = rest.split(":", 1)
            d["steps"].append((name, int(e), out))
    return d


def parse_run(res):
    """run-mode result text -> dict(a=(err, key), b=(err, key), ba=[msgs], ab=[msgs])"""
    d = {}
    for tok in res.split():
        if tok.startswith("R="):
            a, b = tok[2:].split(",")
            d["a"] = (int(a.split(":")[0]), a.split(":")[1])
            d["b"] = (int(b.split(":")[0]), b.split(":")[1])
        elif tok.startswith("BA="):
            d["ba"] = [] if tok[3:] == "." else tok[3:].split(",")
        elif tok.startswith("AB="):
            d["ab"] = [] if tok[3:] == "." else tok[3:].split(",")
    return d


def split_line(out):
    """one output line -> [honest, (tamper text, result), ...]"""
    parts = out.split(" | ")
    return parts[0], [tuple(p.split(">", 1)) for p in parts[1:]]


# layout of the messages: (offset, length or None = to the end minus tail, kind)
def layout(s, k, mlen):
    no, P = s.cv.no, s.P
    kca, kcb = s.kca != 0, s.kcb != 0
    if P == "bmqv":
        return {1: [(0, 2 * no, "point")], 2: [(0, 2 * no, "point")] + ([(2 * no, 8, "tag")] if kca else []), 3: [(0, 8, "tag")]}[k]
    if P == "bsts":
        return {1: [(0, 2 * no, "point")], 2: [(0, 2 * no, "point"), (2 * no, mlen - 2 * no - 8, "enc"), (mlen - 8, 8, "tag")],
                3: [(0, mlen - 8, "enc"), (mlen - 8, 8, "tag")]}[k]
    if P == "bpace":
        return {1: [(0, no // 2, "enc")], 2: [(0, no // 2, "enc"), (no // 2, 2 * no, "point")],
                3: [(0, 2 * no, "point")] + ([(2 * no, 8, "tag")] if kcb else []), 4: [(0, 8, "tag")]}[k]
    return {1: [(0, 2 * no, "point"), (2 * no, no // 2 + 16, "wrap")], 2: [(0, 8, "tag")] + ([(8, 16, "rt")] if kcb else []),
            3: [(0, mlen - 8, "enc"), (mlen - 8, 8, "tag")]}[k]


INVALID_KINDS = ("offcurve", "x=p", "y=p", "x=max", "y=max", "zero", "y=0", "twist")


# True once docs/C04.fix-1.diff is in /repo (then the constructed runs with s = 0 are honest runs that must succeed)
FIX1_APPLIED = True


class Gen:
    def __init__(self, ctx, cvs, run_c=None):
        self.ctx, self.rng, self.cvs, self.run_c = ctx, ctx.rng, cvs, run_c
        self.thorough = ctx.tier == "thorough"
        self.cov = {}

    def count(self, k, n=1):
        self.cov[k] = self.cov.get(k, 0) + n

    def rb(self, n):
        return bytes(self.rng.getrandbits(8) for _ in range(n))

    def scalar(self, cv):
        return self.rng.randrange(1, cv.q)

    def cert(self, cv, d, total, first=None):
        """certificate data: `total` octets ending with the public key of d"""
        pre = bytearray(self.rb(max(0, total - 2 * cv.no)))
        if pre:
            pre[0] = first if first is not None else (pre[0] if pre[0] != 0xEE else 0x30)
        return bytes(pre) + cv.pub(d)

    def tape(self, cv, P, side, kind="random"):
        """a generator tape long enough for the party's requests; `kind` shapes the first scalar draw"""
        no = cv.no
        pre = b""
        if P == "bpace":
            pre = self.rb(no // 2)
        elif P == "bauth":
            pre = self.rb(no // 2) if side == "b" else b""
        good = cv.n2b(self.scalar(cv))
        if kind == "random":
            body = good
        elif kind == "one":
            body = cv.n2b(1)
        elif kind == "q-1":
            body = cv.n2b(cv.q - 1)
        elif kind == "reject":        # 0, q, 2^2l - 1 are rejected, then an admissible value
            body = cv.n2b(0) + cv.n2b(cv.q) + cv.n2b(cv.W - 1) + good
        elif kind == "short":         # the tape ends inside the draw: zero padded
            body = good[: no - 3]
        else:
            raise ValueError(kind)
        post = self.rb(16) if (P == "bauth" and side == "a") else b""
        if P == "bauth" and side == "a":
            return post + self.rb(4)          # T only draws Rt
        return pre + body + self.rb(5)

    def base(self, P, cv, kca, kcb, ha=None, hb=None, certlen=None, tapes=("random", "random"), mode="s", tag="", keys=None):
        da, db = keys or (self.scalar(cv), self.scalar(cv))
        no = cv.no
        if P == "bpace":
            pwd = self.rb(self.rng.choice([0, 1, 4, 8, 31, 32, 33, 64]))
            return Scn(P, cv, kca, kcb, ha, hb, pwd, pwd, b"", b"", self.tape(cv, P, "a", tapes[0]), self.tape(cv, P, "b", tapes[1]), mode, tag=tag)
        la, lb = certlen or (2 * no + self.rng.randrange(0, 12), 2 * no + self.rng.randrange(0, 12))
        return Scn(P, cv, kca, kcb, ha, hb, cv.n2b(da), cv.n2b(db), self.cert(cv, da, la), self.cert(cv, db, lb),
                   self.tape(cv, P, "a", tapes[0]), self.tape(cv, P, "b", tapes[1]), mode, tag=tag)

    def flagsets(self, P):
        if P in ("bmqv", "bpace"):
            return [(0, 0), (0, 1), (1, 0), (1, 1)]
        if P == "bsts":
            return [(1, 1)]
        return [(1, 0), (1, 1)]

    # ---- stage 1: honest scenarios (and scenarios that must fail at Start / at a named step)
    def stage1(self):
        scs = []
        th = self.thorough
        # 1. every protocol x curve x admissible flag combination, step by step and through the drivers
        for cv in self.cvs:
            for P in ("bmqv", "bsts", "bpace", "bauth"):
                for kca, kcb in self.flagsets(P):
                    s = self.base(P, cv, kca, kcb, tag="flags")
                    scs.append(s)
                    if P != "bauth":
                        scs.append(s.with_mode("r"))
        # 2. hellos: none / only A / only B / both, all pairs of lengths
        pairs = [(a, b) for a in HELLO_LENS for b in HELLO_LENS]
        combos = [(P, cv) for P in ("bmqv", "bsts", "bpace", "bauth") for cv in self.cvs]
        self.rng.shuffle(combos)
        j = 0
        for la, lb in pairs:
            for P, cv in (combos if th else [combos[j % len(combos)]]):
                kca, kcb = self.rng.choice(self.flagsets(P))
                s = self.base(P, cv, kca, kcb, ha=self.rb(la), hb=self.rb(lb), tag="hello:both")
                scs.append(s if (P == "bauth" or j % 2) else s.with_mode("r"))
                self.count("hello:both")
            j += 1
        for ln in HELLO_LENS:
            for which in ("a", "b"):
                P, cv = combos[j % len(combos)]
                j += 1
                kca, kcb = self.rng.choice(self.flagsets(P))
                s = self.base(P, cv, kca, kcb, ha=self.rb(ln) if which == "a" else None, hb=self.rb(ln) if which == "b" else None, tag="hello:only-" + which)
                scs.append(s if (P == "bauth" or j % 2) else s.with_mode("r"))
                self.count("hello:only-" + which)
        # 3. generator tapes
        for cv in self.cvs if th else [self.cvs[0], self.rng.choice(self.cvs[1:])]:
            for P in ("bmqv", "bsts", "bpace", "bauth"):
                for kind in ("one", "q-1", "reject", "short"):
                    kca, kcb = self.rng.choice(self.flagsets(P))
                    s = self.base(P, cv, kca, kcb, tapes=(kind, "random") if self.rng.random() < 0.5 else ("random", kind), tag="tape:" + kind)
                    scs.append(s)
                    self.count("tape:" + kind)
        # an exhausted tape: zzRandNZMod draws zeros 65 times -> ERR_BAD_RNG (not an honest run)
        cv = self.cvs[0]
        for P in ("bmqv", "bsts", "bauth"):
            kca, kcb = self.flagsets(P)[-1]
            s = self.base(P, cv, kca, kcb, tag="tape:empty")
            s.tb, s.honest, s.expect = b"", False, ("step", "B2", BAD_RNG)
            scs.append(s)
        # 3b. constructed: the long-term key of A (of B) chosen so that s = u - (2^l + t)d = 0 mod q in BMQV (K = O => K <- G)
        if self.run_c:
            for cv in self.cvs if th else [self.cvs[self.ctx.seed % 3]]:
                for side in ("a", "b"):
                    ua, ub, dd = self.scalar(cv), self.scalar(cv), self.scalar(cv)
                    Va, Vb = cv.mul(ua, cv.G), cv.mul(ub, cv.G)
                    h = unh(self.run_c(["hash " + hx(cv.n2b(Va[0]) + cv.n2b(Vb[0]))])[0])
                    t = int.from_bytes(h[: cv.no // 2], "little")
                    inv = pow((1 << cv.l) + t, -1, cv.q)
                    da, db = (ua * inv % cv.q, dd) if side == "a" else (dd, ub * inv % cv.q)
                    kca, kcb = self.rng.choice(self.flagsets("bmqv"))
                    s = self.base("bmqv", cv, kca, kcb, keys=(da, db), tag="s=0:" + side)
                    s.ta, s.tb = cv.n2b(ua), cv.n2b(ub)
                    s.honest = FIX1_APPLIED
                    scs += [s, s.with_mode("r")]
                    self.count("constructed:s=0")
        # 4. certificates longer than 512 octets: M2 / M3 of BSTS arrive in >= 2 blocks through the drivers
        for cv in self.cvs:
            no = cv.no
            for la, lb in [(520 + self.rng.randrange(0, 40), 2 * no + 3), (2 * no, 530 + self.rng.randrange(0, 30)),
                           (1024 - 3 * no - 8 + 1, 512 - no - 8 - 1), (600, 700)]:
                s = self.base("bsts", cv, 1, 1, certlen=(la, lb), tag="longcert")
                scs.append(s.with_mode("r"))
                if th or cv.ci == 0:
                    scs.append(s)
                self.count("longcert")
        cv = self.rng.choice(self.cvs)
        s = self.base("bmqv", cv, 1, 1, certlen=(530, 640), tag="longcert")
        scs += [s, s.with_mode("r")]
        s = self.base("bauth", cv, 1, 1, certlen=(530, 640), tag="longcert")
        scs.append(s)
        # a message of exactly 512 octets cannot be delimited by the read_i contract: both sides of the
        # comparison must report the same dead end (not an honest run for the oracle)
        cv = self.cvs[0]
        s = self.base("bsts", cv, 1, 1, certlen=(512 - 3 * cv.no - 8, 2 * cv.no), mode="r", tag="block=512")
        s.honest = False
        scs.append(s)
        # 5. flags outside the admitted sets, flags = 2
        cv = self.rng.choice(self.cvs)
        for P, fl, exp in [("bsts", (0, 1), BAD_INPUT), ("bsts", (1, 0), BAD_INPUT), ("bsts", (2, 1), BAD_INPUT), ("bsts", (1, 2), BAD_INPUT),
                           ("bauth", (0, 1), BAD_INPUT), ("bauth", (2, 1), BAD_INPUT), ("bauth", (0, 0), BAD_INPUT)]:
            s = self.base(P, cv, fl[0], fl[1], tag="flags:bad")
            s.honest, s.expect = False, ("start", exp)
            scs.append(s)
            if P == "bsts":
                scs.append(s.with_mode("r"))
        for P, fl in [("bmqv", (2, 0)), ("bmqv", (0, 2)), ("bpace", (2, 2)), ("bauth", (1, 2))]:
            s = self.base(P, cv, fl[0], fl[1], tag="flags:2")
            scs.append(s)
            if P != "bauth":
                scs.append(s.with_mode("r"))
        # 6. certificates that must be refused: callback error, too short, key off the curve / out of range
        for P in ("bmqv", "bsts", "bauth"):
            cv = self.rng.choice(self.cvs)
            no = cv.no
            kca, kcb = self.flagsets(P)[-1]
            for lab, mk, code in [("cb-sig", lambda c: b"\xee" + c, BAD_SIG), ("short", lambda c: c[-(2 * no - 1):], BAD_CERT),
                                  ("offcurve", lambda c: c[:-1] + bytes([c[-1] ^ 1]), BAD_CERT), ("x=p", lambda c: c[:-2 * no] + cv.n2b(cv.p) + c[-no:], BAD_CERT),
                                  ("zero", lambda c: c[:-2 * no] + bytes(2 * no), BAD_CERT)]:
                for side in ("a", "b"):
                    s = self.base(P, cv, kca, kcb, tag="cert:" + lab)
                    if side == "a":
                        s.ca = mk(s.ca)
                    else:
                        s.cb = mk(s.cb)
                    s.honest, s.expect = False, ("start", code)
                    scs.append(s)
                    self.count("cert:" + lab)
        # 7. what a party holds for its peer differs from what the peer uses (BMQV: certificate is hashed; BAUTH: certt)
        for P in ("bmqv", "bauth"):
            for cv in self.cvs if th else [self.rng.choice(self.cvs)]:
                for kca, kcb in self.flagsets(P):
                    for which in (0, 1):
                        s = self.base(P, cv, kca, kcb, tag="peer-cert")
                        other = self.cert(cv, self.scalar(cv), len(s.ca if which == 0 else s.cb))
                        same_key = (s.ca if which == 0 else s.cb)
                        # same public key, other certificate text: detected by BMQV only (it hashes the certificates)
                        same_key = bytes([same_key[0] ^ 1]) + same_key[1:] if (len(same_key) > 2 * cv.no and P == "bmqv") else None
                        alt = other if (same_key is None or self.rng.random() < 0.5) else same_key
                        s.x = (alt, s.cb) if which == 0 else (s.ca, alt)
                        s.honest, s.expect = False, ("detect",)
                        if P == "bauth" and which == 1:
                            continue
                        scs.append(s)
                        if P == "bmqv" and self.rng.random() < 0.5:
                            scs.append(s.with_mode("r"))
                        self.count("peer-cert")
        # 8. mismatched long-term secrets: passwords (BPACE), private key not matching the own certificate
        for cv in self.cvs if th else [self.cvs[0], self.rng.choice(self.cvs[1:])]:
            for kca, kcb in self.flagsets("bpace"):
                s = self.base("bpace", cv, kca, kcb, tag="pwd-mismatch")
                s.kb = s.ka + b"\x00" if self.rng.random() < 0.5 else self.rb(len(s.ka) or 1)
                if s.kb == s.ka:
                    s.kb = s.ka + b"x"
                s.honest, s.expect = False, ("detect",)
                scs += [s, s.with_mode("r")]
                self.count("pwd-mismatch")
            for P in ("bmqv", "bsts", "bauth"):
                for kca, kcb in self.flagsets(P):
                    for side in ("a", "b"):
                        if P == "bauth" and kcb == 0 and side == "b":
                            continue      # the token's key is not used without kcb: nothing to detect
                        s = self.base(P, cv, kca, kcb, tag="key-mismatch")
                        if side == "a":
                            s.ka = cv.n2b(self.scalar(cv))
                        else:
                            s.kb = cv.n2b(self.scalar(cv))
                        s.honest, s.expect = False, ("detect",)
                        scs.append(s)
                        self.count("key-mismatch")
        return scs

    # ---- stage 2: tampering, built from the messages of the implementation's honest runs
    def pick_positions(self, ln, budget):
        if self.thorough or ln <= budget:
            return list(range(ln))
        s = {0, ln - 1}
        while len(s) < budget:
            s.add(self.rng.randrange(ln))
        return sorted(s)

    def point_subs(self, cv, ptb):
        """(label, octets) substitutions for a transmitted point"""
        no, p = cv.no, cv.p
        x, y = cv.unpt(ptb)
        out = [("offcurve", cv.n2b(x) + cv.n2b((y + 1) % p)), ("x=p", cv.n2b(p) + cv.n2b(y)), ("y=p", cv.n2b(x) + cv.n2b(p)),
               ("x=max", b"\xff" * no + cv.n2b(y)), ("y=max", cv.n2b(x) + b"\xff" * no), ("zero", bytes(2 * no)),
               ("y=0", cv.n2b(x) + bytes(no)), ("neg", cv.n2b(x) + cv.n2b((p - y) % p)),
               ("other", cv.pub(self.scalar(cv))), ("G", cv.pt(cv.G)), ("negG", cv.n2b(0) + cv.n2b(p - cv.G[1]))]
        # a point of the quadratic twist (x with x^3 + ax + b a non-residue; any y)
        xt = self.rng.randrange(p)
        while pow((xt * xt * xt + cv.a * xt + cv.b) % p, (p - 1) // 2, p) != p - 1:
            xt = (xt + 1) % p
        out.append(("twist", cv.n2b(xt) + cv.n2b(self.rng.randrange(p))))
        return [(l, v) for l, v in out if v != ptb]

    def tampers_for(self, s, msgs, full):
        """[(tamper token, label, k)] for a scenario whose honest messages are msgs[1..]"""
        cv, no = s.cv, s.cv.no
        ts = []
        for k, m in msgs.items():
            if len(m) == 0:
                continue
            for off, ln, kind in layout(s, k, len(m)):
                budget = {"point": 10 if full else 3, "tag": 8 if full else 2, "enc": 8 if full else 3, "wrap": 8 if full else 3, "rt": 4 if full else 2}[kind]
                for i in self.pick_positions(ln, budget):
                    v = m[off + i] ^ self.rng.choice([1, 2, 4, 8, 16, 32, 64, 128, 255])
                    ts.append(("%d:%d:%02x" % (k, off + i, v), "octet:" + kind, k))
                if kind == "point":
                    for lab, sub in self.point_subs(cv, m[off:off + 2 * no]):
                        ts.append(("%d:%d:%s" % (k, off, sub.hex()), lab, k))
            if (s.P == "bsts" and k in (2, 3)) or (s.P == "bauth" and k == 3 and s.mode == "s"):
                lo = 3 * no + 8 if (s.P == "bsts" and k == 2) else no + 8
                for lab, v in [("trunc", m[:-1]), ("ext", m + b"\x00"), ("len-min", m[:lo]), ("len-min+1", m[:lo + 1]), ("len-min-1", m[:lo - 1]),
                               ("drop-first", m[1:])]:
                    if v != m and len(v) > 0:
                        ts.append(("%d:=:%s" % (k, v.hex()), lab, k))
        return ts

    def stage2(self, scs, outs):
        lines, meta = [], []
        seen = {}
        for s, o in zip(scs, outs):
            if not s.honest or s.x or o.startswith("CRASH"):
                continue
            key = (s.P, s.cv.ci, s.kca != 0, s.kcb != 0, s.mode)
            n = seen.get(key, 0)
            # one fully tampered scenario per (protocol, curve, flags) in step mode, lighter ones otherwise
            if s.mode == "s":
                if n >= (2 if (self.thorough and s.cv.ci == 0) else 1) or s.tag in ("longcert",) and not self.thorough and s.P != "bsts":
                    continue
                d = parse_steps(split_line(o)[0])
                msgs = {i + 1: unh(st[2]) for i, st in enumerate(d["steps"]) if st[1] == 0 and i + 1 < s.nsteps()}
                full = self.thorough or s.cv.ci == 0
            else:
                if n >= 1 or (not self.thorough and s.cv.ci != (self.ctx.seed % 3) and s.tag != "longcert"):
                    continue
                d = parse_run(split_line(o)[0])
                ba, ab = d.get("ba", []), d.get("ab", [])
                msgs = {}
                for i, m in enumerate(ba):
                    msgs[1 + 2 * i] = unh(m)
                for i, m in enumerate(ab):
                    msgs[2 + 2 * i] = unh(m)
                full = False
            if not msgs:
                continue
            seen[key] = n + 1
            ts = self.tampers_for(s, msgs, full)
            for i in range(0, len(ts), MAXT):
                chunk = ts[i:i + MAXT]
                lines.append(s.head() + " " + " ".join(t[0] for t in chunk))
                meta.append((s, chunk))
            for _, lab, k in ts:
                self.count("tamper:%s" % lab.split(":")[0])
        return lines, meta


# ------------------------------------------------------------------ search oracle: the property on the implementation
def exempt_neg(s, k):
    """-P in place of P is not an alteration the protocol's equations can see where only x-coordinates enter:
    BPACE (Va in M2, Vb in M3); BAUTH M1 (Vct) unless the token authenticates itself (kcb)"""
    return (s.P == "bpace" and k in (2, 3)) or (s.P == "bauth" and k == 1 and s.kcb == 0)


class Search:
    def __init__(self):
        self.fail = []
        self.stats = {}

    def cnt(self, k):
        self.stats[k] = self.stats.get(k, 0) + 1

    def report(self, key, line, res, want, what):
        self.fail.append((key, line, res, want, what))

    def detect_steps(self, d):
        if any(e != 0 for _, e, _ in d["steps"]):
            return "error"
        ka, kb = d["keys"]
        if ka != "-" and kb != "-" and ka != kb:
            return "keys-differ"
        return None

    def detect_run(self, d):
        if d["a"][0] != 0 or d["b"][0] != 0:
            return "error"
        if d["a"][1] != d["b"][1]:
            return "keys-differ"
        return None

    def honest(self, s, line, res):
        if res.startswith("CRASH"):
            return self.report("crash:" + s.P, line, res, "no sanitizer report", "the library crashed on a scenario")
        if s.mode == "s":
            d = parse_steps(res)
            if s.expect and s.expect[0] == "start":
                if d["start"] is None or s.expect[1] not in d["start"]:
                    self.report("%s:start:%s" % (s.P, s.tag), line, res, "Start returns %d" % s.expect[1], "Start accepted / mis-reported inadmissible settings or certificate")
                return
            if s.expect and s.expect[0] == "step":
                if not d["steps"] or d["steps"][-1][:2] != (s.expect[1], s.expect[2]):
                    self.report("%s:%s" % (s.P, s.tag), line, res, "%s=%d" % (s.expect[1], s.expect[2]), "wrong result for this scenario")
                return
            if s.expect and s.expect[0] == "detect":
                if d["start"] != (0, 0) or self.detect_steps(d) is None:
                    self.report("%s:%s:kca=%d,kcb=%d" % (s.P, s.tag, s.kca, s.kcb), line, res, "an error code or different keys",
                                "mismatched secrets / certificates: no party reports an error and both hold the same key")
                else:
                    self.cnt("mismatch:" + self.detect_steps(d))
                return
            if not s.honest:
                return
            ok = d["start"] == (0, 0) and len(d["steps"]) == s.nsteps() and all(e == 0 for _, e, _ in d["steps"]) and \
                d["keys"] and d["keys"][0] == d["keys"][1] and len(d["keys"][0]) == 64
            if not ok:
                self.report("%s:honest:%s" % (s.P, s.tag), line, res, "every code 0 and keyA == keyB", "an honest run fails or the two keys differ")
            exp_l = (s.P == "bmqv" and s.kcb == 0) or (s.P == "bpace" and s.kca == 0) or (s.P == "bauth" and s.kcb == 0)
            if exp_l and d["L"] != BAD_LOGIC:
                self.report("%s:confirm-step-off" % s.P, line, res, "L=%d" % BAD_LOGIC, "the confirmation step that the flags switch off does not answer ERR_BAD_LOGIC")
            self.cnt("honest:" + s.P)
        else:
            d = parse_run(res)
            if s.expect and s.expect[0] == "start":
                if s.expect[1] not in (d["a"][0], d["b"][0]):
                    self.report("%s:run-start:%s" % (s.P, s.tag), line, res, "RunA/RunB return %d" % s.expect[1], "drivers accept inadmissible settings")
                return
            if s.expect and s.expect[0] == "detect":
                if self.detect_run(d) is None:
                    self.report("%s:run:%s:kca=%d,kcb=%d" % (s.P, s.tag, s.kca, s.kcb), line, res, "an error code or different keys",
                                "mismatched secrets / certificates through RunA/RunB: same key, no error")
                return
            if not s.honest:
                return
            if not (d["a"][0] == 0 and d["b"][0] == 0 and d["a"][1] == d["b"][1] and len(d["a"][1]) == 64):
                self.report("%s:run-honest:%s" % (s.P, s.tag), line, res, "RunA = RunB = 0 and keyA == keyB", "RunA/RunB fail on an honest run or the keys differ")
            self.cnt("honest-run:" + s.P)

    def steps_vs_run(self, s, line, res_s, res_r):
        """driver = steps: same messages, same keys"""
        ds, dr = parse_steps(res_s), parse_run(res_r)
        if ds["start"] != (0, 0):
            return
        ms = [st[2] for st in ds["steps"] if st[1] == 0 and st[2] != "-"]
        mr = [None] * (len(dr["ba"]) + len(dr["ab"]))
        ok = True
        for i, m in enumerate(dr["ba"]):
            if 2 * i < len(mr):
                mr[2 * i] = m
        for i, m in enumerate(dr["ab"]):
            if 2 * i + 1 < len(mr):
                mr[2 * i + 1] = m
        if ms != mr or (ds["keys"][0], ds["keys"][1]) != (dr["a"][1], dr["b"][1]):
            self.report("%s:steps-vs-drivers" % s.P, line, res_r, "messages %s keys %s" % (ms, ds["keys"]), "RunA/RunB differ from running the steps by hand")
        self.cnt("steps=drivers")

    def tampered(self, s, line, parts, chunk):
        for (txt, res), (tok, lab, k) in zip(parts, chunk):
            if res.startswith("skip"):
                self.cnt("tamper-skipped")
                continue
            if s.mode == "s":
                d = parse_steps(res)
                if not d["steps"]:
                    continue
                det = self.detect_steps(d)
                first = d["steps"][0]
            else:
                d = parse_run(res)
                det = self.detect_run(d)
                first = None
            if lab in INVALID_KINDS:
                if s.mode == "s" and first[1] != BAD_POINT:
                    self.report("%s:M%d:%s" % (s.P, k, lab), line, "%s>%s" % (txt, res), "%s=%d" % (first[0], BAD_POINT),
                                "a point that is off the curve / out of the field / zero is not rejected with ERR_BAD_POINT")
                elif s.mode == "r" and BAD_POINT not in (d["a"][0], d["b"][0]):
                    self.report("%s:run:M%d:%s" % (s.P, k, lab), line, "%s>%s" % (txt, res), "ERR_BAD_POINT from the receiver", "invalid point not rejected by the driver")
                self.cnt("invalid-point-rejected")
                continue
            if det is None:
                if lab == "neg" and exempt_neg(s, k):
                    self.cnt("neg-not-detectable")
                    continue
                self.report("%s:%sM%d:%s:kca=%d,kcb=%d" % (s.P, "run:" if s.mode == "r" else "", k, lab, s.kca != 0, s.kcb != 0), line, "%s>%s" % (txt, res),
                            "an error code or different keys", "an altered message is accepted: no party reports an error and both hold the same key")
            else:
                self.cnt("tamper:" + det)


def diff_par(ctx, exe, lines, label, nproc=6):
    """ctx.diff_run with the Lean side split over several driver processes (the model's affine arithmetic is slow)"""
    import concurrent.futures as cf
    c_out, c_err, rc = ctx.run_lines(exe, lines)
    if rc != 0 or len(c_out) != len(lines):
        k = min(len(c_out), len(lines) - 1)
        msg = c_err.strip().split("\n") or ["?"]
        summ = [l for l in msg if "ERROR" in l or "SUMMARY" in l or "Assertion" in l or "runtime error" in l][:3]
        c_out = c_out[:k] + ["CRASH(rc=%d): %s" % (rc, " | ".join(summ) or msg[-1][:200])]
        lines = lines[:k + 1]
    if not os.path.exists(ctx.driver()):
        return [], c_out, None
    n = max(1, min(nproc, len(lines) // 4))
    chunks = [lines[i::n] for i in range(n)]
    with cf.ThreadPoolExecutor(n) as ex:
        res = list(ex.map(lambda ch: ctx.run_lines(ctx.driver(), ch), chunks))
    l_out = [None] * len(lines)
    for i, (out, err, lrc) in enumerate(res):
        if lrc != 0 or len(out) != len(chunks[i]):
            raise RuntimeError("Lean driver failed (rc=%d) on %s: %s" % (lrc, label, err[-500:]))
        l_out[i::n] = out
    mism = [(i, lines[i], c_out[i], l_out[i]) for i in range(len(lines)) if c_out[i] != l_out[i]]
    ctx.cov["ops_" + label] = len(lines)
    ctx.cov["ops_total"] = ctx.cov.get("ops_total", 0) + len(lines)
    return mism, c_out, l_out


def first_diff(c, l):
    """the first differing ' | ' part of two output lines"""
    pc, pl = c.split(" | "), (l or "").split(" | ")
    for a, b in zip(pc, pl):
        if a != b:
            return a[:600], b[:600]
    return c[:300], (l or "")[:300]


def fmt_replay(key, line, got, want, what):
    return "\n".join(["# property C04 key=%s : %s" % (key, what), "# replay with ./check C04 --replay <this file>",
                      "op %s" % line, "impl %s" % got, "expected %s" % want]) + "\n"


def corpus_lines():
    if not os.path.exists(CORPUS):
        return []
    return [l.strip() for l in open(CORPUS) if l.strip() and not l.startswith("#")]


def misc_ops(ctx, cvs):
    rng = ctx.rng
    rb = lambda n: bytes(rng.getrandbits(8) for _ in range(n))
    ops = []
    for sl, il, num in [(0, 0, 0), (32, 64, 0), (32, 64, 1), (1, 0, 255), (31, 33, 256), (64, 1, 2 ** 32), (5, 5, 2 ** 64 - 1), (33, 17, rng.getrandbits(64))]:
        ops.append("kdf %s %s %d" % (hx(rb(sl)), hx(rb(il)), num))
    for cv in cvs:
        for m in [bytes(cv.no), b"\xff" * cv.no, rb(cv.no), rb(cv.no)] + ([rb(cv.no) for _ in range(6)] if ctx.tier == "thorough" else []):
            ops.append("swu %d %s" % (cv.ci, hx(m)))
    return ops


def run(ctx):
    translator_error = None
    try:
        regen(ctx)
    except Exception as e:
        translator_error = "%s: %s" % (type(e).__name__, e)
    if translator_error:
        proof_ok, log = False, "translator: " + translator_error
        ctx.obligations += [(n, None) for rel in PROPS for n in ctx.theorems_of(rel)]
    else:
        proof_ok, log = ctx.prove(TARGETS, PROPS)
    exe = ctx.cc("harness/c04.c", "asan")
    cvs = curves()
    def run_c(lines):
        out, err, rc = ctx.run_lines(exe, lines)
        if rc != 0 or len(out) != len(lines):
            raise RuntimeError("c04 harness failed on a helper query: " + err[-400:])
        return out

    g = Gen(ctx, cvs, run_c)
    srch = Search()
    all_mism, distinct = [], set()

    def stage(label, lines):
        mism, c_out, l_out = diff_par(ctx, exe, lines, label)
        all_mism.extend(mism)
        distinct.update(p for o in c_out for p in o.split(" | "))
        return c_out

    cl = corpus_lines()
    if cl:
        for line, o in zip(cl, stage("corpus", cl)):
            hon = split_line(o)[0]
            if line.split()[13][0] == "s":
                d = parse_steps(hon)
                ok = d["start"] == (0, 0) and d["steps"] and all(e == 0 for _, e, _ in d["steps"]) and d["keys"] and d["keys"][0] == d["keys"][1] != "-"
                want = "every code 0 and keyA == keyB"
            else:
                d = parse_run(hon) if hon.startswith("R=") else None
                ok = d is not None and d["a"][0] == 0 and d["b"][0] == 0 and d["a"][1] == d["b"][1]
                want = "RunA = RunB = 0 and keyA == keyB"
            if not ok:
                srch.report("corpus:%s" % line.split()[1], line, hon, want, "an honest run of the corpus (a past failure) fails again")
    stage("misc", misc_ops(ctx, cvs))
    # SWU: the point must be on the curve (implementation only)
    scs = g.stage1()
    lines1 = [s.head() for s in scs]
    out1 = stage("stage1", lines1)
    by_head = {}
    for s, line, o in zip(scs, lines1, out1):
        res = split_line(o)[0] if not o.startswith("CRASH") else o
        srch.honest(s, line, res)
        if s.honest and not s.x:
            by_head.setdefault(s.head("s"), {})[s.mode] = (s, line, res)
    for h, d in by_head.items():
        if "s" in d and "r" in d:
            srch.steps_vs_run(d["s"][0], d["r"][1], d["s"][2], d["r"][2])
    scs = scs[:len(out1)]
    lines2, meta2 = g.stage2(scs, out1)
    out2 = stage("stage2", lines2)
    for line, (s, chunk), o in zip(lines2, meta2, out2):
        if o.startswith("CRASH"):
            srch.report("crash:" + s.P, line, o, "no sanitizer report", "the library crashed on a tampered run")
            continue
        hon, parts = split_line(o)
        srch.tampered(s, line, parts, chunk)
    # other build configurations: 32-bit words and the FAST editions must behave identically
    if ctx.tier == "thorough":
        for cfg in ("w32", "fast"):
            exe2 = ctx.cc("harness/c04.c", cfg)
            for lines, outs in ((lines1, out1), (lines2, out2)):
                o2, e2, rc2 = ctx.run_lines(exe2, lines)
                for i, (x, y) in enumerate(zip(outs, o2)):
                    if x != y:
                        a, b = first_diff(y, x)
                        srch.report("cfg-%s" % cfg, lines[i], a, b, "build configuration %s disagrees with the default build" % cfg)
                        break
                ctx.cov["ops_" + cfg] = ctx.cov.get("ops_" + cfg, 0) + len(lines)
    ntam = sum(len(c) for _, c in meta2)
    ctx.cov.update({"scenarios": len(lines1), "tamper_lines": len(lines2), "tampered_runs": ntam, "cases": g.cov, "oracle": srch.stats,
                    "correspondence_disagreements": len(all_mism), "implementation_property_failures": len(srch.fail)})
    ctx.cov["ops_total"] = ctx.cov.get("ops_total", 0) + ntam
    if lines2:
        ctx.samples.append({"op": lines2[len(lines2) // 2][:400], "impl": out2[len(lines2) // 2][:300]})
    ctx.samples.append({"op": lines1[0][:400], "impl": out1[0][:300]})
    seen = set()
    for key, line, got, want, what in srch.fail:
        if key in seen:
            continue
        seen.add(key)
        ctx.violation(key, fmt_replay(key, line, got, want, what), True, "%s\n  op: %s\n  impl: %s\n  expected: %s" % (what, line[:300], got[:300], want[:200]))
    if not srch.fail:
        if not proof_ok:
            errs = "\n".join("# " + l for l in log.split("\n") if "error" in l)[:3000]
            ctx.violation("proof", "# property C04: the theorems no longer check; the implementation-only property tests found no failing input.\n# first errors:\n" + errs,
                          False, "theorems no longer check: " + (translator_error or "; ".join(ctx.cov.get("lake_errors", [])) or log[-300:])[:400])
        elif all_mism:
            i, op, c, l = all_mism[0]
            a, b = first_diff(c, l)
            key = "correspondence:" + (op.split()[1] if len(op.split()) > 1 else "driver")
            ctx.violation(key, fmt_replay(key, op, a, b, "model and implementation disagree; no property failure found on the implementation"),
                          False, "%d lines differ, first: %s\n  impl =%s\n  model=%s" % (len(all_mism), op[:300], a[:300], b[:300]))
    return ctx.finish(
        level="proof",
        assumptions=[
            "theorems are about the code-shaped model over an abstract environment: the group laws (commutative group of prime order q generated by G, "
            "injective point encoding), CFB/ECB/KWP round trips are hypotheses (`Laws`), hash/KRP/MAC/SWU/certificate callback are uninterpreted",
            "`never` = an error, or different keys, or an explicit witness (hash/KRP/MAC collision, discrete-log relation) produced by the theorem",
            "-P in place of P is outside the tamper theorems where only x-coordinates enter (BPACE M2/M3, BAUTH M1 without kcb)",
            "model = code is checked by the correspondence run on the three standard curves, not proved",
            "memIsValid / blobCreate failure / rng == 0 / bignIsOperable branches are not modelled"],
        rule="stage 1: 4 protocols x 3 curves x admissible flags (also flags = 2 and inadmissible flags), hellos none/only A/only B/both with all pairs of lengths "
             "{0,1,5,16,17,32,33}, tapes forcing rejection rounds / scalar 1 / q-1 / exhausted, certificates > 512 octets (multi-block M2/M3 through RunA/RunB), "
             "refused certificates, mismatched passwords / keys / peer certificates; stage 2: for one scenario per (protocol, curve, flags, mode) every field of every "
             "message: single-octet alterations (all positions in the thorough tier, sampled in quick), 12 substitutions per transmitted point (off-curve, >= p, zero, "
             "(x,0), twist, -P, other point, +-G), truncation / extension of variable-length messages. distinct = distinct implementation results",
        distinct=len(distinct))


def replay(ctx, path):
    line = want = impl = None
    for l in open(path):
        if l.startswith("op "):
            line = l[3:].strip()
        elif l.startswith("expected "):
            want = l[9:].strip()
        elif l.startswith("impl "):
            impl = l[5:].strip()
    if not line or line.split()[0] not in ("run", "kdf", "swu", "hash"):
        print("replay file names a theorem/correspondence, not an executable input")
        return 0
    exe = ctx.cc("harness/c04.c", "asan")
    out, err, rc = ctx.run_lines(exe, [line])
    got = out[0] if out and rc == 0 else "CRASH " + err[-300:]
    bad = got.startswith("CRASH")
    shown = got
    if not bad and line.startswith("run"):
        mode = line.split()[13][0]
        hon, parts = split_line(got)
        det = (lambda r: Search().detect_steps(parse_steps(r))) if mode == "s" else (lambda r: Search().detect_run(parse_run(r)))
        # the part of the line the violation was about: a tampered re-run (text before '>') or the honest run
        txt = impl.split(">", 1)[0] if (impl and ">" in impl.split(" ")[0]) else None
        res = dict(parts).get(txt) if txt else hon
        shown = ("%s>%s" % (txt, res)) if txt else hon
        if res is None:
            bad = False
        elif want.startswith("every code 0"):
            d = parse_steps(res)
            bad = not (d["start"] == (0, 0) and d["steps"] and all(e == 0 for _, e, _ in d["steps"]) and d["keys"] and d["keys"][0] == d["keys"][1] != "-")
        elif want.startswith("RunA = RunB"):
            d = parse_run(res)
            bad = not (d["a"][0] == 0 and d["b"][0] == 0 and d["a"][1] == d["b"][1])
        elif want.startswith("an error code or different keys"):
            bad = det(res) is None
        elif want.startswith("L="):
            bad = want not in res.split()
        elif "=" in want and want.split("=")[0] in ("B2", "A3", "B4", "A5", "B6"):
            toks = [t for t in res.split() if t.split("=")[0] in ("B2", "A3", "B4", "A5", "B6")]
            bad = not (toks and toks[0 if txt else -1].startswith(want + ":"))
        elif want.startswith("ERR_BAD_POINT"):
            d = parse_run(res)
            bad = BAD_POINT not in (d["a"][0], d["b"][0])
        elif want.startswith("Start returns") or want.startswith("RunA/RunB return"):
            bad = (" %s" % want.split()[-1]) not in res.replace("=", " ").replace(",", " ").replace(":", " ")
        elif want.startswith("messages "):
            bad = False      # steps-vs-drivers: needs both lines; re-run the check
        else:
            bad = got != want
    print("op       %s\nimpl     %s\nexpected %s" % (line[:1500], shown[:1500], want))
    print("property %s on the current tree" % ("VIOLATED" if bad else "holds"))
    return 1 if bad else 0


# ------------------------------------------------------------------ C19: a quick-sized stream for the configuration replay
def c19_stream():
    """(harness, driver, fn, uses_bash) for props/C19.py: fn(ctx, exe, w) -> op lines.  About 20 honest scenarios (every
    protocol x curve with rotating flags, BAUTH with kcb on l = 192 / 256, a third through RunA/RunB, the BMQV s = 0
    witness and a constructed one, hellos of unequal lengths, a certificate > 512 octets) and 4 lines of tampered re-runs
    built from the messages of `exe` (the reference build): about 80 protocol runs (<= 400) -- C19 feeds the stream to the
    Lean model in ONE process, and the model's affine arithmetic needs 30-100 ms per scalar multiplication.  Everything is
    octet-level: nothing depends on the machine-word size `w`."""

    class _Shim:
        def __init__(self, ctx):
            self.rng, self.tier, self.seed = ctx.rng, "quick", ctx.seed

    def fn(ctx, exe, w):
        def run_c(lines):
            out, err, rc = ctx.run_lines(exe, lines)
            if rc != 0 or len(out) != len(lines):
                raise RuntimeError("c04 harness failed while building the C19 stream: " + err[-300:])
            return out

        cvs = curves()
        g = Gen(_Shim(ctx), cvs, run_c)
        rng = ctx.rng
        scs = []
        # the Lean model needs 30-100 ms per scalar multiplication and C19 runs it in one process: one flag setting per
        # (protocol, curve), rotating through the admissible settings; BAUTH with kcb on l = 192 and l = 256
        for ci, cv in enumerate(cvs):
            for pi, P in enumerate(("bmqv", "bsts", "bpace", "bauth")):
                fs = g.flagsets(P)
                kca, kcb = (1, 1) if (P == "bauth" and ci > 0) else fs[(ci + pi) % len(fs)]
                s = g.base(P, cv, kca, kcb, tag="flags")
                scs.append(s if (P == "bauth" or (ci + pi) % 3) else s.with_mode("r"))
        # hellos of unequal lengths (incl. only one of them), every protocol
        for i, (la, lb) in enumerate([(5, 16), (None, 9), (17, 0), (33, 32)]):
            P = ("bauth", "bmqv", "bpace", "bsts")[i % 4]
            cv = cvs[(i + 1) % 3]
            kca, kcb = g.flagsets(P)[-1]
            s = g.base(P, cv, kca, kcb, ha=None if la is None else g.rb(la), hb=None if lb is None else g.rb(lb), tag="hello")
            scs.append(s if (P == "bauth" or i % 2) else s.with_mode("r"))
        # multi-block M2 / M3 through the drivers
        scs.append(g.base("bsts", cvs[rng.randrange(3)], 1, 1, certlen=(520 + rng.randrange(40), 530 + rng.randrange(40)), mode="r", tag="longcert"))
        # constructed BMQV run with s = 0
        cv = cvs[1]
        ua, ub, dd = g.scalar(cv), g.scalar(cv), g.scalar(cv)
        Va, Vb = cv.mul(ua, cv.G), cv.mul(ub, cv.G)
        t = int.from_bytes(unh(run_c(["hash " + hx(cv.n2b(Va[0]) + cv.n2b(Vb[0]))])[0])[: cv.no // 2], "little")
        s = g.base("bmqv", cv, 1, 1, keys=(ua * pow((1 << cv.l) + t, -1, cv.q) % cv.q, dd), tag="s=0")
        s.ta, s.tb = cv.n2b(ua), cv.n2b(ub)
        scs.append(s)
        lines = corpus_lines() + [s.head() for s in scs]
        # tampered re-runs: one light scenario per protocol (+ BSTS through the drivers), <= 30 tampers each
        picks, seen = [], set()
        for s in scs:
            key = (s.P, s.mode)
            if s.tag == "flags" and key not in seen and s.mode == "s" and (s.P != "bauth" or (s.kcb and s.cv.ci > 0)):
                seen.add(key)
                picks.append(s)
        outs = run_c([s.head() for s in picks])
        budget = max(0, 400 - len(lines)) // max(1, len(picks)) - 1
        for s, o in zip(picks, outs):
            hon = split_line(o)[0]
            if s.mode == "s":
                d = parse_steps(hon)
                msgs = {i + 1: unh(st[2]) for i, st in enumerate(d["steps"]) if st[1] == 0 and i + 1 < s.nsteps()}
            else:
                d = parse_run(hon)
                msgs = {}
                for i, m in enumerate(d.get("ba", [])):
                    msgs[1 + 2 * i] = unh(m)
                for i, m in enumerate(d.get("ab", [])):
                    msgs[2 + 2 * i] = unh(m)
            ts = g.tampers_for(s, msgs, False)
            rng.shuffle(ts)
            ts = ts[:min(14, MAXT, budget)]
            if ts:
                lines.append(s.head() + " " + " ".join(t[0] for t in ts))
        lines += ["kdf %s %s %d" % (hx(g.rb(32)), hx(g.rb(64)), n) for n in (0, 1, 2 ** 40)]
        return lines

    return ("harness/c04.c", "drv_c04", fn, False)

"""C12 generator + independent oracle for the parameter / key validators (bign, bign96, g12s, dstu, stb99, pfok, bels)
and the generic curve-group checks (ecpgroup / ec2group ops of harness/c12.c).

The standard parameter sets are read from the real library (`std …` ops) on every run; every set must validate and
every perturbation is judged by an independent recomputation of the standard's condition list (C12_arith)."""
import collections
from C12_arith import *

NAMES = {
    "bign": ["1.2.112.0.2.0.34.101.45.3.1", "1.2.112.0.2.0.34.101.45.3.2", "1.2.112.0.2.0.34.101.45.3.3"],
    "bign96": ["1.2.112.0.2.0.34.101.45.3.0"],
    "g12s": ["1.2.643.2.2.35.0", "1.2.643.2.2.35.1", "1.2.643.2.2.35.2", "1.2.643.2.2.35.3", "1.2.643.2.9.1.8.1",
             "1.2.643.7.1.2.1.2.0", "1.2.643.7.1.2.1.2.1", "1.2.643.7.1.2.1.2.2"],
    "dstu": ["1.2.804.2.1.1.1.1.3.1.1.1.2.%d" % i for i in range(10)],
    "stb99": ["test", "1.2.112.0.2.0.1176.2.3.3.1", "1.2.112.0.2.0.1176.2.3.6.1", "1.2.112.0.2.0.1176.2.3.10.1"],
    "pfok": ["test", "1.2.112.0.2.0.1176.2.3.3.2", "1.2.112.0.2.0.1176.2.3.6.2", "1.2.112.0.2.0.1176.2.3.10.2"],
}
STB99_LR = None   # filled from the translator (x_c12.extract_lr)
PFOK_LR = None


class Op:
    __slots__ = ("line", "expect", "klass", "W", "note")

    def __init__(self, line, expect, klass, W=0, note=""):
        self.line, self.expect, self.klass, self.W, self.note = line, expect, klass, W, note


def lev(h):
    return int.from_bytes(bytes.fromhex(h), "little") if h != "-" else 0


def hx(v, n):
    return (v % (1 << (8 * n))).to_bytes(n, "little").hex()


def flip(h, bit):
    b = bytearray.fromhex(h)
    b[bit // 8] ^= 1 << (bit % 8)
    return b.hex()


def load_std(run):
    """run(list of op lines) -> output lines of the harness (64-bit build)"""
    std = collections.OrderedDict()
    for sch, ns in NAMES.items():
        outs = run(["std %s %s" % (sch, n) for n in ns])
        for n, o in zip(ns, outs):
            w = o.split()
            if w[0] != "0":
                raise RuntimeError("standard parameters %s %s not loaded: %s" % (sch, n, o[:80]))
            std[(sch, n)] = w[1:]
    bels = {}
    for ln in (16, 24, 32):
        outs = run(["belsstd %d %d" % (ln, i) for i in range(17)])
        bels[ln] = [o.split()[1] for o in outs]
    return std, bels


# ------------------------------------------------------------------------------------------ bign
def bign_ops(rng, tier, sch, f, klass_prefix):
    """f = [l, p, a, b, seed, q, yG]; every changed set must be rejected (p, a, seed determine b; G determines q)"""
    ops = []
    l = int(f[0])
    no = 24 if sch == "bign96" else l // 4
    op = sch + "val"
    if sch == "bign96":
        # bign96ParamsStd leaves the unused octets of the structure unwritten and bign96 ignores them
        f = [f[0]] + [x[: 2 * (8 if i == 3 else 24)] + ("" if i == 3 else "00" * 40) for i, x in enumerate(f[1:])]

    def add(fields, k, exp=None):
        same = list(fields) == list(f)
        ops.append(Op(op + " " + " ".join(fields), "0" if same else ("502" if exp is None else exp), "%s:%s" % (klass_prefix, k)))
    add(f, "std")
    names = ["l", "p", "a", "b", "seed", "q", "yG"]
    nflip = (3 if l <= 128 else 1) if tier == "quick" else 24
    for i in range(1, 7):
        width = 8 if i == 4 else no
        bits = [0, 1, 8 * width - 1, 8 * width - 2] + [rng.randrange(8 * width) for _ in range(nflip)]
        for b in sorted(set(bits)):
            g = list(f)
            g[i] = flip(f[i], b)
            add(g, "flip-" + names[i])
        if i != 4 and no < 64:
            # a bit in the unused tail of the field
            g = list(f)
            g[i] = flip(f[i], 8 * no + rng.randrange(8 * (64 - no)))
            add(g, "tail-" + names[i], "0" if sch == "bign96" else None)
    small = tier != "quick" or l <= 128       # quick tier: the full list on the smallest level, the decisive ones elsewhere
    for i, j in (((1, 5), (2, 3), (3, 6), (5, 6), (1, 2)) if small else ((1, 5), (5, 6))):
        g = list(f)
        g[i], g[j] = f[j], f[i]
        add(g, "swap")
    p, a, b, q, y = lev(f[1]), lev(f[2]), lev(f[3]), lev(f[5]), lev(f[6])
    for k, qq in (("2q", 2 * q), ("q+2", q + 2), ("q-2", q - 2), ("3q", 3 * q), ("q=p", p), ("q+1", q + 1), ("q=0", 0), ("q=1", 1),
                  ("composite", (q | 1) * 3 % (1 << (8 * no)) | (1 << (8 * no - 1)) | 1)):
        if not small and k not in ("2q", "q+2", "q=p", "composite"):
            continue
        g = list(f)
        g[5] = hx(qq, 64) if qq < (1 << 512) else hx(qq % (1 << 512), 64)
        add(g, "q:" + k)
    for k, yy in (("neg", p - y), ("y+1", y + 1), ("y=0", 0), ("y>=p", y + p), ("y=1", 1)):
        if not small and k not in ("neg", "y+1"):
            continue
        g = list(f)
        g[6] = hx(yy, 64)
        add(g, "yG:" + k)
    for k, ll in (("l=0", 0), ("l=127", l - 1), ("l+64", l + 64), ("l=512", 512), ("l=96", 96), ("l=128", 128), ("l=256", 256)):
        g = list(f)
        g[0] = str(ll)
        if ll != l and (small or ll in (l - 1, 128, 256)):
            add(g, "l")
    for k, aa, bb in (("a=0", 0, b), ("b=0", a, 0), ("a>=p", a + p, b), ("b>=p", a, b + p), ("a+1", a + 1, b), ("b+1", a, b + 1)):
        if not small and k not in ("a+1", "b+1"):
            continue
        g = list(f)
        g[2], g[3] = hx(aa, 64), hx(bb, 64)
        add(g, "ab:" + k)
    return ops


def bign_key_ops(rng, tier, sch, f, prefix):
    ops = []
    l = int(f[0])
    no = 24 if sch == "bign96" else l // 4
    if sch == "bign96":
        f = [f[0]] + [x[: 2 * (8 if i == 3 else 24)] + ("" if i == 3 else "00" * 40) for i, x in enumerate(f[1:])]
    p, a, b, q, y = lev(f[1]), lev(f[2]), lev(f[3]), lev(f[5]), lev(f[6])
    E = Ecp(p, a, b)
    G = (0, y)
    par = " ".join(f)

    def pub(x, yy, k, exp):
        ops.append(Op("%spub %s %s" % (sch, par, hx(x, no) + hx(yy, no)), exp, "%s:pub:%s" % (prefix, k)))

    def kp(d, x, yy, k, exp):
        ops.append(Op("%skp %s %s %s" % (sch, par, hx(d, no), hx(x, no) + hx(yy, no)), exp, "%s:kp:%s" % (prefix, k)))
    # twist: y^2 = x^3 + a x + b has no solution for such x
    cnt = (2 if no <= 32 else 1) if tier == "quick" else 30
    for _ in range(cnt):
        d = rng.randrange(1, q)
        Q = E.mul(d, G)
        pub(Q[0], Q[1], "on-curve", "0")
        pub(Q[0], p - Q[1], "negated", "0")
        pub(Q[0], Q[1] ^ (1 << rng.randrange(8 * no - 1)), "y-bit", "505" if True else None)
        pub(Q[0] ^ (1 << rng.randrange(8 * no - 1)), Q[1], "x-bit", None)
        kp(d, Q[0], Q[1], "genuine", "0")
        kp(d, Q[0], p - Q[1], "negated-y", "505")
        Q2 = E.mul((d + 1) % q or 1, G)
        kp(d, Q2[0], Q2[1], "other-point", "505")
        kp(d, Q[0], Q2[1], "x-right-y-other", "505")
        kp(d, Q2[0], Q[1], "y-right-x-other", "505")
        kp(d, Q[0], Q[1] ^ 1, "y-bit", "505")
        kp(q - d, Q[0], Q[1], "q-d", "505")
        # a point of the twist
        while True:
            x = rng.randrange(p)
            if jacobi(x * x * x + a * x + b, p) == -1:
                break
        pub(x, rng.randrange(p), "twist", "505")
    Gq1 = E.mul(q - 1, G)
    for d, k in ((0, "d=0"), (q, "d=q"), (q + 1, "d=q+1"), ((1 << (8 * no)) - 1, "d=all-ones"), (2 * q if 2 * q < (1 << (8 * no)) else q + 2, "d=2q|q+2")):
        kp(d, 0, y, k, "504")
        # the public key that the out-of-range scalar WOULD produce (d mod q) must not rescue it
        Qd = E.mul(d % q, G) if d % q else None
        if Qd is not None:
            kp(d, Qd[0], Qd[1], k + ",Q=(d mod q)G", "504")
    kp(1, 0, y, "d=1", "0")
    kp(q - 1, Gq1[0], Gq1[1], "d=q-1", "0")
    kp(q - 1, 0, y, "d=q-1,Q=G", "505")
    pub(0, y, "G", "0")
    pub(0, p - y, "-G", "0")
    pub(0, 0, "(0,0)", "505")
    pub(p - 1, y, "x=p-1", None)
    pub(p + 1, y, "x=p+1", "505")
    pub(0, p, "y=p", "505")
    pub(0, p - 1, "y=p-1", None)
    pub(0, y ^ 1, "G-y-bit", "505")
    kp(1, 0, p - y, "d=1,Q=-G", "505")
    kp(q - 1, 0, p - y, "d=q-1,Q=-G", "0")
    kp(2, 0, y, "d=2,Q=G", "505")
    kp(q, 0, p - y, "d=q,Q=-G", "504")
    kp(0, 0, 0, "d=0,Q=(0,0)", "504")
    kp(1, 0, 0, "d=1,Q=(0,0)", "505")
    kp(1, p, y, "d=1,x=p", "505")
    kp(1, 0, y + p if y + p < (1 << (8 * no)) else y ^ 1, "d=1,y+p", "505")
    pub(p, y, "x=p", "505")
    pub(0, y + p if y + p < (1 << (8 * no)) else y, "y+p", "505" if y + p < (1 << (8 * no)) else "0")
    pub((1 << (8 * no)) - 1, y, "x=max", "505")
    # fix expectations of the x-bit class: on the curve?
    for o in ops:
        if o.expect is None and ":pub:" in o.klass:
            w = o.line.split()[-1]
            x, yy = lev(w[:2 * no]), lev(w[2 * no:])
            o.expect = "0" if x < p and yy < p and E.on((x, yy)) else "505"
    return ops


def bign_custom_field_ops(rng, tier):
    """operable parameters over a prime that is NOT of the Crandall form (Montgomery field inside the library):
    key validators only need operable parameters"""
    ops = []
    for l in (128, 192, 256):
        no = l // 4
        for _ in range(1 if tier == "quick" else 4):
            while True:
                p = rng.getrandbits(8 * no) | (1 << (8 * no - 1)) | 3
                if is_prime(p):
                    break
            a = rng.randrange(1, p)
            while True:
                b = rng.randrange(1, p)
                if jacobi(b, p) == 1 and (4 * a ** 3 + 27 * b * b) % p:
                    break
            y = pow(b, (p + 1) // 4, p)
            q = rng.getrandbits(8 * no) | (1 << (8 * no - 1)) | 1
            f = [str(l), hx(p, 64), hx(a, 64), hx(b, 64), "00" * 8, hx(q, 64), hx(y, 64)]
            E = Ecp(p, a, b)
            par = " ".join(f)
            for d in (1, 2, 3, rng.randrange(1, q)):
                Q = E.mul(d, (0, y))
                if Q is None:
                    continue
                ops.append(Op("bignkp %s %s %s" % (par, hx(d, no), hx(Q[0], no) + hx(Q[1], no)), "0", "bign-custom:kp:genuine",
                              note="p is not of the form 2^k - c: Montgomery field (docs/C12.fix-4)"))
                ops.append(Op("bignkp %s %s %s" % (par, hx(d, no), hx(Q[0], no) + hx(p - Q[1], no)), "505", "bign-custom:kp:negated-y"))
                ops.append(Op("bignpub %s %s" % (par, hx(Q[0], no) + hx(Q[1], no)), "0", "bign-custom:pub:on-curve"))
                ops.append(Op("bignpub %s %s" % (par, hx(Q[0], no) + hx((Q[1] + 1) % p, no)), "505", "bign-custom:pub:off-curve"))
            # the parameter validator must reject the set (b is not derived from the seed, q is not the order)
            ops.append(Op("bignval " + par, "502", "bign-custom:val"))
    return ops


# ------------------------------------------------------------------------------------------ g12s
def mov_ok(P, q, thr):
    t = 1
    for _ in range(thr):
        t = t * P % q
        if t == 1:
            return False
    return True


def g12s_expect(f):
    """independent recomputation of the condition list of g12sParamsVal; f = [l, p, a, b, q, n, xP, yP]"""
    l = int(f[0])
    if l not in (256, 512):
        return "502"
    p = lev(f[1][: 2 * (68 * l // 512)])
    no = (p.bit_length() + 7) // 8
    a, b = lev(f[2][: 2 * no]), lev(f[3][: 2 * no])
    q = lev(f[4][: 2 * (l // 8)])
    n = int(f[5]) % (1 << 32)
    x, y = lev(f[6][: 2 * no]), lev(f[7][: 2 * no])
    ok = (p % 2 == 1 and p > 3 and p.bit_length() > (253 if l == 256 else 507) and a < p and b < p and x < p and y < p
          and q != 0 and n != 0 and q.bit_length() > (254 if l == 256 else 508) and q % 2 == 1)
    if not ok:
        return "502"
    if not is_prime(p) or (4 * a ** 3 + 27 * b * b) % p == 0:
        return "502"
    E = Ecp(p, a, b)
    if not E.on((x, y)):
        return "502"
    if n * q == 0 or (n * q - (p + 1)) ** 2 > 4 * p:
        return "502"
    if not is_prime(q) or q == p or not mov_ok(p, q, 31 if l == 256 else 131):
        return "502"
    if E.mul(q, (x, y)) is not None:
        return "502"
    if a == 0 or b == 0:
        return "502"
    return "0"


def g12s_ops(rng, tier, f, prefix, full=True):
    ops = []

    def add(g, k):
        ops.append(Op("g12sval " + " ".join(g), g12s_expect(g), "%s:%s" % (prefix, k)))
    add(f, "std")
    if not full:
        # quick tier, remaining sets: the decisive alterations only
        n0, q0, p0 = int(f[5]), lev(f[4]), lev(f[1])
        for k, i, v in (("cofactor:+1", 5, str(n0 + 1)), ("q:2q", 4, hx(2 * q0, 64)), ("q:q+2", 4, hx(q0 + 2, 64)),
                        ("base:y+1", 7, hx((lev(f[7]) + 1) % p0, 68)), ("flip-b", 3, flip(f[3], 0)), ("flip-p", 1, flip(f[1], 1))):
            g = list(f)
            g[i] = v
            add(g, k)
        return ops
    l = int(f[0])
    p = lev(f[1])
    no = (p.bit_length() + 7) // 8
    a, b, q, n, x, y = lev(f[2]), lev(f[3]), lev(f[4]), int(f[5]), lev(f[6]), lev(f[7])
    names = ["l", "p", "a", "b", "q", "n", "xP", "yP"]
    nflip = 2 if tier == "quick" else 16
    for i in (1, 2, 3, 4, 6, 7):
        width = l // 8 if i == 4 else no
        for bt in sorted(set([0, 8 * width - 1] + [rng.randrange(8 * width) for _ in range(nflip)])):
            g = list(f)
            g[i] = flip(f[i], bt)
            add(g, "flip-" + names[i])
    for k, nn in (("1->2", 2), ("3", 3), ("0", 0), ("n+1", n + 1), ("2^32+n", (1 << 32) + n), ("n-1", max(0, n - 1)), ("4", 4)):
        g = list(f)
        g[5] = str(nn)
        add(g, "cofactor:" + k)
    for k, qq in (("2q", 2 * q), ("q+2", q + 2), ("q-2", q - 2), ("q=p", p), ("q+1", q + 1), ("q=0", 0), ("3q", 3 * q)):
        g = list(f)
        g[4] = hx(qq, 64)
        add(g, "q:" + k)
    E = Ecp(p, a, b)
    P = (x, y)
    for k, Q in (("neg", E.neg(P)), ("2P", E.add(P, P)), ("kP", E.mul(rng.randrange(2, q), P))):
        g = list(f)
        g[6], g[7] = hx(Q[0], 68), hx(Q[1], 68)
        add(g, "base:" + k)
    for k, xx, yy in (("y+1", x, (y + 1) % p), ("x+1", (x + 1) % p, y), ("(0,0)", 0, 0), ("x>=p", x + p, y), ("y>=p", x, y + p)):
        g = list(f)
        g[6], g[7] = hx(xx, 68), hx(yy, 68)
        add(g, "base:" + k)
    for k, aa, bb in (("a=0", 0, b), ("b=0", a, 0), ("a+1", (a + 1) % p, b), ("b+1", a, (b + 1) % p), ("swap", b, a), ("a>=p", a + p, b)):
        g = list(f)
        g[2], g[3] = hx(aa, 68), hx(bb, 68)
        add(g, "ab:" + k)
    for ll in (0, 255, 257, 512 if l == 256 else 256, 1024):
        g = list(f)
        g[0] = str(ll)
        add(g, "l")
    g = list(f)
    g[1], g[4] = f[4] + "00" * 4, f[1][:128]
    add(g, "swap-p-q")
    return ops


# ------------------------------------------------------------------------------------------ dstu
def dstu_field(W, p0, p1, p2, p3):
    if p1 == 0:
        return None
    if p2 == 0:
        if p3 != 0 or p0 % 8 == 0 or p1 >= p0 or p0 - p1 < W:
            return None
        return (1 << p0) | (1 << p1) | 1
    if p3 == 0 or p1 >= p0 or p2 >= p1 or p3 >= p2 or p0 - p1 < W or p1 >= W:
        return None
    return (1 << p0) | (1 << p1) | (1 << p2) | (1 << p3) | 1


def dstu_expect(W, f, hasse_fixed=True):
    """f = [p0, p1, p2, p3, A, B, n, c, P]"""
    p0, p1, p2, p3, A = [int(x) for x in f[:5]]
    p0 %= 65536
    p1 %= 65536
    p2 %= 65536
    p3 %= 65536
    A %= 256
    c = int(f[7]) % (1 << 32)
    if p0 < 160 or p0 > 509 or A > 1:
        return "502"
    md = dstu_field(W, p0, p1, p2, p3)
    if md is None:
        return "502"
    no = (p0 + 7) // 8
    B, n = lev(f[5][: 2 * no]), lev(f[6][: 2 * no])
    x, y = lev(f[8][: 2 * no]), lev(f[8][2 * no: 4 * no])
    if B >> p0 or x >> p0 or y >> p0 or n == 0 or c == 0:
        return "502"
    if n.bit_length() <= 160:
        return "502"
    if not p_irreducible(md) or B == 0:
        return "502"
    E = Ec2(Gf2(md), A, B)
    if not E.on((x, y)):
        return "502"
    if (c * n - (1 << p0) - 1) ** 2 > 4 << p0:
        return "502"
    if not is_prime(n) or n == 1 << p0 or not mov_ok(1 << p0, n, 32):
        return "502"
    if E.mul(n, (x, y)) is not None:
        return "502"
    return "0"


def dstu_base_point(rng, f):
    """a point of order n on a standard curve given without base point (independent of dstuPointGen)"""
    p0, p1, p2, p3, A = [int(x) for x in f[:5]]
    md = dstu_field(64, p0, p1, p2, p3) or dstu_field(32, p0, p1, p2, p3)
    no = (p0 + 7) // 8
    B, n, c = lev(f[5][: 2 * no]), lev(f[6][: 2 * no]), int(f[7])
    E = Ec2(Gf2(md), A, B)
    while True:
        P = E.lift_x(rng.getrandbits(p0))
        if P is None:
            continue
        Q = E.mul(c, P)
        if Q is not None:
            return E, Q


def dstu_point_ops(rng, tier, W, f, prefix, full):
    """dstuPointVal: ERR_OK ⇔ x, y field elements ∧ on the curve ∧ n·P = O; 401 = ERR_BAD_POINT, 502 = parameters not
    accepted by dstuEcCreate.  Boundary points for every curve; `full` adds the ones that cost a scalar multiplication
    in the oracle (points of the curve outside the subgroup, kG)."""
    ops = []
    pre = "W32 " if W == 32 else ""
    p0, p1, p2, p3, A = [int(x) for x in f[:5]]
    m = p0
    no = (m + 7) // 8
    f = list(f)
    md = dstu_field(W, p0, p1, p2, p3)
    B, n, c = lev(f[5][: 2 * no]), lev(f[6][: 2 * no]), int(f[7])
    E = Ec2(Gf2(md), A, B)
    if lev(f[8]) == 0:
        _, Q = dstu_base_point(rng, f)
        f[8] = hx(Q[0], no) + hx(Q[1], no) + "00" * (128 - 2 * no)
    x, y = lev(f[8][: 2 * no]), lev(f[8][2 * no: 4 * no])
    par = " ".join(f)

    def add(px, py, k, exp):
        ops.append(Op(pre + "dstupoint %s %s" % (par, hx(px, no) + hx(py, no)), exp, "%s:point:%s" % (prefix, k), W))

    def judge(px, py):
        if px >> m or py >> m or not E.on((px, py)):
            return "401"
        return "0" if E.mul(n, (px, py)) is None else "401"
    add(x, y, "G", "0")
    add(x, x ^ y, "-G", "0")
    add(0, 0, "(0,0)", "401")
    add(x, y ^ 1, "y-bit", "401")
    add(x ^ 1, y, "x-bit", judge(x ^ 1, y) if full else ("401" if not E.on((x ^ 1, y)) else None))
    add(x, y ^ (1 << (m - 1)), "y-top-bit", "401")
    top = (1 << (8 * no)) - 1
    if 8 * no > m:
        add(x | (1 << m), y, "x>=2^m", "401")          # not a field element (same residue as G)
        add(x, y | (1 << m), "y>=2^m", "401")
        add(top, y, "x=all-ones", "401")
    add((1 << m) - 1, y, "x=2^m-1", "401" if not E.on(((1 << m) - 1, y)) else None)
    add(y, x, "swapped", "401" if not E.on((y, x)) else None)
    # the point of order 2: (0, sqrt B)
    sb = B
    for _ in range(m - 1):
        sb = E.f.sqr(sb)
    assert E.on((0, sb))
    add(0, sb, "order-2", "401")
    if full:
        k = rng.randrange(2, n)
        Q = E.mul(k, (x, y))
        add(Q[0], Q[1], "kG", "0")
        add(Q[0], Q[0] ^ Q[1], "-kG", "0")
        # a point of the curve outside the subgroup of order n (cofactor > 1)
        for _ in range(40):
            P = E.lift_x(rng.getrandbits(m))
            if P is not None and E.mul(n, P) is not None:
                add(P[0], P[1], "on-curve-wrong-order", "401")
                break
        # parameters that dstuEcCreate refuses
        g = list(f)
        g[4] = "2"
        ops.append(Op(pre + "dstupoint %s %s" % (" ".join(g), hx(x, no) + hx(y, no)), "502", "%s:point:A=2" % prefix, W))
    return ops


def dstu_ops(rng, tier, W, f, prefix, heavy, light=False):
    ops = []
    pre = "W32 " if W == 32 else ""
    no = (int(f[0]) + 7) // 8

    def add(g, k, exp=None):
        ops.append(Op(pre + "dstuval " + " ".join(g), dstu_expect(W, g) if exp is None else exp, "%s:%s" % (prefix, k), W))
    f = list(f)
    if lev(f[8]) == 0:
        E, Q = dstu_base_point(rng, f)
        f[8] = hx(Q[0], no) + hx(Q[1], no) + "00" * (128 - 2 * no)
        add(f, "std+generated-point", "0" if heavy else None)
    else:
        add(f, "std", "0" if heavy else None)
    if not heavy:
        ops[-1].expect = "0"   # a standard curve: the expensive recomputation is skipped in the quick tier for large fields
    m = int(f[0])
    n, c = lev(f[6]), int(f[7])
    x, y = lev(f[8][: 2 * no]), lev(f[8][2 * no: 4 * no])
    if light:
        # large fields in the quick tier: the decisive alterations only (every op costs an irreducibility test of degree m)
        for k, i, v in (("cofactor:+1", 7, str(c + 1)), ("cofactor:-1", 7, str(max(0, c - 1))), ("n:n+2", 6, hx(n + 2, 64)), ("n:2n", 6, hx(2 * n, 64)),
                        ("base:y^1", 8, hx(x, no) + hx(y ^ 1, no) + "00" * (128 - 2 * no)), ("B=0", 5, "00" * 64),
                        ("field:A", 4, str(1 - int(f[4])))):
            g = list(f)
            g[i] = v
            add(g, k)
        return ops
    for k, cc in (("+1", c + 1), ("-1", c - 1), ("0", 0), ("3", 3), ("1", 1), ("2", 2), ("4", 4), ("2^32+c", (1 << 32) + c)):
        if cc != c:
            g = list(f)
            g[7] = str(cc)
            add(g, "cofactor:" + k)
    for k, nn in (("2n", 2 * n), ("n+2", n + 2), ("n-2", n - 2), ("n=0", 0), ("n+1", n + 1), ("n>>3", n >> 3), ("2^m", 1 << m)):
        g = list(f)
        g[6] = hx(nn, 64)
        add(g, "n:" + k)
    nflip = 2 if tier == "quick" else 10
    for i, nm in ((5, "B"), (6, "n"), (8, "P")):
        width = 2 * no if i == 8 else no
        for bt in sorted(set([0, 8 * width - 1] + [rng.randrange(8 * width) for _ in range(nflip)])):
            g = list(f)
            g[i] = flip(f[i], bt)
            add(g, "flip-" + nm)
    for k, vals in (("A", [f[0], f[1], f[2], f[3], str(1 - int(f[4]))]), ("A=2", f[:4] + ["2"]), ("m+1", [str(m + 1)] + f[1:5]), ("m-1", [str(m - 1)] + f[1:5]),
                    ("k1+1", [f[0], str(int(f[1]) + 1)] + f[2:5]), ("k3=0", f[:3] + ["0", f[4]]), ("k1=0", [f[0], "0"] + f[2:5]),
                    ("m=159", ["159"] + f[1:5]), ("m=510", ["510"] + f[1:5])):
        g = list(f)
        g[:5] = vals
        add(g, "field:" + k)
    g = list(f)
    g[5] = "00" * 64
    add(g, "B=0")
    g = list(f)
    g[8] = hx(x, no) + hx(x ^ y, no) + "00" * (128 - 2 * no)
    add(g, "base:neg", None if heavy else None)
    g = list(f)
    g[8] = "00" * 128
    add(g, "base:(0,0)")
    g = list(f)
    g[8] = hx(x, no) + hx(y ^ 1, no) + "00" * (128 - 2 * no)
    add(g, "base:y^1")
    return ops


# ------------------------------------------------------------------------------------------ stb99 / pfok
def mont_pow(p, l, d, t):
    R = 1 << (l + 2)
    Ri = pow(R, -1, p)
    return pow(d, t, p) * pow(Ri, t - 1, p) % p if t else R % p


def stb99_expect(f):
    l, r = int(f[0]), int(f[1])
    if (l, r) not in STB99_LR:
        return "502"
    no, mo = (l + 7) // 8, (r + 7) // 8
    tails = [f[2][2 * no:], f[3][2 * mo:], f[4][2 * no:], f[5][2 * no:]]
    p, q, a, d = lev(f[2][: 2 * no]), lev(f[3][: 2 * mo]), lev(f[4][: 2 * no]), lev(f[5][: 2 * no])
    if any(int(t or "0", 16) for t in tails):
        return "502"
    if p.bit_length() != l or not is_prime(p) or q.bit_length() != r or not is_prime(q) or (p - 1) % q:
        return "502"
    if not (0 < d < p) or not (0 < a < p):
        return "502"
    x = mont_pow(p, l, d, (p - 1) // q)
    if x == (1 << (l + 2)) % p or x != a:
        return "502"
    return "0"


SRC_RI_MARGIN = 0   # the margin stb99RiVal applies in the source (x_c12.extract_consts); the header says 0


def chain_ok(xs, margin):
    """header rule: 5 x[i+1] + margin < 4 x[i] <= 8 x[i+1] (margin 16: '5 x / 4 + 4 <', margin 0: '5 x / 4 <');
    ends with an element of {17..32} followed by zeros"""
    t = 0
    while t + 1 < len(xs) and xs[t + 1] > 16:
        t += 1
    if not (17 <= xs[t] <= 32) and t > 0:
        return False
    if t == 0 and xs[0] > 32:
        return False
    if any(xs[t + 1:]):
        return False
    for i in range(t):
        if not (xs[i] <= 2 * xs[i + 1] and 5 * xs[i + 1] + margin < 4 * xs[i]):
            return False
    return True


def stb99_seed_expect(f):
    """f = [l, zi, di, ri] (comma lists), judged by the rules of stb99.h: di with '+ 4', ri without (docs/C12.fix-6.diff)."""
    l = int(f[0])
    lr = dict(STB99_LR)
    if l not in lr:
        return "524"
    r = lr[l]
    zi = [int(x) for x in f[1].split(",")] if f[1] != "-" else []
    zi += [0] * (31 - len(zi))
    di = [int(x) for x in f[2].split(",")] if f[2] != "-" else []
    di += [0] * (18 - len(di))
    ri = [int(x) for x in f[3].split(",")] if f[3] != "-" else []
    ri += [0] * (10 - len(ri))
    if any(z == 0 or z > 65256 for z in zi):
        return "524"
    if not (l <= 2 * di[0] and 8 * di[0] <= 7 * l - r) or not chain_ok(di, 16):
        return "524"
    if ri[0] != r or not chain_ok(ri, 0):
        return "524"
    return "0"


def stb99_ops(rng, tier, f, prefix):
    ops = []

    def add(g, k):
        ops.append(Op("stb99val " + " ".join(g), stb99_expect(g), "%s:%s" % (prefix, k)))

    def adds(g, k):
        ops.append(Op("stb99seedval " + " ".join(g), stb99_seed_expect(g), "%s:seed:%s" % (prefix, k)))
    par, seed = f[:6], f[6:10]
    add(par, "std")
    adds(seed, "std")
    l, r = int(par[0]), int(par[1])
    no, mo = (l + 7) // 8, (r + 7) // 8
    p, q, a, d = lev(par[2]), lev(par[3]), lev(par[4]), lev(par[5])
    nflip = 2 if tier == "quick" else 10
    for i, nm, width in ((2, "p", no), (3, "q", mo), (4, "a", no), (5, "d", no)):
        for bt in sorted(set([0, 8 * width - 1] + [rng.randrange(8 * width) for _ in range(nflip)])):
            g = list(par)
            g[i] = flip(par[i], bt)
            add(g, "flip-" + nm)
        if 2 * width < len(par[i]):
            g = list(par)
            g[i] = flip(par[i], 8 * width + rng.randrange(8))
            add(g, "tail-" + nm)
    z = "00" * 308
    for k, aa, dd in (("a=d=0", 0, 0), ("a=0", 0, d), ("d=0", a, 0), ("d=1", a, 1), ("a=unity,d=unity", (1 << (l + 2)) % p, (1 << (l + 2)) % p),
                      ("a+p", a + p, d), ("d+p", a, d + p), ("a<->d", d, a), ("a=p-a", p - a, d)):
        g = list(par)
        g[4], g[5] = hx(aa, 308), hx(dd, 308)
        add(g, "ad:" + k)
    # another admissible d: d' with a' = d'^((p-1)/q)
    d2 = rng.randrange(2, p)
    a2 = mont_pow(p, l, d2, (p - 1) // q)
    g = list(par)
    g[4], g[5] = hx(a2, 308), hx(d2, 308)
    add(g, "ad:other-generator")
    for k, qq in (("2q", 2 * q), ("q+2", q + 2), ("q=1", 1), ("q=0", 0)):
        g = list(par)
        g[3] = hx(qq, 33)
        add(g, "q:" + k)
    # another r-bit prime that does not divide p - 1, with a recomputed consistently: only `q | p - 1` fails
    q2 = q
    while q2 == q or (p - 1) % q2 == 0:
        q2 = rand_prime(rng, r)
    g = list(par)
    g[3], g[4] = hx(q2, 33), hx(mont_pow(p, l, d, (p - 1) // q2), 308)
    add(g, "q:other-prime-not-dividing-p-1")
    for k, ll, rr in (("l+1", l + 1, r), ("r+1", l, r + 1), ("other-level", STB99_LR[1][0] if l != STB99_LR[1][0] else STB99_LR[0][0], r), ("l=0", 0, 0)):
        g = list(par)
        g[0], g[1] = str(ll), str(rr)
        add(g, "lr:" + k)
    # seeds
    zi = [int(x) for x in seed[1].split(",")]
    di = [int(x) for x in seed[2].split(",")]
    ri = [int(x) for x in seed[3].split(",")]

    def sd(zi_, di_, ri_, k, ll=l):
        adds([str(ll), ",".join(map(str, zi_)), ",".join(map(str, di_)), ",".join(map(str, ri_))], k)
    for i in (0, 15, 30):
        for v in (0, 1, 65256, 65257, 65535):
            z2 = list(zi)
            z2[i] = v
            sd(z2, di, ri, "zi")
    lr = dict(STB99_LR)
    for which, ch in (("di", di), ("ri", ri)):
        t = max(i for i, v in enumerate(ch) if v)
        for i in range(t + 1):
            for dv in (-2, -1, 1, 2):
                c2 = list(ch)
                c2[i] += dv
                sd(zi, c2 if which == "di" else di, c2 if which == "ri" else ri, which + "±")
        for v in (16, 17, 32, 33, 0):
            c2 = list(ch)
            c2[t] = v
            sd(zi, c2 if which == "di" else di, c2 if which == "ri" else ri, which + "-last")
        c2 = list(ch)
        if t + 1 < len(c2):
            c2[t + 1] = 1
            sd(zi, c2 if which == "di" else di, c2 if which == "ri" else ri, which + "-after-end")
            c2[t + 1] = 17
            sd(zi, c2 if which == "di" else di, c2 if which == "ri" else ri, which + "-extended")
        # boundary chains: x[i+1] = floor((4 x[i] - 17) / 5) and + 1
        for off in (0, 1):
            c3 = [ch[0]]
            while c3[-1] > 32 and len(c3) < len(ch):
                c3.append((4 * c3[-1] - 17) // 5 + off)
            c3 += [0] * (len(ch) - len(c3))
            sd(zi, c3 if which == "di" else di, c3 if which == "ri" else ri, which + "-steepest+%d" % off)
        for off in (0, 1):
            c3 = [ch[0]]
            while c3[-1] > 32 and len(c3) < len(ch):
                c3.append((c3[-1] + 1) // 2 - off)
            c3 += [0] * (len(ch) - len(c3))
            sd(zi, c3 if which == "di" else di, c3 if which == "ri" else ri, which + "-flattest-%d" % off)
    for dv in (l // 2 - 1, l // 2, l // 2 + 1, (7 * l - lr[l]) // 8, (7 * l - lr[l]) // 8 + 1, (1 << 61), (1 << 64) - 1):
        c3 = [dv]
        while c3[-1] > 32 and len(c3) < 18:
            c3.append(c3[-1] // 2 + 1)
        c3 += [0] * (18 - len(c3))
        sd(zi, c3[:18], ri, "di0")
    for off in (0, 1):
        c3 = [ri[0]]
        while c3[-1] > 32 and len(c3) < 10:
            c3.append((4 * c3[-1] - 1) // 5 + off)
        c3 += [0] * (10 - len(c3))
        sd(zi, di, c3, "ri-steepest-header-rule+%d" % off)
    sd(zi, di, ri, "l", 639)
    sd(zi, di, ri, "l", 766)
    sd([0] * 31, [0] * 18, [0] * 10, "zero")
    return ops


def pfok_expect(f):
    l, r, n = int(f[0]), int(f[1]), int(f[2])
    if (l, r) not in PFOK_LR or n >= l:
        return "502"
    no = (l + 7) // 8
    p, g = lev(f[3][: 2 * no]), lev(f[4][: 2 * no])
    if int(f[3][2 * no:] or "0", 16) or int(f[4][2 * no:] or "0", 16):
        return "502"
    if p.bit_length() != l or p % 4 != 3 or not (0 < g < p):
        return "502"
    if not is_prime(p) or not is_prime((p - 1) // 2):
        return "502"
    x = mont_pow(p, l, g, (p - 1) // 2)
    if x == (1 << (l + 2)) % p or x == g:
        return "502"
    return "0"


def pfok_ops(rng, tier, f, prefix):
    ops = []
    par, seed = f[:5], f[5:8]

    def add(g, k):
        ops.append(Op("pfokval " + " ".join(g), pfok_expect(g), "%s:%s" % (prefix, k)))
    add(par, "std")
    l, r, n = int(par[0]), int(par[1]), int(par[2])
    no = (l + 7) // 8
    p, g0 = lev(par[3]), lev(par[4])
    nflip = 2 if tier == "quick" else 8
    for i, nm in ((3, "p"), (4, "g")):
        for bt in sorted(set([0, 1, 8 * no - 1, 8 * no - 2, 8 * no - 3] + [rng.randrange(8 * no) for _ in range(nflip)])):
            g = list(par)
            g[i] = flip(par[i], bt)
            add(g, "flip-" + nm)
        g = list(par)
        g[i] = flip(par[i], 8 * no + 3)
        add(g, "tail-" + nm)
    R = (1 << (l + 2)) % p
    for k, gg in (("g=0", 0), ("g=unity", R), ("g=-unity", p - R), ("g=p", p), ("g=p-1", p - 1), ("g=1", 1), ("g^2", g0 * g0 * pow(R, -1, p) % p),
                  ("other", rng.randrange(2, p))):
        g = list(par)
        g[4] = hx(gg, 368)
        add(g, "g:" + k)
    for k, ll, rr, nn in (("n=l", l, r, l), ("n=l-1", l, r, l - 1), ("r+1", l, r + 1, n), ("l+64", l + 64, r, n), ("n=0", l, r, 0)):
        g = list(par)
        g[0], g[1], g[2] = str(ll), str(rr), str(nn)
        add(g, "lrn:" + k)
    for k, y, e in (("y=0", 0, "505"), ("y=1", 1, "0"), ("y=p-1", p - 1, "0"), ("y=p", p, "505"), ("y=p+1", p + 1, "505"), ("y=max", (1 << (8 * no)) - 1, "505"),
                    ("y=rand", rng.randrange(1, p), "0")):
        ops.append(Op("pfokpub %s %s" % (" ".join(par), hx(y, no)), e, "%s:pub:%s" % (prefix, k)))
    # seeds
    zi = [int(x) for x in seed[1].split(",")]
    li = [int(x) for x in seed[2].split(",")]

    def sd(zi_, li_, k, ll=l):
        f2 = [str(ll), ",".join(map(str, zi_)), ",".join(map(str, li_))]
        lset = [a for a, _ in PFOK_LR]
        e = "0"
        if ll not in lset or any(z == 0 or z > 65256 for z in zi_) or li_[0] != ll - 1 or not chain_ok(li_, 16):
            e = "524"
        ops.append(Op("pfokseedval " + " ".join(f2), e, "%s:seed:%s" % (prefix, k)))
    sd(zi, li, "std")
    t = max(i for i, v in enumerate(li) if v)
    for i in range(t + 1):
        for dv in (-1, 1):
            c2 = list(li)
            c2[i] += dv
            sd(zi, c2, "li±")
    for v in (16, 17, 32, 33):
        c2 = list(li)
        c2[t] = v
        sd(zi, c2, "li-last")
    for off in (0, 1):
        c3 = [l - 1]
        while c3[-1] > 32 and len(c3) < 20:
            c3.append((4 * c3[-1] - 17) // 5 + off)
        c3 += [0] * (20 - len(c3))
        sd(zi, c3, "li-steepest+%d" % off)
    z2 = list(zi)
    z2[7] = 65257
    sd(z2, li, "zi")
    sd(zi, li, "l", l + 1)
    return ops


# ------------------------------------------------------------------------------------------ bels / polynomials
def irreducible_table(dmax):
    """reducibility by a sieve of products (independent of Ben-Or and of Rabin's test)"""
    N = 1 << (dmax + 1)
    red = bytearray(N)
    for a in range(2, 1 << (dmax // 2 + 1)):
        da = pdeg(a)
        for b in range(a, 1 << (dmax - da + 1)):
            red[pmul(a, b)] = 1
    return red


def poly_ops(rng, tier, bels):
    ops = []
    dmax = 10 if tier == "quick" else 16
    red = irreducible_table(dmax)
    for d in range(0, dmax + 1):
        exp = "".join("0" if (d == 0 or red[(1 << d) | c]) else "1" for c in range(1 << d))
        ops.append(Op("irredsweep %d" % d, exp, "irred:sweep-deg%d" % d))
    for f in (0, 1):
        ops.append(Op("irred %s" % hx(f, 8), "0", "irred:constant"))
    for ln in (16, 24, 32):
        for i, m in enumerate(bels[ln]):
            ops.append(Op("belsval " + m, "0", "bels:std-m%d" % i))
            v = lev(m)
            for bt in ([0] + [rng.randrange(8 * ln) for _ in range(2 if tier == "quick" else 6)]):
                w = v ^ (1 << bt)
                ops.append(Op("belsval " + hx(w, ln), "0" if p_irreducible((1 << (8 * ln)) | w) else "505", "bels:flip"))
        for _ in range(20 if tier == "quick" else 300):
            w = rng.getrandbits(8 * ln)
            ops.append(Op("belsval " + hx(w, ln), "0" if p_irreducible((1 << (8 * ln)) | w) else "505", "bels:random"))
            # a product of two random polynomials of complementary degrees: reducible
            da = rng.randrange(1, 8 * ln)
            a = rng.getrandbits(da) | (1 << da)
            b = rng.getrandbits(8 * ln - da) | (1 << (8 * ln - da))
            w = pmul(a, b) ^ (1 << (8 * ln))
            ops.append(Op("belsval " + hx(w, ln), "505", "bels:product"))
    for ln in (0, 1, 15, 17, 31, 33):
        ops.append(Op("belsval " + (hx(7, ln) if ln else "-"), "109", "bels:bad-length"))
    for deg in (17, 31, 32, 63, 64, 65, 127, 128, 129, 192, 256, 300):
        for _ in range(3 if tier == "quick" else 20):
            f = rng.getrandbits(deg) | (1 << deg) | 1
            ops.append(Op("irred " + hx(f, (deg + 8) // 8), "1" if p_irreducible(f) else "0", "irred:random-deg%d" % deg))
        # a known-irreducible one: search
        while True:
            f = rng.getrandbits(deg) | (1 << deg) | 1
            if p_irreducible(f):
                break
        ops.append(Op("irred " + hx(f, (deg + 8) // 8), "1", "irred:irreducible-deg%d" % deg))
        ops.append(Op("irred " + hx(pmul(f, 3), (deg + 9) // 8), "0", "irred:times-(x+1)"))
        ops.append(Op("irred " + hx(psqr(f), (2 * deg + 8) // 8), "0", "irred:square"))
    return ops


# ------------------------------------------------------------------------------------------ generic curve groups
def ecpgroup_ops(rng, tier, W):
    """Hasse-bound arithmetic at its boundary: arbitrary (order, cofactor) pairs around p + 1 ± 2 sqrt p on real curves
    (the base point is on the curve; the order need not be the true one: ecpSeemsValidGroup does not know it)"""
    ops = []
    pre = "W32 " if W == 32 else ""

    def add(p, a, b, x, y, q, cof, mov, k):
        no = (p.bit_length() + 7) // 8
        E = Ecp(p, a, b)
        created = p % 2 == 1 and p > 3 and a < p and b < p and q != 0 and cof != 0 and x < p and y < p and \
            (q.bit_length() + W - 1) // W <= (p.bit_length() + W - 1) // W + 1 and cof < (1 << W) and cof < (1 << 32)
        if not created:
            exp = "0"
        else:
            valid = is_prime(p) and (4 * a ** 3 + 27 * b * b) % p != 0
            seems = E.on((x, y)) and q * cof != 0 and (q * cof - (p + 1)) ** 2 <= 4 * p
            safe = is_prime(q) and q != p and (mov == 0 or mov_ok(p, q, mov))
            if valid and E.on((x, y)):
                o = "1" if E.mul(q, (x, y)) is None else "0"
            else:
                o = "x"
            exp = "1 %d %d %d %s" % (valid, seems, safe, o)
        qno = max(1, (q.bit_length() + 7) // 8)
        ops.append(Op(pre + "ecpgroup %s %s %s %s %s %s %d %d" % (hx(p, no), hx(a, no), hx(b, no), hx(x, no), hx(y, no), hx(q, qno), cof, mov),
                      exp, "ecpgroup:" + k, W))
    sizes = [5, 8, 16, 32, 33, 64, 65, 128, 129, 256] if tier == "quick" else [5, 7, 8, 10, 16, 31, 32, 33, 63, 64, 65, 96, 127, 128, 129, 192, 256]
    for bits in sizes:
        for _ in range(1 if tier == "quick" else 4):
            p = rand_prime(rng, bits)
            if p <= 3:
                continue
            while True:
                a, x = rng.randrange(p), rng.randrange(p)
                y = rng.randrange(1, p)
                b = (y * y - x * x * x - a * x) % p
                if (4 * a ** 3 + 27 * b * b) % p:
                    break
            s = isqrt(4 * p)
            for t in sorted(set([-s - 2, -s - 1, -s, -s + 1, -1, 0, 1, s - 1, s, s + 1, s + 2, rng.randrange(-s, s + 1)])):
                N = p + 1 + t
                if N <= 0:
                    continue
                add(p, a, b, x, y, N, 1, 2, "hasse-boundary")
                for c in (2, 3, 4):
                    if N % c == 0:
                        add(p, a, b, x, y, N // c, c, 2, "hasse-boundary-cofactor")
            add(p, a, b, x, y, p, 1, 4, "order=p")
            add(p, a, b, x, y, (p + 1) * 2, 1, 1, "far")
            add(p, a, b, x, y, p + 1, 2, 1, "far-cofactor")
            add(p, a, b, x, (y + 1) % p, p + 1, 1, 1, "off-curve")
            add(p, a, b, x, y, 0, 1, 1, "order=0")
            add(p, a, b, x, y, p + 1, 0, 1, "cofactor=0")
            add(p, a, b, x, y, (1 << (W * ((bits + W - 1) // W + 1))) - 1, 1, 1, "order-n+1-words")
    # odd squares as "moduli": the equality case t^2 = 4p of the comparison (ecpSeemsValidGroup does not ask for a prime p)
    for k in (5, 7, 11, 255, 65537, (1 << 32) + 15, (1 << 33) + 17):
        p = k * k
        a, x = rng.randrange(p), rng.randrange(p)
        y = rng.randrange(1, p)
        b = (y * y - x * x * x - a * x) % p
        for t in (-2 * k - 1, -2 * k, -2 * k + 1, 2 * k - 1, 2 * k, 2 * k + 1):
            add(p, a, b, x, y, p + 1 + t, 1, 1, "hasse-equality-square-modulus")
    # true group orders on small curves: q = #E / cofactor prime, MOV boundary
    for p in [q for q in SP if 11 <= q <= 400][:: (7 if tier == "quick" else 2)]:
        a, b = rng.randrange(p), rng.randrange(1, p)
        if (4 * a ** 3 + 27 * b * b) % p == 0:
            continue
        N = ecp_count(p, a, b)
        E = Ecp(p, a, b)
        for c in (1, 2, 3, 4):
            if N % c or not is_prime(N // c):
                continue
            q = N // c
            # a point of order q
            P = None
            for x in range(p):
                yy = sqrt_mod(x * x * x + a * x + b, p)
                if yy is None:
                    continue
                Q = E.mul(c, (x, yy))
                if Q is not None:
                    P = Q
                    break
            if P is None:
                continue
            # multiplicative order of p mod q
            k, t = 1, p % q
            while t != 1 and k < 200:
                t = t * p % q
                k += 1
            for mov in sorted(set([0, 1, max(1, k - 1), k, k + 1])):
                add(p, a, b, P[0], P[1], q, c, mov, "true-order-mov")
            add(p, a, b, P[0], P[1], q, c + 1, 1, "true-order-wrong-cofactor")
    return ops


def find_gf2_poly(m, W):
    for k in range(1, m - W + 1):
        if m % 8 and p_irreducible((1 << m) | (1 << k) | 1):
            return (m, k, 0, 0), (1 << m) | (1 << k) | 1
    for k1 in range(3, min(W, m - W + 1)):
        for k2 in range(2, k1):
            for k3 in range(1, k2):
                md = (1 << m) | (1 << k1) | (1 << k2) | (1 << k3) | 1
                if p_irreducible(md):
                    return (m, k1, k2, k3), md
    return None, None


def ec2group_ops(rng, tier, W):
    ops = []
    pre = "W32 " if W == 32 else ""
    ms = [W + 3, W + 4, 2 * W + 2]   # even m: (c n - 2^m - 1)^2 = 4 2^m is reachable
    if tier != "quick":
        ms += [W + 5, W + 9, W + 15, W + 21, 2 * W - 1, 2 * W + 7, 3 * W - 1, 3 * W + 3, 4 * W + 1, 163, 233]
    for m in ms:
        pd, md = find_gf2_poly(m, W)
        if pd is None:
            continue
        F = Gf2(md)
        no = (m + 7) // 8
        A = rng.randrange(2)
        # a curve through a chosen point: B = y^2 + xy + x^3 + A x^2
        while True:
            P = (rng.getrandbits(m) | 1, rng.getrandbits(m))
            Bc = F.sqr(P[1]) ^ F.mul(P[0], P[1]) ^ F.mul(F.sqr(P[0]), P[0]) ^ F.mul(A, F.sqr(P[0]))
            if Bc:
                break
        E = Ec2(F, A, Bc)
        assert E.on(P)
        s = isqrt(4 << m)

        def add(q, cof, mov, k, x=P[0], y=P[1], B=Bc):
            created = q != 0 and cof != 0 and cof < (1 << 32) and cof < (1 << W) and (q.bit_length() + W - 1) // W <= (m + W - 1) // W + 1
            if not created:
                exp = "0"
            else:
                E2 = Ec2(F, A, B)
                seems = E2.on((x, y)) and (q * cof - (1 << m) - 1) ** 2 <= 4 << m
                safe = is_prime(q) and q != 1 << m and (mov == 0 or mov_ok(1 << m, q, mov))
                o = 1 if E2.mul(q, (x, y)) is None else 0
                exp = "1 %d %d %d %d" % (B != 0, seems, safe, o)
            qno = max(1, (q.bit_length() + 7) // 8)
            ops.append(Op(pre + "ec2group %d %d %d %d %s %s %s %s %s %d %d" % (pd + (hx(A, no), hx(B, no), hx(x, no), hx(y, no), hx(q, qno), cof, mov)),
                          exp, "ec2group:" + k, W, note="Hasse bound on a binary curve (docs/C12.fix-2)"))
        small = m <= 2 * W + 7
        for t in sorted(set([-s - 1, -s, 0, s, s + 1] + ([-s + 1, s - 1, rng.randrange(-s, s + 1)] if tier != "quick" else []))):
            N = (1 << m) + 1 + t
            if small or t in (-s - 1, s + 1, 0):
                add(N, 1, 1, "hasse-boundary")
            for c in (2, 4):
                if N % c == 0 and small:
                    add(N // c, c, 1, "hasse-boundary-cofactor")
        add(((1 << m) + 2) // 2, 3, 1, "wrong-cofactor")
        add(((1 << m) + 2) // 2, 1, 1, "wrong-cofactor")
        add((1 << m) + 1 + (1 << (m // 2 + 8)), 1, 1, "deviation-2^(m/2+8)")
        add((1 << m) + 1, 1, 1, "off-curve", y=P[1] ^ 1)
        add(1 << m, 1, 2, "order=2^m")
    return ops


def generate(ctx, std, bels, lr_stb, lr_pfok, ri_margin=0, only_w=None, light=False):
    """only_w = 64 / 32: skip the ops meant for the other word size; light: the C19 stream (one large-field dstu curve,
    no seed generation)"""
    global STB99_LR, PFOK_LR, SRC_RI_MARGIN
    STB99_LR, PFOK_LR, SRC_RI_MARGIN = lr_stb, lr_pfok, ri_margin
    rng, tier = ctx.rng, ctx.tier
    ops = []
    if only_w == 32:
        # the 32-bit-word stream: generic groups, one dstu curve, the standard sets of the prime-field schemes
        ops += ecpgroup_ops(rng, tier, 32) + ec2group_ops(rng, tier, 32)
        for (sch, name), f in std.items():
            if sch == "dstu" and int(f[0]) == 163:
                ops += dstu_ops(rng, tier, 32, f, "dstu-0/w32", True, False)
                ops += dstu_point_ops(rng, tier, 32, f, "dstu-0/w32", False)
            if sch in ("bign", "bign96"):
                ops.append(Op("W32 %sval %s" % (sch, " ".join(f)), "0", "%s/w32:std" % sch, 32))
            elif sch == "g12s":
                ops.append(Op("W32 g12sval " + " ".join(f), "0", "g12s/w32:std", 32))
        return ops
    for (sch, name), f in std.items():
        short = name.split(".")[-1] if sch != "stb99" and sch != "pfok" else name.replace("1.2.112.0.2.0.1176.2.3.", "")
        prefix = "%s-%s" % (sch, short)
        if sch in ("bign", "bign96"):
            ops += bign_ops(rng, tier, sch, f, prefix)
            ops += bign_key_ops(rng, tier, sch, f, prefix)
        elif sch == "g12s":
            ops += g12s_ops(rng, tier, f, prefix, tier != "quick" or name in ("1.2.643.2.2.35.1", "1.2.643.7.1.2.1.2.1"))
        elif sch == "dstu":
            m = int(f[0])
            heavy = tier != "quick" or m <= 173
            light_c = tier == "quick" and m > 163
            if light and m not in (163, 257):
                continue
            ops += dstu_ops(rng, tier, 64, f, prefix, heavy, light_c)
            if (tier != "quick" and not light) or m in (163, 233):
                ops += dstu_point_ops(rng, tier, 64, f, prefix, tier != "quick" or m == 163)
            if only_w is None and (m == 163 or tier != "quick"):
                ops += dstu_ops(rng, tier, 32, f, prefix + "/w32", heavy, light_c or tier == "quick")
                ops += dstu_point_ops(rng, tier, 32, f, prefix + "/w32", tier != "quick" and m <= 233)
        elif sch == "stb99":
            if tier != "quick" or name in ("test", "1.2.112.0.2.0.1176.2.3.3.1"):
                ops += stb99_ops(rng, tier, f, prefix)
            else:
                ops.append(Op("stb99val " + " ".join(f[:6]), "0", prefix + ":std"))
                ops.append(Op("stb99seedval " + " ".join(f[6:10]), "0", prefix + ":seed:std"))
        elif sch == "pfok":
            if tier != "quick" or name == "test":
                ops += pfok_ops(rng, tier, f, prefix)
            else:
                ops.append(Op("pfokval " + " ".join(f[:5]), "0", prefix + ":std"))
                ops.append(Op("pfokseedval " + " ".join(f[5:8]), "0", prefix + ":seed:std"))
    # parameter generation from the standard seeds must reproduce the standard parameters (implementation only:
    # prngSTB / priExtendPrime are not modelled; klass prefix "gen:" = not sent to the Lean driver)
    for (sch, name), f in std.items():
        if light:
            break
        if sch == "stb99" and (tier != "quick" or name in ("test", "1.2.112.0.2.0.1176.2.3.3.1", "1.2.112.0.2.0.1176.2.3.6.1")):
            ops.append(Op("stb99gen " + " ".join(f[6:10]), "0 " + " ".join(f[:6]), "gen:stb99-" + name))
            g = list(f[6:10])
            z = g[1].split(",")
            z[0] = str(int(z[0]) % 65256 + 1)
            g[1] = ",".join(z)
            ops.append(Op("stb99gen " + " ".join(g), None, "gen:stb99-other-zi-" + name))
    zi = ",".join(str(i + 1) for i in range(31))
    hdr = [("1232,617,309,155,78,40,21", "257,205,163,130,103,82,65,51,40,31"),
           ("1897,1514,1207,962,766,609,483,383,303,239,187,146,113,87,66,49,35,24", "257,205,163,130,103,82,65,51,40,31"),
           ("1897,1514,1207,962,766,609,483,383,303,239,187,146,113,87,66,49,35,24", "257,129,65,33,17")]
    for di_, ri_ in hdr:
        g = ["2462", zi, di_, ri_]
        ops.append(Op("stb99seedval " + " ".join(g), stb99_seed_expect(g), "corpus:stb99-header-example-chains",
                      note="the chains of maximal length given in stb99.h (docs/C12.fix-6.diff)"))
    ops += bign_custom_field_ops(rng, tier)
    ops += poly_ops(rng, tier, bels)
    for W in ((64, 32) if only_w is None else (64,)):
        ops += ecpgroup_ops(rng, tier, W)
        ops += ec2group_ops(rng, tier, W)
    # 32-bit word build: the standard sets of the prime-field schemes once more
    for (sch, name), f in (std.items() if only_w is None else []):
        if sch in ("bign", "bign96"):
            ops.append(Op("W32 %sval %s" % (sch, " ".join(f)), "0", "%s/w32:std" % sch, 32))
        elif sch == "g12s":
            ops.append(Op("W32 g12sval " + " ".join(f), "0", "g12s/w32:std", 32))
            g = list(f)
            g[5] = str(int(f[5]) + 1)
            ops.append(Op("W32 g12sval " + " ".join(g), "502", "g12s/w32:cofactor", 32))
    return ops

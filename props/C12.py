"""C12 — validators accept exactly the valid parameters, keys, primes and polynomials.

PROOF  lean/Bee2V/C12/Props*.lean: executable, code-shaped models of tm.c (dates), pri.c (sieve, deterministic
       and tape-driven Miller–Rabin, next-prime searches, Demytko tests), pp_etc.c/bels.c (irreducibility) and the
       decision lists of the parameter / key validators; theorems against independent specifications (Gregorian
       calendar, Nat.Prime, condition lists of the standards).
GEN    xlate/x_c12.py regenerates the factor base, the small-prime products and the Miller–Rabin base sets from
       pri.c (Bee2V/Gen/C12Tables.lean); theorems about the tables are re-checked against what the source says.
TIE    harness/c12.c (real library; 64-bit and 32-bit word builds) vs drv_c12 on the same op lines.
SEARCH every op also carries the verdict of an independent recomputation in Python (trial division + own
       Miller–Rabin, datetime calendar, affine curve arithmetic, polynomial factoring); a difference between the
       implementation and that recomputation is a failing input of the property itself.
"""
import collections, datetime, os, random, sys
import vcommon
from vcommon import VERIF

PROPS = ["Bee2V/C12/Props.lean", "Bee2V/C12/PropsPri.lean", "Bee2V/C12/PropsVal.lean", "Bee2V/C12/PropsEc2.lean", "Bee2V/C12/PropsVal2.lean", "Bee2V/C12/PropsPp.lean", "Bee2V/C12/PropsSprp.lean", "Bee2V/C12/PropsObj.lean"]
TARGETS = ["Bee2V.C12.Props", "Bee2V.C12.PropsPri", "Bee2V.C12.PropsVal", "Bee2V.C12.PropsEc2", "Bee2V.C12.PropsVal2", "Bee2V.C12.PropsPp", "Bee2V.C12.PropsSprp", "Bee2V.C12.PropsObj"]


def regen(ctx):
    import importlib
    import x_c12
    importlib.reload(x_c12)
    x_c12.REPO = vcommon.REPO
    ctx.regen("Bee2V/Gen/C12Tables.lean", x_c12.generate())
    ctx.regen("Bee2V/Gen/C12Consts.lean", x_c12.generate_consts())


# =========================================================================== independent arithmetic (props/C12_arith.py)
from C12_arith import SP, MR_BASES, mr_pass, is_prime, rand_prime
import C12_val
import C12_obj
import C12_cw
from C12_val import Op


def next_prime_same_len(a):
    """least odd prime in [a, 2^bitlen(a)) or None"""
    l = a.bit_length()
    if l <= 1:
        return None
    p = a | 1
    while p.bit_length() == l:
        if is_prime(p):
            return p
        p += 2
    return None


def le_hex(v, no):
    return v.to_bytes(no, "little").hex() if no else "-"


def octets_for(v, W, extra=0):
    """octet length: whole words of W bits (at least one word)"""
    n = max(1, (v.bit_length() + W - 1) // W) + extra
    return n * W // 8


# =========================================================================== ops
def date_expect(b):
    if any(x > 9 for x in b):
        return "0"
    try:
        datetime.date(2000 + 10 * b[0] + b[1], 10 * b[2] + b[3], 10 * b[4] + b[5])
        return "1"
    except ValueError:
        return "0"


def gen_dates(ctx):
    rng, ops, seen = ctx.rng, [], set()

    def add(b, k):
        b = tuple(b)
        if b not in seen:
            seen.add(b)
            ops.append(Op("date " + bytes(b).hex(), date_expect(b), "date:" + k))
    # every well-formed YYMMDD around month ends, all years of the century for February
    for yy in range(100):
        for mm, dd in ((2, 28), (2, 29), (2, 30), (12, 31), (1, 0), (0, 1), (13, 1), (4, 30), (4, 31)):
            add([yy // 10, yy % 10, mm // 10, mm % 10, dd // 10, dd % 10], "boundary")
    for yy in (0, 1, 4, 23, 24, 99):
        for mm in range(0, 20):
            for dd in range(0, 40):
                add([yy // 10, yy % 10, mm // 10, mm % 10, dd // 10, dd % 10], "calendar")
    alph = [0, 1, 2, 3, 9, 10, 0x14, 0xFF]
    if ctx.tier == "thorough":
        import itertools
        for b in itertools.product(alph, repeat=6):
            add(b, "alphabet")
    else:
        for _ in range(6000):
            add([rng.choice(alph) for _ in range(6)], "alphabet")
    # a valid date with one octet replaced by a non-digit / one bit flipped
    for _ in range(1500 if ctx.tier == "quick" else 12000):
        d = datetime.date(2000, 1, 1) + datetime.timedelta(days=rng.randrange(36525))
        yy = d.year - 2000
        b = [yy // 10, yy % 10, d.month // 10, d.month % 10, d.day // 10, d.day % 10]
        add(b, "valid")
        c = list(b)
        i = rng.randrange(6)
        c[i] ^= 1 << rng.randrange(8)
        add(c, "bitflip")
        c = list(b)
        c[rng.randrange(6)] = rng.choice([10, 16, 0x30, 0x39, 0x80, 0xFF, rng.randrange(256)])
        add(c, "nondigit")
    for _ in range(2000):
        add([rng.randrange(256) for _ in range(6)], "random")
    return ops


# strong pseudoprimes / Carmichael numbers / thresholds
PSI = [2047, 1373653, 25326001, 3215031751, 2152302898747, 3474749660383, 341550071728321, 3825123056546413051]
SPSP_2_7_61 = [4759123141, 8411807377, 11207066041, 11711154457, 12015212653]
SPSP_2_3 = [1373653, 1530787, 1987021, 2284453, 3116107, 5173601, 6787327, 11541307, 13694761, 15978007]
SPSP_2 = [2047, 3277, 4033, 4681, 8321, 15841, 29341, 42799, 49141, 52633, 65281, 74665, 80581, 85489, 88357, 90751]
CARMICHAEL = [561, 1105, 1729, 2465, 2821, 6601, 8911, 10585, 15841, 29341, 41041, 46657, 52633, 62745, 63973, 75361,
              101101, 115921, 126217, 162401, 172081, 188461, 252601, 278545, 294409, 314821, 334153, 340561, 399001,
              410041, 449065, 488881, 512461, 9746347772161, 1436697831295441, 60977817398996785]
THRESH = [1373653, 4759123141, 2 ** 16, 2 ** 31, 2 ** 32, 2 ** 63]


def chernick(rng, bits):
    """Carmichael numbers (6k+1)(12k+1)(18k+1) with all three factors prime"""
    out = []
    k = rng.randrange(1, 1 << max(2, bits // 3 - 4))
    for _ in range(20000):
        k += 1
        if is_prime(6 * k + 1) and is_prime(12 * k + 1) and is_prime(18 * k + 1):
            n = (6 * k + 1) * (12 * k + 1) * (18 * k + 1)
            if n.bit_length() <= bits:
                out.append(n)
            if len(out) >= 3:
                break
    return out


def gen_primew(ctx, W):
    rng = ctx.rng
    M = 1 << W
    xs = collections.OrderedDict()

    def add(a, k):
        if 0 <= a < M and a not in xs:
            xs[a] = k
    win = 600 if ctx.tier == "quick" else 20000
    for a in range(0, 3000):
        add(a, "small")
    for t in THRESH:
        for a in range(t - win, t + win + 1):
            add(a, "window:%d" % t)
    for a in range(M - win, M):
        add(a, "window:top")
    for a in PSI + SPSP_2_7_61 + SPSP_2_3 + SPSP_2 + CARMICHAEL:
        add(a, "pseudoprime")
        add(a + 2, "pseudoprime+2")
        add(a - 2, "pseudoprime-2")
    for bits in (20, 30, 40, 50, 60, 64):
        if bits <= W:
            for n in chernick(rng, bits):
                add(n, "carmichael")
    for _ in range(300 if ctx.tier == "quick" else 3000):
        hb = rng.randrange(2, W // 2 + 1)
        p, q = rand_prime(rng, hb), rand_prime(rng, rng.randrange(2, W - hb + 1))
        add(p * q, "pq")
        add(p * p, "p^2")
        add(rand_prime(rng, rng.randrange(2, W + 1)), "prime")
        add(rng.getrandbits(rng.randrange(1, W + 1)) | 1, "random-odd")
    ops = [Op("primew %d %d" % (W, a), "1" if is_prime(a) else "0", "primew:" + k.split(":")[0], W) for a, k in xs.items()]
    # next-prime searches: just below each threshold / pseudoprime, around powers of two
    ys = collections.OrderedDict()

    def addn(a, k):
        if 0 <= a < M and a not in ys:
            ys[a] = k
    for a in list(range(0, 70)) + [M - 1, M - 2, M - 58, M - 59, M - 60]:
        addn(a, "edge")
    for t in PSI + SPSP_2_7_61 + SPSP_2_3 + THRESH:
        for d in (-3, -2, -1, 0, 1):
            addn(t + d, "threshold")
    for l in range(2, W + 1):
        top = (1 << l) - 1
        # the last prime below 2^l and the numbers after it: "none exists"
        p = top
        while not is_prime(p):
            p -= 2
        for a in (p - 1, p, p + 1, p + 2, top, 1 << (l - 1), (1 << (l - 1)) + 1):
            addn(a, "bitlen-boundary")
    for _ in range(200 if ctx.tier == "quick" else 2000):
        addn(rng.getrandbits(rng.randrange(2, W + 1)), "random")
    for a, k in ys.items():
        p = next_prime_same_len(a)
        ops.append(Op("nextw %d %d" % (W, a), "0" if p is None else "1 %d" % p, "nextw:" + k, W))
    return ops


def base_primes():
    return SP[1:1025]


def gen_sieve(ctx, W):
    rng, ops = ctx.rng, []
    B = base_primes()
    cnt = 120 if ctx.tier == "quick" else 1200

    def sieved(a, bc):
        return "1" if a % 2 == 1 and all(a % p for p in B[:bc]) else "0"

    def smooth(a, bc):
        t = a
        while t % 2 == 0:
            t //= 2
        for p in B[:bc]:
            while t % p == 0:
                t //= p
        return "1" if t == 1 else "0"
    vals = [1, 3, 5, 7, 9, 8167, 8161, 8171, 8167 * 8167, 8167 * 8171, 8171 * 8179, 3 * 5 * 7 * 11 * 13, 2 ** W - 1, 2 ** W + 1,
            2 ** W + 3, 2 ** (2 * W) - 1]
    vals += B[:40] + [B[i] for i in (100, 511, 512, 1000, 1022, 1023)]
    for _ in range(cnt):
        nb = rng.choice([8, 16, W - 1, W, W + 1, 2 * W, 3 * W, 256, 512])
        a = rng.getrandbits(nb) | 1
        vals.append(a)
        # coprime to a prefix of the base, then times one base prime
        i = rng.randrange(1024)
        vals.append(a * B[i])
        vals.append(rand_prime(rng, rng.choice([14, 20, 40, 64, 100])))
        # smooth numbers
        s = 1 << rng.randrange(0, 70)
        for _ in range(rng.randrange(0, 12)):
            s *= B[rng.randrange(rng.choice([3, 30, 1024]))] ** rng.randrange(1, 4)
        vals.append(s)
        vals.append(s * rand_prime(rng, 14))
    for a in vals:
        for bc in sorted(set([0, 1, 2, 1024, rng.randrange(1025), rng.randrange(1025)])):
            no = octets_for(a, W, rng.choice([0, 0, 1]))
            h = le_hex(a, no)
            ops.append(Op("sieved %d %s %d" % (W, h, bc), sieved(a, bc), "sieved", W))
            if a:
                ops.append(Op("smooth %d %s %d" % (W, h, bc), smooth(a, bc), "smooth", W))
    for a in vals[::7]:
        c = rng.choice([0, 1, 5, 15, 16, 100, 1023, 1024])
        ops.append(Op("basemod %d %s %d" % (W, le_hex(a, octets_for(a, W)), c),
                      " ".join([str(c)] + [str(a % p) for p in B[:c]]), "basemod", W))
    return ops


def strong_liars(n, limit=4000):
    return [b for b in range(2, min(n - 1, limit)) if mr_pass(n, b)]


def rm_expect(a, iter_, tape):
    """independent recomputation of the tape-driven test: returns (verdict, unread elements)"""
    if a % 2 == 0:
        return a == 2, len(tape)
    if a < 49:
        return is_prime(a), len(tape)
    t = list(tape)
    for _ in range(iter_):
        i = 0
        while True:
            if i * 45 > 640 or not t:
                return False, len(t)
            i += 1
            b = t.pop(0)
            if b != 1 and b != a - 1:
                break
        if not mr_pass(a, b):
            return False, len(t)
    return True, len(t)


def gen_rm(ctx, W):
    rng, ops = ctx.rng, []
    cnt = 40 if ctx.tier == "quick" else 400

    def add(a, iter_, tape, k, extra=0):
        no = octets_for(a, W, extra)
        r, left = rm_expect(a, iter_, tape)
        th = "".join(le_hex(b, no) for b in tape) or "-"
        ops.append(Op("rm %d %s %d %s" % (W, le_hex(a, no), iter_, th), "%d %d" % (1 if r else 0, left), "rm:" + k, W,
                      note="prime" if is_prime(a) else "composite"))
    for a in list(range(0, 60)) + [2 ** W - 1, 2 ** W + 1]:
        add(a, 3, [2, 3, 5][: max(0, min(3, a - 2))], "small")
    for _ in range(cnt):
        bits = rng.choice([7, 12, 16, 31, 32, 33, 63, 64, 65, 127, 128, 129, 192, 256, 384, 512])
        p = rand_prime(rng, bits)
        it = rng.choice([0, 1, 2, 5, 32])
        add(p, it, [rng.randrange(2, p - 1) for _ in range(it)], "prime")
        # runs of ±1 in the tape: the draw budget (15 draws per iteration)
        run = rng.choice([1, 5, 14, 15, 16])
        add(p, 2, [2] + [rng.choice([1, p - 1]) for _ in range(run)] + [3, 5], "prime-run%d" % run)
        add(p, 3, [2, 3], "prime-short-tape")
        q = rand_prime(rng, max(4, bits // 2))
        n = p * q
        it = rng.choice([1, 2, 5])
        add(n, it, [rng.randrange(2, n - 1) for _ in range(it)], "pq")
        add(p * p, 2, [rng.randrange(2, p * p - 1) for _ in range(2)], "p^2")
    # composites with tapes made of strong liars: the test is fooled (documented: probabilistic)
    for n in SPSP_2 + SPSP_2_3[:4] + CARMICHAEL[:20] + [25326001, 3215031751]:
        L = strong_liars(n)
        if L:
            tape = [rng.choice(L) for _ in range(3)]
            add(n, 3, tape, "liar-tape")
            add(n, 3, tape[:2] + [rng.choice([b for b in range(2, 60) if b not in L] or [2])], "liar-then-witness")
    for n in chernick(rng, 90) + chernick(rng, 150):
        add(n, 4, [rng.randrange(2, n - 1) for _ in range(4)], "carmichael")
    return ops


# =========================================================================== run
def route(ops):
    """(64-bit lines, 32-bit lines) — ops without a word size go to the 64-bit build"""
    return [o for o in ops if o.W in (0, 64)], [o for o in ops if o.W == 32]


def replay_text(op, impl, model, why):
    return "\n".join(["# property C12: " + why,
                      "# op line (harness/c12.c protocol, docs/C12.md); expected = independent recomputation",
                      "# replay: ./check C12 --replay <this file>",
                      "cfg " + ("w32" if op.W == 32 else "asan"),
                      "op " + op.line,
                      "expected " + (op.expect if isinstance(op.expect, str) else "?"),
                      "# implementation printed: " + str(impl),
                      "# model printed: " + str(model)]) + "\n"


def corpus(ctx):
    """witnesses of past findings first (docs/C12.fix-*.diff)"""
    ops = []
    for W in (64, 32):
        no = W // 8
        t = "0200000000000000000003000000000000000000050000000000000000000700000000000000000000"
        for a, exp in ((5, 5), (7, 7), (1000, 1009), (8160, 8161)):
            tape = "".join((b).to_bytes(2 * no, "little").hex() for b in (2, 3, 5, 7, 11))
            ops.append(Op("nextp %d %s max 1024 1 %s" % (W, a.to_bytes(2 * no, "little").hex(), tape),
                          "1 " + exp.to_bytes(2 * no, "little").hex(), "corpus:nextp-small-value-long-array", W,
                          note="priNextPrime with a one-word value in a two-word array (docs/C12.fix-5)"))
    return ops


def generate(ctx, std, bels):
    import x_c12
    ops = corpus(ctx)
    ops += C12_val.generate(ctx, std, bels, x_c12.extract_lr("src/crypto/stb99.c"), x_c12.extract_lr("src/crypto/pfok.c"),
                            x_c12.extract_consts()["stb99RiMargin"])
    ops += C12_cw.generate(ctx, std, x_c12.extract_lr("src/crypto/stb99.c"), x_c12.extract_lr("src/crypto/pfok.c"))
    o_ops, fix7 = C12_obj.generate(ctx, std, vcommon.REPO)
    ops += o_ops
    ctx.cov["qrIsOperable_damaged_o_count_ops"] = "included" if fix7 else "skipped: qrIsOperable still walks nested objects first (docs/C12.fix-7.diff)"
    ops += gen_dates(ctx)
    for W in (64, 32):
        ops += gen_primew(ctx, W)
        ops += gen_sieve(ctx, W)
        ops += gen_rm(ctx, W)
    return ops


def run(ctx):
    terr = None
    try:
        regen(ctx)
    except Exception as e:
        terr = "%s: %s" % (type(e).__name__, e)
    proof_ok, log = (False, "translator: " + terr) if terr else ctx.prove(TARGETS, PROPS)
    ctx.cov["t_prove_s"] = round(__import__("time").time() - ctx.t0, 1)
    exes = {"asan": ctx.cc("harness/c12.c", "asan"), "w32": ctx.cc("harness/c12.c", "w32")}
    std, bels = C12_val.load_std(lambda lines: ctx.run_lines(exes["asan"], lines)[0])
    ops = generate(ctx, std, bels)
    gen_ops = [o for o in ops if o.klass.startswith("gen:")]
    ops = [o for o in ops if not o.klass.startswith("gen:")]
    o64, o32 = route(ops)
    have_drv = os.path.exists(ctx.driver())
    results = []   # (op, impl, model)
    import time
    ctx.cov["t_generate_s"] = round(time.time() - ctx.t0, 1)
    for cfg, lst, label in (("asan", o64, "w64"), ("w32", o32, "w32")):
        if not lst:
            continue
        exe = exes[cfg]
        lines = [o.line for o in lst]
        if have_drv:
            mism, c_out, l_out = ctx.diff_run(exe, lines, label)
        else:
            c_out, _, _ = ctx.run_lines(exe, lines)
            l_out = [None] * len(c_out)
        for i, o in enumerate(lst[:len(c_out)]):
            results.append((o, c_out[i], l_out[i] if i < len(l_out) else None))
    # implementation-only ops: generation from a seed; the generated set must validate (fed back to the validator)
    if gen_ops:
        g_out = ctx.run_lines(exes["asan"], [o.line for o in gen_ops])[0]
        back = []
        for o, c in zip(gen_ops, g_out):
            results.append((o, c, None))
            w = c.split()
            if w and w[0] == "0" and len(w) == 7:
                back.append(Op("stb99val " + " ".join(w[1:7]), "0", "gen:validate-generated"))
        if back:
            b_out = ctx.run_lines(exes["asan"], [o.line for o in back])[0]
            results += [(o, c, None) for o, c in zip(back, b_out)]
        ctx.cov["generated_parameter_sets"] = len(back)
    ctx.cov["t_diff_done_s"] = round(time.time() - ctx.t0, 1)
    # ---- search oracle: implementation vs independent recomputation
    bad_oracle, bad_model = collections.OrderedDict(), collections.OrderedDict()
    kl = collections.Counter()
    for o, c, l in results:
        kl[o.klass.split(":")[0] + ("/w32" if o.W == 32 else "")] += 1
        if callable(o.expect):
            if not o.expect(c):
                o.expect = "a prime of the requested bit length, = 1 (mod 2qa)"
                bad_oracle.setdefault(o.klass, []).append((o, c, l))
            elif l is not None and c != l:
                bad_model.setdefault(o.klass, []).append((o, c, l))
            o.expect = None
            continue
        if o.expect is not None and c != o.expect:
            bad_oracle.setdefault(o.klass, []).append((o, c, l))
        elif l is not None and c != l:
            bad_model.setdefault(o.klass, []).append((o, c, l))
    ctx.cov["ops_by_class"] = dict(kl)
    ctx.cov["classes"] = len(set(o.klass for o in ops))
    # per conjunct of every parameter validator: is an object failing exactly that conjunct in the stream?
    cw = C12_cw.report(ops)
    ctx.cov["conjunct_witnesses"] = cw
    ctx.cov["conjuncts_with_witness"] = sum(1 for v in cw.values() for r in v if r["witness"])
    ctx.cov["conjuncts_without_witness"] = ["%s: %s (%s)" % (k, r["conjunct"], r["remark"]) for k, v in cw.items() for r in v if not r["witness"]]
    ctx.cov["distinct_nontrivial"] = len(set(o.line for o in ops))
    ctx.cov["oracle_disagreements"] = sum(len(v) for v in bad_oracle.values())
    ctx.cov["model_disagreements"] = sum(len(v) for v in bad_model.values())
    ctx.cov["accepting_ops"] = sum(1 for o, c, l in results if c.startswith("1") or c == "0 ok")
    for o in ops[:2] + ops[len(ops) // 2: len(ops) // 2 + 2] + ops[-2:]:
        ctx.samples.append({"op": o.line[:200], "expected": o.expect if isinstance(o.expect, (str, type(None))) else "predicate", "class": o.klass})
    ctx.samples.append({"theorem": "Bee2V.C12.tmDateIsValid2_iff",
                        "statement": "∀ d0…d5 : UInt8, tmDateIsValid2 d0…d5 = true ↔ (all ≤ 9) ∧ Spec.gregorian (2000+YY) MM DD"})
    # ---- verdict
    for k, l in list(bad_oracle.items())[:6]:
        o, c, m = l[0]
        ctx.violation(k, replay_text(o, c, m, "the implementation differs from the independent recomputation (%d inputs of class %s)" % (len(l), k)),
                      True, "%s: implementation %s, expected %s (%d inputs of this class); %s" % (o.line[:300], c, o.expect, len(l), o.note))
    if not bad_oracle:
        if bad_model:
            k, l = next(iter(bad_model.items()))
            o, c, m = l[0]
            ctx.violation("correspondence:" + k, replay_text(o, c, m, "model and implementation disagree; the independent recomputation agrees with the implementation"),
                          False, "%d lines differ, first: %s impl=%s model=%s" % (sum(len(v) for v in bad_model.values()), o.line[:200], c[:100], str(m)[:100]))
        elif not proof_ok:
            errs = "\n".join(x for x in log.split("\n") if "error" in x or "translator" in x or "axiom" in x or "forbidden" in x)[:3000]
            ctx.violation("proof", "# property C12: the theorems of Bee2V/C12/Props*.lean no longer check; the search over the implementation "
                          "(independent recomputation of every generated op) found no failing input.\n" +
                          "\n".join("# " + x for x in errs.split("\n")) + "\n", False,
                          "theorems no longer check: " + (terr or "; ".join(ctx.cov.get("lake_errors", [])) or log[-300:])[:600])
    return ctx.finish(
        level="proof",
        assumptions=[
            "word arrays are modelled by their values (Nat); zz/zm/qr/ww/pp primitives are modelled by their specifications (modular power, %, gcd …) — their own correctness is property C07's",
        ],
        rule="see docs/C12.md: structured generators per validator (boundary windows, pseudoprime lists, perturbed standard parameters); "
             "distinct = distinct op lines",
        exhaustive=False)


# ---------------------------------------------------------------------------------------- C19
C19_NO_CROSS = True          # the op lines carry the word size (`primew 64 …`, prefix `W32`)


class _QuickCtx:
    """the generators only read .rng and .tier"""

    def __init__(self, ctx):
        self.rng, self.tier, self.seed = ctx.rng, "quick", ctx.seed


def c19_stream():
    """op stream for property C19 (every build configuration computes the same function): corpus, validators of every
    scheme (light selection), dates, primality / sieve / Miller–Rabin with tapes, polynomials — at most ~10k lines per
    word size; W = 64 lines for the 64-bit builds, W = 32 lines (prefix `W32` for validators) for the 32-bit-word builds."""
    def fn(ctx, exe, w):
        import x_c12
        q = _QuickCtx(ctx)
        rng = q.rng
        std, bels = C12_val.load_std(lambda lines: ctx.run_lines(exe, lines)[0])
        ops = [o for o in corpus(q) if o.W == w]
        ops += C12_val.generate(q, std, bels, x_c12.extract_lr("src/crypto/stb99.c"), x_c12.extract_lr("src/crypto/pfok.c"),
                                x_c12.extract_consts()["stb99RiMargin"], only_w=w, light=True)
        if w == 64:
            d = gen_dates(q)
            ops += d[:600] + rng.sample(d[600:], min(1400, len(d) - 600))
        pw = gen_primew(q, w)
        ops += [o for o in pw if not o.klass.startswith("primew:window") and not o.klass.startswith("primew:small")][:1500]
        ops += rng.sample([o for o in pw if o.klass.startswith("primew:window") or o.klass.startswith("primew:small")], 2500)
        sv = gen_sieve(q, w)
        ops += rng.sample(sv, min(1500, len(sv)))
        ops += gen_rm(q, w)
        ops += C12_obj.generate(q, std, vcommon.REPO, only_w=w)[0]
        ops = [o for o in ops if not o.klass.startswith("gen:")]
        return [o.line for o in ops][:10000]
    return ("harness/c12.c", "drv_c12", fn, False)


def replay(ctx, path):
    cfg, op, exp = "asan", None, None
    for line in open(path):
        w = line.rstrip("\n").split(" ", 1)
        if len(w) < 2 or w[0].startswith("#"):
            continue
        if w[0] == "cfg":
            cfg = w[1].strip()
        elif w[0] == "op":
            op = w[1]
        elif w[0] == "expected":
            exp = w[1]
    if op is None:
        print("replay file names a theorem/correspondence, not an input: nothing to execute")
        return 0
    exe = ctx.cc("harness/c12.c", cfg)
    out, err, rc = ctx.run_lines(exe, [op])
    got = out[0] if out else "CRASH rc=%d %s" % (rc, err[-300:])
    print("op       : %s\nimpl     : %s\nexpected : %s" % (op[:400], got, exp))
    bad = exp is not None and exp != "?" and got != exp
    print("C12 %s on the current tree" % ("VIOLATED" if bad else "holds for this input"))
    return 1 if bad else 0

"""C14 — SAFE = FAST functionally; SAFE control flow and the tag/hash/header comparisons of the
Verify steps are data-independent.

Three mechanisms (docs/C14.md):
 A. regularity by translation + verified checker: xlate/x_c14_ir.py re-extracts every SAFE(f)
    routine, its helpers, the Verify steps and beltKWPUnwrap into the IR of Bee2V/C14/IR.lean;
    `ctProg prog true = true` (Props.lean, per routine in Gen/C14Obl.lean) + the soundness theorem
    of the checker (IRSound.lean) give trace non-interference.  Tie: the executable IR semantics
    is run against the real routines on the correspondence stream (`ir` / `stepv` lines).
 B. SAFE = FAST: hand models of both editions of the comparison family with theorems
    safe = fast = spec (PropsCmp.lean), tied by the `<routine> safe|fast` lines; for all 33 pairs
    the direct differential `sf` on the implementation.
 C. machine code (sampling, not proof): the -O2 Release build under valgrind memcheck with all
    secret operands marked undefined; every "Conditional jump or move depends on uninitialised
    value(s)" is a violation (except the accept/reject branch of beltKWPUnwrap on the verdict).
"""
import os, re, subprocess, sys, importlib, math
import vcommon
from vcommon import VERIF

PROPS = ["Bee2V/C14/Props.lean", "Bee2V/Gen/C14Obl.lean", "Bee2V/Gen/C14Obl32.lean", "Bee2V/Gen/C14OblPrim.lean"]
if os.path.exists(os.path.join(vcommon.LEAN, "Bee2V/C14/PropsCmp.lean")):
    PROPS.append("Bee2V/C14/PropsCmp.lean")
WB = 64          # bits per machine word of the configuration the cases are generated for
B = 1 << WB


def setw(wb):
    """select the word size (64: default build; 32: -U__SIZEOF_INT128__) for all generators below"""
    global WB, B
    WB, B = wb, 1 << wb


def opn(name):
    """op names of word-size specific lines carry the word size (ir/sf/trace/stepv, ww family)"""
    return name if WB == 64 else name + "32"


def _x():
    import x_c14_ir
    return importlib.reload(x_c14_ir)


GEN32 = {}


def regen(ctx):
    """both word-size configurations: B_PER_W = 64 (default) and B_PER_W = 32 (-U__SIZEOF_INT128__)"""
    x = _x()
    text, W, funs, roots, safes = x.generate()
    ctx.regen("Bee2V/Gen/C14IR.lean", text)
    ctx.regen("Bee2V/Gen/C14Obl.lean", x.generate_obl(funs))
    t32, W32, funs32, roots32, safes32 = x.generate(extra=x.EXTRA32, module="C14IR32")
    ctx.regen("Bee2V/Gen/C14IR32.lean", t32)
    ctx.regen("Bee2V/Gen/C14Obl32.lean", x.generate_obl(funs32, "C14IR32", "Obl32"))
    GEN32.update({"W": W32, "funs": funs32})
    # block primitives (branches-only observation model) and the program executed for the value tie
    tp, Wp, funsp, _, _ = x.generate(module="C14Prim", prim=True)
    ctx.regen("Bee2V/Gen/C14Prim.lean", tp)
    ctx.regen("Bee2V/Gen/C14OblPrim.lean", x.generate_obl(funsp, "C14Prim", "OblPrim", strict=False))
    GEN32.update({"Wp": Wp, "funsp": funsp})
    tx, Wx, funsx, _, _ = x.generate(module="C14Exec", prim="exec")
    ctx.regen("Bee2V/Gen/C14Exec.lean", tx)
    return x, W, funs, roots, safes


# ------------------------------------------------------------------------------ encoding helpers

def le(v, nbytes):
    return "-" if nbytes == 0 else (v % (1 << (8 * nbytes))).to_bytes(nbytes, "little").hex()


def Wd(v, n):
    return le(v, (WB // 8) * n)


def hexs(bs):
    return bytes(bs).hex() if len(bs) else "-"


# ------------------------------------------------------------------------------ operand classes

def rnd_words(rng, n):
    return rng.getrandbits(WB * n) if n else 0


def moduli(rng, n, odd=False, crandall=False, k=3):
    """moduli of exactly n words (top word != 0), boundary-heavy"""
    Bn = 1 << (WB * n)
    out = []
    if crandall:
        cs = [1, 3, B - 1, (1 << (WB - 1)) + 1, rng.getrandbits(WB) | 1, rng.getrandbits(20) | 1]
        return [Bn - c for c in rng.sample(cs, min(k, len(cs)))]
    cand = [Bn - 1, Bn - 3, (1 << (WB * n - 1)) + 1, (1 << (WB * (n - 1))) + (1 if (odd or n == 1) else 0) + (2 if n == 1 else 0),
            Bn - rng.getrandbits(WB) * 2 - 1, rnd_words(rng, n) | (1 << (WB * n - 1)) | 1,
            (rnd_words(rng, n) | (1 << (WB * (n - 1))) | 1) % Bn]
    if not odd:
        cand += [(1 << (WB * n - 1)), Bn - 2, (rnd_words(rng, n) | (1 << (WB * n - 3))) & ~1]
    cand = [m for m in cand if m >= (1 << (WB * (n - 1))) and m < Bn and m >= 3 and (not odd or m % 2)]
    rng.shuffle(cand)
    return cand[:k]


def below(rng, m):
    return rng.randrange(m)


def cases_mod(rng, name, n, m):
    """operand tuples for the modular pairs, all satisfying the documented preconditions"""
    Bn = 1 << (WB * n)
    r = lambda: below(rng, m)
    if name == "zzAddMod":
        a = r()
        c = [(0, 0), (m - 1, m - 1), (m - 1, 1), (a, m - a if a else 0), (a, (m - a - 1) % m), (a, (m - a + 1) % m), (r(), r()), (a, a)]
        if 2 * (m - 1) >= Bn:
            x = rng.randrange(Bn - m + 1, m)
            c += [(x, Bn - x), (x, (Bn - x + 1) % m if Bn - x + 1 < m else Bn - x)]
        return [("a+b==mod" if (x + y) == m else "a+b==B^n" if x + y == Bn else "gen", (x, y)) for x, y in c if x < m and y < m]
    if name in ("zzAddWMod", "zzSubWMod"):
        wmax = min(m, B)
        ws = [0, 1, wmax - 1, rng.randrange(wmax), rng.randrange(wmax)]
        c = []
        for w in ws:
            if name == "zzAddWMod":
                c += [("a+w==mod", (m - w if w else 0, w)), ("gen", ((m - w - 1) % m, w)), ("gen", (r(), w))]
                if m + w > Bn and Bn - w < m:
                    c += [("a+w==B^n", (Bn - w, w))]
            else:
                c += [("a==w", (w % m, w)), ("a<w", ((w - 1) % m if w else 0, w)), ("gen", (r(), w)), ("gen", (0, w))]
        return [(k, (a, w)) for k, (a, w) in c if a < m and w < wmax]
    if name == "zzSubMod":
        a = r()
        return [("gen", p) for p in [(0, 0), (0, m - 1), (m - 1, 0), (a, a), (a, (a + 1) % m), ((a + 1) % m, a), (r(), r())]]
    if name == "zzNegMod":
        return [("a==0", (0,)), ("gen", (1,)), ("gen", (m - 1,)), ("gen", (r(),))]
    if name == "zzDoubleMod":
        c = [0, 1, (m - 1) // 2, (m + 1) // 2, m - 1, r()]
        if m % 2 == 0:
            c.append(m // 2)
        return [("2a==mod" if 2 * a == m else "gen", (a,)) for a in c if a < m]
    if name == "zzHalfMod":
        return [("gen", (a,)) for a in [0, 1, m - 1, m - 2, r() | 1, r() & ~1] if 0 <= a < m]
    raise KeyError(name)


def red_inputs(rng, name, n, m):
    """2n-word inputs of the reductions: multiples of the modulus and boundaries"""
    Bn = 1 << (WB * n)
    w = rng.getrandbits(WB)
    mont = name in ("zzRedMont", "zzRedCrandMont")
    lim = m * Bn if mont else Bn * Bn
    c = [("0", 0), ("mod", m), ("2mod", 2 * m), ("4mod", 4 * m), ("w*mod", w * m), ("mod*mod", m * m), ("(B^n-1)*mod", (Bn - 1) * m),
         ("mod-1", m - 1), ("mod*mod-1", m * m - 1), ("max", lim - 1), ("k*mod", rng.randrange(Bn) * m),
         ("gen", rng.randrange(lim)), ("gen", rng.randrange(m * m)), ("B^n", Bn), ("B^n*(mod-1)", Bn * (m - 1)), ("mod*B^n-mod", m * Bn - m)]
    if name == "zzRedBarr":
        # inputs for which the Barrett quotient estimate is short by 1 and by 2 (both correction steps fire)
        want = {1: 2, 2: 2}
        for _ in range(400):
            a = rng.randrange(lim)
            k = barr_corrections(a, m, n)
            if want.get(k, 0) > 0:
                want[k] -= 1
                c.append(("barr:corr%d" % k, a))
            if not any(want.values()):
                break
    return [(k, a) for k, a in c if 0 <= a < lim]


def barr_corrections(a, m, n):
    """number of `a -= mod` steps that the Barrett reduction of the code needs for this input"""
    mu = (1 << (2 * WB * n)) // m
    q = ((a >> (WB * (n - 1))) * mu) >> (WB * (n + 1))
    M = 1 << (WB * (n + 1))
    return ((a % M - (q * m) % M) % M) // m


def neg_inv64(m0):   # -m0^{-1} mod B (wordNegInv)
    return (-pow(m0, -1, B)) % B


# ------------------------------------------------------------------------------ case generation
# a case = (routine, class key, [arg tokens], n_result_words or None)

def gen_cmp_cases(ctx, thorough):
    rng = ctx.rng
    cases = []
    lens = list(range(0, 17))
    # mem*: octet lengths 0..16 words incl. every tail length
    blens = sorted(set(list(range(0, 26)) + [8 * k + t for k in (4, 8, 15, 16) for t in (0, 1, 7)] + [128, 130]))
    for L in blens:
        a = [rng.getrandbits(8) for _ in range(L)]
        variants = [("equal", a, list(a))]
        pos = range(L) if (L <= 26 or thorough) else sorted(set([0, 1, 7, 8, L - 9, L - 8, L - 1] + [rng.randrange(L) for _ in range(4)]))
        for i in pos:
            b = list(a)
            b[i] = (b[i] + rng.choice([1, 255, 128])) % 256
            variants.append(("differ@%d" % i, a, b))
            if i + 1 < L:
                b2 = list(b)
                b2[L - 1] = (a[L - 1] + (1 if b[i] < a[i] else 255)) % 256   # opposite order at the other end
                variants.append(("differ2", a, b2))
        for key, x, y in variants:
            for f in ("memEq", "memCmp", "memCmpRev"):
                cases.append((f, key, ["s" + hexs(x), "s" + hexs(y), "n%d" % L], None))
        z = [0] * L
        cases.append(("memIsZero", "zero", ["s" + hexs(z), "n%d" % L], None))
        o = rng.getrandbits(8)
        cases.append(("memIsRep", "rep", ["s" + hexs([o] * L), "n%d" % L, "w%d" % o], None))
        for i in pos:
            zz = list(z); zz[i] = rng.choice([1, 128, 255])
            cases.append(("memIsZero", "nonzero@%d" % i, ["s" + hexs(zz), "n%d" % L], None))
            rr = [o] * L; rr[i] ^= rng.choice([1, 128, 255])
            cases.append(("memIsRep", "norep@%d" % i, ["s" + hexs(rr), "n%d" % L, "w%d" % o], None))
        if L <= 40:
            hx = "".join(rng.choice("0123456789abcdefABCDEF") for _ in range(2 * L))
            buf = list(bytes.fromhex(hx)) if L else []
            hs = "p" + (hx.encode().hex() + "00")
            cases.append(("hexEq", "equal", ["s" + hexs(buf), hs], None))
            cases.append(("hexEqRev", "equal", ["s" + hexs(buf[::-1]), hs], None))
            for i in range(L):
                bb = list(buf); bb[i] ^= rng.choice([1, 16, 255])
                cases.append(("hexEq", "differ@%d" % i, ["s" + hexs(bb), hs], None))
                cases.append(("hexEqRev", "differ@%d" % i, ["s" + hexs(bb[::-1]), hs], None))
    # ww*
    for n in lens:
        a = [rng.getrandbits(WB) for _ in range(n)]
        enc = lambda ws: "s" + ("".join(le(x, WB // 8) for x in ws) if ws else "-")
        var = [("equal", a, list(a))]
        for i in range(n):
            for d in (1, B - 1, 1 << (WB - 1)):
                b = list(a); b[i] = (b[i] + d) % B
                var.append(("differ@%d" % i, a, b))
            if i + 1 < n:
                b = list(a); b[i] = (b[i] + 1) % B; b[n - 1] = (b[n - 1] - 1) % B
                var.append(("differ2", a, b))
        for key, x, y in var:
            cases.append(("wwEq", key, [enc(x), enc(y), "n%d" % n], None))
            cases.append(("wwCmp", key, [enc(x), enc(y), "n%d" % n], None))
        for m in sorted(set([0, 1, n // 2, max(n - 1, 0), n, n + 1, min(n + 3, 16)])):
            for hi in ("zero", "nz"):
                x = [rng.getrandbits(WB) for _ in range(n)]
                y = x[:m] + [rng.getrandbits(WB) for _ in range(max(0, m - n))]
                y = y[:m]
                if hi == "zero":
                    if n > m:
                        x = x[:m] + [0] * (n - m)
                    else:
                        y = y[:n] + [0] * (m - n)
                for delta in (0, 1, -1):
                    xx, yy = list(x), list(y)
                    k = min(n, m)
                    if k and delta:
                        j = rng.randrange(k)
                        yy[j] = (yy[j] + delta) % B
                    cases.append(("wwCmp2", "n%s m hi=%s" % ("<" if n < m else ">" if n > m else "=", hi), [enc(xx), "n%d" % n, enc(yy), "n%d" % m], None))
        for key, x in [("zero", [0] * n), ("w", [7] + [0] * (n - 1) if n else []), ("gen", a)] + \
                [("nonzero@%d" % i, [0] * i + [rng.choice([1, 1 << (WB - 1)])] + [0] * (n - i - 1)) for i in range(n)]:
            cases.append(("wwIsZero", key, [enc(x), "n%d" % n], None))
            for w in sorted(set([0, 7, x[0] if x else 0, (x[0] + 1) % B if x else 1, B - 1])):
                cases.append(("wwCmpW", key, [enc(x), "n%d" % n, "w%d" % w], None))
                cases.append(("wwIsW", key, [enc(x), "n%d" % n, "w%d" % w], None))
        w = rng.getrandbits(WB)
        for key, x in [("rep", [w] * n)] + [("norep@%d" % i, [w] * i + [w ^ rng.choice([1, 1 << (WB - 1)])] + [w] * (n - i - 1)) for i in range(n)]:
            for ww in (w, 0):
                cases.append(("wwIsRepW", key, [enc(x), "n%d" % n, "w%d" % ww], None))
        # zzIsSumEq / zzIsSumWEq
        if True:
            Bn = 1 << (WB * n)
            for key, (x, y) in [("gen", (rnd_words(rng, n), rnd_words(rng, n))), ("carry", (Bn - 1, 1 if n else 0)), ("zero", (0, 0)),
                                ("carrychain", (Bn - 1, Bn - 1))]:
                s = x + y
                for ck, c in [("sum", s % Bn if n else 0), ("sum+1", (s + 1) % Bn if n else 0), ("sum^hi", (s ^ (1 << (WB * n - 1))) % Bn if n else 0)]:
                    cases.append(("zzIsSumEq", key + ":" + ck + (":ovf" if s >= Bn else ""), ["s" + Wd(c, n), "s" + Wd(x, n), "s" + Wd(y, n), "n%d" % n], None))
                w = rng.choice([0, 1, B - 1, rng.getrandbits(WB)])
                s = x + w
                for ck, c in [("sum", s % Bn if n else 0), ("sum+1", (s + 1) % Bn if n else 0)]:
                    cases.append(("zzIsSumWEq", key + ":" + ck + (":ovf" if s >= Bn else ""), ["s" + Wd(c, n), "s" + Wd(x, n), "n%d" % n, "w%d" % w], None))
    # CLZ / CTZ
    for bits in (16, 32, 64):
        vals = set([0, 1, (1 << bits) - 1, 1 << (bits - 1)])
        for i in range(bits):
            vals.add(1 << i); vals.add(((1 << bits) - 1) >> i); vals.add((((1 << bits) - 1) << i) % (1 << bits))
            vals.add((rng.getrandbits(bits) | 1) << i & ((1 << bits) - 1)); vals.add(rng.getrandbits(bits) >> i)
        for v in sorted(vals):
            cases.append(("u%dCTZ" % bits, "v", ["w%d" % v], None))
            cases.append(("u%dCLZ" % bits, "v", ["w%d" % v], None))
    return cases


def gen_mod_cases(ctx, thorough):
    rng = ctx.rng
    cases = []
    for n in range(1, 17):
        km = 3 if (thorough or n <= 4 or n in (8, 16)) else 2
        for name in ("zzAddMod", "zzAddWMod", "zzSubMod", "zzSubWMod", "zzNegMod", "zzDoubleMod", "zzHalfMod"):
            for m in moduli(rng, n, odd=(name == "zzHalfMod"), k=km):
                for key, ops in cases_mod(rng, name, n, m):
                    for alias in ((False, True) if rng.random() < 0.25 else (False,)):
                        out = "s" + Wd(0, n)
                        if name in ("zzAddMod", "zzSubMod"):
                            a, b = ops
                            args = ["s" + Wd(a, n), "s" + Wd(b, n), "s" + Wd(m, n), "n%d" % n]
                            args = (["@0+0"] if alias else [out]) + args
                            if alias:
                                args = ["s" + Wd(a, n), "@0+0", "s" + Wd(b, n), "s" + Wd(m, n), "n%d" % n]
                        elif name in ("zzAddWMod", "zzSubWMod"):
                            a, w = ops
                            args = ["s" + Wd(a, n), "@0+0", "w%d" % w, "s" + Wd(m, n), "n%d" % n] if alias else \
                                   [out, "s" + Wd(a, n), "w%d" % w, "s" + Wd(m, n), "n%d" % n]
                        else:
                            (a,) = ops
                            args = ["s" + Wd(a, n), "@0+0", "s" + Wd(m, n), "n%d" % n] if alias else \
                                   [out, "s" + Wd(a, n), "s" + Wd(m, n), "n%d" % n]
                        cases.append((name, key, args, None))
    for n in range(1, 17):
        km = 3 if (thorough or n <= 4 or n in (8, 16)) else 2
        for name in ("zzRedCrand", "zzRedBarr", "zzRedMont", "zzRedCrandMont"):
            cr = name in ("zzRedCrand", "zzRedCrandMont")
            if cr and n < 2:
                continue
            ms = moduli(rng, n, odd=(name != "zzRedBarr" and name != "zzRedCrand"), crandall=cr, k=km)
            if name == "zzRedBarr":
                ms = ms[:km - 1] + [(1 << (WB * (n - 1))) + 1 + (2 if n == 1 else 0)]   # small top word: estimate short by 2
                if n >= 3:
                    # C05 fix-11: mod = B^n - d, d ~ B^(n/2): after the first subtraction the top word a[n] is 2
                    Bn_ = 1 << (WB * n)
                    m11 = Bn_ - (math.isqrt(1 + 4 * Bn_) - 1) // 2
                    a11 = ((B ** (n + 1)) - B) * (B ** (n - 1)) + B ** (n - 1) - 1
                    mu11 = (1 << (2 * WB * n)) // m11
                    cases.append((name, "barr:top-word-2", ["s" + Wd(a11, 2 * n), "s" + Wd(m11, n), "n%d" % n, "s" + Wd(mu11, n + 2),
                                                            "z%d" % ((WB // 8) * (4 * n + 5))], n))
            for m in ms:
                if name == "zzRedCrandMont" and m % 2 == 0:
                    continue
                for key, a in red_inputs(rng, name, n, m):
                    if name == "zzRedCrand":
                        args = ["s" + Wd(a, 2 * n), "s" + Wd(m, n), "n%d" % n, "z8"]
                    elif name == "zzRedBarr":
                        mu = (1 << (2 * WB * n)) // m
                        args = ["s" + Wd(a, 2 * n), "s" + Wd(m, n), "n%d" % n, "s" + Wd(mu, n + 2), "z%d" % ((WB // 8) * (4 * n + 5))]
                    else:
                        args = ["s" + Wd(a, 2 * n), "s" + Wd(m, n), "n%d" % n, "w%d" % neg_inv64(m % B), "z8"]
                    cases.append((name, key, args, n))
    return cases


def gen_helper_cases(ctx):
    """helpers that the SAFE routines call (tie of their IR only)"""
    rng = ctx.rng
    cases = []
    for n in [0, 1, 2, 3, 5, 8]:
        a, b = rnd_words(rng, n), rnd_words(rng, n)
        for w in (0, B - 1, rng.getrandbits(WB)):
            cases.append(("zzSubAndW", "h", ["s" + Wd(b, n), "s" + Wd(a, n), "n%d" % n, "w%d" % w], None))
            cases.append(("zzAddAndW", "h", ["s" + Wd(b, n), "s" + Wd(a, n), "n%d" % n, "w%d" % w], None))
            cases.append(("zzAddW2", "h", ["s" + Wd(a, n), "n%d" % n, "w%d" % w], None))
            cases.append(("zzAddW2", "h", ["s" + Wd((1 << (WB * n)) - 1, n), "n%d" % n, "w%d" % w], None))
            cases.append(("zzSubW2", "h", ["s" + Wd(a, n), "n%d" % n, "w%d" % w], None))
            cases.append(("zzSubW2", "h", ["s" + Wd(0, n), "n%d" % n, "w%d" % w], None))
            cases.append(("zzAddMulW", "h", ["s" + Wd(b, n), "s" + Wd(a, n), "n%d" % n, "w%d" % w], None))
            cases.append(("zzSubW", "h", ["s" + Wd(0, n), "s" + Wd(a, n), "n%d" % n, "w%d" % w], None))
        cases.append(("zzSub", "h", ["s" + Wd(0, n), "s" + Wd(a, n), "s" + Wd(b, n), "n%d" % n], None))
        Bn_ = 1 << (WB * n)
        for x_, y_ in ((a, b), (Bn_ - 1, 1 if n else 0), (Bn_ - 1, Bn_ - 1), (a, (Bn_ - a) % Bn_)):
            cases.append(("zzAdd", "h", ["s" + Wd(0, n), "s" + Wd(x_, n), "s" + Wd(y_, n), "n%d" % n], None))
            cases.append(("zzAdd2", "h", ["s" + Wd(x_, n), "s" + Wd(y_, n), "n%d" % n], None))
            cases.append(("zzSub", "h", ["s" + Wd(0, n), "s" + Wd(y_, n), "s" + Wd(x_, n), "n%d" % n], None))
            cases.append(("zzSub2", "h", ["s" + Wd(y_, n), "s" + Wd(x_, n), "n%d" % n], None))
        for w in (0, 1, B - 1):
            cases.append(("zzAddW", "h", ["s" + Wd(0, n), "s" + Wd(Bn_ - 1, n), "n%d" % n, "w%d" % w], None))
            cases.append(("zzAddW", "h", ["s" + Wd(0, n), "s" + Wd(a, n), "n%d" % n, "w%d" % w], None))
        for w in (1, 2, 3, (1 << (WB // 2)), (1 << (WB // 2)) - 1, rng.randrange(1, 1 << (WB // 2))):
            cases.append(("zzModW2", "h", ["s" + Wd(a, n), "n%d" % n, "w%d" % w], None))
            cases.append(("zzModW2", "h", ["s" + Wd(Bn_ - 1, n), "n%d" % n, "w%d" % w], None))
        cases.append(("zzSub2", "h", ["s" + Wd(b, n), "s" + Wd(a, n), "n%d" % n], None))
        for m in (0, 1, 3):
            c = rnd_words(rng, m)
            cases.append(("zzMul", "h", ["s" + Wd(0, n + m), "s" + Wd(a, n), "n%d" % n, "s" + Wd(c, m), "n%d" % m, "z8"], None))
    for bits in (16, 32, 64):
        for v in (0, 1, (1 << bits) - 1, rng.getrandbits(bits)):
            cases.append(("u%dWeight" % bits, "h", ["w%d" % v], None))
    for s in ("", "a", "0123456789"):
        cases.append(("strLen", "h", ["p" + s.encode().hex() + "00"], None))
    return cases


CORPUS = os.path.join(VERIF, "gen", "c14_corpus.txt")


def corpus_cases():
    """witnesses of defects found earlier (known_findings.txt `fixed:` lines of C14) and seeds (64-bit words)"""
    out = []
    if WB == 64 and os.path.exists(CORPUS):
        for line in open(CORPUS):
            line = line.strip()
            if not line or line.startswith("#"):
                continue
            w = line.split()
            nres = None
            if w[0].startswith("res="):
                nres = int(w[0][4:]); w = w[1:]
            out.append((w[0], "corpus", w[1:], nres))
    return out


# ------------------------------------------------------------------------------ checks on the implementation

def sf_differs(line_out, nres):
    """`safe | fast` output of the harness -> True if the editions disagree"""
    if " | " not in line_out:
        return True
    s, f = line_out.split(" | ", 1)
    if True:   # the harness prints only the result words of a reduction
        return s != f
    ss, ff = s.split(), f.split()
    if len(ss) != len(ff) or ss[0] != ff[0]:
        return True
    return ss[1][:16 * nres] != ff[1][:16 * nres] or ss[2:] != ff[2:]


VG_RE_MARK = re.compile(r"^@@ (.*)$")
VG_COND = "Conditional jump or move depends on uninitialised value"
VG_ADDR = "Use of uninitialised value of size"
# the accept/reject branch on the verdict of the regular comparison is inherent
VG_EXPECTED = {"kwp": "beltKWPUnwrap", "prim dwp": "beltDWPUnwrap", "prim che": "beltCHEUnwrap"}


def run_valgrind(ctx, exe, lines, timeout=1500):
    """-> (cond reports [(op, top frames)], n_addr_reports, raw tail, ok)"""
    e = dict(os.environ)
    e["C14_TAINT"] = "1"
    cmd = ["valgrind", "--tool=memcheck", "--error-limit=no", "--leak-check=no", "--num-callers=6", "--undef-value-errors=yes",
           "-q", exe]
    try:
        p = subprocess.run(cmd, input="\n".join(lines) + "\n", capture_output=True, text=True, env=e, timeout=timeout)
    except (OSError, subprocess.TimeoutExpired) as ex:
        return [], 0, "valgrind failed: %s" % ex, False
    cur, conds, naddr = None, [], 0
    err = p.stderr.split("\n")
    i = 0
    while i < len(err):
        l = err[i]
        m = VG_RE_MARK.match(l)
        if m:
            cur = m.group(1)
        elif VG_COND in l or VG_ADDR in l:
            frames = []
            j = i + 1
            while j < len(err) and re.match(r"^==\d+==\s+(at|by) ", err[j]):
                fm = re.match(r"^==\d+==\s+(?:at|by) 0x[0-9A-Fa-f]+: (\S+)", err[j])
                frames.append(fm.group(1) if fm else "?")
                j += 1
            if VG_COND in l:
                conds.append((cur, frames))
            else:
                naddr += 1
            i = j - 1
        i += 1
    ok = (p.returncode == 0 and len(p.stdout.strip().split("\n")) == len(lines))
    return conds, naddr, p.stderr[-1500:], ok


def unexpected(conds):
    def exp(op, fr):
        return any(op and op.startswith(k + " ") and fr and fr[0] == f for k, f in VG_EXPECTED.items())
    return [(op, fr) for op, fr in conds if not exp(op, fr)]


# ------------------------------------------------------------------------------ run

KINDS = None


def prim_ir_cases(ctx):
    """block primitives: their IR (program C14Exec) is executed by the driver and compared with the real routine"""
    rng = ctx.rng
    rb = lambda n: hexs([rng.getrandbits(8) for _ in range(n)])
    out = []
    for _ in range(6):
        for f in ("beltBlockEncr", "beltBlockDecr", "beltBlockEncr2", "beltBlockDecr2"):
            out.append("irx %s s%s s%s" % (f, rb(16), rb(32)))
        out.append("irx beltCompr s%s s%s z64" % (rb(32), rb(32)))
        out.append("irx beltCompr2 s%s s%s s%s z64" % (rb(16), rb(32), rb(32)))
        out.append("irx beltPolyMul s%s s%s s%s z1024" % (rb(16), rb(16), rb(16)))
        out.append("irx beltBlockMulC s%s" % rb(16))
        out.append("irx ppRedBelt s%s" % rb(32))
        out.append("irx bashF s%s z8" % rb(192))
    for blk in ("00" * 16, "ff" * 16, "80" + "00" * 15, "00" * 15 + "80"):
        out.append("irx beltBlockEncr s%s s%s" % (blk, "00" * 32))
        out.append("irx beltBlockMulC s%s" % blk)
        out.append("irx beltPolyMul s%s s%s s%s z1024" % ("00" * 16, blk, "ff" * 16))
    out.append("irx bashF s%s z8" % ("00" * 192))
    out.append("irx bashF s%s z8" % ("ff" * 192))
    return out


def stepvx_lines(ctx, exe, x, W, thorough):
    """whole Verify steps on real states: pass 1 (`tag`, `state`) asks the library for the true tag and for the
    state octets before the step, pass 2 (`stepvx`) runs the real step and the IR of the step (StepG_internal and
    block primitives included) on that state; result and state afterwards are compared"""
    rng = ctx.rng
    pre, meta = [], []
    for kind, src, rec, fld, tl, keyed in KINDS:
        lay = W.tu(src).layouts().get(rec)
        rngs = ",".join("%d:8" % lay[f] for (r, f) in sorted(x.PUBFIELDS) if r == rec and f in lay) or "-"
        for dl in ([0, 1, 15, 16, 17, 31, 32, 33, 64, 191, 192, 200] if thorough else [0, 5, 16, 32, 33, 192]):
            key = hexs([rng.getrandbits(8) for _ in range(rng.choice([16, 24, 32]) if kind.startswith("beltMAC") or "DWP" in kind or "CHE" in kind else rng.choice([1, 32, 40]))]) if keyed else "-"
            iv = hexs([rng.getrandbits(8) for _ in range(16)])
            data = hexs([rng.getrandbits(8) for _ in range(dl)])
            tlen = tl if kind != "bashHashStepV" else rng.choice([32, 48, 64])
            pre.append("tag %s %s %s %s %d" % (kind, key, iv, data, tlen))
            pre.append("state %s %s %s %s %d" % (kind, key, iv, data, tlen))
            meta.append((kind, tlen, rngs))
    out, err, rc = ctx.run_lines(exe, pre)
    if rc != 0 or len(out) != len(pre):
        raise RuntimeError("c14 harness failed on tag/state lines: " + err[-400:])
    lines = []
    for i, (kind, tlen, rngs) in enumerate(meta):
        t, st = out[2 * i], out[2 * i + 1]
        tb = list(bytes.fromhex(t))
        lens = [tlen] if not kind.endswith("2") and kind != "bashHashStepV" else sorted(set([1, tlen // 2, tlen]))
        for ln in lens:
            ln = min(ln, len(tb))
            v = list(tb[:ln])
            lines.append("stepvx %s %s %s %d %s" % (kind, st, hexs(v), ln, rngs))
            v[rng.randrange(ln)] ^= rng.choice([1, 128])
            lines.append("stepvx %s %s %s %d %s" % (kind, st, hexs(v), ln, rngs))
    return lines


def stepv_lines(ctx, exe, x, W, thorough):
    """two passes: `tag` lines give the true tag of the real library; `stepv` lines carry it to the IR side"""
    global KINDS
    rng = ctx.rng
    kinds = KINDS = [("beltMACStepV", "src/crypto/belt/belt_mac.c", "belt_mac_st", "mac", 8, True),
             ("beltMACStepV2", "src/crypto/belt/belt_mac.c", "belt_mac_st", "mac", 8, True),
             ("beltDWPStepV", "src/crypto/belt/belt_dwp.c", "belt_dwp_st", "t1", 8, True),
             ("beltCHEStepV", "src/crypto/belt/belt_che.c", "belt_che_st", "t1", 8, True),
             ("beltHashStepV", "src/crypto/belt/belt_hash.c", "belt_hash_st", "h1", 32, False),
             ("beltHashStepV2", "src/crypto/belt/belt_hash.c", "belt_hash_st", "h1", 32, False),
             ("beltHMACStepV", "src/crypto/belt/belt_hmac.c", "belt_hmac_st", "h1_out", 32, True),
             ("beltHMACStepV2", "src/crypto/belt/belt_hmac.c", "belt_hmac_st", "h1_out", 32, True),
             ("bashHashStepV", "src/crypto/bash/bash_hash.c", "bash_hash_st", "s1", 64, False)]
    pre, meta = [], []
    for kind, src, rec, fld, tl, keyed in kinds:
        lay = W.tu(src).layouts().get(rec)
        if not lay or fld not in lay:
            raise x.Unhandled("layout of %s.%s" % (rec, fld))
        for dl in ([0, 1, 15, 16, 17, 33, 64] if thorough else [0, 5, 16, 33]):
            key = hexs([rng.getrandbits(8) for _ in range(rng.choice([16, 24, 32]) if kind.startswith("beltMAC") or "DWP" in kind or "CHE" in kind else rng.choice([1, 32, 40]))]) if keyed else "-"
            iv = hexs([rng.getrandbits(8) for _ in range(16)])
            data = hexs([rng.getrandbits(8) for _ in range(dl)])
            tlen = tl if kind != "bashHashStepV" else rng.choice([32, 48, 64])
            pre.append("tag %s %s %s %s %d" % (kind, key, iv, data, tlen))
            meta.append((kind, key, iv, data, tlen, lay[fld], lay["#sizeof"]))
    tags, err, rc = ctx.run_lines(exe, pre)
    if rc != 0 or len(tags) != len(pre):
        raise RuntimeError("c14 harness failed on tag lines: " + err[-400:])
    lines = []
    for (kind, key, iv, data, tlen, off, size), t in zip(meta, tags):
        tb = list(bytes.fromhex(t))
        lens = [tlen] if not kind.endswith("2") and kind != "bashHashStepV" else sorted(set([0, 1, tlen // 2, tlen - 1, tlen]))
        for ln in lens:
            ln = min(ln, len(tb))
            variants = [tb[:ln]]
            for i in ([0, ln // 2, ln - 1] if ln else []):
                v = list(tb[:ln]); v[i] ^= rng.choice([1, 128]); variants.append(v)
            for v in variants:
                full = v + [0] * 0
                lines.append("%s %s %s %s %s %s %d %s %d %d" % (opn("stepv"), kind, key, iv, data, hexs(full), ln, t, off, size))
    return lines


def kwp_lines(ctx, exe):
    rng = ctx.rng
    pre, meta = [], []
    for ln in (16, 17, 32, 47):
        for hdr in (True, False):
            key = hexs([rng.getrandbits(8) for _ in range(rng.choice([16, 24, 32]))])
            h = hexs([rng.getrandbits(8) for _ in range(16)]) if hdr else "-"
            src = hexs([rng.getrandbits(8) for _ in range(ln)])
            pre.append("kwpw %s %s %s" % (key, h, src))
            meta.append((key, h, src))
    toks, err, rc = ctx.run_lines(exe, pre)
    if rc != 0 or len(toks) != len(pre):
        raise RuntimeError("c14 harness failed on kwpw lines: " + err[-400:])
    lines, expect = [], []
    for (key, h, src), t in zip(meta, toks):
        tok = t.split()[1]
        lines.append("kwp %s %s %s" % (key, h, tok)); expect.append("0 " + src)
        bad = bytearray(bytes.fromhex(tok)); bad[rng.randrange(len(bad))] ^= 1
        lines.append("kwp %s %s %s" % (key, h, bad.hex())); expect.append("513 -")
        if h != "-":
            hb = bytearray(bytes.fromhex(h)); hb[rng.randrange(16)] ^= 0x80
            lines.append("kwp %s %s %s" % (key, hb.hex(), tok)); expect.append("513 -")
    return lines, expect


def prim_lines(ctx):
    rng = ctx.rng
    out = []
    for name in ("ecb", "cbc", "cfb", "ctr", "dwp", "che", "hmac", "belthash", "bash256", "bash384", "bash512", "krp"):
        for ld in ((16, 33, 64) if name in ("ecb", "cbc") else (12,) if name == "krp" else (0, 17, 64, 200)):
            key = hexs([rng.getrandbits(8) for _ in range(rng.choice([16, 24, 32]) if name != "hmac" else rng.choice([5, 32, 47]))])
            out.append("prim %s %s %s %s" % (name, key, hexs([rng.getrandbits(8) for _ in range(16)]),
                                           hexs([rng.getrandbits(8) for _ in range(ld)])))
    return out


def to_cmp_line(name, args, ed):
    """`ir` case of the comparison family -> line of the hand-model protocol (or None)"""
    def hx(a):
        return a[1:]
    if name in ("memEq", "memCmp", "memCmpRev"):
        return "%s %s %s %s" % (name, ed, hx(args[0]), hx(args[1]))
    if name == "memIsZero":
        return "%s %s %s" % (name, ed, hx(args[0]))
    if name == "memIsRep":
        return "%s %s %s %s" % (name, ed, hx(args[0]), args[2][1:])
    if name in ("hexEq", "hexEqRev"):
        s = bytes.fromhex(args[1][1:])[:-1].decode()
        return "%s %s %s %s" % (name, ed, hx(args[0]), s or "-")
    if name in ("wwEq", "wwCmp"):
        return "%s %s %s %s" % (opn(name), ed, hx(args[0]), hx(args[1]))
    if name == "wwCmp2":
        return "%s %s %s %s" % (opn(name), ed, hx(args[0]), hx(args[2]))
    if name == "wwIsZero":
        return "%s %s %s" % (opn(name), ed, hx(args[0]))
    if name in ("wwCmpW", "wwIsW", "wwIsRepW"):
        return "%s %s %s %s" % (opn(name), ed, hx(args[0]), args[2][1:])
    if re.match(r"u(16|32|64)C[TL]Z$", name):
        return "%s %s %s" % (name, ed, args[0][1:])
    return None


def replay_text(mode, line, what, nres=None):
    return "\n".join(["# property C14: %s" % what.replace("\n", " "),
                      "# replay with ./check C14 --replay <this file>",
                      "mode %s" % mode] + (["res %d" % nres] if nres is not None else []) + ["op %s" % line]) + "\n"


def word_pass(ctx, wb, cfg, x, W, thorough, translator_error, have_cmp, drv_ok):
    """all differential mechanisms for one word size: sf on the implementation, IR vs implementation,
    Verify steps, hand models.  Returns dict(cases, ir_lines, sv_lines, mism, cmp_mism, sf_out, exe)."""
    setw(wb)
    tag = "" if wb == 64 else ":w32"
    try:
        exe = ctx.cc("harness/c14.c", cfg)
        cases = corpus_cases() + gen_cmp_cases(ctx, thorough) + gen_mod_cases(ctx, thorough)
        helper = gen_helper_cases(ctx)
        if wb == 64:
            ctx.cov["pairs_exercised"] = len(set(c[0] for c in cases))
            cpc = {}
            for c in cases:
                k = c[0] + ":" + re.sub(r"@\d+", "@i", c[1])
                cpc[k] = cpc.get(k, 0) + 1
            ctx.cov["classes"] = len(cpc)
            agg = {}
            for k, v in cpc.items():
                agg[k.split(":")[0]] = agg.get(k.split(":")[0], 0) + v
            ctx.cov["cases_per_class"] = agg
        # ---- B: safe vs fast on the implementation (all 33 pairs)
        sf_lines = ["%s %s %s" % (opn("sf"), c[0], " ".join(c[2])) for c in cases]
        sf_out, sf_err, rc = ctx.run_lines(exe, sf_lines)
        sf_bad = []
        if rc != 0 or len(sf_out) != len(sf_lines):
            k = min(len(sf_out), len(sf_lines) - 1)
            summ = [l for l in sf_err.split("\n") if "ERROR" in l or "SUMMARY" in l][:2]
            sf_bad.append((k, sf_lines[k], "CRASH(rc=%d): %s" % (rc, " | ".join(summ))))
        for i, o in enumerate(sf_out[:len(sf_lines)]):
            if o == "bad-op" or sf_differs(o, cases[i][3]):
                sf_bad.append((i, sf_lines[i], o))
        ctx.cov["ops_safe_vs_fast" + tag] = len(sf_lines)
        ctx.cov["ops_total"] = ctx.cov.get("ops_total", 0) + len(sf_lines)
        seen_keys = set()
        for i, line, o in sf_bad[:40]:
            c = cases[i] if i < len(cases) else ("?", "?", [], None)
            key = "safe!=fast:%s:%s%s" % (c[0], re.sub(r"@\d+", "@i", c[1]), tag)
            if key in seen_keys:
                continue
            seen_keys.add(key)
            ctx.violation(key, replay_text("sf" if wb == 64 else "sf32", line.split(" ", 1)[1],
                                           "SAFE(%s) and FAST(%s) disagree on the same operands" % (c[0], c[0]), c[3]),
                          True, "%s [%s]%s: safe | fast = %s" % (c[0], c[1], tag, o[:300]))
        # ---- A: IR interpreter vs the real SAFE routines
        mism, cmp_mism, sv_lines = [], [], []
        ir_lines = ["%s %s %s" % (opn("ir"), c[0], " ".join(c[2])) for c in cases + helper]
        if drv_ok and not translator_error:
            try:
                mism, c_out, l_out = ctx.diff_run(exe, ir_lines, "ir-vs-impl" + tag)
                sv_lines = stepv_lines(ctx, exe, x, W, thorough)
                m2, c2, l2 = ctx.diff_run(exe, sv_lines, "stepv-vs-impl" + tag)
                mism += m2
                ctx.cov["stepv_accept" + tag] = sum(1 for o in c2 if o == "1")
                ctx.cov["stepv_reject" + tag] = sum(1 for o in c2 if o == "0")
                if wb == 64:
                    # value tie of the block primitives, of the whole Verify steps and of beltKWPUnwrap (program C14Exec)
                    px = prim_ir_cases(ctx)
                    m3, _, _ = ctx.diff_run(exe, px, "primitives-ir-vs-impl")
                    svx = stepvx_lines(ctx, exe, x, W, thorough)
                    m4, c4, _ = ctx.diff_run(exe, svx, "stepvx-vs-impl")
                    ctx.cov["stepvx_accept"] = sum(1 for o in c4 if o.startswith("1 "))
                    kwl, _ = kwp_lines(ctx, exe)
                    m5, _, _ = ctx.diff_run(exe, kwl, "kwpunwrap-ir-vs-impl")
                    mism += m3 + m4 + m5
                    sv_lines = sv_lines + px + svx[::3]
            except RuntimeError as e:
                ctx.notes.append(str(e)[:300])
                mism.append((-1, "driver", "", str(e)[:300]))
        # ---- B (models): hand models of both editions vs implementation
        if have_cmp and drv_ok:
            cmp_lines = []
            for c in cases:
                for ed in ("safe", "fast"):
                    l = to_cmp_line(c[0], c[2], ed)
                    if l:
                        cmp_lines.append(l)
            if cmp_lines:
                try:
                    cmp_mism, _, _ = ctx.diff_run(exe, cmp_lines, "models-vs-impl" + tag)
                except RuntimeError as e:
                    ctx.notes.append(str(e)[:300])
                    cmp_mism = [(-1, "driver", "", str(e)[:300])]
        return {"cases": cases, "ir_lines": ir_lines, "sv_lines": sv_lines, "mism": mism, "cmp_mism": cmp_mism,
                "sf_out": sf_out, "exe": exe}
    finally:
        setw(64)


def run(ctx):
    thorough = ctx.tier == "thorough"
    translator_error, x, W, funs = None, None, None, []
    try:
        x, W, funs, roots, safes = regen(ctx)
    except Exception as e:  # fail-closed
        translator_error = "%s: %s" % (type(e).__name__, e)
    diag = []
    if not translator_error:
        try:
            diag = x.diagnose(funs, W) + ["[w32] " + d for d in x.diagnose(GEN32["funs"], GEN32["W"])] + \
                ["[primitives] " + d for d in x.diagnose(GEN32["funsp"], GEN32["Wp"], strict=False, opaque=x.PRIM_OPAQUE)]
        except Exception as e:
            diag = ["diagnose failed: %s" % e]
    have_cmp = os.path.exists(os.path.join(vcommon.LEAN, "Bee2V/C14/PropsCmp.lean"))
    targets = ["Bee2V.C14.Props", "Bee2V.Gen.C14Obl", "Bee2V.Gen.C14Obl32", "Bee2V.Gen.C14OblPrim"] + (["Bee2V.C14.PropsCmp"] if have_cmp else [])
    if translator_error:
        proof_ok, log = False, "translator: " + translator_error
        # the driver (hand models + previous IR) is still needed for the correspondence of B
        ctx.lake_build(["drv_c14"])
    else:
        proof_ok, log = ctx.prove(targets, PROPS)
    failed_routines = []
    if not proof_ok and not translator_error:
        for fn_, sfx in (("C14Obl", ""), ("C14Obl32", "[w32]"), ("C14OblPrim", "[primitive]")):
            obl = open(os.path.join(vcommon.LEAN, "Bee2V/Gen/%s.lean" % fn_)).read().split("\n")
            for f, ln in re.findall(r"error: (\S*%s\.lean):(\d+)" % fn_, log):
                m = re.match(r"theorem ct_(\w+) ", obl[int(ln) - 1]) if int(ln) - 1 < len(obl) else None
                if m:
                    failed_routines.append(m.group(1) + sfx)
        failed_routines = sorted(set(failed_routines))
    drv_ok = os.path.exists(ctx.driver())

    r64 = word_pass(ctx, 64, "asan", x, W, thorough, translator_error, have_cmp, drv_ok)
    r32 = word_pass(ctx, 32, "w32", x, GEN32.get("W"), thorough, translator_error or (None if GEN32 else "no w32 IR"), have_cmp, drv_ok)
    exe, cases, ir_lines, sv_lines, sf_out = r64["exe"], r64["cases"], r64["ir_lines"], r64["sv_lines"], r64["sf_out"]
    mism = r64["mism"] + r32["mism"]
    cmp_mism = r64["cmp_mism"] + r32["cmp_mism"]

    # ---- KWP functional + C: valgrind on the Release build
    kw_lines, kw_expect = kwp_lines(ctx, exe)
    kw_out, kw_err, rc = ctx.run_lines(exe, kw_lines)
    kw_bad = [(l, o, e) for l, o, e in zip(kw_lines, kw_out, kw_expect) if o != e]
    ctx.cov["kwp_ops"] = len(kw_lines)
    vg_conds, vg_unexp, vg_note = [], [], ""
    have_vg = subprocess.run(["sh", "-c", "command -v valgrind"], capture_output=True).returncode == 0
    if have_vg:
        exe_rel = ctx.cc("harness/c14.c", "rel", name="c14-rel")
        step = 1 if thorough else 2
        # every routine keeps its boundary classes; the long position sweeps are thinned
        vg_lines, per = [], {}
        for l in ir_lines:
            f = l.split()[1]
            per[f] = per.get(f, 0) + 1
            if per[f] % step == 1 % step or per[f] <= 12:
                vg_lines.append(l)
        pr_lines = prim_lines(ctx)
        pr_out, pr_err, prc = ctx.run_lines(exe, pr_lines)
        for l, o in zip(pr_lines, pr_out):
            if not o.startswith("0 1 "):
                ctx.notes.append("prim line failed functionally: %s -> %s" % (l[:80], o[:60]))
        ctx.cov["prim_ops"] = len(pr_lines)
        vg_lines += sv_lines[:: (1 if thorough else 2)] + kw_lines + pr_lines
        vg_conds, naddr, tail, ok = run_valgrind(ctx, exe_rel, vg_lines)
        vg_unexp = unexpected(vg_conds)
        ctx.cov["valgrind_ops"] = len(vg_lines)
        ctx.cov["valgrind_cond_reports"] = len(vg_conds)
        ctx.cov["valgrind_cond_reports_expected_verdict_branch"] = len(vg_conds) - len(vg_unexp)
        ctx.cov["valgrind_address_reports_table_lookups"] = naddr
        ctx.cov["ops_total"] = ctx.cov.get("ops_total", 0) + len(vg_lines)
        if not ok:
            vg_note = "valgrind run incomplete: " + tail[-300:]
            ctx.notes.append(vg_note)
    else:
        ctx.notes.append("valgrind not available: mechanism C skipped")
    seen_vg = set()
    for op, fr in vg_unexp:
        key = "machine-code-branch:%s" % (fr[0] if fr else "?")
        if key in seen_vg:
            continue
        seen_vg.add(key)
        ctx.violation(key, replay_text("vg", op or "?", "conditional jump depends on secret data in %s" % " <- ".join(fr[:4])),
                      True, "valgrind: conditional jump/move depends on secret operand data in %s (call chain %s) on input: %s" % (
                          fr[0] if fr else "?", " <- ".join(fr[:4]), (op or "?")[:300]))
    for l, o, e in kw_bad[:3]:
        ctx.violation("kwp:functional", replay_text("kwp", l, "beltKWPUnwrap returned %s, expected %s" % (o, e)), True,
                      "beltKWPUnwrap: %s expected %s on %s" % (o, e, l[:200]))

    # ---- verdicts for proof / correspondence
    ctx.cov["correspondence_disagreements"] = len(mism) + len(cmp_mism)
    ctx.cov["ir_functions"] = len(funs)
    ctx.cov["checker_diagnostics"] = diag[:20]
    found_any = bool(ctx.violations) or bool(ctx.known_hits)
    if not proof_ok:
        why = translator_error or ("rejected by the checker: " + "; ".join(diag[:6]) if diag else "; ".join(ctx.cov.get("lake_errors", [])))
        if not why:
            why = log.strip()[-600:]
        if failed_routines:
            why = "routines rejected: %s. %s" % (", ".join(failed_routines), why)
        if not found_any:
            ctx.violation("proof:" + (",".join(failed_routines)[:80] or "regularity"),
                          "# property C14: the regularity theorems no longer check against the IR regenerated from the source.\n"
                          "# %s\n# neither safe!=fast nor a valgrind report was found on the implementation for the generated inputs.\n"
                          "# first errors:\n%s\n" % (why[:1500], "\n".join("# " + l for l in log.split("\n") if "error" in l)[:3000]),
                          False, "theorems no longer check: " + why[:600])
    elif (mism or cmp_mism) and not found_any:
        i, op, c, l = (mism or cmp_mism)[0]
        ctx.violation("correspondence", replay_text("ir", op, "IR/model and implementation disagree; no safe!=fast and no secret-dependent branch found") +
                      "impl %s\nmodel %s\n" % (c, l), False,
                      "%d ops differ between the Lean model and the implementation, first: %s impl=%s model=%s" % (
                          len(mism) + len(cmp_mism), op[:200], c[:200], l[:200]))
    ctx.samples += [{"op": ir_lines[i][:160], "impl": None} for i in (0, len(ir_lines) // 2, len(ir_lines) - 1)]
    ctx.samples.append({"theorem": "Bee2V.C14.safe_routines_trace_independent",
                        "statement": "∀ fn ∈ prog.funs, ∀ fuel e1 e2, LowEq fn e1 e2 → (exec prog true fuel fn.body e1).2 = (exec prog true fuel fn.body e2).2"})
    distinct = len(set(sf_out)) + ctx.cov.get("stepv_reject", 0)
    return ctx.finish(
        level="proof",
        assumptions=[
            "xlate/x_c14_ir.py translates the C bodies faithfully (validated on every run: the executable IR semantics is run against the real SAFE routines, helpers and Verify steps on the whole correspondence stream)",
            "policy: pointers and size_t lengths are public; every by-value word/octet operand and all memory reached through pointers is secret, except the hex string of hexEq/hexEqRev and constant tables",
            "external routines on the allow-list (belt/bash StepG_internal, blob*, memCopy/memMove/memSet, beltWBL*) are opaque in the IR; their own control flow is only sampled by mechanism C",
            "beltKWPUnwrap: the slice ends where the verdict of memEq/memIsZero is consumed (accept/reject branch)",
            "the theorem is about the source-level IR; compiler-introduced branches are only sampled (valgrind memcheck on the -O2 Release build, inputs of this run)",
            "safe = fast is proved for the comparison family (PropsCmp.lean); for the zz modular/reduction pairs it is the differential on the listed operand classes (value correctness: property C05)"],
        rule="operand lengths 0..16 words (mem: 0..130 octets incl. every tail); values: equal, first difference at every position, opposite-order second difference, boundary words; moduli: B^n-1, B^n-c, 2^(64n-1)+1, B^(n-1)+1, random; a+b==mod, a+w==mod, a+b==B^n, 2a==mod, a==w, a<w; reductions: 0, mod, 2mod, 4mod, w*mod, mod*mod, (B^n-1)*mod, max; every case goes to (1) safe-vs-fast on the implementation, (2) IR interpreter vs implementation, (3) hand models vs implementation, (4) a thinned subset under valgrind; distinct = distinct outputs",
        distinct=distinct)


# ------------------------------------------------------------------------------ C19 adapter
C19_NO_CROSS = True     # word arrays are given as octets of B_PER_W-bit words: one stream per word size


def c19_stream():
    """(harness, driver, fn(ctx, exe, w) -> op lines, uses_bash) for property C19: the `sf` lines (both editions
    of all 33 pairs on the same operands) and the comparison family in both editions, generated for the word
    size w.  Every configuration must print what the Lean driver prints (`r | r` from the IR of the regular
    edition; the hand models for the comparison family) — under SAFE_FAST both names are the fast edition,
    the outputs must still agree."""
    def fn(ctx, exe, w):
        setw(w)
        try:
            cases = corpus_cases() + gen_cmp_cases(ctx, False) + gen_mod_cases(ctx, False)
            ctx.rng.shuffle(cases)          # C19 thins long streams with a stride: keep every routine represented
            lines = []
            for c in cases:
                lines.append("%s %s %s" % (opn("sf"), c[0], " ".join(c[2])))
                if ctx.rng.random() < 0.5:
                    l = to_cmp_line(c[0], c[2], ctx.rng.choice(["safe", "fast"]))
                    if l:
                        lines.append(l)
            return lines
        finally:
            setw(64)
    return ("harness/c14.c", "drv_c14", fn, False)


def replay(ctx, path):
    mode, op, nres = None, None, None
    for line in open(path):
        w = line.rstrip("\n").split(" ", 1)
        if w[0] == "mode":
            mode = w[1].strip()
        elif w[0] == "res":
            nres = int(w[1])
        elif w[0] == "op":
            op = w[1]
    if not op or op == "?":
        print("replay file names a theorem/correspondence, not an input: nothing to execute")
        return 0
    if mode in ("sf", "sf32"):
        exe = ctx.cc("harness/c14.c", "asan" if mode == "sf" else "w32")
        out, err, rc = ctx.run_lines(exe, [mode + " " + op])
        print("%s %s\n  safe | fast = %s" % (mode, op[:300], out[0] if out else err[-300:]))
        bad = rc != 0 or not out or sf_differs(out[0], nres)
        print("SAFE and FAST %s on the current tree" % ("DISAGREE" if bad else "agree"))
        return 1 if bad else 0
    if mode == "vg":
        exe = ctx.cc("harness/c14.c", "rel", name="c14-rel")
        conds, naddr, tail, ok = run_valgrind(ctx, exe, [op])
        un = unexpected(conds)
        for o, fr in un:
            print("conditional jump depends on secret data: %s" % " <- ".join(fr[:5]))
        print("%d report(s) on the current tree" % len(un))
        return 1 if un else 0
    if mode == "kwp":
        exe = ctx.cc("harness/c14.c", "asan")
        out, err, rc = ctx.run_lines(exe, [op])
        print(op[:200], "->", out[0] if out else err[-300:])
        return 0
    exe = ctx.cc("harness/c14.c", "asan")
    out, err, rc = ctx.run_lines(exe, [op])
    print("impl: %s" % (out[0] if out else err[-300:]))
    if os.path.exists(ctx.driver()):
        lo, _, _ = ctx.run_lines(ctx.driver(), [op])
        print("model: %s" % (lo[0] if lo else "?"))
        return 1 if (out and lo and out[0] != lo[0]) else 0
    return 0

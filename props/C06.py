"""C06 — EC group law and scalar multiplication are exact in every special case.

Proof: lean/Bee2V/C06/Props*.lean — (a) every routine of ecp.c, modelled as the literal sequence of
field operations on a register store (so that c==a / c==b / a==b are expressible), returns the
group-law result of Mathlib's `WeierstrassCurve.Affine.Point` for every field of characteristic != 2,
all points incl. O, P = Q, P = -Q, order two, and each allowed aliasing; (b) the window-NAF loops of
ecMulA / ecAddMulA over ANY additive commutative group compute d•P / Σ dᵢ•Pᵢ and report O exactly
when the result is 0, for every scalar length and window width; (c) the same for the 13 routines of ec2.c over any
field of characteristic 2 (Lopez-Dahab).
Tie (a): xlate/x_c06_ecp.py regenerates the programs of ecp.c / ec2.c, the create tables and ecNAFWidth from the
current source; PropsGen*.lean identify them with the model by rfl.
Tie (b): the same op lines go to harness/c06.c (real ec_o function table of ecpCreateJ + gfpCreate,
ecMulA, ecAddMulA, ecHasOrderA, ecpAddAA, ecpSubAA, ecpIsOnA, ecpSWU) and to drv_c06 (the Lean model
run on residues mod p); outputs are compared after normalisation to affine.
Search oracle (implementation only): independent affine chord-and-tangent group law in Python (prime and binary curves),
nP by double-and-add / repeated addition, reference SWU, curve equation.
"""
import os, re
import vcommon
from vcommon import VERIF, REPO

# files whose theorems are the obligations (all audited with `#print axioms`)
PROPS = ["Bee2V/C06/Props.lean", "Bee2V/C06/PropsGen.lean", "Bee2V/C06/PropsGen2.lean", "Bee2V/C06/PropsUn.lean", "Bee2V/C06/PropsAddJ.lean",
         "Bee2V/C06/PropsAddAJ.lean", "Bee2V/C06/PropsTpl.lean", "Bee2V/C06/PropsAA.lean", "Bee2V/C06/PropsSWU.lean",
         "Bee2V/C06/PropsMul.lean", "Bee2V/C06/PropsSim.lean", "Bee2V/C06/PropsTop.lean",
         # stage 2: ec2.c over any field of characteristic 2
         "Bee2V/C06/PropsBUn.lean", "Bee2V/C06/PropsBAdd.lean", "Bee2V/C06/PropsBAddA.lean", "Bee2V/C06/PropsBAA.lean",
         "Bee2V/C06/PropsTop2.lean",
         # phase 3: wwNAF buffer bound, validators link, arbitrary placements
         "Bee2V/C06/PropsNafLen.lean", "Bee2V/C06/PropsValid.lean", "Bee2V/C06/PropsPlace.lean",
         "Bee2V/C06/PropsPlace2.lean", "Bee2V/C06/PropsPlace3.lean", "Bee2V/C06/PropsPlace4.lean", "Bee2V/C06/PropsPlace5.lean",
         # gf2 arithmetic assumption discharged for GF(2^163/233/283) through the C05 result (C05.gf2Fld_sim)
         "Bee2V/C06/PropsTop3.lean",
         # round 3: ecpSWU, both branches explicit
         "Bee2V/C06/PropsSWU2.lean"]
TARGETS = [r[:-5].replace("/", ".") for r in PROPS]


def regen(ctx):
    """tie (a): the programs of ecp.c, the function table of ecpCreateJ and ecNAFWidth are re-extracted from the
    current source (clang AST, fail-closed); PropsGen.lean proves them equal to the model the theorems are about"""
    import importlib
    import x_c06_ecp
    importlib.reload(x_c06_ecp)
    ctx.regen("Bee2V/Gen/C06Ecp.lean", x_c06_ecp.generate())
    ctx.regen("Bee2V/Gen/C06Ec2.lean", x_c06_ecp.generate_ec2())


# ----------------------------------------------------------------------------- reference group law (oracle)

def inv(a, p):
    return pow(a, p - 2, p)


def ec_add(P, Q, p, A):
    if P is None:
        return Q
    if Q is None:
        return P
    x1, y1 = P
    x2, y2 = Q
    if x1 == x2:
        if (y1 + y2) % p == 0:
            return None
        lam = (3 * x1 * x1 + A) * inv(2 * y1, p) % p
    else:
        lam = (y2 - y1) * inv((x2 - x1) % p, p) % p
    x3 = (lam * lam - x1 - x2) % p
    return (x3, (lam * (x1 - x3) - y1) % p)


def ec_neg(P, p):
    return None if P is None else (P[0], (-P[1]) % p)


def ec_mul(k, P, p, A):
    R = None
    while k:
        if k & 1:
            R = ec_add(R, P, p, A)
        P = ec_add(P, P, p, A)
        k >>= 1
    return R


def on_curve(P, p, A, B):
    return P is None or (0 <= P[0] < p and 0 <= P[1] < p and (P[1] * P[1] - (P[0] ** 3 + A * P[0] + B)) % p == 0)


def show(P):
    return "O" if P is None else "%x %x" % P


def ref_swu(a, p, A, B):
    """SWU of STB 34.101.66 (p = 3 mod 4), written from the standard, inversion 0 -> 0"""
    t = (-a * a) % p
    x1 = (-B * (1 + t + t * t) * pow(A * (t + t * t), p - 2, p)) % p
    y = (x1 ** 3 + A * x1 + B) % p
    x2 = x1 * t % p
    s = pow(y, (p - 1) - (p + 1) // 4, p)
    if s * s * y % p == 1:
        return (x1, s * y % p)
    return (x2, a ** 3 * y * s % p)


def points(p, A, B):
    sq = {}
    for y in range(p):
        sq.setdefault(y * y % p, []).append(y)
    return [(x, y) for x in range(p) for y in sq.get((x ** 3 + A * x + B) % p, [])]


def nonsingular(p, A, B):
    return (4 * A ** 3 + 27 * B * B) % p != 0


# ----------------------------------------------------------------------------- reference for y^2 + xy = x^3 + Ax^2 + B over GF(2^m)

class GF2:
    def __init__(self, m, ks):
        self.m = m
        self.mod = (1 << m) | 1
        for k in ks:
            if k:
                self.mod |= 1 << k

    def red(self, r):
        m, mod = self.m, self.mod
        while r.bit_length() > m:
            r ^= mod << (r.bit_length() - 1 - m)
        return r

    def mul(self, a, b):
        r = 0
        while b:
            if b & 1:
                r ^= a
            a <<= 1
            b >>= 1
        return self.red(r)

    def inv(self, a):
        # extended Euclid on polynomials
        u, v, g1, g2 = a, self.mod, 1, 0
        while u != 1:
            j = u.bit_length() - v.bit_length()
            if j < 0:
                u, v, g1, g2, j = v, u, g2, g1, -j
            u ^= v << j
            g1 ^= g2 << j
        return self.red(g1)

    def sqrt(self, a):
        for _ in range(self.m - 1):
            a = self.mul(a, a)
        return a

    def halftrace(self, c):     # m odd: z^2 + z = c if Tr(c) = 0
        z, t = c, c
        for _ in range((self.m - 1) // 2):
            t = self.mul(t, t)
            t = self.mul(t, t)
            z ^= t
        return z


class E2:
    """binary curve, affine reference group law"""
    def __init__(self, fld, A, B):
        self.f, self.A, self.B = fld, A, B

    def neg(self, P):
        return None if P is None else (P[0], P[0] ^ P[1])

    def add(self, P, Q):
        f = self.f
        if P is None:
            return Q
        if Q is None:
            return P
        x1, y1 = P
        x2, y2 = Q
        if x1 == x2:
            if y1 != y2 or x1 == 0:
                return None
            lam = x1 ^ f.mul(y1, f.inv(x1))
            x3 = f.mul(lam, lam) ^ lam ^ self.A
            return (x3, f.mul(x1, x1) ^ f.mul(lam ^ 1, x3))
        lam = f.mul(y1 ^ y2, f.inv(x1 ^ x2))
        x3 = f.mul(lam, lam) ^ lam ^ x1 ^ x2 ^ self.A
        return (x3, f.mul(lam, x1 ^ x3) ^ x3 ^ y1)

    def sub(self, P, Q):
        return self.add(P, self.neg(Q))

    def mul(self, k, P):
        R = None
        while k:
            if k & 1:
                R = self.add(R, P)
            P = self.add(P, P)
            k >>= 1
        return R

    def on(self, x, y):
        f = self.f
        if x >> f.m or y >> f.m:
            return False
        return f.mul(y, y) ^ f.mul(x, y) == f.mul(f.mul(x, x), x ^ self.A) ^ self.B

    def proj(self, X, Y, Z):    # Lopez-Dahab
        f = self.f
        if Z == 0:
            return None
        zi = f.inv(Z)
        return (f.mul(X, zi), f.mul(Y, f.mul(zi, zi)))

    def rand_point(self, rng):
        f = self.f
        while True:
            x = rng.getrandbits(f.m)
            if x == 0:
                continue
            xi = f.inv(x)
            c = x ^ self.A ^ f.mul(self.B, f.mul(xi, xi))
            z = f.halftrace(c)
            if f.mul(z, z) ^ z == c:
                return (x, f.mul(x, z ^ rng.getrandbits(1)))


class Ep:
    """prime curve, same interface"""
    def __init__(self, p, A, B):
        self.p, self.A, self.B = p, A, B

    def neg(self, P):
        return ec_neg(P, self.p)

    def add(self, P, Q):
        return ec_add(P, Q, self.p, self.A)

    def sub(self, P, Q):
        return ec_add(P, ec_neg(Q, self.p), self.p, self.A)

    def mul(self, k, P):
        return ec_mul(k, P, self.p, self.A)

    def on(self, x, y):
        return x < self.p and y < self.p and on_curve((x, y), self.p, self.A, self.B)

    def proj(self, X, Y, Z):
        p = self.p
        if Z % p == 0:
            return None
        zi = inv(Z, p)
        return (X * zi * zi % p, Y * zi ** 3 % p)


def curve_of(w):
    if w[1].startswith("b:"):
        ks = [int(v) for v in w[1][2:].split(":")]
        return E2(GF2(ks[0], ks[1:]), int(w[2], 16), int(w[3], 16))
    return Ep(int(w[1], 16), int(w[2], 16), int(w[3], 16))


# ----------------------------------------------------------------------------- expected output of an op line

def expect(line):
    """group-law value of an op line (None if the oracle does not cover it)"""
    w = line.split()
    op = w[0]
    if op == "naf":
        return None
    E = curve_of(w)
    binary = isinstance(E, E2)
    r = w[4:]
    if op.endswith("32"):       # scalar routines on the 32-bit-word build: same group-law value
        op = op[:-2]

    def J(t):
        return E.proj(*(int(v, 16) for v in t))

    def Af(t):
        return (int(t[0], 16), int(t[1], 16))
    if op == "pair":
        x1, y1, u1, x2, y2, u2 = (int(v, 16) for v in r)
        P = (x1, y1) if (u1 if binary else u1 % E.p) else None
        Q = (x2, y2) if (u2 if binary else u2 % E.p) else None
        s, d, P2 = E.add(P, Q), E.sub(P, Q), E.add(P, P)
        P3 = E.add(P2, P)
        nP = E.neg(P)
        out = [show(s)] * 3 + [show(P2)] + [show(d)] * 3 + ["O"]
        out += ([show(s)] * 3 + [show(d)] * 3) if Q else ["-"] * 6
        out += [show(P2)] * 2 + (["-"] * 2 if binary else [show(P3)] * 2) + [show(nP)] * 2 + [show(P)] * 2
        out += ([show(P2)] * 2 + [show(P)] * 2 + [show(nP)] * 2) if P else ["-"] * 6
        aa = [show(s)] * 3 if P and Q else ["-"] * 3
        sa = [show(d)] * 3 if P and Q else ["-"] * 3
        if binary:      # ec2AddAA/ec2SubAA: a and c must be disjoint
            aa[1] = sa[1] = "-"
        out += aa + ([show(P2)] if P and not binary else ["-"])
        out += sa + (["O"] if P and not binary else ["-"])
        return ";".join(out)
    if op == "ison":
        return "1" if E.on(int(r[0], 16), int(r[1], 16)) else "0"
    if op == "swu":
        return show(ref_swu(int(r[0], 16), E.p, E.A, E.B))
    if op == "mul":
        return show(E.mul(int(r[2], 16), Af(r)))
    if op == "hasorder":
        return "1" if E.mul(int(r[2], 16), Af(r)) is None else "0"
    if op == "addmul":
        R = None
        for i in range(0, len(r), 3):
            R = E.add(R, E.mul(int(r[i + 2], 16), Af(r[i:i + 2])))
        return show(R)
    al, r = r[0], r[1:]
    if op in ("neg", "dbl", "tpl", "toa"):
        P = J(r)
        if op == "tpl" and binary:
            return "-"
        return show({"neg": E.neg(P), "dbl": E.add(P, P), "tpl": E.add(E.add(P, P), P), "toa": P}[op])
    if op in ("dbla", "froma", "nega"):
        P = Af(r)
        return show({"dbla": E.add(P, P), "froma": P, "nega": E.neg(P)}[op])
    if op in ("add", "sub"):
        P, Q = J(r[:3]), J(r[3:])
    elif op in ("adda", "suba"):
        P, Q = J(r[:3]), Af(r[3:])
    elif op in ("addaa", "subaa"):
        P, Q = Af(r[:2]), Af(r[2:])
    else:
        return None
    if al in ("ab", "abc"):
        Q = P
    return show(E.sub(P, Q) if op.startswith("sub") else E.add(P, Q))


# ----------------------------------------------------------------------------- generator

SMALL_PRIMES = [7, 11, 19, 23, 31, 43, 47, 59]        # one-word primes = 3 (mod 4), p <= 61
# two-word primes = 3 (mod 4): the Mersenne prime 2^127 - 1 and a 108-bit prime without special form
TWO_WORD_PRIMES = [2 ** 127 - 1, 0xc06c06c06c06c06c06c06c06c67]

STD = {"bign256": "1.2.112.0.2.0.34.101.45.3.1", "bign384": "1.2.112.0.2.0.34.101.45.3.2",
       "bign512": "1.2.112.0.2.0.34.101.45.3.3", "bign96": "1.2.112.0.2.0.34.101.45.3.0",
       "gost256A": "1.2.643.2.2.35.1", "gost512B": "1.2.643.7.1.2.1.2.2", "gost256test": "1.2.643.2.2.35.0"}


def hx(*v):
    return " ".join("%x" % x for x in v)


def pair_lines(rng, p, A, B, pts=None, limit=None):
    pts = points(p, A, B) if pts is None else pts
    allp = [None] + pts
    out = []
    prs = [(P, Q) for P in allp for Q in allp]
    if limit is not None and len(prs) > limit:
        prs = rng.sample(prs, limit)
    for P, Q in prs:
        # u = 1 (affine embedding), u random (Z != 1), u = 0 encodes O (with X = Y = 0)
        def enc(R):
            if R is None:
                return (rng.randrange(p), rng.randrange(p), 0)
            return (R[0], R[1], rng.choice([1, rng.randrange(1, p), rng.randrange(1, p), p - 1]))
        out.append("pair %x %x %x %s %s" % (p, A, B, hx(*enc(P)), hx(*enc(Q))))
    return out


def small_curves(rng, p, quick):
    """(A, B) of the curves taken over F_p: all of them, or A = -3 / A = 0 / random A families"""
    allc = [(A, B) for A in range(p) for B in range(p) if nonsingular(p, A, B)]
    if p <= 11 or not quick:
        return allc, True
    fam = [c for c in allc if c[0] == p - 3]
    rest = [c for c in allc if c[0] != p - 3]
    k = 10 if p <= 23 else 4
    return rng.sample(fam, min(len(fam), k)) + rng.sample(rest, k) + [c for c in rest if c[0] == 0][:2], False


def scalars_for(rng, q, nwords):
    """(d, m): boundary and random scalars for a point of order dividing q in a field of n words"""
    W = 64
    out = []
    for d in [0, 1, 2, 3, q - 1, q, q + 1, 2 * q, 2 * q + 1, q // 2, q // 2 + 1]:
        if d >= 0:
            out.append(d)
    for k in (1, 2, 3, 7, 31, 32, 33, 63, 64, 65, 127, 128):
        if (1 << k) < (1 << (W * (nwords + 1))):
            out += [1 << k, (1 << k) - 1, (1 << k) + 1]
    out += [(1 << (W * nwords)) - 1, (1 << (W * (nwords + 1))) - 1, q + (q << 1), (1 << (W * nwords)) + q]
    out += [rng.randrange(1 << (W * nwords)) for _ in range(4)] + [rng.randrange(1 << (W * (nwords + 1)))]
    res = []
    for d in out:
        mmin = max(1, (d.bit_length() + W - 1) // W)
        for m in sorted(set([mmin, nwords, nwords + 1])):
            if m >= mmin:
                res.append((d, m))
    return res


def sqrt_any(a, p):
    """square root mod an odd prime (Tonelli-Shanks), None for a non-residue"""
    a %= p
    if a == 0:
        return 0
    if pow(a, (p - 1) // 2, p) != 1:
        return None
    if p % 4 == 3:
        return pow(a, (p + 1) // 4, p)
    q, s = p - 1, 0
    while q % 2 == 0:
        q //= 2
        s += 1
    z = 2
    while pow(z, (p - 1) // 2, p) != p - 1:
        z += 1
    m, c, t, r = s, pow(z, q, p), pow(a, q, p), pow(a, (q + 1) // 2, p)
    while t != 1:
        i, t2 = 0, t
        while t2 != 1:
            t2 = t2 * t2 % p
            i += 1
        b = pow(c, 1 << (m - i - 1), p)
        m, c, t, r = i, b * b % p, t * b * b % p, r * b % p
    return r


# a curve whose group order needs MORE words than the field: y^2 = x^3 - 3x + 423 over p = 2^64 - 59 has the prime
# order 0x100000001D0F29E01 (65 bits, Hasse: up to p + 1 + 2 sqrt p)
LONG_ORDER = (2 ** 64 - 59, 2 ** 64 - 59 - 3, 423, 0x100000001D0F29E01)


def gen_lengths(ctx, std, quick, W=64):
    """Every entry point with a scalar-length parameter (ecMulA, ecHasOrderA, ecAddMulA's (point, scalar, length) triples)
    with EVERY length m in 1 .. n+2 (n = words of the field), scalars being exact-size heap blocks in the harness:
    multiples of the point's order with exactly m words (answer O / TRUE only if all m words and no more are read),
    their neighbours, the same scalars zero-padded to longer m, and scalars cut to fewer words than the field.
    Includes the curve whose order has n+1 words."""
    rng = ctx.rng
    sfx = "" if W == 64 else "32"
    ops = []
    cases = []          # (p, A, B, P, order of P, n)
    for p, A, B in [(23, 1, 1), (59, 56, 3), (11, 8, 2)]:
        pts = points(p, A, B)
        for P in rng.sample(pts, 2 if quick else min(6, len(pts))):
            k, T = 1, P
            while T is not None:
                T = ec_add(T, P, p, A)
                k += 1
            cases.append((p, A, B, P, k, 1))
    p, A, B, N = LONG_ORDER
    for _ in range(1 if quick else 3):
        while True:
            x = rng.randrange(p)
            y = sqrt_any(x ** 3 + A * x + B, p)
            if y is not None and y != 0:
                break
        cases.append((p, A, B, (x, rng.choice([y, p - y])), N, 64 // W))
    for name, (p, A, B, q, xG, yG) in std.items():
        if quick and name not in ("bign256", "bign96"):
            continue
        cases.append((p, A, B, (xG, yG), q, (p.bit_length() + W - 1) // W))
    for p, A, B, P, od, n in cases:
        cur = "%x %x %x %x %x" % (p, A, B, P[0], P[1])
        for m in range(1, n + 3):
            lo, hi = (1 << (W * (m - 1))), (1 << (W * m)) - 1
            ds = [lo, hi, rng.randrange(lo, hi + 1)]
            if hi // od >= 1 and (hi // od) * od >= lo:
                c = rng.randrange(-(-lo // od), hi // od + 1)
                ds += [od * c, od * c + 1, od * c - 1] + ([od * (hi // od)] if not quick else [])
            for d in ds:
                if not (0 < d <= hi):
                    continue
                mmin = max(1, (d.bit_length() + W - 1) // W)
                for mm in sorted(set([mmin, m, n, n + 1, n + 2])):
                    if mm < mmin:
                        continue
                    ops.append("hasorder%s %s %x %x" % (sfx, cur, d, mm))
                    if mm in (mmin, m) or not quick:
                        ops.append("mul%s %s %x %x" % (sfx, cur, d, mm))
                # the same scalar as a term of the multi-scalar sum, its length given by zero padding
                pad = "0" * (W // 4) * rng.choice([0, 1, 2])
                ops.append("addmul%s %x %x %x %x %x %s%x %x %x 1" % (sfx, p, A, B, P[0], P[1], pad, d, P[0], P[1]))
            # fewer words than the scalar has: only its low m words are passed (a different scalar, exact-size buffer)
            big = od * rng.randrange(1, 1 << (W * 2)) + rng.choice([0, 0, 1])
            low = big % (1 << (W * m))
            ops.append("hasorder%s %s %x %x" % (sfx, cur, low, m))
            ops.append("mul%s %s %x %x" % (sfx, cur, low, m))
    return ops


def gen_small(ctx, quick):
    rng = ctx.rng
    ops, stats = [], {"curves": 0, "pairs": 0, "complete_primes": [], "a3_curves": 0, "order2_curves": 0}
    primes = SMALL_PRIMES if not quick else SMALL_PRIMES
    for p in primes:
        if not quick and p > 31:
            curves, complete = small_curves(rng, p, True)
        else:
            curves, complete = small_curves(rng, p, quick)
        if complete:
            stats["complete_primes"].append(p)
        for A, B in curves:
            pts = points(p, A, B)
            limit = None if (p <= 11 or not quick) else (400 if p <= 23 else 150)
            pl = pair_lines(rng, p, A, B, pts, limit)
            ops += pl
            stats["curves"] += 1
            stats["pairs"] += len(pl)
            stats["a3_curves"] += A == p - 3
            stats["order2_curves"] += any(y == 0 for _, y in pts)
    return ops, stats


def gen_small_mul(ctx, quick):
    """scalar multiples on small curves: every point, every scalar 0..2*ord+2, several word lengths"""
    rng = ctx.rng
    ops = []
    todo = [(7, 4, 3), (11, 8, 2), (19, 16, 5), (23, 1, 1), (23, 20, 7), (31, 28, 11), (59, 56, 3), (47, 0, 5), (43, 5, 0)]
    for p, A, B in todo:
        if not nonsingular(p, A, B):
            continue
        pts = points(p, A, B)
        n = len(pts) + 1
        sel = pts if (p <= 11 or not quick) else rng.sample(pts, min(len(pts), 6))
        for P in sel:
            ds = list(range(0, 2 * n + 3)) if (p <= 23 or not quick) else rng.sample(range(0, 2 * n + 3), 12)
            for d in ds:
                ops.append("mul %x %x %x %x %x %x %x" % (p, A, B, P[0], P[1], d, rng.choice([1, 1, 2, 3, 6])))
            for d, m in scalars_for(rng, n, 1)[:: (3 if quick else 1)]:
                ops.append("mul %x %x %x %x %x %x %x" % (p, A, B, P[0], P[1], d, m))
            ops.append("hasorder %x %x %x %x %x %x 1" % (p, A, B, P[0], P[1], n))
            ops.append("hasorder %x %x %x %x %x %x 1" % (p, A, B, P[0], P[1], rng.randrange(1, n)))
        # multi-scalar sums: repeated points, zero scalars, mixed lengths
        for _ in range(40 if quick else 400):
            k = rng.choice([1, 2, 2, 3, 4])
            args = []
            P0 = rng.choice(pts)
            for _ in range(k):
                P = rng.choice([P0, P0, rng.choice(pts), ec_neg(P0, p)])
                d = rng.choice([0, 1, 2, 3, rng.randrange(2 * n), n, n - 1, rng.randrange(1 << 64), rng.randrange(1 << 130),
                                rng.randrange(1 << 400)])
                pad = rng.choice(["", "", "0" * 16])
                args.append("%x %x %s%x" % (P[0], P[1], pad, d))
            ops.append("addmul %x %x %x %s" % (p, A, B, " ".join(args)))
        for P in sel[:4]:
            for d in (1, 2, 3, 4, 5):
                # the running sum meets a precomputed multiple: P == Q fall-through of ecpAddJ with c == a
                ops.append("addmul %x %x %x %x %x %x %x %x %x" % (p, A, B, P[0], P[1], d, P[0], P[1], d))
                ops.append("addmul %x %x %x %x %x %x %x %x %x" % (p, A, B, P[0], P[1], d, P[0], (-P[1]) % p, d))
    return ops


def sqrt_mod(a, p):
    """p = 3 (mod 4)"""
    r = pow(a, (p + 1) // 4, p)
    return r if r * r % p == a % p else None


def rand_point(rng, p, A, B):
    while True:
        x = rng.randrange(p)
        y = sqrt_mod((x ** 3 + A * x + B) % p, p)
        if y is not None:
            return (x, rng.choice([y, (-y) % p]))


def gen_big(ctx, std, quick):
    rng = ctx.rng
    ops = []
    for name, (p, A, B, q, xG, yG) in std.items():
        n = (p.bit_length() + 63) // 64
        G = (xG, yG)
        # ordered pairs with special relations, non-normalised representations
        R = [G, ec_mul(rng.randrange(1, q), G, p, A), ec_mul(2, G, p, A)]
        if p % 4 == 3:
            R.append(rand_point(rng, p, A, B))
        spec = []
        for P in R[:2 if quick else 4]:
            spec += [(P, P), (P, ec_neg(P, p)), (P, None), (None, P), (P, ec_add(P, P, p, A)), (P, rng.choice(R))]
        spec.append((None, None))
        for P, Q in spec:
            def enc(T):
                if T is None:
                    return (rng.randrange(p), rng.randrange(p), 0)
                return (T[0], T[1], rng.choice([1, rng.randrange(1, p), p - 1]))
            ops.append("pair %x %x %x %s %s" % (p, A, B, hx(*enc(P)), hx(*enc(Q))))
        # scalar multiples
        sc = scalars_for(rng, q, n)
        if quick:
            sc = sc[:24:2] + rng.sample(sc[24:], 6)
        for d, m in sc:
            ops.append("mul %x %x %x %x %x %x %x" % (p, A, B, G[0], G[1], d, m))
        P = R[1]
        for d, m in (sc[:6] if quick else sc[::3]):
            ops.append("mul %x %x %x %x %x %x %x" % (p, A, B, P[0], P[1], d, m))
        ops.append("hasorder %x %x %x %x %x %x %x" % (p, A, B, G[0], G[1], q, n))
        ops.append("hasorder %x %x %x %x %x %x %x" % (p, A, B, G[0], G[1], q, n + 1))
        ops.append("hasorder %x %x %x %x %x %x %x" % (p, A, B, G[0], G[1], q - 1, n))
        # multi-scalar
        ops.append("addmul %x %x %x %x %x 3 %x %x 3" % (p, A, B, G[0], G[1], G[0], G[1]))
        ops.append("addmul %x %x %x %x %x %x %x %x %x" % (p, A, B, G[0], G[1], q - 1, G[0], G[1], 1))
        for _ in range(3 if quick else 20):
            k = rng.choice([1, 2, 3])
            args = []
            for _ in range(k):
                T = rng.choice(R)
                d = rng.choice([rng.randrange(q), rng.randrange(1 << 64), rng.randrange(1 << (64 * (n + 1))), 0, q, q - 1])
                args.append("%x %x %x" % (T[0], T[1], d))
            ops.append("addmul %x %x %x %s" % (p, A, B, " ".join(args)))
        # on-curve test, SWU
        for T in R[:2]:
            ops.append("ison %x %x %x %x %x" % (p, A, B, T[0], T[1]))
            ops.append("ison %x %x %x %x %x" % (p, A, B, T[0], (T[1] + 1) % p))
            ops.append("ison %x %x %x %x %x" % (p, A, B, (T[0] + 1) % p, T[1]))
            if T[0] + p < 1 << (64 * n):
                ops.append("ison %x %x %x %x %x" % (p, A, B, T[0] + p, T[1]))
            if T[1] + p < 1 << (64 * n):
                ops.append("ison %x %x %x %x %x" % (p, A, B, T[0], T[1] + p))
        ops.append("ison %x %x %x %x %x" % (p, A, B, p, 0))
        ops.append("ison %x %x %x 0 %x" % (p, A, B, p))
        if p % 4 == 3 and A % p and B % p:
            for a in [0, 1, p - 1, 2, p - 2] + [rng.randrange(p) for _ in range(4 if quick else 30)]:
                ops.append("swu %x %x %x %x" % (p, A, B, a))
    return ops


def gen_small_misc(ctx, quick):
    """SWU and on-curve test, exhaustive over small fields; garbage X, Y in the projective O"""
    rng = ctx.rng
    ops = []
    for p in (7, 11, 19, 23):
        curves = [(A, B) for A in range(1, p) for B in range(1, p) if nonsingular(p, A, B)]
        if quick and p > 11:
            curves = rng.sample(curves, 12)
        for A, B in curves:
            # SWU is specified for a curve whose B is a square (bign: G = (0, sqrt B)); for a non-square B the
            # inputs a in {0, 1, -1} leave the curve (theorem swu_on_curve states the exact domain)
            sqB = sqrt_mod(B, p) is not None
            for a in range(p):
                if sqB or a not in (0, 1, p - 1):
                    ops.append("swu %x %x %x %x" % (p, A, B, a))
        for A, B in (curves if p <= 11 else curves[:4]):
            for x in range(p):
                for y in range(p):
                    if p <= 7 or rng.random() < 0.25:
                        ops.append("ison %x %x %x %x %x" % (p, A, B, x, y))
            ops.append("ison %x %x %x %x %x" % (p, A, B, p, 0))
            ops.append("ison %x %x %x %x %x" % (p, A, B, 1, p + 1))
    return ops


def gen_naf(ctx, quick):
    """wwNAF itself (digit count and packed string), every width 2..7, boundary and random scalars"""
    rng = ctx.rng
    ds = list(range(1, 70)) + [(1 << k) + e for k in (7, 8, 31, 32, 33, 63, 64, 65, 127, 128, 255, 256) for e in (-1, 0, 1)]
    ds += [int("5" * k, 16) for k in (3, 16, 33)] + [int("a" * k, 16) for k in (3, 16, 33)] + [int("f" * k, 16) for k in (2, 16, 17, 64)]
    ds += [rng.getrandbits(rng.choice([8, 64, 65, 130, 256, 512, 576])) | 1 for _ in range(60 if quick else 1500)]
    ds += [rng.getrandbits(200) << rng.randrange(70) for _ in range(20 if quick else 300)]
    return ["naf 7 1 1 %x %x" % (d, w) for d in ds if d > 0 for w in (2, 3, 4, 5, 6, 7)]


def gen_two_word(ctx, quick):
    rng = ctx.rng
    ops = []
    for p in TWO_WORD_PRIMES:
        for A in (p - 3, rng.randrange(1, p - 3)):
            while True:
                B = rng.randrange(1, p)
                if nonsingular(p, A, B):
                    break
            pts = [rand_point(rng, p, A, B) for _ in range(3)]
            pts += [ec_add(pts[0], pts[1], p, A), ec_neg(pts[0], p), ec_add(pts[0], pts[0], p, A)]
            ops += pair_lines(rng, p, A, B, pts, 25 if quick else None)
            for P in pts[:2]:
                for d, m in scalars_for(rng, p, 2)[:: (6 if quick else 1)]:
                    ops.append("mul %x %x %x %x %x %x %x" % (p, A, B, P[0], P[1], d, m))
            ops.append("addmul %x %x %x %x %x 3 %x %x 3" % (p, A, B, pts[0][0], pts[0][1], pts[0][0], pts[0][1]))
    return ops


def gen_w32(ctx, std, quick):
    """lines for the 32-bit-word build: lengths are in 32-bit words, so m = 1 selects the window width 3
    (never reachable with 64-bit words except through zero scalars), m = 2, 3 width 4, m = 4.. width 5, m >= 11 width 6"""
    rng = ctx.rng
    ops = []
    for p, A, B in [(23, 1, 1), (19, 16, 5), (31, 28, 11), (59, 56, 3), (11, 8, 2)]:
        pts = points(p, A, B)
        n = len(pts) + 1
        for P in (pts if not quick else rng.sample(pts, min(len(pts), 5))):
            for d in range(0, 2 * n + 3):
                ops.append("mul32 %x %x %x %x %x %x %x" % (p, A, B, P[0], P[1], d, rng.choice([1, 1, 1, 2, 3, 4, 11])))
            for d in [rng.randrange(1 << 32) for _ in range(6)] + [(1 << 32) - 1, 1 << 31, (1 << 31) + 1, 0x55555555, 0xaaaaaaab]:
                ops.append("mul32 %x %x %x %x %x %x 1" % (p, A, B, P[0], P[1], d))
            ops.append("hasorder32 %x %x %x %x %x %x 1" % (p, A, B, P[0], P[1], n))
        for _ in range(60 if quick else 600):
            k = rng.choice([1, 2, 2, 3, 4])
            P0 = rng.choice(pts)
            args = []
            for _ in range(k):
                P = rng.choice([P0, P0, rng.choice(pts), ec_neg(P0, p)])
                d = rng.choice([0, 1, 3, rng.randrange(2 * n), rng.randrange(1 << 32), rng.randrange(1 << 64), rng.randrange(1 << 130), rng.randrange(1 << 360)])
                args.append("%x %x %s%x" % (P[0], P[1], rng.choice(["", "", "0" * 8]), d))
            ops.append("addmul32 %x %x %x %s" % (p, A, B, " ".join(args)))
    for name, (p, A, B, q, xG, yG) in std.items():
        n32 = (p.bit_length() + 31) // 32
        for d in [0, 1, q - 1, q, q + 1, rng.randrange(q), (1 << (32 * n32)) - 1, (1 << (32 * (n32 + 1))) - 1, q + (1 << (32 * n32))]:
            mmin = max(1, (d.bit_length() + 31) // 32)
            for m in sorted(set([mmin, n32, n32 + 1])):
                if m >= mmin:
                    ops.append("mul32 %x %x %x %x %x %x %x" % (p, A, B, xG, yG, d, m))
        ops.append("addmul32 %x %x %x %x %x 3 %x %x 3" % (p, A, B, xG, yG, xG, yG))
        ops.append("addmul32 %x %x %x %x %x %x %x %x %x" % (p, A, B, xG, yG, rng.randrange(q), xG, yG, rng.randrange(1 << 32)))
    return ops


BIN_FIELDS = [(163, 7, 6, 3), (233, 74, 0, 0), (283, 12, 7, 5), (409, 87, 0, 0), (571, 10, 5, 2)]


def gen_ec2(ctx, quick):
    """ec2.c (Lopez-Dahab) is NOT modelled in Lean (stage 2): these lines are compared with the Python
    reference only (test-level evidence, named in level_note)"""
    rng = ctx.rng
    ops = []
    for fld in (BIN_FIELDS[:3] if quick else BIN_FIELDS):
        f = GF2(fld[0], fld[1:])
        tok = "b:%d:%d:%d:%d" % fld
        for A in ([0, 1] if quick else [0, 1, rng.getrandbits(f.m)]):
            B = rng.choice([1, rng.getrandbits(f.m) | 1])
            E = E2(f, A, B)
            pts = [E.rand_point(rng) for _ in range(2)]
            pts += [E.add(pts[0], pts[1]), E.neg(pts[0]), E.add(pts[0], pts[0]), (0, f.sqrt(B))]
            allp = [None] + pts
            prs = [(P, Q) for P in allp for Q in allp]
            if quick:
                prs = rng.sample(prs, 16) + [(pts[0], pts[0]), (pts[0], pts[3]), (pts[5], pts[5]), (None, None)]
            for P, Q in prs:
                def enc(T):
                    if T is None:
                        return (rng.getrandbits(f.m), rng.getrandbits(f.m), 0)
                    return (T[0], T[1], rng.choice([1, rng.getrandbits(f.m) | 2]))
                ops.append("pair %s %x %x %s %s" % (tok, A, B, hx(*enc(P)), hx(*enc(Q))))
            n = (f.m + 63) // 64
            for P in pts[:2]:
                for d in [0, 1, 2, 3, 5, (1 << 64) - 1, 1 << 64, rng.getrandbits(f.m), rng.getrandbits(64 * n)][:: (2 if quick else 1)]:
                    m = max(1, (d.bit_length() + 63) // 64)
                    ops.append("mul %s %x %x %x %x %x %x" % (tok, A, B, P[0], P[1], d, rng.choice([m, n, n + 1]) if n >= m else m))
                ops.append("ison %s %x %x %x %x" % (tok, A, B, P[0], P[1]))
                ops.append("ison %s %x %x %x %x" % (tok, A, B, P[0], P[1] ^ 1))
                ops.append("ison %s %x %x %x %x" % (tok, A, B, P[0] | (1 << f.m), P[1]))
            ops.append("mul %s %x %x 0 %x 2 1" % (tok, A, B, f.sqrt(B)))
            ops.append("addmul %s %x %x %x %x 3 %x %x 3" % (tok, A, B, pts[0][0], pts[0][1], pts[0][0], pts[0][1]))
            ops.append("addmul %s %x %x %x %x %x %x %x %x" % (tok, A, B, pts[0][0], pts[0][1], rng.getrandbits(100), pts[1][0], pts[1][1], rng.getrandbits(f.m)))
    return ops


def gen_ec2_unreduced(ctx):
    """finding C06-F2 (docs/C06.fix-2.diff): coordinates of degree m (not field elements) must be rejected by ec2IsOnA"""
    import random
    rng = random.Random(5)
    ops = []
    for fld in BIN_FIELDS[:3]:
        f = GF2(fld[0], fld[1:])
        tok = "b:%d:%d:%d:%d" % fld
        x0, y0 = f.red(1 << f.m), rng.getrandbits(f.m)
        B = f.mul(y0, y0) ^ f.mul(x0, y0) ^ f.mul(f.mul(x0, x0), x0 ^ 1)
        ops.append("ison %s 1 %x %x %x" % (tok, B, x0, y0))
        ops.append("ison %s 1 %x %x %x" % (tok, B, 1 << f.m, y0))
        y1, x1 = f.red(1 << f.m), rng.getrandbits(f.m) | 1
        B2 = f.mul(y1, y1) ^ f.mul(x1, y1) ^ f.mul(f.mul(x1, x1), x1 ^ 1)
        ops.append("ison %s 1 %x %x %x" % (tok, B2, x1, 1 << f.m))
    return ops


CORPUS = [
    # textbook curve y^2 = x^3 + x + 1 over F_23 (order 28): P + Q, 2P, 28P = O
    "add 17 1 1 n 3 a 1 9 7 1", "dbl 17 1 1 ca 3 a 1", "mul 17 1 1 3 a 1c 1", "mul 17 1 1 3 a 1d 1",
    # P == Q in ecpAddJ with c == a (non-normalised second operand: same point, different triple)
    "add 17 1 1 ca 3 a 1 c b 2", "add 17 1 1 cb 3 a 1 c b 2", "sub 17 1 1 ca 3 a 1 c c 2",
    # running sum meets a precomputed multiple inside ecAddMulA
    "addmul 17 1 1 3 a 3 3 a 3", "addmul 17 1 1 3 a 1 3 a 1", "addmul 17 1 1 3 a 2 3 d 2",
    # P - (-P) in ecpSubAA, P + P in ecpAddAA, order-two point
    "subaa 17 1 1 n 3 a 3 d", "subaa 17 1 1 n 3 a 3 a", "addaa 17 1 1 abc 3 a 3 a", "addaa 17 1 1 n 4 0 4 0",
    "dbl 17 1 1 n 4 0 1", "tpl 17 1 1 n 4 0 1", "tpl 17 1 1 ca c b 2", "tpl 17 14 5 ca c b 2",
    # scalar length m != n: the group order of y^2 = x^3 - 3x + 423 over p = 2^64 - 59 has n + 1 = 2 words
    "hasorder ffffffffffffffc5 ffffffffffffffc2 1a7 3 15 100000001d0f29e01 2",
    "hasorder ffffffffffffffc5 ffffffffffffffc2 1a7 3 15 100000001d0f29e01 3",
    "hasorder ffffffffffffffc5 ffffffffffffffc2 1a7 3 15 1d0f29e01 1",
    "mul ffffffffffffffc5 ffffffffffffffc2 1a7 3 15 100000001d0f29e01 2",
    "mul ffffffffffffffc5 ffffffffffffffc2 1a7 3 15 100000001d0f29e00 2",
    "addmul ffffffffffffffc5 ffffffffffffffc2 1a7 3 15 100000001d0f29e00 3 15 1",
]


def std_params(ctx, exe):
    out, _, _ = ctx.run_lines(exe, ["std " + v for v in STD.values()])
    res = {}
    for (k, _), line in zip(STD.items(), out):
        w = line.split()
        if len(w) == 6:
            res[k] = tuple(int(x, 16) for x in w)
    return res


# ----------------------------------------------------------------------------- stream for C19 (all build configurations)

# in the cross-word replay (64-bit stream on the 32-bit-word library) the scalar routines answer `bad-op`: their lengths are
# counted in machine words and the NAF window is chosen from m * B_PER_W, so their op names carry the word size
# (`mul` / `mul32`, ...); everything else (pair, single routines, ison, swu, naf) is word-size independent
C19_WORD_SPECIFIC = {"mul", "hasorder", "addmul"}


def c19_stream():
    def fn(ctx, exe, w):
        rng = ctx.rng
        std = std_params(ctx, exe)
        std = {k: v for k, v in std.items() if k in ("bign256", "bign96", "gost512B")}
        small, _ = gen_small(ctx, True)
        ops = [o for o in CORPUS if w == 64 or kind_of(o) not in C19_WORD_SPECIFIC] + rng.sample(small, 1500) + rng.sample(gen_naf(ctx, True), 300) + rng.sample(gen_small_misc(ctx, True), 500)
        ops += [o for o in gen_two_word(ctx, True) + gen_big(ctx, std, True) + gen_ec2_unreduced(ctx) + gen_ec2(ctx, True)[::2]
                if kind_of(o) not in ("mul", "hasorder", "addmul")]
        if w == 64:
            sc = gen_small_mul(ctx, True) + [o for o in gen_two_word(ctx, True) + gen_big(ctx, std, True) + gen_ec2(ctx, True)[::2]
                                             if kind_of(o) in ("mul", "hasorder", "addmul")]
        else:
            sc = gen_w32(ctx, std, True)
        return ops + rng.sample(sc, min(len(sc), 1500))
    return ("harness/c06.c", "drv_c06", fn, False)


# ----------------------------------------------------------------------------- run

def naf_valid(op, out):
    """the property of wwNAF on the implementation alone: the packed string decodes (as ecMulA reads it) to d"""
    t = op.split()
    d, w = int(t[4], 16), int(t[5], 16)
    try:
        size, naf = (int(x, 16) for x in out.split())
    except ValueError:
        return False
    v, i = 0, 0
    for _ in range(size):
        c = (naf >> i) & ((1 << w) - 1)
        if c & 1:
            e = c if c < (1 << (w - 1)) else -(c - (1 << (w - 1)))
            i += w
        else:
            e = 0
            i += 1
        v = 2 * v + e
    return v == d and (naf >> i) == 0


def kind_of(line):
    return line.split()[0]


def run(ctx):
    quick = ctx.tier == "quick"
    terr = None
    try:
        regen(ctx)
    except Exception as e:
        terr = "%s: %s" % (type(e).__name__, e)
    proof_ok, log = (False, "translator: " + terr) if terr else ctx.prove(TARGETS, PROPS)
    exe = ctx.cc("harness/c06.c", "asan")
    std = std_params(ctx, exe)
    ctx.cov["standard_curves"] = sorted(std)
    if quick:
        std = {k: v for k, v in std.items() if k in ("bign256", "bign384", "bign512", "bign96", "gost512B")}
    small, stats = gen_small(ctx, quick)
    ops = CORPUS + small + gen_naf(ctx, quick) + gen_lengths(ctx, std, quick) + gen_small_mul(ctx, quick) + gen_small_misc(ctx, quick) + gen_two_word(ctx, quick) + gen_big(ctx, std, quick)
    mism = []
    if os.path.exists(ctx.driver()):
        mism, c_out, l_out = ctx.diff_run(exe, ops, "ec-differential")
        # 32-bit-word build: scalar routines with lengths in 32-bit words (window width 3), and a sample of the
        # word-size independent lines
        exe32 = ctx.cc("harness/c06.c", "w32")
        ops32 = gen_w32(ctx, std, quick) + gen_lengths(ctx, std, quick, 32) + [o for o in ops if kind_of(o) in ("pair", "swu", "ison", "naf")][:: (40 if quick else 10)]
        m32, _, _ = ctx.diff_run(exe32, ops32, "ec-differential-w32")
        mism += m32
        # ASSERT-enabled build: preconditions / internal assertions (e.g. the leading NAF digit in ecMulA) on a sample
        exed = ctx.cc("harness/c06.c", "asan-dbg")
        md, _, _ = ctx.diff_run(exed, CORPUS + ops[len(CORPUS):: (17 if quick else 7)], "ec-differential-assert-build")
        mism += md
        ops = ops + ops32
    # ec2.c (Lopez-Dahab): differential against the Lean model (Ec2.lean + gf2Fld) and, independently of the model,
    # against the Python reference on the ASSERT-enabled build
    ops2 = gen_ec2(ctx, quick)
    # regression guard for finding C06-F2 (fixed in /repo by "fix: gf2IsIn accepted polynomials of degree m"):
    # coordinates of degree m are not field elements and must be rejected by ec2IsOnA
    ops2 = gen_ec2_unreduced(ctx) + ops2
    if os.path.exists(ctx.driver()):
        m2, _, _ = ctx.diff_run(exe, ops2, "ec2-differential")
        mism += m2
    bad2 = []
    out2, err2, rc2 = ctx.run_lines(ctx.cc("harness/c06.c", "asan-dbg"), ops2)
    for i, o in enumerate(ops2):
        got = out2[i] if i < len(out2) else "CRASH(rc=%d): %s" % (rc2, err2.strip().split("\n")[-1][:200])
        if got != expect(o):
            bad2.append((o, got, expect(o)))
            if i >= len(out2):
                break
    ctx.cov["ops_ec2_reference"] = len(ops2)
    ctx.samples.append(ops2[0])
    hist = {}
    for o in ops:
        hist[kind_of(o)] = hist.get(kind_of(o), 0) + 1
    for o in ops2:
        hist["ec2:" + kind_of(o)] = hist.get("ec2:" + kind_of(o), 0) + 1
    ctx.cov["op_histogram"] = hist
    ctx.cov["small_curves"] = stats
    ctx.cov["distinct_nontrivial"] = len(set(ops) | set(ops2))
    ctx.samples += [ops[len(CORPUS)], ops[len(CORPUS) + len(small)], ops[-1]]
    ctx.samples.append({"theorem": "Bee2V.C06.ecMulA_spec", "statement": "wNAF loop over any AddCommGroup computes d • P, FALSE iff d • P = 0"})
    if bad2:
        o, got, e = bad2[0]
        ctx.violation("ec2:" + kind_of(o),
                      "# property C06: ec2.c differs from the group law of y^2 + xy = x^3 + Ax^2 + B (Python reference; %d lines)\n%s\n# impl      %s\n# reference %s\n"
                      % (len(bad2), o, got, e), True, "%s\n impl=%s\n reference=%s" % (o, got, e))
    if mism:
        # search oracle: does the implementation itself contradict the group law on a differing line?
        found = None
        for i, op, c, l in mism[:400]:
            try:
                e = expect(op)
            except Exception:
                e = None
            if kind_of(op) == "naf" and not naf_valid(op, c):
                found = (op, c, l, "a width-w NAF whose digits sum to the scalar")
                break
            if e is not None and e != c:
                found = (op, c, l, e)
                break
        if found:
            op, c, l, e = found
            ctx.violation("grouplaw:" + kind_of(op),
                          "# property C06: the implementation differs from the group law (independent affine reference)\n%s\n# impl      %s\n# reference %s\n# model     %s\n"
                          % (op, c, e, l), True, "%s\n impl=%s\n reference=%s" % (op, c, e))
        else:
            i, op, c, l = mism[0]
            ctx.violation("model:" + kind_of(op),
                          "# property C06: model and implementation disagree (%d lines), the group-law reference agrees with the implementation\n%s\n# impl  %s\n# model %s\n"
                          % (len(mism), op, c, l), False, "correspondence broken on %d lines, first: %s impl=%s model=%s" % (len(mism), op, c, l))
    elif not proof_ok:
        errs = "\n".join(l for l in log.split("\n") if "error" in l or "translator" in l)[:3000]
        ctx.violation("proof", "# property C06: theorems of Bee2V/C06/Props.lean no longer check\n%s\n" % "\n".join("# " + x for x in errs.split("\n")),
                      False, "theorems no longer check: " + "; ".join(ctx.cov.get("lake_errors", []))[:400] + log[-600:])
    return ctx.finish(
        level="proof",
        assumptions=[
            "hand-written executable model of ecp.c / ec.c / wwNAF tied by the differential run (harness/c06.c vs drv_c06); "
            "field arithmetic of zm/gfp/qr (C05) is taken as exact arithmetic mod p",
            "binary curves (ec2.c): theorems hold over any field of characteristic 2; the driver's executable GF(2^m) arithmetic (Core2.gf2Fld = "
            "C05.gfMul / C05.ppInvModV) simulates the field GF(2)[x]/(md) for every irreducible md (C05.gf2Fld_sim); irreducibility is kernel-decided "
            "for GF(2^163), GF(2^233), GF(2^283) (PropsTop3: ecMulA_gf2_163/233/283; the general ecMulA_gf2 / ecOps2_sim_correct hold for every modulus with "
            "C05.NatIrred md, i.e. accepted by the model of ppIsIrred); for GF(2^409), GF(2^571) that decision (5 resp. 13 CPU-min) is not part of the build",
            "programs of ecp.c / ec2.c, the create tables and ecNAFWidth are regenerated from the source by xlate/x_c06_ecp.py (clang AST) and "
            "identified with the model by rfl",
        ],
        rule="pair = one ordered pair of points (incl. O) of one curve run through every routine and aliasing; small curves are enumerated "
             "(all curves and all ordered pairs for the primes listed in small_curves.complete_primes, sampled curves/pairs above); "
             "mul/addmul/hasorder = scalar lines incl. 0, 1, q-1, q, q+1, 2^k, all-ones, and EVERY scalar length m = 1..n+2 with multiples of the point order of exactly m words, zero-padded and cut scalars (exact-size buffers), incl. a curve whose order has n+1 words; distinct_nontrivial = distinct op lines",
        exhaustive=False)


def replay(ctx, path):
    exe = ctx.cc("harness/c06.c", "asan")
    bad = 0
    for line in open(path):
        line = line.strip()
        if not line or line.startswith("#"):
            continue
        out, err, rc = ctx.run_lines(exe, [line])
        e = expect(line)
        got = out[0] if out else "CRASH(rc=%d)" % rc
        print("impl:", got)
        print("ref: ", e)
        if e is not None and got != e:
            bad = 1
    return bad

"""C20 — PIN/CAN/PUK automaton.

Tie (a): Bee2V.Gen.Pwd is regenerated from btok_pwd.c by xlate/x_pwd.py on every run;
tie (b): the generated model and the real btokPwdTransition are compared on ALL raw
bit-field values (32 x 8) x events 0..15 (exhaustive, includes non-enum values).
Proof: Bee2V/C20/Props.lean (six rules over all finite event lists).
Search: BFS over the real function's transition table for a shortest history violating a rule.
"""
import os, sys, collections
import vcommon
from vcommon import VERIF

PROPS = ["Bee2V/C20/Props.lean"]
NAMES_PIN = ["puk0", "puk1", "puk2", "puk3", "puk4", "puk5", "puk6", "puk7", "puk8", "puk9",
             "pin0", "pin1", "pind", "pins", "pin2", "pin3"]
NAMES_AUTH = ["auth_none", "auth_pin", "auth_can", "auth_puk"]
NAMES_EV = ["pin_ok", "pin_bad", "pin_deactivate", "pin_activate", "can_ok", "can_bad", "puk_ok", "puk_bad", "auth_close"]
P = {n: i for i, n in enumerate(NAMES_PIN)}
A = {n: i for i, n in enumerate(NAMES_AUTH)}
E = {n: i for i, n in enumerate(NAMES_EV)}


def regen(ctx):
    import x_pwd as xpwd  # xlate/x_pwd.py
    import importlib
    importlib.reload(xpwd)
    ctx.regen("Bee2V/Gen/Pwd.lean", xpwd.generate())


def all_ops():
    return ["pwd %d %d %d" % (p, a, e) for p in range(32) for a in range(8) for e in range(16)]


def table_from(lines, outs):
    T = {}
    for l, o in zip(lines, outs):
        _, p, a, e = l.split()
        r = o.split()
        T[(int(p), int(a), int(e))] = (int(r[0]), int(r[1]), int(r[2]))
    return T


def left(p):
    return {P["pin3"]: 3, P["pin2"]: 2, P["pins"]: 1, P["pin1"]: 1}.get(p, 0)


def search(T):
    """BFS over (pin, auth, bads-in-window, CAN-needed, last-ok-auth) from every session start;
    returns a list of (rule, start, events, explanation) — shortest history per violated rule."""
    found = {}
    start = [((p, 0, 0, p == P["pins"], 0), None) for p in range(16)]
    seen = {}
    q = collections.deque()
    for s, _ in start:
        seen[s] = None
        q.append(s)

    def path(s):
        evs = []
        while seen[s] is not None:
            s, e = seen[s]
            evs.append(e)
        return s, evs[::-1]

    def report(rule, s, e, why):
        if rule not in found:
            s0, evs = path(s)
            found[rule] = (rule, s0[0], evs + [e], why)

    while q:
        s = q.popleft()
        p, a, bads, need, last = s
        for e in range(9):
            r, p2, a2 = T[(p, a, e)]
            en = NAMES_EV[e]
            if not (p2 < 16 and a2 < 4):
                report("closure", s, e, "state leaves the enums")
                continue
            if r == 0:
                if (p2, a2) != (p, a):
                    report("reject_unchanged", s, e, "rejected event changed the state")
                continue
            # rule 1 / 2 bookkeeping
            nb, nn = bads, need
            if e in (E["pin_ok"], E["puk_ok"], E["pin_activate"]):
                if e in (E["pin_ok"],) and need:
                    report("can_demanded", s, e, "PIN attempt accepted after the second wrong PIN without a correct CAN")
                nb, nn = 0, False
            if e == E["pin_bad"]:
                if need:
                    report("can_demanded", s, e, "PIN attempt accepted after the second wrong PIN without a correct CAN")
                nb = bads + 1
                if nb >= 4:
                    report("three_strikes", s, e, "fourth consecutive wrong PIN accepted")
                    nb = 3
                if nb == 3 and left(p2) != 0:
                    report("three_strikes", s, e, "three consecutive wrong PINs but the PIN is not blocked")
                if nb == 2 or p2 == P["pins"]:
                    nn = True
            if e == E["can_ok"]:
                nn = False
            if p2 == P["pins"]:
                nn = True if e != E["can_ok"] else nn
            # rule 3
            if p <= P["pin0"] and p2 > P["pin0"] and not (e == E["puk_ok"] or a == A["auth_puk"]):
                report("unblock_only_by_puk", s, e, "blocked PIN unblocked without a correct PUK")
            if p == P["puk0"] and p2 != P["puk0"]:
                report("terminated_permanent", s, e, "PIN state changed after the PUK counter was exhausted")
            if e == E["puk_bad"] and P["puk1"] <= p <= P["pin0"] and p2 != p - 1:
                report("puk_bad_counts", s, e, "wrong PUK not counted")
            # the PIN state rises only through an accepted unlock event (pin_rise_only_by_unlock)
            if p2 > p and e not in (E["pin_ok"], E["can_ok"], E["puk_ok"], E["pin_activate"], E["pin_deactivate"]):
                report("pin_rise_only_by_unlock", s, e, "PIN state raised by an event that is no successful password, activation or deactivation")
            # rule 4
            if p == P["pind"] and p2 != P["pind"] and not (e == E["pin_activate"] and a == A["auth_puk"]):
                report("deactivated_exit", s, e, "deactivated state left without activation under PUK authentication")
            # rule 5
            nl = last
            if e in (E["pin_ok"], E["can_ok"], E["puk_ok"]):
                nl = {E["pin_ok"]: A["auth_pin"], E["can_ok"]: A["auth_can"], E["puk_ok"]: A["auth_puk"]}[e]
            if a2 != 0 and a2 != nl:
                report("single_auth", s, e, "authentication status is not that of the most recent successful password")
            s2 = (p2, a2, nb, nn, nl)
            if s2 not in seen:
                seen[s2] = (s, e)
                q.append(s2)
    return list(found.values()), len(seen)


def fmt_replay(rule, p0, evs, why):
    return "\n".join([
        "# property C20 rule=%s : %s" % (rule, why),
        "# start state (pin, auth_none), then events in order; replay with ./check C20 --replay <this file>",
        "rule %s" % rule, "start %s" % NAMES_PIN[p0], "events %s" % " ".join(NAMES_EV[e] for e in evs)]) + "\n"


def run(ctx):
    translator_error = None
    try:
        regen(ctx)
    except Exception as e:  # fail-closed translator: the model can not be regenerated
        translator_error = "%s: %s" % (type(e).__name__, e)
    exe = ctx.cc("harness/c20.c", "asan")
    ops = all_ops()
    c_out, c_err, rc = ctx.run_lines(exe, ops)
    if rc != 0 or len(c_out) != len(ops):
        raise RuntimeError("c20 harness failed: " + c_err[-500:])
    T = table_from(ops, c_out)
    proof_ok, log = (False, "translator: " + translator_error) if translator_error else ctx.prove(["Bee2V.C20.Props"], PROPS)
    mism = []
    if not translator_error and os.path.exists(ctx.driver()):
        try:
            mism, _, _ = ctx.diff_run(exe, ops, "transition-table")
        except RuntimeError as e:
            ctx.notes.append(str(e))
            mism = [(-1, "driver", "", str(e))]
    viol, nstates = search(T)
    ctx.cov.update({"states": nstates, "transitions": nstates * 9, "table_entries_compared": len(ops),
                    "correspondence_disagreements": len(mism), "distinct_nontrivial": len(set(c_out))})
    ctx.samples += [{"op": ops[i], "impl": c_out[i]} for i in (15 * 128 + 0 * 16 + 1, 13 * 128 + 2 * 16 + 4, 0 * 128 + 3 * 16 + 2)]
    ctx.samples.append({"theorem": "Bee2V.C20.puk_strikes", "statement": "∀ s es, Valid s → BInv s → c_puk_ok ∉ es → BInv (run s es) ∧ pukBadCount s es + (run s es).pin ≤ s.pin"})
    ctx.samples.append({"theorem": "Bee2V.C20.pin_monotone", "statement": "∀ s es, Valid s → (∀ e ∈ es, isUnlock e = false) → (run s es).pin ≤ s.pin"})
    ctx.samples.append({"theorem": "Bee2V.C20.three_strikes", "statement": "∀ s es, Valid s → noReset s es → badCount s es + left (run s es).pin ≤ left s.pin"})
    if viol:
        for rule, p0, evs, why in viol:
            ctx.violation("rule:" + rule, fmt_replay(rule, p0, evs, why), True,
                          "%s: from (%s, auth_none) events %s" % (why, NAMES_PIN[p0], " ".join(NAMES_EV[e] for e in evs)))
    elif not proof_ok:
        ctx.violation("proof", "# property C20: the theorems of Bee2V/C20/Props.lean no longer check against the model "
                      "regenerated from btok_pwd.c, and the search over the real transition table found no history "
                      "violating a rule.\n# first errors:\n" + "\n".join("# " + l for l in log.split("\n") if "error" in l)[:3000],
                      False, "theorems no longer check: " + (translator_error or "; ".join(ctx.cov.get("lake_errors", [])))[:400])
    elif mism:
        i, op, c, l = mism[0]
        ctx.violation("correspondence", "# property C20: generated model and implementation disagree (translator or compiler "
                      "surprise); no rule violation found on the real table\nop %s\nimpl %s\nmodel %s\n" % (op, c, l), False,
                      "%d table entries differ, first: %s impl=%s model=%s" % (len(mism), op, c, l))
    return ctx.finish(
        level="proof",
        assumptions=["xlate/x_pwd.py translates btokPwdTransition faithfully (validated on every run by the exhaustive "
                     "comparison of all 32x8x16 table entries with the compiled function)",
                     "bit-fields hold values modulo 2^width; events outside the enum are rejected"],
        rule="exhaustive: every raw state value (32 pin x 8 auth) x every event value 0..15 compared between the compiled "
             "function and the regenerated Lean model; BFS of the product automaton from all 16 session starts as search oracle; "
             "distinct_nontrivial = number of distinct (ret,pin',auth') outcomes",
        exhaustive=True)


def replay(ctx, path):
    rule, start, evs = None, None, []
    for line in open(path):
        w = line.split()
        if not w or w[0].startswith("#"):
            continue
        if w[0] == "rule":
            rule = w[1]
        elif w[0] == "start":
            start = P[w[1]]
        elif w[0] == "events":
            evs = [E[x] for x in w[1:]]
    if start is None:
        print("replay file names a theorem/correspondence, not an input: nothing to execute")
        return 0
    exe = ctx.cc("harness/c20.c", "asan")
    p, a = start, 0
    print("start (%s, %s)" % (NAMES_PIN[p], NAMES_AUTH[a]))
    for e in evs:
        out, _, _ = ctx.run_lines(exe, ["pwd %d %d %d" % (p, a, e)])
        r, p, a = map(int, out[0].split())
        print("  %-15s -> %s (%s, %s)" % (NAMES_EV[e], "accepted" if r else "rejected",
                                          NAMES_PIN[p] if p < 16 else p, NAMES_AUTH[a] if a < 4 else a))
    ops = all_ops()
    c_out, _, _ = ctx.run_lines(exe, ops)
    viol, _ = search(table_from(ops, c_out))
    hit = [v for v in viol if v[0] == rule]
    print("rule %s %s on the current tree" % (rule, "VIOLATED" if hit else "holds"))
    return 1 if hit else 0

"""C11 — functions documented as overlap-tolerant give the disjoint-buffer result.

GEN   xlate/x_c11_remarks.py scans include/bee2/**/*.h for the overlap remarks and writes
      Bee2V/Gen/C11List.lean; every function of core/ and crypto/ in that list must have an entry in
      COVER below AND a line in `Bee2V.C11.covered` (theorem `coverage_complete`, by `decide`):
      a new remark without coverage fails closed.
PROOF Bee2V/C11/Props.lean: memMove/memJoin/memXor/memXor2/key expansion/DER as concrete memory
      programs, the belt/bash high-level functions as orderings of reads and writes over memory with
      an abstract cryptographic core; for every placement (all addresses universally quantified,
      only the header's exclusions as hypotheses) the output region is a function of the OLD contents
      of the input regions.
TIE   harness/c11.c vs drv_c11 on one arena per call: every dest−src offset in [−(len+16), len+16]
      (quick: boundary set + sample), aux inputs inside/outside the other buffers.  Concrete functions:
      whole arena compared.  Abstract-core functions: the call is first executed on the real library
      with pairwise disjoint buffers; the driver runs the order program on both placements and
      predicts "same as disjoint" iff the transcripts coincide; whole arena compared.
SEARCH the implementation alone: overlapped call vs disjoint call on the same contents (also key
      inside the state of every belt*Start, mac/hash inside the state of every *StepG).
"""
import collections, os, random, re, sys
import vcommon
from vcommon import VERIF

PROPS = ["Bee2V/C11/Props.lean", "Bee2V/C11/PropsConc.lean", "Bee2V/C11/PropsMath.lean", "Bee2V/C11/PropsHL.lean"]

# coverage class of every function of the scope (include/bee2/core, include/bee2/crypto)
#   "diff"   : theorem + correspondence op (harness vs driver) + search oracle
#   "state"  : theorem (order program over a state that is caller memory) + search oracle on the
#              real library (`start` / `stepg` ops: every offset of key / mac inside the state)
#   "deleg"  : not covered here (reason in DELEGATED)
COVER = {
    "memMove": "diff", "memJoin": "diff", "memXor": "diff", "memXor2": "diff",
    "beltKeyExpand": "diff", "beltKeyExpand2": "diff",
    "derEnc": "diff", "derTUINTEnc": "diff", "derTBITEnc": "diff", "derTPSTREnc": "diff",
    "derTUINTDec": "diff", "derTUINTDec2": "diff", "derTBITDec": "diff", "derTBITDec2": "diff",
    "derTOCTDec": "diff", "derTOCTDec2": "diff", "derTPSTRDec": "diff",
    "beltCBCEncr": "diff", "beltCBCDecr": "diff", "beltCFBEncr": "diff", "beltCFBDecr": "diff", "beltCTR": "diff",
    "beltBDEEncr": "diff", "beltBDEDecr": "diff", "beltSDEEncr": "diff", "beltSDEDecr": "diff",
    "beltFMTEncr": "diff", "beltFMTDecr": "diff", "beltMAC": "diff", "beltHMAC": "diff", "beltHash": "diff",
    "bashHash": "diff", "beltDWPWrap": "diff", "beltDWPUnwrap": "diff", "beltCHEWrap": "diff", "beltCHEUnwrap": "diff",
    "beltKWPWrap": "diff", "beltKWPUnwrap": "diff", "beltKRP": "diff",
    "beltWBLStart": "state", "beltECBStart": "state", "beltCBCStart": "state", "beltCFBStart": "state",
    "beltCTRStart": "state", "beltMACStart": "state", "beltDWPStart": "state", "beltCHEStart": "state",
    "beltBDEStart": "state", "beltSDEStart": "state", "beltFMTStart": "state", "beltKRPStart": "state",
    "beltMACStepG": "state", "beltMACStepG2": "state", "beltHashStepG": "state", "beltHashStepG2": "state",
    "beltHMACStepG2": "state", "bashHashStepG": "state",
    "dstuPointCompress": "diff", "dstuPointRecover": "diff",
}
# math headers (same-or-disjoint): word-memory models of C05 (18) and of Bee2V/C11/Math.lean (6), all in the correspondence
for _f in ("wwCopy wwXor wwXor2 zzAdd zzAdd2 zzAdd3 zzAddW zzSub zzSub2 zzSubW zzNeg zzMulW zzAddMulW zzSubMulW zzDivW "
           "zzAddMod zzAddWMod zzSubMod zzSubWMod zzNegMod zzDoubleMod zzHalfMod ppMulW ppAddMulW").split():
    COVER[_f] = "diff"
DELEGATED = {}
WORD_OPS = set(f for f, k in COVER.items() if f[:2] in ("ww", "zz", "pp"))   # ops that address 64-bit machine words
START_MODES = {"beltWBLStart": "WBL", "beltECBStart": "ECB", "beltCBCStart": "CBC", "beltCFBStart": "CFB",
               "beltCTRStart": "CTR", "beltMACStart": "MAC", "beltDWPStart": "DWP", "beltCHEStart": "CHE",
               "beltBDEStart": "BDE", "beltSDEStart": "SDE", "beltFMTStart": "FMT", "beltKRPStart": "KRP"}
STEPG_MODES = {"beltMACStepG": ("MAC", "MAC", 8), "beltMACStepG2": ("MAC2", "MAC", 5), "beltHashStepG": ("HASH", "HASH", 32),
               "beltHashStepG2": ("HASH2", "HASH", 13), "beltHMACStepG2": ("HMAC2", "HMAC", 20), "bashHashStepG": ("BASH", "BASH", 32)}


def _spec():
    import importlib
    import x_c11_spec
    return importlib.reload(x_c11_spec)


def regen(ctx):
    import importlib
    import x_c11_remarks
    importlib.reload(x_c11_remarks)
    x_c11_remarks.REPO = vcommon.REPO
    entries, txt = x_c11_remarks.generate()
    ctx.regen("Bee2V/Gen/C11List.lean", txt)
    import x_c11_inventory
    importlib.reload(x_c11_inventory)
    x_c11_inventory.REPO = vcommon.REPO
    inv, itxt = x_c11_inventory.generate()
    ctx.regen("Bee2V/Gen/C11Inv.lean", itxt)
    regen.inventory = inv
    return entries


# ------------------------------------------------------------------------------- running ops
def run_robust(ctx, exe, ops):
    """run op lines on the harness; a sanitizer abort gives 'CRASH …' for that line and the run continues"""
    res, i = [], 0
    while i < len(ops):
        out, err, rc = ctx.run_lines(exe, ops[i:])
        need = len(ops) - i
        if rc == 0 and len(out) >= need:
            res += out[:need]
            break
        k = min(len([o for o in out if o != ""]), need - 1)
        summ = [l for l in err.split("\n") if "ERROR" in l or "SUMMARY" in l][:2]
        res += out[:k] + ["CRASH(rc=%d) %s" % (rc, " | ".join(s.strip() for s in summ)[:200])]
        i += k + 1
    return res


def split_out(o):
    if o.startswith("CRASH") or " " not in o:
        return None, None
    r, a = o.split(" ", 1)
    return r, (bytes.fromhex(a) if a != "-" else b"")


def outputs_of(case, addr, out):
    """(ret, {buf: bytes}) of the output buffers of a call"""
    ret, ar = split_out(out)
    if ret is None:
        return None, {}
    res = {}
    okret = ret in ("0", "-") or (ret.isdigit() and (case.fn.startswith("der") or case.spec.get("word")))
    if okret:
        for b, (role, szf) in case.spec["bufs"].items():
            if role in ("out", "io") and addr[b] is not None:
                n = szf(case.sc)
                if "ret_len_out" in case.spec and ret.isdigit():
                    n = min(n, int(ret))
                res[b] = ar[addr[b]:addr[b] + n]
    return ret, res


# --------------------------------------------------------------------------------- generator
def gen_cases(ctx, exe, S, only=None, seeds=None):
    rng, tier = ctx.rng, ctx.tier
    cases = []
    items = list(S.SPEC.items()) + list(S.CONTROL.items())
    for fn, spec in items:
        if only and fn not in only:
            continue
        scs = spec["scal"](rng, tier)
        if tier == "quick" and len(scs) > 8 and not spec.get("concrete"):
            scs = rng.sample(scs, 8)
        for sc in scs:
            prep = None
            if "prepare" in spec:
                op, ex = spec["prepare"](rng, sc)
                o = run_robust(ctx, exe, [op])
                prep = ex(o[0])
            po, pi = spec["primary"]
            L = max(spec["bufs"][po][1](sc), spec["bufs"][pi][1](sc))
            if fn in ("beltFMTEncr", "beltFMTDecr"):
                L //= 2
            # functions with two buffers only: EVERY relative offset, in every tier
            offs = list(range(-(L + 16), L + 17)) if len(spec["bufs"]) == 2 and L <= 80 else S.offsets(L, tier, rng)
            for off in offs:
                for aux in (("out", "in", "in") if len(spec["bufs"]) > 2 else ("out",)):
                    nulls = [()]
                    if aux == "out" or rng.random() < 0.3:
                        for nb in sorted(spec.get("nullable", ())):
                            nulls.append((nb,))
                    for null in nulls:
                        c = S.build_case(rng, fn, sc, off, aux, null, prep, spec)
                        if c:
                            c.off, c.aux = off, aux
                            cases.append(c)
    return cases


def aux_sweep(ctx, exe, S, only=None):
    """every auxiliary buffer of a function (mac, iv, header, key, src2, len pointer, …) swept across and around the
       region it can hurt: an auxiliary INPUT over the primary output (aux = dest + m, m in [-len_aux, count + 16]),
       an auxiliary OUTPUT over the primary input; for several dest-vs-src shifts (apart, identical, +-1, +-8, +-len_aux,
       +-16), every other buffer apart; pairs the header excludes are never overlapped (but placed adjacent).  Inputs that
       must be valid (tokens, DER) keep their contents: the swept buffer is written first."""
    rng, tier = ctx.rng, ctx.tier
    cases = []
    for fn, spec in S.SPEC.items():
        if only and fn not in only:
            continue
        bufs = spec["bufs"]
        if len(bufs) < 3 or spec.get("word") or spec.get("same_or_disjoint"):
            continue
        scs = spec["scal"](rng, tier)
        scs = [sc for sc in scs if all(bufs[b][1](sc) <= 64 for b in bufs)] or scs[:1]
        if tier == "quick" and len(scs) > 2:
            scs = sorted(scs, key=lambda sc: sum(bufs[b][1](sc) for b in bufs))
            scs = [scs[0], scs[len(scs) // 2]]
        elif len(scs) > 5:
            scs = rng.sample(scs, 5)
        al = {b: (4 if b in spec.get("align4", ()) else 2 if b in spec.get("align2", ()) else 1) for b in bufs}
        po, pi = spec["primary"]
        forbid = [tuple(f) for f in spec["forbid"]]
        for sc in scs:
            prep = None
            if "prepare" in spec:
                op, ex = spec["prepare"](rng, sc)
                prep = ex(run_robust(ctx, exe, [op])[0])
            size = {b: bufs[b][1](sc) for b in bufs}
            contents = {}
            if "fill" in spec:
                contents.update(spec["fill"](rng, sc, prep))
            if prep:
                contents.update({k: v for k, v in prep.items() if v is not None})
            for aux in bufs:
                if aux in (po, pi) or size[aux] == 0:
                    continue
                la = size[aux]
                target = po if bufs[aux][0] == "in" else pi
                lt = size[target]
                if lt == 0:
                    continue
                shifts = [None, 0, 1, -1, 8, -8, la, -la, 16, -16] if tier != "quick" else [None, 0, -8, 8, -la, la, 1]
                for sh in dict.fromkeys(shifts):
                    base = la + 48 + max(size[po], size[pi])
                    a_in = base
                    a_out = base + (sh if sh is not None else size[pi] + 40)
                    if a_out % al[po] or a_in % al[pi]:
                        continue
                    taddr = a_out if target == po else a_in
                    ms = list(range(-la, lt + 17))
                    if tier == "quick" and len(ms) > 90:
                        must = set(range(-la, -la + 3)) | set(range(-2, 3)) | set(range(lt - la - 2, lt - la + 3)) | set(range(lt - 2, lt + 3)) | {lt + 16}
                        ms = sorted(x for x in (must | set(rng.sample(ms, 40))) if -la <= x <= lt + 16)
                    for m in ms:
                        addr = {pi: a_in, po: a_out, aux: taddr + m}
                        if addr[aux] < 0 or addr[aux] % al[aux]:
                            continue
                        hi = max(addr[b] + size[b] for b in addr) + 16
                        for b in bufs:
                            if b not in addr:
                                while hi % al[b]:
                                    hi += 1
                                addr[b] = hi
                                hi += size[b] + 8
                        if any(x in addr and y in addr and S.intersects(addr[x], size[x], addr[y], size[y]) for x, y in forbid):
                            continue
                        # two outputs over each other make no sense
                        outs = [b for b in bufs if bufs[b][0] != "in"]
                        if any(S.intersects(addr[x], size[x], addr[y], size[y]) for i, x in enumerate(outs) for y in outs[i + 1:]):
                            continue
                        arena = bytearray(rng.randbytes(hi + 8))
                        order = [aux] + [b for b in contents if b != aux]
                        for b in order:
                            if b in contents and b in addr:
                                d = contents[b]
                                arena[addr[b]:addr[b] + min(len(d), size[b]) if not (b == "val" and fn == "derTPSTREnc") else addr[b] + len(d)] = \
                                    d[:size[b]] if not (b == "val" and fn == "derTPSTREnc") else d
                        c = S.Case(fn, spec, sc, addr, bytes(arena))
                        c.off, c.aux = (sh if sh is not None else 9999), "sweep:" + aux
                        cases.append(c)
    return cases


LONG_QUICK = {"beltCBCEncr", "beltCBCDecr", "beltCFBEncr", "beltCFBDecr", "beltCTR", "beltBDEEncr", "beltBDEDecr", "beltSDEEncr",
              "beltSDEDecr", "beltMAC", "beltHMAC", "beltHash", "bashHash", "beltDWPWrap", "beltDWPUnwrap", "beltCHEWrap",
              "beltCHEUnwrap", "beltKWPWrap", "beltKWPUnwrap", "beltFMTEncr", "beltFMTDecr", "memMove", "memJoin", "memXor", "memXor2",
              "derEnc", "derTUINTEnc", "derTBITEnc", "derTPSTREnc"}
# functions whose length is a free parameter: the scalar(s) that carry it
LONG_PARAM = {"beltDWPWrap": ("n1", "n2"), "beltDWPUnwrap": ("n1", "n2"), "beltCHEWrap": ("n1", "n2"), "beltCHEUnwrap": ("n1", "n2"),
              "memJoin": ("n1", "n2")}


def place_case(S, rng, fn, spec, sc, fixed, contents, first=None):
    """a Case with the buffers of `fixed` at the given addresses and all others apart"""
    bufs = spec["bufs"]
    size = {b: bufs[b][1](sc) for b in bufs}
    al = {b: (8 if b in spec.get("align8", ()) else 4 if b in spec.get("align4", ()) else 2 if b in spec.get("align2", ()) else 1) for b in bufs}
    addr = dict(fixed)
    if any(v is not None and (v < 0 or v % al[b]) for b, v in addr.items()):
        return None
    hi = max([8] + [addr[b] + size[b] for b in addr if addr[b] is not None]) + 16
    for b in bufs:
        if b not in addr:
            while hi % al[b]:
                hi += 1
            addr[b] = hi
            hi += size[b] + 8
    live = [b for b in bufs if addr[b] is not None]
    for x, y in spec["forbid"]:
        if x in live and y in live and S.intersects(addr[x], size[x], addr[y], size[y]):
            return None
    outs = [b for b in live if bufs[b][0] != "in"]
    if any(S.intersects(addr[x], size[x], addr[y], size[y]) for i, x in enumerate(outs) for y in outs[i + 1:]):
        return None
    if spec.get("same_or_disjoint"):
        d = spec["primary"][0]
        if any(b != d and addr[b] != addr[d] and S.intersects(addr[b], size[b], addr[d], size[d]) for b in live):
            return None
    arena = bytearray(rng.randbytes(hi + 8))
    order = ([first] if first else []) + [b for b in contents if b != first]
    for b in order:
        d = contents.get(b)
        if d is not None and addr.get(b) is not None:
            if b == "val" and fn == "derTPSTREnc":
                arena[addr[b]:addr[b] + len(d)] = d
            else:
                arena[addr[b]:addr[b] + min(len(d), size[b])] = d[:size[b]]
    return S.Case(fn, spec, sc, addr, bytes(arena))


def long_cases(ctx, exe, S):
    """length-dependent processing (chunked loops, thresholds): long buffers {4095, 4096, 4097, 8192, 8193, 65537} and the
       blob-page sizes 1023..1025 with a sparse structured offset set (+-1, +-15, +-16, +-17, +-4095, +-4096, +-4097, +-(len-1), apart)
       and every auxiliary buffer at the start / across and at a 4096 boundary / at the end of the region it can hurt.
       Quick: the cheap functions with {4097, 8193} (full offset set) and {1023, 1024, 1025, 4095, 4096} (+-1); thorough: all.
       Cases longer than 1100 octets are compared on the implementation only (`c_only`: overlapped call vs disjoint call);
       the correspondence with the model runs on the 1023..1025 cases."""
    rng, tier = ctx.rng, ctx.tier
    cases = []
    for fn, spec in S.SPEC.items():
        if spec.get("word") or fn.startswith("beltKeyExpand") or fn == "beltKRP" or (fn.startswith("der") and fn.endswith(("Dec", "Dec2"))):
            continue
        if tier == "quick" and fn not in LONG_QUICK:
            continue
        base = dict(spec["scal"](rng, tier)[-1])
        params = LONG_PARAM.get(fn, ("n",))
        if not all(p in base for p in params):
            continue
        bufs = spec["bufs"]
        po, pi = spec["primary"]
        if fn in ("beltFMTEncr", "beltFMTDecr"):
            lens_full, lens_pm1 = [600], [511, 512, 513]
        elif tier == "quick":
            lens_full, lens_pm1 = [4097, 8193], [1023, 1024, 1025, 4095, 4096]
        else:
            lens_full, lens_pm1 = [4096, 4097, 8193, 65537], [1023, 1024, 1025, 4095, 8192]
        mult = 16 if fn[:7] in ("beltBDE", "beltSDE") else 1
        for ln in lens_full + lens_pm1:
            variants = [(ln,)] if len(params) == 1 else [(ln, 16), (ln, 0), (16, ln)] if fn != "memJoin" else [(ln, 1), (ln, 16), (16, ln)]
            for var in variants:
                sc = dict(base)
                for pname, v in zip(params, var):
                    sc[pname] = v // mult * mult if pname == params[0] or v > 64 else v
                if fn == "derTBITEnc":
                    sc["n"] = 8 * ln - 3
                if fn == "memJoin" and sc["n2"] > 64:
                    pass
                size = {b: bufs[b][1](sc) for b in bufs}
                if size[po] == 0 or size[pi] == 0:
                    continue
                prep = None
                if "prepare" in spec:
                    op, ex = spec["prepare"](rng, sc)
                    prep = ex(run_robust(ctx, exe, [op])[0])
                contents = {}
                if "fill" in spec:
                    contents.update(spec["fill"](rng, sc, prep))
                if prep:
                    contents.update({k: v for k, v in prep.items() if v is not None})
                L = min(size[po], size[pi])
                u = 2 if fn.startswith("beltFMT") else 1
                offs = [1, -1] if ln in lens_pm1 else [1, -1, 4096, -4097, 17] if ln > 10000 else \
                    [1, -1, 15, -15, 16, -16, 17, -17, 4095, -4095, 4096, -4096, 4097, -4097, L - 1, -(L - 1), 0]
                offs = [o * u for o in dict.fromkeys(offs) if abs(o) < max(size[po], size[pi])]
                b0 = max(size.values()) + 64
                b0 += b0 % 2
                new = []
                for off in offs + [None]:
                    a_in = b0
                    a_out = b0 + off if off is not None else b0 + size[pi] + 64 + (size[pi] % 2)
                    c = place_case(S, rng, fn, spec, sc, {pi: a_in, po: a_out}, contents)
                    if c:
                        c.off, c.aux = (off if off is not None else 99999), "long"
                        new.append(c)
                # auxiliary buffers at the start / across and at a portion boundary / at the end
                for aux in bufs:
                    if aux in (po, pi) or size[aux] == 0 or ln in lens_pm1:
                        continue
                    la = size[aux]
                    target = po if bufs[aux][0] == "in" else pi
                    lt = size[target]
                    for off in ((None, 1 * u, -8 * u) if ln < 10000 else (1 * u,)):
                        a_in = b0
                        a_out = b0 + off if off is not None else b0 + size[pi] + 64 + (size[pi] % 2)
                        ta = a_out if target == po else a_in
                        for m in dict.fromkeys([0, -la // 2, 4096 - la // 2, 4096, 4096 - la, lt - la, lt - la // 2, lt // 2]):
                            if m + la <= 0 or m >= lt:
                                continue
                            c = place_case(S, rng, fn, spec, sc, {pi: a_in, po: a_out, aux: ta + m}, contents, first=aux)
                            if c:
                                c.off, c.aux = (off if off is not None else 99999), "long:" + aux
                                new.append(c)
                for c in new:
                    if fn == "memJoin" and branch_of(c) >= 3 and sc["n2"] > 64:
                        continue          # the rotation by count2 single steps is quadratic in the model: kept short
                    if (fn in ("memXor", "memXor2") and ln > 4097):
                        continue
                    c.c_only = ln > 1100 or fn in ("memXor", "memXor2")   # (the memXor model is cubic)   # the list-based model is quadratic in the buffer length: longer cases are oracle-only
                    cases.append(c)
    return cases


def memjoin_sweep(ctx, S):
    """all placements of (dest, src1, src2) in a small arena for memJoin"""
    rng = ctx.rng
    cases = []
    W = 14 if ctx.tier == "quick" else 26
    lens = [(a, b) for a in range(0, 7) for b in range(0, 7)] if ctx.tier == "quick" else \
           [(a, b) for a in range(0, 10) for b in range(0, 10)]
    spec = S.SPEC["memJoin"]
    for (c1, c2) in lens:
        for d in range(0, W - c1 - c2 + 1):
            for s1 in range(0, W - c1 + 1):
                for s2 in range(0, W - c2 + 1):
                    if ctx.tier == "quick" and rng.random() > 0.25:
                        continue
                    if ctx.tier != "quick" and rng.random() > 0.35:
                        continue
                    arena = rng.randbytes(W)
                    c = S.Case("memJoin", spec, {"n1": c1, "n2": c2}, {"d": d, "s1": s1, "s2": s2}, arena)
                    c.off, c.aux = d - s1, "sweep"
                    cases.append(c)
    return cases


def branch_of(c):
    d, s1, s2, c1, c2 = c.addr["d"], c.addr["s1"], c.addr["s2"], c.sc["n1"], c.sc["n2"]

    def dj(a, n, b, k):
        return n == 0 or k == 0 or a + n <= b or a >= b + k
    if dj(d, c1, s2, c2):
        return 1
    if dj(d + c1, c2, s1, c1):
        return 2
    if dj(d, c2, s1, c1):
        return 3
    if dj(d + c2, c1, s2, c2):
        return 4
    return 5


def replay_text(case, why):
    dop, daddr = case.disjoint_op()
    L = ["# property C11: %s" % why,
         "# `op` is the call with overlapping buffers, `ref` the same call with pairwise disjoint buffers holding the",
         "# same contents; `cmp <buffer> <addr in op> <addr in ref> <size>` are the output buffers that must agree.",
         "# replay: ./check C11 --replay <this file>",
         "harness " + ("harness/c11_hl.c" if case.spec.get("hl") else "harness/c11.c"),
         "op " + case.op(), "ref " + dop]
    for b, (role, szf) in case.spec["bufs"].items():
        if role in ("out", "io") and case.addr[b] is not None:
            L.append("cmp %s %d %d %d" % (b, case.addr[b], daddr[b], szf(case.sc)))
    return "\n".join(L) + "\n"


def _inter(a, n, b, k):
    return n > 0 and k > 0 and a < b + k and b < a + n


def key_of(case, bufs_bad):
    """input class of a failing placement: function + which buffers overlap"""
    ov = []
    names = list(case.spec["bufs"])
    for i, a in enumerate(names):
        for b in names[i + 1:]:
            if case.addr[a] is not None and case.addr[b] is not None and \
               _inter(case.addr[a], case.size(a), case.addr[b], case.size(b)):
                ov.append("%s~%s" % (a, b))
    return "%s:%s" % (case.fn, ",".join(ov) or "none")


def build_lines(cases, dops, dres, H=None):
    """op lines for harness + driver: concrete functions as they are; abstract-core functions with the
       disjoint relocation and the values the real library produced there; generic high-level functions
       additionally with the description of their order program for both placements"""
    lines = []
    for c, (dop, daddr), dr in zip(cases, dops, dres):
        if c.spec.get("concrete"):
            lines.append(c.op())
            continue
        rd, od = outputs_of(c, daddr, dr)
        if rd is None:
            lines.append(c.op())
            continue
        vals = []
        dret, dar = split_out(dr)
        for cid, b in c.spec["outs"]:
            if daddr[b] is not None:
                if cid in c.spec.get("outs_slice", {}):
                    st, n = c.spec["outs_slice"][cid](c.sc)
                else:
                    st, n = 0, c.spec.get("outs_size", {}).get(cid, c.size(b))
                vals.append("%s=%s" % (cid, dar[daddr[b] + st:daddr[b] + st + n].hex() or "-"))
        parts = [c.op(), "|", dop.split(" ", 1)[1], "|", dret] + vals
        if c.spec.get("hl") and c.fn not in H.OWN_PROGRAM:
            parts += ["|"] + H.describe(c, c.addr) + ["|"] + H.describe(c, daddr)
        lines.append(" ".join(parts))
    return lines


def regression_cases(ctx, exe, S):
    """the placements of docs/C11.fix-1/2: iv INSIDE dest for beltSDEEncr/Decr, header INSIDE dest for
       beltKWPUnwrap (valid token from the library's Wrap), dest shifted against src by several offsets"""
    rng = ctx.rng
    out = []

    def arena_for(end):
        return bytearray(rng.randbytes(end))
    for fn in ("beltSDEEncr", "beltSDEDecr"):
        spec = S.SPEC[fn]
        for n in (32, 48):
            for ln in (16, 32):
                for doff in (-(n + 4), -5, -1, 1, 16, n + 3):      # dest - src (dest == src makes the move a no-op)
                    for ivo in (0, 1, 7, 8, n - 16, n - 17, -9, n - 7):   # iv - dest: inside, flush, straddling both ends
                        src = n + 24
                        dest = src + doff
                        iv = dest + ivo
                        if iv < 0:
                            continue
                        key = max(src, dest) + n + 8
                        ar = arena_for(key + ln + 8)
                        c = S.Case(fn, spec, {"n": n, "len": ln}, {"d": dest, "s": src, "k": key, "iv": iv}, bytes(ar))
                        c.off, c.aux = doff, "regress"
                        out.append(c)
    spec = S.SPEC["beltKWPUnwrap"]
    for n in (32, 48, 49):
        for ln in (16, 24):
            sc = {"n": n, "len": ln}
            op, ex = spec["prepare"](rng, sc)
            prep = ex(run_robust(ctx, exe, [op])[0])
            if prep.get("hdr") is None:
                continue
            for doff in (-(n + 4), -5, -1, 0, 1, 16, n + 3):
                for ho in (0, 1, 8, n - 32, n - 33, -9, n - 16 - 7):     # header - dest
                    src = n + 24
                    dest = src + doff
                    hdr = dest + ho
                    if hdr < 0 or S.intersects(hdr, 16, src, n):
                        continue                                    # header over src would destroy the token itself
                    key = max(src, dest) + n + 8
                    ar = arena_for(key + ln + 8)
                    ar[key:key + ln] = prep["k"]
                    ar[src:src + n] = prep["s"]
                    ar[hdr:hdr + 16] = prep["hdr"]
                    if bytes(ar[src:src + n]) != prep["s"]:
                        continue
                    c = S.Case("beltKWPUnwrap", spec, sc, {"d": dest, "s": src, "hdr": hdr, "k": key}, bytes(ar))
                    c.off, c.aux = doff, "regress"
                    out.append(c)
    return out


# expected call sequence of every high-level function between blobCreate and the final return: the order
# program of Bee2V/C11/Prog.lean transcribes exactly this (fail-closed source-shape tie)
HL_SHAPE = {
    "beltCBCEncr": "beltCBCStart memMove beltCBCStepE", "beltCBCDecr": "beltCBCStart memMove beltCBCStepD",
    "beltCFBEncr": "beltCFBStart memMove beltCFBStepE", "beltCFBDecr": "beltCFBStart memMove beltCFBStepD",
    "beltCTR": "beltCTRStart memMove beltCTRStepE",
    "beltBDEEncr": "beltBDEStart memMove beltBDEStepE", "beltBDEDecr": "beltBDEStart memMove beltBDEStepD",
    "beltSDEEncr": "beltSDEStart memCopy memMove beltSDEStepE", "beltSDEDecr": "beltSDEStart memCopy memMove beltSDEStepD",
    "beltFMTEncr": "beltFMTStart memMove beltFMTStepE", "beltFMTDecr": "beltFMTStart memMove beltFMTStepD",
    "beltMAC": "beltMACStart beltMACStepA beltMACStepG", "beltHMAC": "beltHMACStart beltHMACStepA beltHMACStepG",
    "beltHash": "beltHashStart beltHashStepH beltHashStepG", "bashHash": "bashHashStart bashHashStepH bashHashStepG",
    "beltDWPWrap": "beltDWPStart beltDWPStepI memMove beltDWPStepE beltDWPStepA beltDWPStepG",
    "beltCHEWrap": "beltCHEStart beltCHEStepI memMove beltCHEStepE beltCHEStepA beltCHEStepG",
    "beltDWPUnwrap": "beltDWPStart beltDWPStepI beltDWPStepA beltDWPStepV memMove beltDWPStepD",
    "beltCHEUnwrap": "beltCHEStart beltCHEStepI beltCHEStepA beltCHEStepV memMove beltCHEStepD",
    "beltKWPWrap": "beltWBLStart memJoin memMove memSetZero beltWBLStepE",
    "beltKWPUnwrap": "beltWBLStart memCopy memSetZero memCopy memMove beltWBLStepD2 memEq memSetZero",
    "beltKRP": "beltKRPStart beltKRPStepG",
}


def hl_shape(ctx):
    problems = []
    srcdir = os.path.join(vcommon.REPO, "src", "crypto")
    texts = []
    for d, _, fs in os.walk(srcdir):
        for f in fs:
            if f.endswith(".c"):
                texts.append(open(os.path.join(d, f), encoding="utf-8", errors="replace").read())
    for fn, want in HL_SHAPE.items():
        body = None
        for t in texts:
            m = re.search(r"^err_t %s\([^)]*\)\s*\{(.*?)^\}" % fn, t, flags=re.S | re.M)
            if m:
                body = m.group(1)
                break
        if body is None:
            problems.append("%s: definition not found" % fn)
            continue
        body = re.sub(r"//[^\n]*", "", body)
        i = body.find("blobCreate")
        if i < 0:
            problems.append("%s: no blobCreate" % fn)
            continue
        calls = re.findall(r"\b((?:belt|bash)[A-Z]\w*|memMove|memCopy|memJoin|memSetZero|memEq|memIsZero|memXor2?|memSet)\s*\(", body[i:])
        calls = [c for c in calls if not c.endswith("_keep")]
        calls = [c.replace("beltKWP", "beltWBL") for c in calls]
        # a failed StepV closes the blob and returns: same sequence prefix
        if " ".join(calls) != want:
            problems.append("%s: call sequence changed: `%s` (order program transcribes `%s`)" % (fn, " ".join(calls), want))
    return problems



# ------------------------------------------------------------------ high-level functions the header is silent about
def _hl():
    import importlib
    import x_c11_hl
    return importlib.reload(x_c11_hl)


def hl_place(rng, spec, sc, overl, prep, fn, null=()):
    """a placement in which exactly the buffer pairs of `overl` = [(x, y, off)] overlap (x at y + off); all other
       buffers lie apart"""
    from x_c11_spec import Case
    bufs = spec["bufs"]
    size = {b: bufs[b][1](sc) for b in bufs}
    al = {b: (2 if b in spec.get("align2", ()) else 1) for b in bufs}
    addr, cur = {}, 8
    moved = set()
    groups = []            # lay out group by group; a group = buffers tied together by overl
    for b in bufs:
        if b in null:
            addr[b] = None
    for x, y, off in overl:
        if y not in addr:
            lo = max([size[x] + abs(off) + 8])
            addr[y] = cur + lo
            cur = addr[y] + size[y] + 8
        addr[x] = addr[y] + off
        if addr[x] < 0 or addr[x] % al[x]:
            return None
        cur = max(cur, addr[x] + size[x] + 8)
    for b in bufs:
        if b not in addr:
            while cur % al[b]:
                cur += 1
            addr[b] = cur
            cur += size[b] + 8
    arena = bytearray(rng.randbytes(cur + 8))
    contents = dict(prep or {})
    for b, data in contents.items():
        if data is not None and addr.get(b) is not None and b in bufs and bufs[b][0] != "out":
            arena[addr[b]:addr[b] + size[b]] = data[:size[b]]
    return Case(fn, spec, sc, addr, bytes(arena))


def hl_pairs(spec):
    outs = [b for b, (r, _) in spec["bufs"].items() if r != "in"]
    return [(o, i) for o in outs for i in spec["bufs"] if i != o and spec["bufs"][i][0] != "out"]


def hl_offsets(rng, nx, ny, tier, k):
    """x (size nx) against y (size ny): every way of overlapping at the boundaries + a sample"""
    lo, hi = -(nx - 1), ny - 1
    full = list(range(lo, hi + 1))
    must = {lo, hi, 0, ny - nx, 1, -1, ny - nx + 1, ny - nx - 1, (ny - nx) // 2, 8, -8, 16, -16}
    must = sorted(o for o in must if lo <= o <= hi)
    if tier == "thorough" and len(full) <= 400 and k >= 41:
        return full
    rest = [o for o in full if o not in must]
    return sorted(set(must + rng.sample(rest, min(len(rest), max(0, k - len(must))))))


def hl_cases(ctx, exe_hl, S, H, only=None, tolerated=None):
    """placements for the functions of xlate/x_c11_hl.py (harness/c11_hl.c).  For every (output, input) pair of a
       function: the output swept over the input (all boundary offsets + a sample) with every other buffer apart;
       plus combined placements (all tolerated pairs at once, the in-place use).  `tolerated` = {fn: set of pairs} limits
       the sweep to the pairs the model claims (None = explore every pair)."""
    rng, tier = ctx.rng, ctx.tier
    call = H.make_call(lambda ops: run_robust(ctx, exe_hl, ops))
    cases = []
    for fn, spec in H.HL.items():
        if only and fn not in only:
            continue
        longs = spec["long"](rng, tier) if spec.get("long") else []
        for sc in list(spec["scal"](rng, tier)) + longs:
            is_long = any(sc is x for x in longs)
            sc = dict(sc)
            prep = spec["prep"](rng, sc, call) if spec.get("prep") else None
            size = {b: spec["bufs"][b][1](sc) for b in spec["bufs"]}
            k = (spec["quick_offsets"] if tier == "quick" else 3 * spec["quick_offsets"]) if spec.get("quick_offsets") else (13 if tier == "quick" else 41)
            pairs = [p for p in hl_pairs(spec) if tolerated is None or p in tolerated.get(fn, ())]
            pairs = [p for p in pairs if tuple(p) not in [tuple(f) for f in spec["forbid"]] and tuple(reversed(p)) not in [tuple(f) for f in spec["forbid"]]]
            for x, y in pairs:
                if size[x] == 0 or size[y] == 0:
                    continue
                offs = hl_offsets(rng, size[x], size[y], tier, k)
                if is_long:
                    lo, hi = -(size[x] - 1), size[y] - 1
                    st = [0, 1, -1, 15, -15, 16, -16, 17, -17, 4095, -4095, 4096, -4096, 4097, -4097, lo, hi, size[y] - size[x]]
                    offs = sorted(set(o for o in st if lo <= o <= hi))
                for off in offs:
                    c = hl_place(rng, spec, sc, [(x, y, off)], prep, fn)
                    if c:
                        c.off, c.aux, c.hl, c.pair, c.c_only = off, "pair", True, (x, y), is_long
                        cases.append(c)
            # null optional pointers, everything apart
            for nb in sorted(spec.get("nullable", ())):
                c = hl_place(rng, spec, sc, [], prep, fn, null=(nb,))
                if c:
                    c.off, c.aux, c.hl, c.pair = 0, "null", True, None
                    cases.append(c)
            for ov in (spec["extra"](sc) if spec.get("extra") else []):
                c = hl_place(rng, spec, sc, ov, prep, fn)
                if c:
                    c.off, c.aux, c.hl, c.pair = 0, "inplace", True, None
                    cases.append(c)
            # combined: every tolerated pair of one output at once (random offsets)
            if tolerated is not None:
                outs = sorted(set(x for x, _ in pairs))
                for _ in range(3 if tier == "quick" else 10):
                    ov, used = [], set()
                    for x in outs:
                        ys = [y for xx, y in pairs if xx == x and y not in used]
                        rng.shuffle(ys)
                        for y in ys[:1]:
                            ov.append((x, y, rng.randint(-(size[x] - 1), size[y] - 1) if size[x] and size[y] else 0))
                            used.add(y)
                    if ov:
                        c = hl_place(rng, spec, sc, ov, prep, fn)
                        if c:
                            c.off, c.aux, c.hl, c.pair = 0, "combined", True, None
                            cases.append(c)
    return cases


# ------------------------------------------------------------------ state-resident placements
def state_sweep(ctx, exe):
    """search oracle for belt*Start (key inside the state) and *StepG (mac/hash inside the state):
       every offset; returns list of (function, description, replay text)"""
    rng = ctx.rng
    modes = sorted(set(START_MODES.values()) | set(v[1] for v in STEPG_MODES.values()))
    out = run_robust(ctx, exe, ["keep " + m for m in modes])
    keep = {m: int(o) for m, o in zip(modes, out)}
    ops, meta = [], []
    for fn, m in START_MODES.items():
        for ln in (16, 24, 32):
            key = bytes(rng.randrange(256) for _ in range(ln))
            iv = bytes(rng.randrange(256) for _ in range(12 if m == "KRP" else 16))
            st = bytes(rng.randrange(256) for _ in range(keep[m]))
            ops.append("start %s %s N %d %s %s" % (m, st.hex(), ln, key.hex(), iv.hex()))
            meta.append((fn, ln, None))
            for off in range(0, keep[m] - ln + 1):
                a = bytearray(st)
                a[off:off + ln] = key
                ops.append("start %s %s %d %d %s %s" % (m, bytes(a).hex(), off, ln, key.hex(), iv.hex()))
                meta.append((fn, ln, off))
    for fn, (m, km, n) in STEPG_MODES.items():
        for dl in (0, 5, 16, 33):
            data = bytes(rng.randrange(256) for _ in range(dl))
            st = bytes(rng.randrange(256) for _ in range(keep[km]))
            ops.append("stepg %s %s N %d %s" % (m, st.hex(), n, data.hex() or "-"))
            meta.append((fn, dl, None))
            for off in range(0, keep[km] - n + 1):
                ops.append("stepg %s %s %d %d %s" % (m, st.hex(), off, n, data.hex() or "-"))
                meta.append((fn, dl, off))
    res = run_robust(ctx, exe, ops)
    ref, refop, bad = {}, {}, collections.OrderedDict()
    for (fn, p, off), o, op in zip(meta, res, ops):
        if off is None:
            ref[(fn, p)], refop[(fn, p)] = o, op
        elif o != ref[(fn, p)]:
            bad.setdefault(fn, []).append((p, off, op, refop[(fn, p)]))
    ctx.cov["state_resident_placements"] = len(ops)
    found = []
    for fn, l in bad.items():
        p, off, op, rop = l[0]
        txt = "\n".join(["# property C11: %s with its %s inside the state (offset %d) behaves differently from the call with a separate buffer"
                         % (fn, "key" if fn in START_MODES else "output", off),
                         "# the two ops must print the same line; replay: ./check C11 --replay <this file>",
                         "same " + op, "same " + rop]) + "\n"
        found.append((fn, "%s: %d offsets differ, first at offset %d (parameter %s)" % (fn, len(l), off, p), txt))
    return found


def source_shape(ctx):
    """fail-closed source pattern check for the state-resident models: every belt*Start of the scope
       references its `key` parameter exactly once, in the first statement, as argument of
       beltKeyExpand2 / a delegated *Start; every *StepG of the scope is `_internal(state)` followed by
       one u32To/memMove into the output."""
    problems = []
    srcdir = os.path.join(vcommon.REPO, "src", "crypto")

    def body(fn):
        for d, _, fs in os.walk(srcdir):
            for f in fs:
                if f.endswith(".c"):
                    t = open(os.path.join(d, f), encoding="utf-8", errors="replace").read()
                    m = re.search(r"^void %s\([^)]*\)\s*\{(.*?)^\}" % fn, t, flags=re.S | re.M)
                    if m:
                        return m.group(1)
        return None
    for fn in START_MODES:
        b = body(fn)
        if b is None:
            problems.append("%s: definition not found" % fn)
            continue
        b = re.sub(r"//[^\n]*", "", b)
        stmts = [s.strip() for s in b.split(";") if s.strip()]
        stmts = [s for s in stmts if not s.startswith("ASSERT") and not re.match(r"belt_\w+_st\*", s)]
        uses = [i for i, s in enumerate(stmts) if re.search(r"(?<![>\w.])key\b", s)]
        first = stmts[0] if stmts else ""
        if uses != [0] or not re.match(r"(beltKeyExpand2|beltWBLStart|beltCTRStart)\(\s*st->\w+\s*,\s*key\s*,\s*len\s*(,\s*iv\s*)?\)$", first):
            problems.append("%s: key is not consumed by the first statement only (%s)" % (fn, first[:60]))
    for fn in STEPG_MODES:
        b = body(fn)
        if b is None:
            problems.append("%s: definition not found" % fn)
            continue
        b = re.sub(r"//[^\n]*", "", b)
        stmts = [s.strip() for s in b.split(";") if s.strip()]
        stmts = [s for s in stmts if not s.startswith("ASSERT") and not re.match(r"\w+_st\*", s)]
        if len(stmts) != 2 or not re.match(r"\w+StepG_internal\(", stmts[0]) or \
           not re.match(r"(u32To|memMove)\(\s*(mac|hash)\s*,", stmts[1]):
            problems.append("%s: not `_internal(state); u32To/memMove(out, …)` (%s)" % (fn, " ; ".join(stmts)[:80]))
    return problems


def inventory_check(ctx):
    """fail-closed inventory of the functions with >= 2 octet buffers: remark / excluded (sentence quoted) / outputs /
       silent; every silent one must be exercised (xlate/x_c11_hl.py) or listed as not exercised with its reason; the
       pairs a header sentence excludes must be the ones the spec forbids"""
    H = _hl()
    inv = regen.inventory
    problems = []
    cls = collections.Counter(r["cls"] for r in inv)
    silent = {r["func"]: r for r in inv if r["cls"] == "silent"}
    for f in sorted(silent):
        if f not in H.HL and f not in H.NOT_EXERCISED:
            problems.append("function with several octet buffers and a silent header is not covered: %s (%s)" %
                            (f, ", ".join("%s %s" % (a, b) for a, b, _ in silent[f]["bufs"])))
    for f in list(H.HL) + list(H.NOT_EXERCISED):
        if f not in silent:
            r = [x for x in inv if x["func"] == f]
            problems.append("%s is listed as silent but the inventory now says: %s" % (f, r[0]["cls"] + " — " + (r[0].get("quote") or "") if r else "no such function"))
    for r in inv:
        if r["cls"] == "excluded" and not r.get("quote"):
            problems.append("%s: excluded without a quoted sentence" % r["func"])
    # header sentences that exclude single pairs (bignSign: sig/hash) must be forbidden in the spec
    alias = {"id_sig": "idsig"}
    for f, r in silent.items():
        if f in H.HL:
            want = set(tuple(sorted(alias.get(x, x) for x in p)) for p in r["forbid"])
            have = set(tuple(sorted(p)) for p in H.HL[f]["forbid"])
            if not want <= have:
                problems.append("%s: the header excludes %s, the spec forbids %s" % (f, sorted(want), sorted(have)))
    ctx.cov["inventory"] = dict(cls)
    ctx.cov["inventory_excluded_quotes"] = sorted(set("%s: %s" % (r["header"].split("/")[-1], r["quote"][:110]) for r in inv if r["cls"] == "excluded"))[:40]
    ctx.cov["inventory_source_permits"] = sorted(f for f, r in silent.items() if r.get("src_permits"))
    ctx.cov["inventory_not_exercised"] = sorted(H.NOT_EXERCISED)
    ctx.cov["inventory_not_tolerated_pairs"] = {f: ["%s~%s" % p for p in v] for f, v in H.NOT_TOLERATED.items()}
    return problems



# --------------------------------------------------------------------------------------- run
def run(ctx):
    S = _spec()
    problems = []
    try:
        entries = regen(ctx)
        scope = sorted(e["func"] for e in entries if e["kind"] != "disjoint")
        missing = [f for f in scope if f not in COVER]
        stale = [f for f in COVER if f not in scope]
        if missing:
            problems.append("overlap remark without coverage: " + ", ".join(missing))
        if stale:
            problems.append("covered function no longer documented as overlap-tolerant: " + ", ".join(stale))
        # exclusions stated by the header must be the ones the generator/theorems assume
        excl = {e["func"]: sorted(set(tuple(sorted(set(x))) for x in e["excl"])) for e in entries if e["kind"] != "disjoint"}
        want = {"beltDWPWrap": [("dest", "mac")], "beltCHEWrap": [("dest", "mac")], "beltFMTEncr": [("dest", "iv")],
                "beltFMTDecr": [("dest", "iv")], "derTUINTDec": [("len", "val")], "derTBITDec": [("len", "val")],
                "derTOCTDec": [("len", "val")], "derTPSTRDec": [("len", "val")],
                # modular routines: the output must not overlap mod (hypothesis `Disj c mod n` of the C05 theorems)
                "zzAddMod": [("mod",)], "zzSubMod": [("mod",)], "zzAddWMod": [("b", "mod")], "zzSubWMod": [("b", "mod")],
                "zzNegMod": [("b", "mod")], "zzDoubleMod": [("b", "mod")], "zzHalfMod": [("b", "mod")]}
        for f in scope:
            if excl.get(f, []) != want.get(f, []):
                problems.append("exclusions of %s changed in the header: %s (theorem assumes %s)" % (f, excl.get(f), want.get(f, [])))
        problems += source_shape(ctx)
        problems += hl_shape(ctx)
        problems += inventory_check(ctx)
        ctx.cov["scope_functions"] = len(scope)
        ctx.cov["cover_classes"] = dict(collections.Counter(COVER[f] for f in scope if f in COVER))
    except Exception as e:
        problems.append("translator x_c11_remarks: %s: %s" % (type(e).__name__, e))
    proof_ok, log = ctx.prove(["Bee2V.C11.Props"], PROPS)
    # the Lean-side coverage table must name existing theorems and agree with COVER
    src = open(os.path.join(vcommon.LEAN, PROPS[0]), encoding="utf-8").read()
    m = re.search(r"def covered : List \(String × String\) := \[(.*?)\]\n", src, flags=re.S)
    pairs = re.findall(r'\("(\w+)",\s*"([\w\-.]+)"\)', m.group(1)) if m else []
    thms = set(n.split(".")[-1] for rel in PROPS for n in ctx.theorems_of(rel))
    thms |= set("C05." + n.split(".")[-1] for n in ctx.theorems_of("Bee2V/C05/PropsAlias.lean"))
    for f, t in pairs:
        if t != "-" and t not in thms:
            problems.append("covered: %s names a missing theorem %s" % (f, t))
    if set(f for f, _ in pairs) != set(COVER):
        problems.append("covered list of Props.lean and COVER of props/C11.py differ: %s" %
                        sorted(set(f for f, _ in pairs) ^ set(COVER)))
    ctx.cov["correspondence_only"] = sorted(f for f, t in pairs if t == "-" and COVER.get(f) != "deleg")
    if problems:
        proof_ok = False
    exe = ctx.cc("harness/c11.c", "asan")

    # ---- generate placements; pass 1: disjoint calls on the implementation
    cases = corpus_cases(S) + regression_cases(ctx, exe, S) + gen_cases(ctx, exe, S) + aux_sweep(ctx, exe, S) + long_cases(ctx, exe, S) + memjoin_sweep(ctx, S) + S.math_cases(ctx.rng, ctx.tier)
    H = _hl()
    exe_hl = ctx.cc("harness/c11_hl.c", "asan")
    hcases = hl_cases(ctx, exe_hl, S, H, tolerated=H.tolerated())
    dops = [c.disjoint_op() for c in cases]
    dres = run_robust(ctx, exe, [d[0] for d in dops])
    ores = run_robust(ctx, exe, [c.op() for c in cases])
    hdops = [c.disjoint_op() for c in hcases]
    hdres = run_robust(ctx, exe_hl, [d[0] for d in hdops])
    hores = run_robust(ctx, exe_hl, [c.op() for c in hcases])

    # ---- search oracle (the property itself, implementation alone)
    oracle_bad = collections.OrderedDict()
    for c, (dop, daddr), dr, orr in list(zip(cases, dops, dres, ores)) + list(zip(hcases, hdops, hdres, hores)):
        if c.fn in S.CONTROL:
            continue
        rd, od = outputs_of(c, daddr, dr)
        ro, oo = outputs_of(c, c.addr, orr)
        why = None
        if rd is None:
            why = "the disjoint call crashed: " + dr[:120]
        elif ro is None:
            why = "the overlapped call is trapped by the sanitizer: " + orr[:160]
        elif ro != rd:
            # a placement the function itself rejects (documented exclusion) is not a failure
            if ro == "109" and c.fn in ("beltFMTEncr", "beltFMTDecr", "beltKWPWrap") and getattr(c, "forbidden", False):
                continue
            why = "returns %s, with disjoint buffers %s" % (ro, rd)
        else:
            badb = [b for b in oo if oo[b] != od.get(b)]
            if badb:
                why = "output %s differs from the disjoint-buffer result" % ",".join(badb)
        if why:
            oracle_bad.setdefault(key_of(c, None), []).append((c, why))
    state_found = state_sweep(ctx, exe)

    # ---- pass 2: correspondence model vs implementation
    keep = [i for i, c in enumerate(cases) if not getattr(c, "c_only", False)]
    lines = build_lines([cases[i] for i in keep], [dops[i] for i in keep], [dres[i] for i in keep])
    hkeep = [i for i, c in enumerate(hcases) if not getattr(c, "c_only", False)]
    hlines = build_lines([hcases[i] for i in hkeep], [hdops[i] for i in hkeep], [hdres[i] for i in hkeep], H)
    mism = []
    if os.path.exists(ctx.driver()):
        try:
            mism, c_out, l_out = ctx.diff_run(exe, lines, "placements")
            mism2, _, _ = ctx.diff_run(exe_hl, hlines, "placements_hl")
            mism += mism2
        except RuntimeError as e:
            ctx.notes.append(str(e))
            mism = [(-1, "driver", "", str(e))]
    elif proof_ok:
        mism = [(-1, "driver", "", "driver executable missing")]

    # ---- coverage of the generator
    cases = cases + hcases
    per_fn = collections.Counter(c.fn for c in cases)
    overl = sum(1 for c in cases if key_of(c, None).split(":")[1] != "none")
    br = collections.Counter(branch_of(c) for c in cases if c.fn == "memJoin")
    distinct = len(set((c.fn, tuple(sorted((k, v) for k, v in c.addr.items() if v is not None)), tuple(sorted(c.sc.items()))) for c in cases))
    ctx.cov.update({"placements": len(cases), "placements_with_overlap": overl, "per_function": dict(per_fn),
                    "memJoin_branches": {str(k): v for k, v in sorted(br.items())},
                    "aux_inside": sum(1 for c in cases if c.aux == "in"), "offsets_swept": len(set((c.fn, c.off) for c in cases)),
                    "correspondence_disagreements": len(mism), "oracle_failing_classes": len(oracle_bad),
                    "distinct_nontrivial": distinct})
    for c in cases[:3]:
        ctx.samples.append({"op": c.op()[:300]})
    ctx.samples.append({"theorem": "Bee2V.C11.memJoin_overlap",
                        "statement": "∀ m dest src1 c1 src2 c2, read (memJoin m dest src1 c1 src2 c2) dest (c1+c2) = read m src1 c1 ++ read m src2 c2 ∧ frame"})

    # ---- verdict
    ctx.cov["oracle_failing_class_names"] = list(oracle_bad)[:60]
    for key, l in list(oracle_bad.items())[:6]:
        c, why = l[0]
        ctx.violation(key, replay_text(c, "%s (%d placements of this class)" % (why, len(l))), True,
                      "%s %s: %s; addresses %s scalars %s" % (c.fn, key.split(":")[1], why, c.addr, c.sc))
    for fn, what, txt in state_found:
        ctx.violation(fn + ":state", txt, True, what)
    if not oracle_bad and not state_found:
        if not proof_ok:
            errs = problems or ctx.cov.get("lake_errors", []) or [log[-400:]]
            ctx.violation("proof", "# property C11: the theorems of Bee2V/C11/Props.lean (or the coverage of the overlap remarks) no "
                          "longer check, and the search over the implementation found no placement whose result differs from the "
                          "disjoint-buffer result.\n" + "\n".join("# " + str(x) for x in errs)[:3000] + "\n" +
                          "\n".join("# " + l for l in log.split("\n") if "error" in l)[:2000],
                          False, "theorems/coverage no longer check: " + "; ".join(str(x) for x in errs)[:600])
        elif mism:
            i, op, co, lo = mism[0]
            ctx.violation("correspondence", "# property C11: order model and implementation disagree; the overlapped-vs-disjoint search "
                          "found no failing placement\nline %s\nimpl  %s\nmodel %s\n" % (op, co, lo), False,
                          "%d lines differ, first: %s impl=%s model=%s" % (len(mism), op[:200], co[:120], lo[:120]))
    return ctx.finish(
        level="proof",
        assumptions=[
            "addresses are natural numbers (a valid C buffer does not wrap around the address space); libc memmove = snapshot-then-write, memcpy undefined on overlap",
            "the state of a high-level function is a fresh blob disjoint from every caller buffer; Start/Step functions access only their argument buffers and the state (order programs of Bee2V/C11/Prog.lean, tied by the correspondence run and, for Start/StepG, by the source-shape check + the state-resident sweep)",
            "the cryptographic core is abstract: the theorems say WHICH octets (old contents of key/iv/src/…) reach the core and where its results are stored, for every placement",
            "little-endian machine (u32From/u32To = memMove)",
            "DER: the TL prefix / TL parse enter the memory programs as values; theorems hold for all of them",
        ],
        rule="per function: every dest−src offset in [−(len+16), len+16] (quick: boundary offsets + random sample) × aux inputs outside / overlapping "
             "another buffer (start/end straddling, random) × null optional pointers; memJoin additionally all (dest,src1,src2) placements in a small arena "
             "(sampled); distinct = distinct (function, addresses, scalars)",
        distinct=distinct, exhaustive=False)


def corpus_cases(S):
    """past failures first (witnesses of docs/C11.fix-*.diff)"""
    out = []

    def mk(fn, sc, addr, fills=None, end=None):
        spec = S.SPEC[fn]
        size = {b: spec["bufs"][b][1](sc) for b in spec["bufs"]}
        e = end or max(addr[b] + size[b] for b in addr if addr[b] is not None) + 4
        ar = bytearray((i * 7 + 1) & 255 for i in range(e))
        for b, d in (fills or {}).items():
            ar[addr[b]:addr[b] + len(d)] = d
        c = S.Case(fn, spec, sc, addr, bytes(ar))
        c.off, c.aux = 0, "corpus"
        out.append(c)
    mk("beltSDEEncr", {"n": 32, "len": 16}, {"d": 0, "s": 40, "k": 80, "iv": 8})
    mk("beltSDEDecr", {"n": 32, "len": 16}, {"d": 0, "s": 40, "k": 80, "iv": 8})
    mk("derTUINTEnc", {"tag": 2, "n": 4}, {"der": 0, "val": 1}, {"val": bytes([0x11, 0x22, 0x33, 0x44])}, end=12)
    mk("derTBITDec", {"tag": 3, "count": 5, "vlen": 2, "n": 2, "L": 11}, {"val": 1, "lenp": 16, "der": 0}, {"der": bytes([3, 3, 5, 0xAB, 0xE0])})
    for off in (1, 7, 20):   # F5 (beltKWPWrap, fixed in /repo by 7d517b5)
        mk("beltKWPWrap", {"n": 32, "len": 32}, {"d": 24 + off, "s": 24, "hdr": 100, "k": 120})
    return out


def replay(ctx, path):
    hsrc = "harness/c11.c"
    for line in open(path):
        if line.startswith("harness "):
            hsrc = line.split()[1]
    exe = ctx.cc(hsrc, "asan")
    op = ref = None
    cmps, same = [], []
    for line in open(path):
        w = line.rstrip("\n").split(" ", 1)
        if not w or w[0].startswith("#") or len(w) < 2:
            continue
        if w[0] == "op":
            op = w[1]
        elif w[0] == "ref":
            ref = w[1]
        elif w[0] == "cmp":
            b, a1, a2, n = w[1].split()
            cmps.append((b, int(a1), int(a2), int(n)))
        elif w[0] == "same":
            same.append(w[1])
    if same:
        res = run_robust(ctx, exe, same)
        for s, r in zip(same, res):
            print("  %s...\n    -> %s" % (s[:100], r[:200]))
        bad = len(set(res)) != 1
        print("state-resident placement %s on the current tree" % ("DIFFERS from the separate-buffer call" if bad else "agrees"))
        return 1 if bad else 0
    if op is None or ref is None:
        print("replay file names a theorem/correspondence, not an input: nothing to execute")
        return 0
    res = run_robust(ctx, exe, [op, ref])
    print("overlapped: %s\n  -> %s" % (op[:160], res[0][:200]))
    print("disjoint  : %s\n  -> %s" % (ref[:160], res[1][:200]))
    r1, a1 = split_out(res[0])
    r2, a2 = split_out(res[1])
    bad = False
    if r1 is None or r2 is None:
        bad = True
        print("a call is trapped by the sanitizer")
    elif r1 != r2:
        bad = True
        print("return values differ: %s vs %s" % (r1, r2))
    else:
        for b, x, y, n in cmps:
            if r1.isdigit() and op.startswith("der") and b == "der":
                n = min(n, int(r1))
            if a1[x:x + n] != a2[y:y + n]:
                bad = True
                print("output %s differs: %s vs %s" % (b, a1[x:x + n].hex(), a2[y:y + n].hex()))
    print("C11 %s on the current tree" % ("VIOLATED" if bad else "holds for this placement"))
    return 1 if bad else 0


# ------------------------------------------------------------------ C19: overlap behaviour on the other configurations
# op families whose lines address machine words (8-octet words in the 64-bit stream)
C19_WORD_SPECIFIC = set(WORD_OPS)


def c19_stream():
    """(harness, driver, fn, uses_bash) for props/C19.py.  fn(ctx, exe, w) -> op lines (<= 15k): the corpus, the
    SDE/KWPUnwrap regression placements, a thinned quick generator stream and a memJoin sweep.  Abstract-core
    lines carry the values of the disjoint call executed on `exe` (the reference build of that word size)."""

    class _Shim:
        def __init__(self, ctx):
            self.rng, self.tier, self.cov = ctx.rng, "quick", {}

        def run_lines(self, *a, **k):
            return self._ctx.run_lines(*a, **k)

    def fn(ctx, exe, w):
        S = _spec()
        sh = _Shim(ctx)
        sh._ctx = ctx
        cases = corpus_cases(S) + regression_cases(sh, exe, S)
        gen = gen_cases(sh, exe, S)
        mj = memjoin_sweep(sh, S)
        rng = ctx.rng
        budget = 14500 - len(cases)
        # keep every function: thin per function
        byfn = collections.OrderedDict()
        for c in gen:
            byfn.setdefault(c.fn, []).append(c)
        per = max(40, (budget - 3000) // max(1, len(byfn)))
        for f, l in byfn.items():
            if f in WORD_OPS and w != 64:
                continue
            cases += l if len(l) <= per else [l[i] for i in sorted(rng.sample(range(len(l)), per))]
        cases += mj if len(mj) <= 3000 else [mj[i] for i in sorted(rng.sample(range(len(mj)), 3000))]
        if w == 64:
            mc = S.math_cases(rng, "quick")
            cases += mc if len(mc) <= 1200 else [mc[i] for i in sorted(rng.sample(range(len(mc)), 1200))]
        cases = cases[:14900]
        dops = [c.disjoint_op() for c in cases]
        dres = run_robust(ctx, exe, [d[0] for d in dops])
        return build_lines(cases, dops, dres)

    return "harness/c11.c", "drv_c11", fn, False

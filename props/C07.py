"""C07 — no call reads or writes outside its buffers or its declared _keep()/_deep() size.

Proof part (size logic, for all sizes, both word configurations W64/W32):
  xlate/x_c07_deep.py regenerates every *_deep/*_keep function of /repo/src as Lean
  definitions (Bee2V/Gen/C07Deep{W64,W32}.lean); xlate/x_c07_use.py regenerates, for every
  function that carves a scratch stack or a blob, the obligation
     offset of each stack-passing call + DECLARED depth of the callee <= declared depth
  (Bee2V/Gen/C07Use{W64,W32}.lean, one theorem per function, proved by `c07_use` = unfold +
  omega); Bee2V/C07/Props.lean proves the compositional step (local obligations => the
  high-water mark of a call tree <= the declared depth of its root).
  Obligations that are not provable (OPEN below: missing object contracts / monotonicity) are
  NOT emitted as theorems; they are listed in the evidence.  An obligation that WAS provable
  and no longer is (the code changed) breaks the build -> search oracle -> VIOLATION.
Tie / supporting validation:
  (1) value correspondence: every translated size function is evaluated by the compiled
      library (harness/c07.c + generated dispatch that calls the REAL functions, statics
      included) and by the Lean driver on a parameter sweep; outputs are diffed;
  (2) exact-size runs (cfg asan-dbg and w32-dbg: ASan, ASSERTs on, exact-size blobs): every
      public math-level function family gets operands in exact-size heap buffers and a stack
      / state of EXACTLY the size the real *_deep/*_keep reports; high-level functions run
      on valid inputs with exact-size caller buffers; a sanitizer report or ASSERT abort is
      a violation (the op line is the replay); the canary high-water mark must be <= deep;
  (3) valgrind memcheck (cfg rel) on a subset (quick) / all ops (thorough): use of
      uninitialised values is a violation.
Leaf accesses are SAMPLED by (2),(3), not proved.
"""
import os, sys, re, json, subprocess, time, importlib
import vcommon
from vcommon import VERIF

NPARTS = 8     # must equal x_c07_use.NPARTS (checked in translate)
PROPS = ["Bee2V/C07/Props.lean", "Bee2V/C07/PropsBlob.lean"] + ["Bee2V/Gen/C07Use%s_%d.lean" % (w, i) for w in ("W64", "W32") for i in range(NPARTS)]
CFGS = {"W64": "asan-dbg", "W32": "w32-dbg"}
# the blob layer must ALSO be checked in the shipped page-rounded configuration (no -DBEE2_VERIF): with the hook
# (BLOB_PAGE_SIZE 1) every resize reallocates and in-page growth does not exist.  `rel-plain` = shipped build;
# `asan-plain-dbg` = ASan + ASSERTs without the hook (registered here; proposed for vcommon.CONFIGS).
vcommon.CONFIGS.setdefault("asan-plain-dbg", ("Debug", "-O1 " + vcommon.SAN, []))
PLAIN_CFGS = ["rel-plain", "asan-plain-dbg"]
PROPS_BLOB = "Bee2V/C07/PropsBlob.lean"

# Obligations that are generated but not provable with what the translators extract today.
# Each entry: function -> what is missing.  They are not theorems; ASan runs at exact size
# cover them as samples.  (regex on the function key)
OPEN = [
    (r"bign(96)?ParamsVal|bignSign2?|bignIdSign2?|bignKeypair(Gen|Val)|bignPubkeyCalc",
     "users of the bignStart post-condition whose omega goals are large (many-way max): they prove with a raised heartbeat limit "
     "(36 s ... 2 min each), which is too slow for the check; kept open until split into smaller lemmas"),
    (r"g12sEcCreate", "deep callback of g12sEcCreate_keep is a function parameter; omega cannot relate it"),
    (r"ppMinPolyMod", "l = ppDeg(mod) is read from data: unconstrained in the model, the obligation needs l <= n * B_PER_W"),
    (r"ecpIsSafeGroup|ec2IsSafeGroup", "callee sizes are run-time normalised (n1' <= n + 1): needs monotonicity of priIsPrime_deep/zzMod_deep in n"),
    (r"pfok\w+", "pfokDH/MTI/PubkeyCalc call qrPower with an exponent of W_OF_B(r) words while the blob is sized for W_OF_B(l): needs the "
     "parameter-domain fact r <= l (and monotonicity of qrPower_deep in m), which the model does not have; pfokParamsVal: goal too large"),
]


def open_reason(key):
    for rx, why in OPEN:
        if re.fullmatch(rx, key):
            return why
    return None


def _translators():
    for m in ("x_c07_common", "x_c07_deep", "x_c07_use"):
        if m in sys.modules:
            importlib.reload(sys.modules[m])
    import x_c07_common as xc, x_c07_deep as xd, x_c07_use as xu
    return xc, xd, xu


def translate(ctx):
    """run both translators for both word configurations; writes the generated Lean files;
    returns per-configuration info"""
    xc, xd, xu = _translators()
    info = {}
    for w in ("W64", "W32"):
        tree = xc.Tree(w)
        if tree.errors:
            raise xc.Unhandled("clang failed on: " + "; ".join(tree.errors)[:500])
        dtext, items, dunh = xd.gen_lean(tree, w)
        ob = xu.Obligations(tree, items, dunh).analyse()
        skip = {k: open_reason(k) for k in ob.results if open_reason(k)}
        if xu.NPARTS != NPARTS:
            raise xc.Unhandled("NPARTS mismatch between props/C07.py and x_c07_use.py")
        ufiles, proved, opened = xu.gen_lean_parts(ob, w, skip)
        ctx.regen("Bee2V/Gen/C07Deep%s.lean" % w, dtext)
        for sfx, utext in ufiles.items():
            ctx.regen("Bee2V/Gen/C07Use%s%s.lean" % (w, sfx), utext)
        info[w] = {"tree": tree, "items": items, "deep_unhandled": dunh, "ob": ob, "proved": proved, "open": opened,
                   "cfiles": xd.gen_c(tree, items), "partial_tus": list(tree.partial)}
    return info


def regen(ctx):
    translate(ctx)


# ------------------------------------------------------------------------------- harness
def build_harness(ctx, cfg, cfiles, name):
    d = os.path.join(ctx.scratch, "gen-" + name)
    os.makedirs(d, exist_ok=True)
    paths = []
    for k, v in cfiles.items():
        p = os.path.join(d, k)
        open(p, "w").write(v)
        paths.append(p)
    extra = []
    if not os.path.exists(os.path.join(VERIF, "harness", "c07_hl.h")):
        extra.append("-DC07_NO_HL")
    if not os.path.exists(os.path.join(VERIF, "harness", "c07_core.h")):
        extra.append("-DC07_NO_CORE")
    if not os.path.exists(os.path.join(VERIF, "harness", "c07_trunc.h")) or "-DC07_NO_CORE" in extra or "-DC07_NO_HL" in extra:
        extra.append("-DC07_NO_TRUNC")
    return ctx.cc("harness/c07.c", cfg, extra=extra + paths, name="c07-" + name)


# ------------------------------------------------------------------------------- generators
def sweep_values(pname, rng, tier):
    n_hi = 20 if tier == "thorough" else 12
    if pname in ("n", "m", "k", "l1"):
        return list(range(1, n_hi + 1))
    if pname == "no":
        return [1, 7, 8, 9, 16, 24, 31, 32, 33, 48, 64, 65, 96, 128]
    if pname == "l":
        return [96, 128, 192, 256, 1, 7, 64, 512, 1022, 2942]
    if pname in ("f_deep", "ec_deep", "r_deep", "qr_deep", "deep"):
        return [0, 1, 100, 4096, rng.randrange(1, 100000)]
    if pname == "ec_d":
        return [2, 3]
    if pname == "base_count":
        return [0, 1, 10, 100, 1024]
    if pname in ("count", "threshold"):
        return [1, 2, 3, 16]
    if pname == "len":
        return [16, 24, 32]
    if pname == "mod":
        return [2, 10, 256, 65536]
    return [1, 2, 5, 17, 64, rng.randrange(1, 300)]


def _wofb(l, w):
    b = 64 if w == "W64" else 32
    return (l + b - 1) // b


# documented domains that the size functions themselves ASSERT
DOMAIN = {
    "priExtendPrime2_deep": lambda a, w: _wofb(a[0], w) >= a[1] and _wofb(a[0], w) + 3 >= a[1] + a[2],
    "priExtendPrime_deep": lambda a, w: _wofb(a[0], w) >= a[1] and _wofb(a[0], w) + 3 >= a[1] + 1,
}


def deep_ops(info, rng, tier, w="W64"):
    """value-correspondence sweep: every translated size function on a grid of its parameters"""
    ops = []
    per = 40 if tier == "quick" else 160
    for k, p, _ in info["items"]:
        if p.fp_params:
            continue
        names = p.params
        grids = [sweep_values(nm, rng, tier) for nm in names]
        seen = set()
        combos = []
        if not names:
            combos = [()]
        else:
            # boundary combos first (all-min, all-max), then random points of the grid
            combos.append(tuple(g[0] for g in grids))
            combos.append(tuple(g[-1] for g in grids))
            for _ in range(per * 3):
                combos.append(tuple(rng.choice(g) for g in grids))
        for c in combos:
            if c in seen or len(seen) >= per:
                continue
            if k in DOMAIN and not DOMAIN[k](c, w):
                continue
            seen.add(c)
            va = []
            if p.fn.variadic:
                # count parameter is the last fixed one; varargs = that many sizes
                cnt = min(c[-1], 4)
                c = c[:-1] + (cnt,)
                va = [rng.randrange(1, 20) for _ in range(cnt)]
            ops.append(("deep %s %s" % (k, " ".join(map(str, list(c) + va)))).rstrip())
    return ops


def math_ops(rng, tier, w):
    """exact-size runs of the math level"""
    ops = []
    N = list(range(1, 21)) if tier == "thorough" else [1, 2, 3, 4, 5, 6, 8, 9, 10, 12, 16, 17, 20]
    reps = 3 if tier == "thorough" else 1

    def sd():
        return rng.randrange(1, 1 << 30)
    for n in N:
        for _ in range(reps):
            for fn in ("zzSqr", "zzMulMod", "zzSqrMod", "zzMulWMod", "zzInvMod", "zzDivMod", "zzAlmostInvMod", "zzRed", "zzRedBarr",
                       "zzRedBarrStart", "zzRedMont", "ppSqr", "ppMulMod", "ppSqrMod", "ppInvMod", "ppDivMod", "ppIsIrred", "ppRed"):
                ops.append("run %s %s_deep 1 %d %d %d %d" % (fn, fn, n, n, rng.randrange(0, 2), sd()))
            if n >= 2:
                for fn in ("zzRedCrand", "zzRedCrandMont"):
                    ops.append("run %s %s_deep 1 %d %d %d %d" % (fn, fn, n, n, rng.randrange(0, 2), sd()))
            ops.append("run zzSqrt zzSqrt_deep 1 %d %d %d %d" % (n, n, rng.randrange(0, 4), sd()))
            if n <= 8:
                ops.append("run ppMinPolyMod ppMinPolyMod_deep 1 %d %d 0 %d" % (n, n, sd()))
            if n <= 6:
                ops.append("run priIsPrime priIsPrime_deep 1 %d %d %d %d" % (n, n, rng.randrange(0, 2), sd()))
                ops.append("run priRMTest priRMTest_deep 1 %d %d 0 %d" % (n, n, sd()))
                ops.append("run priIsSGPrime priIsSGPrime_deep 1 %d %d %d %d" % (n, n, rng.choice([0, 2]), sd()))
                ops.append("run priIsSmooth priIsSmooth_deep 1 %d %d %d %d" % (n, n, rng.choice([1, 10, 100]), sd()))
            bc = rng.choice([1, 10, 100, 500])
            ops.append("run priIsSieved priIsSieved_deep 1 %d %d %d %d" % (bc, n, bc, sd()))
        ms = sorted(set([1, 2, n, max(1, n - 1), n + 1, rng.randrange(1, 21)]))
        for m in ms:
            ops.append("run zzMul zzMul_deep 2 %d %d %d %d %d" % (n, m, n, m, sd()))
            ops.append("run ppMul ppMul_deep 2 %d %d %d %d %d" % (n, m, n, m, sd()))
            for fn in ("zzGCD", "zzLCM", "zzExGCD", "zzIsCoprime"):
                ops.append("run %s %s_deep 2 %d %d %d %d %d %d" % (fn, fn, n, m, n, m, rng.randrange(0, 4), sd()))
            ops.append("run zzJacobi zzJacobi_deep 2 %d %d %d %d %d" % (n, m, n, m, sd()))
            ops.append("run ppGCD ppGCD_deep 2 %d %d %d %d %d" % (n, m, n, m, sd()))
            ops.append("run ppExGCD ppExGCD_deep 2 %d %d %d %d %d" % (n, m, n, m, sd()))
            for kind in (0, 1, 2, 3):
                ops.append("run zzMod zzMod_deep 2 %d %d %d %d %d %d" % (n, m, n, m, kind, sd()))
                ops.append("run ppMod ppMod_deep 2 %d %d %d %d %d %d" % (n, m, n, m, kind % 2, sd()))
                if n >= m:
                    ops.append("run zzDiv zzDiv_deep 2 %d %d %d %d %d %d" % (n, m, n, m, kind, sd()))
                    ops.append("run ppDiv ppDiv_deep 2 %d %d %d %d %d %d" % (n, m, n, m, kind % 2, sd()))
            if m <= 4 and n <= 10:
                ops.append("run zzPowerMod zzPowerMod_deep 2 %d %d %d %d %d %d" % (n, m, n, m, rng.randrange(0, 2), sd()))
    wsz = 8 if w == "W64" else 4
    for no in ([1, 3, wsz, wsz + 1, 2 * wsz, 2 * wsz + 3, 3 * wsz, 32, 48, 64, 65] if tier == "quick" else list(range(1, 70)) + [96, 128]):
        for kind, nm in ((0, "zmCreatePlain"), (1, "zmCreateCrand"), (2, "zmCreateBarr"), (3, "zmCreateMont"), (4, "zmCreate"), (6, "zmMontCreate")):
            if kind == 1 and (no % wsz or no < 2 * wsz):
                continue
            ops.append("run zmRing %s_deep 1 %d %d %d %d" % (nm, no, no, kind, sd()))
    for no in (32, 48, 64):
        ops.append("run zmRing gfpCreate_deep 1 %d %d 5 %d" % (no, no, sd()))
        ops.append("run ecpBign gfpCreate_deep 1 %d %d %d %d" % (no, no, 1 if no == 32 else 0, sd()))
    for (m, k, l, l1) in ((163, 7, 6, 3), (233, 74, 0, 0), (283, 12, 7, 5), (409, 87, 0, 0), (571, 10, 5, 2), (131, 8, 3, 2), (193, 15, 0, 0)):
        ops.append("run gf2Ring gf2Create_deep 1 %d %d %d %d %d %d" % (m, m, k, l, l1, sd()))
    # GF(2^m) with m at every multiple of the word length (64..512) and +-1: the modulus needs an extra word exactly
    # when m % B_PER_W == 0 (state of exactly gf2Create_keep(m) octets; objKeep(f) == gf2Create_keep(m) for pentanomials)
    wbits = 64 if w == "W64" else 32
    for mm in range(64, 513, wbits):
        for d in (-1, 0, 1):
            m_ = mm + d
            ops.append("run gf2Ring gf2Create_deep 1 %d %d 7 2 1 %d" % (m_, m_, sd()))        # pentanomial x^m + x^7 + x^2 + x + 1
            ops.append("run gf2Ring gf2Create_deep 1 %d %d 11 6 4 %d" % (m_, m_, sd()))
            if m_ % 8:
                ops.append("run gf2Ring gf2Create_deep 1 %d %d 5 0 0 %d" % (m_, m_, sd()))    # trinomial x^m + x^5 + 1
    # DSTU fields 163/173/233/431 (a base point is generated with dstuPointGen where dstuParamsStd ships none)
    for (m_, cv) in ((163, 0), (173, 1), (233, 2), (431, 3)):
        ops.append("run ec2Dstu gf2Create_deep 1 %d %d %d %d" % (m_, m_, cv, sd()))
    return ops


def blob_ops(rng, tier):
    """op sequences on two blob handles (see Bee2V/C07/DrvBlob.lean for the tokens).  Classes: shrink then grow
    inside one 1 KiB page (stale octets), growth of a fresh blob inside its page after recycling heap chunks of
    that size class (uninitialised / freed heap), growth/shrink across page boundaries, sizes at the page
    boundaries (1024k - 8 +- 1), wipe then grow, copy into a larger / smaller / null / recycled blob, compare;
    plus random sequences."""
    ops = []
    PAGE, HDR = 1024, 8
    edge = [1, 2, 7, 8, 9, 16, 100, 500, PAGE - HDR - 1, PAGE - HDR, PAGE - HDR + 1, PAGE, PAGE + 1, 2 * PAGE - HDR - 1, 2 * PAGE - HDR,
            2 * PAGE - HDR + 1, 3000]

    def poison():
        return "p%dx%d" % (rng.choice([PAGE, 2 * PAGE, 3 * PAGE, 4 * PAGE]), rng.choice([2, 4, 8]))
    # 1. shrink -> grow inside a page / across pages
    for big in (16, 200, 600, PAGE - HDR, PAGE - HDR + 1, 1500, 2 * PAGE - HDR, 2500):
        for small in (1, 8, big // 2, max(1, big - 1)):
            for back in (big, min(big + 7, 4000), max(small + 1, big - 3)):
                ops.append("blob ca%d fa%d ra%d ra%d" % (big, rng.randrange(1, 200), small, back))
    # 2. fresh small blob in a recycled chunk, grown inside its page / to the page end / across
    for small in (1, 8, 100, 1000):
        for big in (small + 1, 600, PAGE - HDR, PAGE - HDR + 1, 2 * PAGE - HDR, 2 * PAGE, 3500):
            if big > small:
                ops.append("blob p%dx8 p%dx4 ca%d ra%d" % (PAGE, 2 * PAGE, small, big))
                ops.append("blob p%dx8 ca%d fa3 ra%d ra%d" % (PAGE, small, big, max(1, small - 1)))
    # 3. create after recycling: blobCreate must zero the whole blob
    for n in edge:
        ops.append("blob %s %s ca%d cb%d q" % (poison(), poison(), n, n))
    # 4. wipe, then grow / shrink / copy
    for n in (8, 300, PAGE - HDR, 1500):
        ops.append("blob ca%d fa7 za ra%d ra%d fa9 ra%d" % (n, n + 100, max(1, n // 2), n + 50))
        ops.append("blob ca%d fa7 cb%d fb8 zb yab q xb yab" % (n, n // 2 + 1))
    # 5. copy into larger / smaller / null / recycled destinations, source null
    for sn in (0, 1, 100, PAGE - HDR, 1200):
        for dn in (0, 5, 500, PAGE - HDR + 1, 2600):
            ops.append("blob %s cb%d fb%d ca%d fa%d yab q yba q ra%d q" % (poison(), sn, rng.randrange(300), dn, rng.randrange(300), dn + 3))
    # 6. partial writes and step-wise growth (the pattern of bake.c / util.c users)
    for step in (1, 7, 64, 300):
        seq, n = ["ca%d" % step, "fa1"], step
        for k in range(8):
            n += step
            seq += ["ra%d" % n, "wa%d,%d,%d" % (n - step, max(1, step // 2), k + 2)]
        seq += ["ra%d" % step, "ra%d" % n]
        ops.append("blob p%dx4 %s" % (PAGE, " ".join(seq)))
    # 7. random sequences
    nrand = 60 if tier == "quick" else 600
    for _ in range(nrand):
        seq = [poison()] if rng.random() < 0.7 else []
        size = {"a": 0, "b": 0}
        for _k in range(rng.randrange(4, 22)):
            h = rng.choice("ab")
            r = rng.random()
            n = rng.choice(edge) if rng.random() < 0.5 else rng.randrange(0, 3300)
            if r < 0.12:
                seq.append("c%s%d" % (h, n)); size[h] = n
            elif r < 0.50:
                if rng.random() < 0.5 and size[h]:      # stay near the current size: in-page moves
                    n = max(0, size[h] + rng.randrange(-300, 300))
                seq.append("r%s%d" % (h, n)); size[h] = n
            elif r < 0.65:
                seq.append("f%s%d" % (h, rng.randrange(1000)))
            elif r < 0.75:
                seq.append("w%s%d,%d,%d" % (h, rng.randrange(0, size[h] + 2), rng.randrange(0, 400), rng.randrange(1000)))
            elif r < 0.80:
                seq.append("z%s" % h)
            elif r < 0.90:
                o = "b" if h == "a" else "a"
                seq.append("y%s%s" % (h, o)); size[h] = size[o]
            elif r < 0.94:
                seq.append("x%s" % h); size[h] = 0
            else:
                seq.append("q")
        ops.append("blob " + " ".join(seq))
    return ops


def hl_ops():
    p = os.path.join(VERIF, "gen", "c07_hl_ops.txt")
    if not os.path.exists(p) or not os.path.exists(os.path.join(VERIF, "harness", "c07_hl.h")):
        return []
    ops = [l.strip() for l in open(p) if l.strip() and not l.startswith("#")]
    # parameter GENERATION (pfokParamsGen / stb99ParamsGen: prime search, minutes) is not a bounded-time op
    return [o for o in ops if not re.fullmatch(r"hl pfok \d+ \d+ \d+ 2", o) and not o.startswith("hl stb99")]


def core_ops():
    p = os.path.join(VERIF, "gen", "c07_core_ops.txt")
    if not os.path.exists(p) or not os.path.exists(os.path.join(VERIF, "harness", "c07_core.h")):
        return []
    return [l.strip() for l in open(p) if l.strip() and not l.startswith("#")]


def trunc_ops():
    p = os.path.join(VERIF, "gen", "c07_trunc_ops.txt")
    if not os.path.exists(p) or not os.path.exists(os.path.join(VERIF, "harness", "c07_trunc.h")):
        return []
    return [l.strip() for l in open(p) if l.strip() and not l.startswith("#")]


def corpus():
    p = os.path.join(VERIF, "gen", "c07_corpus.txt")
    if not os.path.exists(p):
        return []
    return [l.strip() for l in open(p) if l.strip() and not l.startswith("#")]


# ------------------------------------------------------------------------------- running
HWRE = re.compile(r" hw=(\d+)$")


def _run_raw(exe, lines, env=None, timeout=900):
    """-> (complete output lines, stderr, rc).  A trailing partial line (crash after printing) is dropped."""
    e = dict(os.environ)
    e.setdefault("ASAN_OPTIONS", "detect_leaks=0:abort_on_error=0:allocator_may_return_null=1")
    if env:
        e.update(env)
    p = subprocess.run([exe], input="\n".join(lines) + "\n", capture_output=True, text=True, env=e, timeout=timeout)
    out = p.stdout.split("\n")
    out = out[:-1]          # text after the last newline is either empty or a partial line
    return out, p.stderr, p.returncode


def _fam(o):
    return " ".join(o.split()[:2])


def run_cfg(ctx, exe, w, ops, label):
    """C harness (with high-water marks) vs Lean driver; returns (problems, stats).
    problems: list of (kind, op, c_out, lean_out).
    Every op gets exactly one C result: its output line, CRASH(...) (the op during which the process died;
    the stream is restarted after it) or SKIPPED (a later op of a family that already crashed: one report
    per family).  The bookkeeping is by op index, so a crash can never shift or hide another op's result."""
    problems = []
    res = [None] * len(ops)
    pending = list(range(len(ops)))
    dead = set()
    restarts = 0
    while pending:
        out, err, rc = _run_raw(exe, [ops[i] for i in pending], env={"C07_HW": "1"})
        if rc == 0 and len(out) == len(pending):
            for i, o in zip(pending, out):
                res[i] = o
            break
        k = min(len(out), len(pending) - 1)
        for i, o in zip(pending[:k], out[:k]):
            res[i] = o
        msg = err.strip().split("\n")
        summ = [l for l in msg if "ERROR" in l or "SUMMARY" in l or "Assertion" in l or "runtime error" in l][:3]
        ci = pending[k]
        res[ci] = "CRASH(rc=%d): %s" % (rc, " | ".join(summ) or msg[-1][:200])
        problems.append(("crash", ops[ci], res[ci], ""))
        dead.add(_fam(ops[ci]))
        restarts += 1
        nxt = []
        for i in pending[k + 1:]:
            if _fam(ops[i]) in dead or restarts > 60:
                res[i] = "SKIPPED"
            else:
                nxt.append(i)
        pending = nxt
    c_out = res
    lines = ["cfg " + w] + ops
    l_out, l_err, lrc = ctx.run_lines(ctx.driver(), lines)
    if lrc != 0 or len(l_out) != len(lines):
        raise RuntimeError("Lean driver failed (rc=%d) on %s: %s" % (lrc, label, l_err[-500:]))
    l_out = l_out[1:]
    stats = {"ops": len(ops), "tight": 0, "measured": 0, "crashed": sum(1 for c in c_out if c.startswith("CRASH")),
             "skipped_after_family_crash": sum(1 for c in c_out if c == "SKIPPED")}
    for op, c, l in zip(ops, c_out, l_out):
        if c.startswith("CRASH") or c == "SKIPPED":
            continue
        m = HWRE.search(c)
        hw = None
        if m:
            hw = int(m.group(1))
            c = c[:m.start()]
        if c != l:
            problems.append(("mismatch", op, c, l))
            continue
        if hw is not None:
            size = int(c.split()[0])
            stats["measured"] += 1
            if hw > size:
                problems.append(("hw", op, "%d > %d" % (hw, size), l))
            if hw == size and size:
                stats["tight"] += 1
    ctx.cov["ops_" + label] = len(ops)
    ctx.cov["ops_total"] = ctx.cov.get("ops_total", 0) + len(ops)
    return problems, stats


def valgrind_run(ctx, exe, ops, label):
    """memcheck on the release build; returns list of (op, report) for ops with errors"""
    if not ops:
        return []
    vg = vcommon.sh(["which", "valgrind"]).stdout.strip()
    if not vg:
        ctx.notes.append("valgrind not installed: uninitialised-value run skipped")
        return None
    bad = []
    log = os.path.join(ctx.scratch, "vg-%s.log" % label)
    venv = dict(os.environ, C07_SINK="1")
    p = subprocess.run([vg, "-q", "--error-limit=no", "--error-exitcode=77", "--track-origins=no", "--log-file=" + log, exe],
                       input="\n".join(ops) + "\n", capture_output=True, text=True, env=venv)
    if p.returncode == 77 or (os.path.exists(log) and os.path.getsize(log) > 0):
        rep = open(log).read()
        if "uninitialised" in rep or "Invalid" in rep or "Conditional jump" in rep or "Process terminating" in rep:
            # locate: re-run ops one by one (bounded)
            t_loc = time.time()
            for op in ops[:4000]:
                if time.time() - t_loc > 600:
                    break          # localisation is time-boxed; the whole-stream report is used instead
                q = subprocess.run([vg, "-q", "--error-exitcode=77", exe], input=op + "\n", capture_output=True, text=True, env=venv)
                if q.returncode == 77:
                    bad.append((op, q.stderr[-1500:]))
                    if len(bad) >= 5:
                        break
            if not bad:
                bad.append(("(whole stream)", rep[-1500:]))
    return bad


def _first_diff(c, l):
    cs, ls = c.replace(" | ", ";").split(";"), l.replace(" | ", ";").split(";")
    for i, (x, y) in enumerate(zip(cs, ls)):
        if x != y:
            return "step %d: implementation `%s`, specification `%s`" % (i + 1, x[:120], y[:120])
    return "lengths differ"


def replay_text(cfg, ops, what):
    return "# property C07: %s\n# replay: ./check C07 --replay <this file>  (runs the ops on the C side, cfg %s)\ncfg %s\n%s\n" % (
        what, cfg, cfg, "\n".join(ops))


def run(ctx):
    terr = None
    info = None
    try:
        info = translate(ctx)
    except Exception as e:
        terr = "%s: %s" % (type(e).__name__, e)
    if info is None:
        # fail-closed: no model. Still run the implementation-side oracle with the last generated dispatch? No dispatch
        # without the translator -> report.
        ctx.violation("translator", "# property C07: the translators could not read /repo: %s\n" % terr, False, "translator failed: " + terr)
        return ctx.finish(level="proof", assumptions=[], rule="translator failed")
    proof_ok, log = ctx.prove(["Bee2V.C07.Props", "Bee2V.C07.PropsBlob", "Bee2V.Gen.C07UseW64", "Bee2V.Gen.C07UseW32"], PROPS)
    failing_thms = []
    if not proof_ok:
        for m in re.finditer(r"error: (\S*C07Use(W\d\d)(_\d+)\.lean):(\d+)", log):
            src = open(os.path.join(vcommon.LEAN, "Bee2V", "Gen", "C07Use%s%s.lean" % (m.group(2), m.group(3)))).read().split("\n")
            ln = int(m.group(4))
            nm = None
            for i in range(min(ln, len(src)) - 1, -1, -1):
                mm = re.match(r"theorem (\S+)", src[i])
                if mm:
                    nm = mm.group(1)
                    break
            if src[ln - 1].startswith("/--"):
                for i in range(ln, len(src)):
                    mm = re.match(r"theorem (\S+)", src[i])
                    if mm:
                        nm = mm.group(1)
                        break
            if nm and (m.group(2), nm) not in failing_thms:
                failing_thms.append((m.group(2), nm))
    all_problems = {}
    stats_all = {}
    driver_ok = os.path.exists(ctx.driver()) and vcommon.sh(["lake", "build", "drv_c07"], cwd=vcommon.LEAN).returncode == 0
    exes = {}
    for w in (("W64", "W32") if True else ("W64",)):
        cfg = CFGS[w]
        exe = build_harness(ctx, cfg, info[w]["cfiles"], w)
        exes[w] = exe
        ops = corpus() + deep_ops(info[w], ctx.rng, ctx.tier, w) + math_ops(ctx.rng, ctx.tier, w) + hl_ops() + core_ops() + (trunc_ops() if (w == "W64" or ctx.tier == "thorough") else trunc_ops()[::3]) + blob_ops(ctx.rng, ctx.tier)
        if not driver_ok:
            # the generated definitions do not compile: the C side still runs (oracle), no comparison
            c_out, c_err, rc = ctx.run_lines(exe, ops, env={"C07_HW": "1"})
            probs = []
            if rc != 0:
                k = min(len(c_out), len(ops) - 1)
                probs.append(("crash", ops[k], "CRASH(rc=%d): %s" % (rc, " | ".join([l for l in c_err.split("\n") if "SUMMARY" in l or "Assertion" in l][:2])), ""))
            st = {"ops": len(ops)}
        else:
            probs, st = run_cfg(ctx, exe, w, ops, w)
        all_problems[w] = probs
        stats_all[w] = st
    # the blob layer in the SHIPPED page-rounded configuration (hook off): same op sequences, model with page 1024
    vg_plain = None
    for cfg in PLAIN_CFGS:
        try:
            exe_p = build_harness(ctx, cfg, info["W64"]["cfiles"], cfg)
        except RuntimeError as e:
            ctx.notes.append("configuration %s could not be built: %s" % (cfg, str(e)[:200]))
            ctx.violation("build:" + cfg, "# property C07: the page-rounded configuration %s could not be built\n" % cfg, False, str(e)[:300])
            continue
        bops = [o for o in corpus() if o.startswith("blob ")] + blob_ops(ctx.rng, ctx.tier)
        if cfg == "asan-plain-dbg":
            # the high-level and core families once more WITHOUT the hook (ASan + ASSERTs, page-rounded blobs):
            # anything that only goes wrong in the shipped blob configuration
            bops = bops + hl_ops() + core_ops() + (trunc_ops() if ctx.tier == "thorough" else [])
        if driver_ok:
            probs, st = run_cfg(ctx, exe_p, "PLAIN", bops, cfg)
        else:
            probs, st = [], {"ops": 0}
        all_problems["PLAIN:" + cfg] = probs
        stats_all["PLAIN:" + cfg] = st
        CFGS["PLAIN:" + cfg] = cfg
        if cfg == "rel-plain":
            # memcheck on the shipped build: printing an uninitialised octet of a blob is reported
            bops = [o for o in bops if o.startswith("blob ")]
            vg_plain = valgrind_run(ctx, exe_p, bops if ctx.tier == "thorough" else bops[:250], "plain")
            ctx.cov["valgrind_blob_ops_plain"] = len(bops) if ctx.tier == "thorough" else min(250, len(bops))
    # valgrind (release build, 64-bit words): quick = subset, thorough = everything but the slow ecp/hl sweeps twice
    vg_bad = None
    try:
        exe_rel = build_harness(ctx, "rel", info["W64"]["cfiles"], "rel")
        vops = math_ops(ctx.rng, "quick", "W64")
        hops = hl_ops() + core_ops() + trunc_ops()
        if ctx.tier == "quick":
            # stratified: every function family is represented (first, middle, last, one random op of each)
            def strat(ops, per):
                fams = {}
                for o in ops:
                    fams.setdefault(_fam(o), []).append(o)
                out = []
                for f, lst in fams.items():
                    pick = {0, len(lst) // 2, len(lst) - 1, ctx.rng.randrange(len(lst))}
                    out += [lst[i] for i in sorted(pick)][:per]
                return out
            vops = strat(vops, 4)
            hops = strat(hops, 2)
        vg_bad = valgrind_run(ctx, exe_rel, vops + hops, "rel")
        ctx.cov["valgrind_ops"] = len(vops) + len(hops)
    except RuntimeError as e:
        ctx.notes.append("valgrind run not possible: %s" % str(e)[:200])

    # ---------------------------------------------------------------- evidence
    for w in ("W64", "W32"):
        i = info[w]
        ctx.cov["size_functions_translated_" + w] = len(i["items"])
        ctx.cov["size_functions_unhandled_" + w] = sorted("%s: %s" % kv for kv in i["deep_unhandled"].items())
        ctx.cov["use_functions_proved_" + w] = i["proved"]
        ctx.cov["open_obligations_" + w] = sorted("%s: %s" % (k, open_reason(k)) for k in i["open"])
        ctx.cov["use_functions_unhandled_" + w] = sorted("%s: %s" % kv for kv in i["ob"].unhandled.items())
        ctx.cov["use_functions_without_stack_use_" + w] = len([k for k, r in i["ob"].results.items() if not r["goals"]])
        ctx.cov["tus_read_only_for_size_functions_" + w] = i["partial_tus"]
        ctx.cov["exact_size_runs_" + w] = stats_all.get(w, {})
    ctx.cov["distinct_nontrivial"] = sum(s.get("measured", 0) for s in stats_all.values())
    ctx.samples += ["run zzSqrt zzSqrt_deep 1 4 4 1 7 -> '120 ok hw=120' (stack of exactly zzSqrt_deep(4) octets fully used)",
                    {"theorem": "Bee2V.C07.hw_le_declared", "statement": "∀ t : Call, t.LocalOk → t.hw ≤ t.declared"},
                    {"theorem": "Bee2V.Gen.C07.W64.Use.use_le_deep_zmMul", "statement": "16 r_n + zzMul_deep r_n r_n ≤ zmMul_deep r_n ∧ 16 r_n + zzRed_deep r_n ≤ zmMul_deep r_n"}]

    # ---------------------------------------------------------------- verdict
    found_any = False
    for w, probs in all_problems.items():
        seen = set()
        for kind, op, c, l in probs:
            fam = op.split()[1] if len(op.split()) > 1 else op
            key = "%s:%s:%s" % (kind, fam, w)
            if key in seen:
                continue
            seen.add(key)
            if kind == "crash":
                found_any = True
                ctx.violation(key, replay_text(w, [op], "sanitizer/ASSERT abort with exact-size buffers"), True,
                              "%s (cfg %s): %s" % (op, CFGS[w], c))
            elif kind == "hw":
                found_any = True
                ctx.violation(key, replay_text(w, [op], "high-water mark above the declared depth"), True, "%s: measured %s" % (op, c))
            elif op.startswith("blob "):
                # the blob layer returns contents / sizes that differ from the model proved equal to blob.h's
                # specification: stale or uninitialised octets reach the caller (or a wrong size)
                found_any = True
                ctx.violation(key, replay_text(w, [op], "blob contents/size differ from the specification (blob.h): implementation %s ... expected %s ..." % (
                    c[:200], l[:200])), True, "%s (cfg %s): first difference at %s" % (op[:300], CFGS[w], _first_diff(c, l)))
            else:
                # model and implementation disagree on a size: search oracle = exact-size runs above (did not crash)
                ctx.violation(key, replay_text(w, [op], "size function: compiled value %s, regenerated model %s" % (c, l)), False,
                              "%s: compiled %s, model %s" % (op, c, l))
    for op, rep in (vg_plain or [])[:3]:
        found_any = True
        ctx.violation("valgrind-plain:" + (op.split()[0] if op.split() else "stream"), replay_text("RELPLAIN", [op], "valgrind memcheck report (page-rounded build)"), True,
                      "%s: %s" % (op[:300], rep[-600:]))
    if vg_bad:
        for op, rep in vg_bad[:3]:
            found_any = True
            ctx.violation("valgrind:" + (op.split()[1] if len(op.split()) > 1 else "stream"), replay_text("REL", [op], "valgrind memcheck report"), True,
                          "%s: %s" % (op, rep[-600:]))
    if not proof_ok and not found_any:
        names = ", ".join("%s.%s" % x for x in failing_thms[:8]) or "; ".join(ctx.cov.get("lake_errors", []))
        ctx.violation("proof:" + (failing_thms[0][1] if failing_thms else "build"),
                      "# property C07: obligations no longer check against the size logic regenerated from /repo, and the exact-size "
                      "sanitizer runs found no overrun.\n# failing: %s\n# first errors:\n%s\n" % (
                          names, "\n".join("# " + l for l in log.split("\n") if "error" in l)[:3000]),
                      False, "theorems no longer check: " + names[:600])
    elif not proof_ok:
        ctx.notes.append("obligations failing: " + ", ".join("%s.%s" % x for x in failing_thms[:20]))
    return ctx.finish(
        level="proof",
        assumptions=[
            "PARTIAL: only the size logic is proved (carved octets + declared depth of callees <= declared depth, per function, "
            "composed by Bee2V.C07.hw_le_declared); leaf accesses inside loops and inside the region a callee is given are sampled by "
            "ASan/ASSERT/valgrind runs with exact-size buffers, not proved",
            "obligations listed in open_obligations_* are generated but not proved (missing object post-conditions / monotonicity); functions in "
            "use_functions_unhandled_* have no obligation (translator fail-closed)",
            "translators x_c07_deep.py / x_c07_use.py are trusted for the shape of the obligations; x_c07_deep.py is validated on every run by the "
            "value correspondence of every size function with the compiled library",
            "size_t is modelled as unbounded Nat (no wrap-around; that is C08/C09)",
            "the stack/state convention: a callee may touch at most its declared depth of the pointer it receives as `stack`",
        ],
        rule="deep ops: every translated size function on boundary + random points of a per-parameter grid; run ops: every public math-level "
             "function family for n in 1..20 (quick: 13 values) x relative sizes m in {1,2,n-1,n,n+1,random} x operand shapes (normal, top word 1, "
             "all-ones, sparse) with exact-size operands and a stack of exactly *_deep octets; rings of every kind x modulus lengths around word "
             "boundaries; curves bign 128/192/256 and GF(2^m) fields; hl ops: high-level API with exact-size caller buffers; "
             "distinct_nontrivial = number of runs whose high-water mark was measured",
        distinct=ctx.cov["distinct_nontrivial"])


def replay(ctx, path):
    cfgw, ops = "W64", []
    for line in open(path):
        line = line.strip()
        if not line or line.startswith("#"):
            continue
        if line.startswith("cfg "):
            cfgw = line.split()[1]
            continue
        ops.append(line)
    if not ops:
        print("replay file names theorems, not an input: nothing to execute")
        return 0
    xc, xd, xu = _translators()
    w = "W32" if cfgw == "W32" else "W64"
    tree = xc.Tree(w)
    _, items, _ = xd.gen_lean(tree, w)
    if cfgw == "REL":
        cfg, dcfg = "rel", "W64"
    elif cfgw == "RELPLAIN":
        cfg, dcfg = "rel-plain", "PLAIN"
    elif cfgw.startswith("PLAIN"):
        cfg, dcfg = (cfgw.split(":", 1)[1] if ":" in cfgw else "rel-plain"), "PLAIN"
    else:
        cfg, dcfg = CFGS[w], w
    exe = build_harness(ctx, cfg, xd.gen_c(tree, items), "replay")
    have_drv = os.path.exists(ctx.driver())
    bad = 0
    for op in ops:
        if cfgw in ("REL", "RELPLAIN"):
            q = subprocess.run(["valgrind", "-q", "--error-exitcode=77", exe], input=op + "\n", capture_output=True, text=True,
                               env=dict(os.environ, C07_SINK="1"))
            ok = q.returncode == 0
            print("%s -> %s" % (op, q.stdout.strip()[:300] if ok else "valgrind: " + q.stderr[-400:]))
        else:
            out, err, rc = ctx.run_lines(exe, [op], env={"C07_HW": "1"})
            ok = rc == 0
            summ = [l for l in err.split("\n") if "ERROR" in l or "SUMMARY" in l or "Assertion" in l][:3]
            print("%s -> %s" % (op, out[0][:400] if ok and out else "CRASH(rc=%d) %s" % (rc, " | ".join(summ))))
            m = HWRE.search(out[0]) if ok and out else None
            if m and int(m.group(1)) > int(out[0].split()[0]):
                ok = False
            if ok and have_drv and op.split()[0] in ("blob", "deep", "run"):
                lo, _, lrc = ctx.run_lines(ctx.driver(), ["cfg " + dcfg, op])
                exp = lo[1] if lrc == 0 and len(lo) == 2 else None
                got = HWRE.sub("", out[0])
                if exp is not None and exp != got:
                    ok = False
                    print("   differs from the model: %s" % (_first_diff(got, exp) if op.startswith("blob ") else "model " + exp[:200]))
        bad += 0 if ok else 1
    print("%d of %d ops fail on the current tree" % (bad, len(ops)))
    return 1 if bad else 0
